// C35 demonstration on the real code: the rank this miner computes for ITSELF when it
// decides whether to generate (miner.Chain.TryProposeBlock: mr.GetMinerRank(node.Self.Underlying()),
// mc.IsRoundGenerator(mr, node.Self.Underlying())) must equal the rank every other miner
// computes for it when it validates the block (Chain.ValidGenerator / SetRoundRank: the node of
// the round's own miner pool). node.Self is re-bound by Chain.SetupNodes to the node object of
// the most recently received magic block, whose SetIndex is the position in THAT pool.
package chain

import (
	"sort"
	"sync"
	"testing"

	"0chain.net/chaincore/block"
	"0chain.net/chaincore/node"
	"0chain.net/chaincore/round"
	"0chain.net/core/encryption"
	"github.com/0chain/common/core/logging"
	"go.uber.org/zap"
)

func init() {
	logging.Logger = zap.NewNop()
	logging.N2n = zap.NewNop()
}

func c35sMiner(pk string) *node.Node {
	n := node.Provider()
	n.Type = node.NodeTypeMiner
	n.PublicKey = pk
	return n
}

func c35sMB(t *testing.T, num, start int64, pks []string) *block.MagicBlock {
	mb := block.NewMagicBlock()
	mb.MagicBlockNumber = num
	mb.StartingRound = start
	mb.Miners = node.NewPool(node.NodeTypeMiner)
	for _, pk := range pks {
		if err := mb.Miners.AddNode(c35sMiner(pk)); err != nil {
			t.Fatal(err)
		}
	}
	mb.Sharders = node.NewPool(node.NodeTypeSharder)
	return mb
}

func TestC35SelfRankIndependentOfNextMagicBlock(t *testing.T) {
	const seed, roundNum = int64(20090103), int64(50)
	type kp struct{ pk, id string }
	var keys []kp
	for i := 0; i < 5; i++ {
		ss := encryption.NewBLS0ChainScheme()
		if err := ss.GenerateKeys(); err != nil {
			t.Fatal(err)
		}
		n := c35sMiner(ss.GetPublicKey())
		if err := n.SetPublicKey(n.PublicKey); err != nil {
			t.Fatal(err)
		}
		keys = append(keys, kp{ss.GetPublicKey(), n.GetKey()})
	}
	sort.Slice(keys, func(i, j int) bool { return keys[i].id < keys[j].id })
	var curPKs, nextPKs []string
	for i, k := range keys {
		nextPKs = append(nextPKs, k.pk)
		if i > 0 {
			curPKs = append(curPKs, k.pk)
		}
	}
	self := keys[2]
	node.Self.Node.PublicKey = self.pk // this process is miner keys[2]

	c := &Chain{}
	c.MagicBlockStorage = round.NewRoundStartingStorage()
	c.roundsMutex = &sync.RWMutex{}
	c.blocksMutex = &sync.RWMutex{}
	c.blocks = make(map[string]*block.Block)
	c.rounds = make(map[int64]round.RoundI)

	cur := c35sMB(t, 1, 1, curPKs)
	if err := c.SetupNodes(cur); err != nil {
		t.Fatal(err)
	}
	c.SetMagicBlock(cur)

	r := round.Provider().(*round.Round)
	r.Number = roundNum
	r.SetRandomSeed(seed, cur.Miners.Size())

	others := r.GetMinerRank(c.GetMiners(roundNum).GetNode(self.id)) // ValidGenerator/SetRoundRank view
	if got := r.GetMinerRank(node.Self.Underlying()); got != others {
		t.Fatalf("before view change: own rank %d, rank others compute %d", got, others)
	}

	// the next magic block (starting at round 1000) is finalized: Chain.UpdateMagicBlock ->
	// UpdateNodesFromMagicBlock -> SetupNodes(next); round 50 still belongs to the current one
	next := c35sMB(t, 2, 1000, nextPKs)
	if err := c.SetupNodes(next); err != nil {
		t.Fatal(err)
	}
	c.SetMagicBlock(next)
	if c.GetMiners(roundNum) != cur.Miners {
		t.Fatal("setup: round must still use the current magic block")
	}
	if got := r.GetMinerRank(c.GetMiners(roundNum).GetNode(self.id)); got != others {
		t.Fatalf("validators' rank changed: %d -> %d", others, got)
	}
	if got := r.GetMinerRank(node.Self.Underlying()); got != others {
		t.Errorf("after the next magic block was received: rank this miner computes for itself = %d, "+
			"rank every validator computes for it = %d (same seed, same miner set)", got, others)
	}
}
