// C46 demonstration on the real OrderBuffer with the consumer's original step sequence
// (chaincore/chain/entity.go before /repo commit "fix: take the next block …"):
//     bItem, ok := c.blockBuffer.First(); …; c.blockBuffer.Pop()   // result discarded
// Schedule: PushToBlockProcessor adds a lower-round block between the two calls. Pop then removes
// that block, the consumer processes the one it peeked: the lower round is never handed out.
// Intended path: code/go/0chain.net/core/util/orderbuffer/zz_c46_first_pop_test.go
package orderbuffer

import "testing"

func TestC46PeekThenPopLosesLowerRound(t *testing.T) {
	rb := New(100)
	rb.Add(5, "block-5")

	// consumer, step 1
	item, ok := rb.First()
	if !ok || item.Round != 5 {
		t.Fatal("setup")
	}
	// producer (another goroutine, here at the critical point)
	rb.Add(3, "block-3")
	// consumer, step 2: the original code discarded this result
	removed, _ := rb.Pop()

	handedOut := []int64{item.Round} // what the original consumer goes on to process
	for {
		it, ok := rb.Pop()
		if !ok {
			break
		}
		handedOut = append(handedOut, it.Round)
	}
	seen3 := false
	for _, r := range handedOut {
		if r == 3 {
			seen3 = true
		}
	}
	if !seen3 {
		t.Errorf("block of round 3 was accepted by the buffer but never handed out (removed and discarded: round %d); handed out %v", removed.Round, handedOut)
	}
}
