// Code derived from github.com/linxGnu/grocksdb v1.8.1 (comparator.go) with all cgo removed.
// Pure-Go STUB for offline compilation and testing. Not a real RocksDB binding.

package grocksdb

// Comparing functor.
//
// Three-way comparison. Returns value:
//
//	< 0 iff "a" < "b",
//	== 0 iff "a" == "b",
//	> 0 iff "a" > "b"
//
// Note that Compare(a, b) also compares timestamp if timestamp size is
// non-zero. For the same user key with different timestamps, larger (newer)
// timestamp comes first.
type Comparing = func(a, b []byte) int

// ComparingWithoutTimestamp functor.
//
// Three-way comparison. Returns value:
//
//	< 0 if "a" < "b",
//	== 0 if "a" == "b",
//	> 0 if "a" > "b"
type ComparingWithoutTimestamp = func(a []byte, aHasTs bool, b []byte, bHasTs bool) int

// NewComparator creates a Comparator object which contains native c-comparator pointer.
func NewComparator(name string, compare Comparing) *Comparator {
	return &Comparator{
		name:    name,
		compare: compare,
	}
}

// NewComparatorWithTimestamp creates a Timestamp Aware Comparator object which contains native c-comparator pointer.
func NewComparatorWithTimestamp(name string, tsSize uint64, compare, compareTs Comparing, compareWithoutTs ComparingWithoutTimestamp) *Comparator {
	return &Comparator{
		name:             name,
		tsSize:           tsSize,
		compare:          compare,
		compareTs:        compareTs,
		compareWithoutTs: compareWithoutTs,
	}
}

// NativeComparator wraps c-comparator pointer.
type Comparator struct {
	name   string
	tsSize uint64

	compare          Comparing
	compareTs        Comparing
	compareWithoutTs ComparingWithoutTimestamp
}

func (c *Comparator) Compare(a, b []byte) int { return c.compare(a, b) }

func (c *Comparator) CompareTimestamp(a, b []byte) int { return c.compareTs(a, b) }

func (c *Comparator) CompareWithoutTimestamp(a []byte, aHasTs bool, b []byte, bHasTs bool) int {
	return c.compareWithoutTs(a, aHasTs, b, bHasTs)
}

func (c *Comparator) Name() string {
	return c.name
}

func (c *Comparator) TimestampSize() uint64 { return c.tsSize }

func (c *Comparator) Destroy() {
}

// Hold references to comperators.
var comperators = NewCOWList()

type comperatorWrapper struct {
	comparator *Comparator
}
