// Code derived from github.com/linxGnu/grocksdb v1.8.1 (slice.go) with all cgo removed.
// Pure-Go STUB for offline compilation and testing. Not a real RocksDB binding.

package grocksdb

// Slice is used as a wrapper for non-copy values
type Slice struct {
	data   []byte
	exists bool
	size   int
	freed  bool
}

// Slices is collection of Slice.
type Slices []*Slice

// Destroy free slices.
func (slices Slices) Destroy() {
	for _, s := range slices {
		s.Free()
	}
}

// NOTE: the real NewSlice(data *C.char, size C.size_t) cannot be expressed
// without cgo and is intentionally absent from the stub.

// newSlice wraps a Go byte slice. exists=false models a missing key.
// The bytes are copied.
func newSlice(data []byte, exists bool) *Slice {
	if !exists {
		return &Slice{}
	}
	return &Slice{data: cloneBytes(data), exists: true, size: len(data)}
}

// newIterSlice mimics the slices handed out by iterators: they are not owned
// by the caller, so Free() is a no-op on them (freed is preset to true).
func newIterSlice(data []byte) *Slice {
	return &Slice{data: cloneBytes(data), exists: true, size: len(data), freed: true}
}

// Exists returns if underlying data exists.
func (s *Slice) Exists() bool {
	return s.exists
}

// Data returns the data of the slice. If the key doesn't exist this will be a
// nil slice.
func (s *Slice) Data() []byte {
	if s.Exists() {
		return s.data
	}

	return nil
}

// Size returns the size of the data.
func (s *Slice) Size() int {
	return s.size
}

// Free frees the slice data.
func (s *Slice) Free() {
	if !s.freed {
		s.data = nil
		s.exists = false
		s.freed = true
	}
}

// PinnableSliceHandle represents a handle to a PinnableSlice.
type PinnableSliceHandle struct {
	data   []byte
	exists bool
}

func newPinnableSliceHandle(data []byte, exists bool) *PinnableSliceHandle {
	if !exists {
		return &PinnableSliceHandle{}
	}
	return &PinnableSliceHandle{data: cloneBytes(data), exists: true}
}

// Exists returns if underlying data exists.
func (h *PinnableSliceHandle) Exists() bool {
	return h.exists
}

// Data returns the data of the slice.
func (h *PinnableSliceHandle) Data() []byte {
	if h.Exists() {
		return h.data
	}

	return nil
}

// Destroy calls the destructor of the underlying pinnable slice handle.
func (h *PinnableSliceHandle) Destroy() {
	h.data = nil
	h.exists = false
}
