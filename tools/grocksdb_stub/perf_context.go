// Code derived from github.com/linxGnu/grocksdb v1.8.1 (perf_context.go) with all cgo removed.
// Pure-Go STUB for offline compilation and testing. Not a real RocksDB binding.

package grocksdb

// PerfContext a thread local context for gathering performance counter efficiently
// and transparently.
type PerfContext struct {
}

// NewPerfContext returns new perf context.
func NewPerfContext() *PerfContext {
	return &PerfContext{}
}

// Destroy perf context object.
func (ctx *PerfContext) Destroy() {
}

// Reset context.
func (ctx *PerfContext) Reset() {
}

// Report with exclusion of zero counter.
func (ctx *PerfContext) Report(excludeZeroCounters bool) (value string) {
	return
}

// Metric returns value of a metric by its id.
//
// Id is one of:
//
//	enum {
//		rocksdb_user_key_comparison_count = 0,
//		rocksdb_block_cache_hit_count,
//		rocksdb_block_read_count,
//		rocksdb_block_read_byte,
//		rocksdb_block_read_time,
//		rocksdb_block_checksum_time,
//		rocksdb_block_decompress_time,
//		rocksdb_get_read_bytes,
//		rocksdb_multiget_read_bytes,
//		rocksdb_iter_read_bytes,
//		rocksdb_internal_key_skipped_count,
//		rocksdb_internal_delete_skipped_count,
//		rocksdb_internal_recent_skipped_count,
//		rocksdb_internal_merge_count,
//		rocksdb_get_snapshot_time,
//		rocksdb_get_from_memtable_time,
//		rocksdb_get_from_memtable_count,
//		rocksdb_get_post_process_time,
//		rocksdb_get_from_output_files_time,
//		rocksdb_seek_on_memtable_time,
//		rocksdb_seek_on_memtable_count,
//		rocksdb_next_on_memtable_count,
//		rocksdb_prev_on_memtable_count,
//		rocksdb_seek_child_seek_time,
//		rocksdb_seek_child_seek_count,
//		rocksdb_seek_min_heap_time,
//		rocksdb_seek_max_heap_time,
//		rocksdb_seek_internal_seek_time,
//		rocksdb_find_next_user_entry_time,
//		rocksdb_write_wal_time,
//		rocksdb_write_memtable_time,
//		rocksdb_write_delay_time,
//		rocksdb_write_pre_and_post_process_time,
//		rocksdb_db_mutex_lock_nanos,
//		rocksdb_db_condition_wait_nanos,
//		rocksdb_merge_operator_time_nanos,
//		rocksdb_read_index_block_nanos,
//		rocksdb_read_filter_block_nanos,
//		rocksdb_new_table_block_iter_nanos,
//		rocksdb_new_table_iterator_nanos,
//		rocksdb_block_seek_nanos,
//		rocksdb_find_table_nanos,
//		rocksdb_bloom_memtable_hit_count,
//		rocksdb_bloom_memtable_miss_count,
//		rocksdb_bloom_sst_hit_count,
//		rocksdb_bloom_sst_miss_count,
//		rocksdb_key_lock_wait_time,
//		rocksdb_key_lock_wait_count,
//		rocksdb_env_new_sequential_file_nanos,
//		rocksdb_env_new_random_access_file_nanos,
//		rocksdb_env_new_writable_file_nanos,
//		rocksdb_env_reuse_writable_file_nanos,
//		rocksdb_env_new_random_rw_file_nanos,
//		rocksdb_env_new_directory_nanos,
//		rocksdb_env_file_exists_nanos,
//		rocksdb_env_get_children_nanos,
//		rocksdb_env_get_children_file_attributes_nanos,
//		rocksdb_env_delete_file_nanos,
//		rocksdb_env_create_dir_nanos,
//		rocksdb_env_create_dir_if_missing_nanos,
//		rocksdb_env_delete_dir_nanos,
//		rocksdb_env_get_file_size_nanos,
//		rocksdb_env_get_file_modification_time_nanos,
//		rocksdb_env_rename_file_nanos,
//		rocksdb_env_link_file_nanos,
//		rocksdb_env_lock_file_nanos,
//		rocksdb_env_unlock_file_nanos,
//		rocksdb_env_new_logger_nanos,
//		rocksdb_number_async_seek,
//		rocksdb_blob_cache_hit_count,
//		rocksdb_blob_read_count,
//		rocksdb_blob_read_byte,
//		rocksdb_blob_read_time,
//		rocksdb_blob_checksum_time,
//		rocksdb_blob_decompress_time,
//		rocksdb_total_metric_count = 77
//	  };
func (ctx *PerfContext) Metric(id int) uint64 {
	return 0
}
