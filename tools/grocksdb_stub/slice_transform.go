// Code derived from github.com/linxGnu/grocksdb v1.8.1 (slice_transform.go) with all cgo removed.
// Pure-Go STUB for offline compilation and testing. Not a real RocksDB binding.

package grocksdb

import (
	"unsafe"
)

// A SliceTransform can be used as a prefix extractor.
type SliceTransform interface {
	// Transform a src in domain to a dst in the range.
	Transform(src []byte) []byte

	// Determine whether this is a valid src upon the function applies.
	InDomain(src []byte) bool

	// Determine whether dst=Transform(src) for some src.
	InRange(src []byte) bool

	// Return the name of this transformation.
	Name() string

	// Destroy underlying pointer/data
	Destroy()
}

// NewFixedPrefixTransform creates a new fixed prefix transform.
func NewFixedPrefixTransform(prefixLen int) SliceTransform {
	return &nativeSliceTransform{}
}

// NewNoopPrefixTransform creates a new no-op prefix transform.
func NewNoopPrefixTransform() SliceTransform {
	return &nativeSliceTransform{}
}

// NewNativeSliceTransform creates a SliceTransform object.
func NewNativeSliceTransform(c unsafe.Pointer) SliceTransform {
	return &nativeSliceTransform{}
}

type nativeSliceTransform struct {
}

func (st *nativeSliceTransform) Transform(src []byte) []byte { return nil }

func (st *nativeSliceTransform) InDomain(src []byte) bool { return false }

func (st *nativeSliceTransform) InRange(src []byte) bool { return false }

func (st *nativeSliceTransform) Name() string { return "" }

func (st *nativeSliceTransform) Destroy() {
}

// Hold references to slice transforms.
var sliceTransforms = NewCOWList()

type sliceTransformWrapper struct {
	sliceTransform SliceTransform
}
