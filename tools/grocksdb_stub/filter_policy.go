// Code derived from github.com/linxGnu/grocksdb v1.8.1 (filter_policy.go) with all cgo removed.
// Pure-Go STUB for offline compilation and testing. Not a real RocksDB binding.

package grocksdb

// NativeFilterPolicy wraps over rocksdb filter policy.
type NativeFilterPolicy struct {
}

func (fp *NativeFilterPolicy) Destroy() {
}

// NewBloomFilter returns a new filter policy that uses a bloom filter with approximately
// the specified number of bits per key.  A good value for bits_per_key
// is 10, which yields a filter with ~1% false positive rate.
//
// Note: if you are using a custom comparator that ignores some parts
// of the keys being compared, you must not use NewBloomFilterPolicy()
// and must provide your own FilterPolicy that also ignores the
// corresponding parts of the keys.  For example, if the comparator
// ignores trailing spaces, it would be incorrect to use a
// FilterPolicy (like NewBloomFilterPolicy) that does not ignore
// trailing spaces in keys.
func NewBloomFilter(bitsPerKey float64) *NativeFilterPolicy {
	return &NativeFilterPolicy{}
}

// NewBloomFilterFull returns a new filter policy that uses a full bloom filter
// with approximately the specified number of bits per key. A good value for
// bits_per_key is 10, which yields a filter with ~1% false positive rate.
//
// Note: if you are using a custom comparator that ignores some parts
// of the keys being compared, you must not use NewBloomFilterPolicy()
// and must provide your own FilterPolicy that also ignores the
// corresponding parts of the keys.  For example, if the comparator
// ignores trailing spaces, it would be incorrect to use a
// FilterPolicy (like NewBloomFilterPolicy) that does not ignore
// trailing spaces in keys.
func NewBloomFilterFull(bitsPerKey float64) *NativeFilterPolicy {
	return &NativeFilterPolicy{}
}

// NewRibbonFilterPolicy creates a new Bloom alternative that saves about
// 30% space compared to Bloom filters, with similar query times but
// roughly 3-4x CPU time and 3x temporary space usage during construction.
//
// For example:
// if you pass in 10 for bloom_equivalent_bits_per_key, you'll get the same
// 0.95% FP rate as Bloom filter but only using about 7 bits per key.
//
// The space savings of Ribbon filters makes sense for lower (higher
// numbered; larger; longer-lived) levels of LSM, whereas the speed of
// Bloom filters make sense for highest levels of LSM.
//
// Ribbon filters are compatible with RocksDB >= 6.15.0. Earlier
// versions reading the data will behave as if no filter was used
// (degraded performance until compaction rebuilds filters). All
// built-in FilterPolicies (Bloom or Ribbon) are able to read other
// kinds of built-in filters.
//
// Note: the current Ribbon filter schema uses some extra resources
// when constructing very large filters. For example, for 100 million
// keys in a single filter (one SST file without partitioned filters),
// 3GB of temporary, untracked memory is used, vs. 1GB for Bloom.
// However, the savings in filter space from just ~60 open SST files
// makes up for the additional temporary memory use.
//
// Also consider using optimize_filters_for_memory to save filter
// memory.
func NewRibbonFilterPolicy(bloomEquivalentBitsPerKey float64) *NativeFilterPolicy {
	return &NativeFilterPolicy{}
}

// NewRibbonHybridFilterPolicy similar to Ribbon.
//
// Setting bloom_before_level allows for this design with Level and Universal
// compaction styles. For example, bloom_before_level=1 means that Bloom
// filters will be used in level 0, including flushes, and Ribbon
// filters elsewhere, including FIFO compaction and external SST files.
// For this option, memtable flushes are considered level -1 (so that
// flushes can be distinguished from intra-L0 compaction).
// bloom_before_level=0 (default) -> Generate Bloom filters only for
// flushes under Level and Universal compaction styles.
// bloom_before_level=-1 -> Always generate Ribbon filters (except in
// some extreme or exceptional cases).
func NewRibbonHybridFilterPolicy(bloomEquivalentBitsPerKey float64, bloomBeforeLevel int) *NativeFilterPolicy {
	return &NativeFilterPolicy{}
}
