// Code derived from github.com/linxGnu/grocksdb v1.8.1 (cf_metadata.go) with all cgo removed.
// Pure-Go STUB for offline compilation and testing. Not a real RocksDB binding.

package grocksdb

// ColumnFamilyMetadata contains metadata info of column family.
type ColumnFamilyMetadata struct {
	size       uint64
	fileCount  int
	name       string
	levelMetas []LevelMetadata
}

// GetSize returns size of this column family in bytes, which is equal to the sum of
// the file size of its "levels".
func (cm *ColumnFamilyMetadata) Size() uint64 {
	return cm.size
}

// FileCount returns number of files in this column family.
func (cm *ColumnFamilyMetadata) FileCount() int {
	return cm.fileCount
}

// Name returns name of this column family.
func (cm *ColumnFamilyMetadata) Name() string {
	return cm.name
}

// LevelMetas returns metadata(s) of each level.
func (cm *ColumnFamilyMetadata) LevelMetas() []LevelMetadata {
	return cm.levelMetas
}

// LevelMetadata represents the metadata that describes a level.
type LevelMetadata struct {
	level    int
	size     uint64
	sstMetas []SstMetadata
}

// Level returns level value.
func (l *LevelMetadata) Level() int {
	return l.level
}

// Size returns the sum of the file size in this level.
func (l *LevelMetadata) Size() uint64 {
	return l.size
}

// SstMetas returns metadata(s) of sst-file(s) in this level.
func (l *LevelMetadata) SstMetas() []SstMetadata {
	return l.sstMetas
}

// SstMetadata represents metadata of sst file.
type SstMetadata struct {
	relativeFileName string
	size             uint64
	smallestKey      []byte
	largestKey       []byte
}

// RelativeFileName returns relative file name.
func (s *SstMetadata) RelativeFileName() string {
	return s.relativeFileName
}

// Size returns size of this sst file.
func (s *SstMetadata) Size() uint64 {
	return s.size
}

// SmallestKey returns smallest-key in this sst file.
func (s *SstMetadata) SmallestKey() []byte {
	return s.smallestKey
}

// LargestKey returns largest-key in this sst file.
func (s *SstMetadata) LargestKey() []byte {
	return s.largestKey
}
