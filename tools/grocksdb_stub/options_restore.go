// Code derived from github.com/linxGnu/grocksdb v1.8.1 (options_restore.go) with all cgo removed.
// Pure-Go STUB for offline compilation and testing. Not a real RocksDB binding.

package grocksdb

// RestoreOptions captures the options to be used during
// restoration of a backup.
type RestoreOptions struct {
}

// NewRestoreOptions creates a RestoreOptions instance.
func NewRestoreOptions() *RestoreOptions {
	return &RestoreOptions{}
}

// SetKeepLogFiles is used to set or unset the keep_log_files option
// If true, restore won't overwrite the existing log files in wal_dir. It will
// also move all log files from archive directory to wal_dir.
// By default, this is false.
func (ro *RestoreOptions) SetKeepLogFiles(v int) {
}

// Destroy destroys this RestoreOptions instance.
func (ro *RestoreOptions) Destroy() {
}
