// Code derived from github.com/linxGnu/grocksdb v1.8.1 (backup.go) with all cgo removed.
// Pure-Go STUB for offline compilation and testing. Not a real RocksDB binding.

package grocksdb

// BackupInfo represents the information about a backup.
type BackupInfo struct {
	ID        uint32
	Timestamp int64
	Size      uint64
	NumFiles  uint32
}

// BackupEngine is a reusable handle to a RocksDB Backup, created by
// OpenBackupEngine.
type BackupEngine struct {
	db *DB
}

// OpenBackupEngine opens a backup engine with specified options.
func OpenBackupEngine(opts *Options, path string) (be *BackupEngine, err error) {
	panic("grocksdb stub: not implemented: OpenBackupEngine")
}

// OpenBackupEngineWithOpt opens a backup engine with specified options.
func OpenBackupEngineWithOpt(opts *BackupEngineOptions, env *Env) (be *BackupEngine, err error) {
	panic("grocksdb stub: not implemented: OpenBackupEngineWithOpt")
}

// CreateBackupEngine opens a backup engine from DB.
func CreateBackupEngine(db *DB) (be *BackupEngine, err error) {
	if be, err = OpenBackupEngine(db.opts, db.Name()); err == nil {
		be.db = db
	}
	return
}

// CreateBackupEngineWithPath opens a backup engine from DB and path
func CreateBackupEngineWithPath(db *DB, path string) (be *BackupEngine, err error) {
	if be, err = OpenBackupEngine(db.opts, path); err == nil {
		be.db = db
	}
	return
}

// CreateNewBackup takes a new backup from db.
func (b *BackupEngine) CreateNewBackup() (err error) {
	panic("grocksdb stub: not implemented: BackupEngine.CreateNewBackup")
}

// CreateNewBackupFlush takes a new backup from db.
// Backup would be created after flushing.
func (b *BackupEngine) CreateNewBackupFlush(flushBeforeBackup bool) (err error) {
	panic("grocksdb stub: not implemented: BackupEngine.CreateNewBackupFlush")
}

// PurgeOldBackups deletes old backups, where `numBackupsToKeep` is how many backups you’d like to keep.
func (b *BackupEngine) PurgeOldBackups(numBackupsToKeep uint32) (err error) {
	panic("grocksdb stub: not implemented: BackupEngine.PurgeOldBackups")
}

// VerifyBackup verifies a backup by its id.
func (b *BackupEngine) VerifyBackup(backupID uint32) (err error) {
	panic("grocksdb stub: not implemented: BackupEngine.VerifyBackup")
}

// GetInfo gets an object that gives information about
// the backups that have already been taken
func (b *BackupEngine) GetInfo() (infos []BackupInfo) {
	panic("grocksdb stub: not implemented: BackupEngine.GetInfo")
}

// RestoreDBFromLatestBackup restores the latest backup to dbDir. walDir
// is where the write ahead logs are restored to and usually the same as dbDir.
func (b *BackupEngine) RestoreDBFromLatestBackup(dbDir, walDir string, ro *RestoreOptions) (err error) {
	panic("grocksdb stub: not implemented: BackupEngine.RestoreDBFromLatestBackup")
}

// RestoreDBFromBackup restores the backup (identified by its id) to dbDir. walDir
// is where the write ahead logs are restored to and usually the same as dbDir.
func (b *BackupEngine) RestoreDBFromBackup(dbDir, walDir string, ro *RestoreOptions, backupID uint32) (err error) {
	panic("grocksdb stub: not implemented: BackupEngine.RestoreDBFromBackup")
}

// Close close the backup engine and cleans up state
// The backups already taken remain on storage.
func (b *BackupEngine) Close() {
}
