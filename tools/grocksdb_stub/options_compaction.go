// Code derived from github.com/linxGnu/grocksdb v1.8.1 (options_compaction.go) with all cgo removed.
// Pure-Go STUB for offline compilation and testing. Not a real RocksDB binding.

package grocksdb

// UniversalCompactionStopStyle describes a algorithm used to make a
// compaction request stop picking new files into a single compaction run.
type UniversalCompactionStopStyle uint

// Compaction stop style types.
const (
	CompactionStopStyleSimilarSize = UniversalCompactionStopStyle(0)
	CompactionStopStyleTotalSize   = UniversalCompactionStopStyle(1)
)

// BottommostLevelCompaction for level based compaction, we can configure if we want to skip/force
// bottommost level compaction.
type BottommostLevelCompaction byte

const (
	// KSkip skip bottommost level compaction
	KSkip BottommostLevelCompaction = 0
	// KIfHaveCompactionFilter only compact bottommost level if there is a compaction filter
	// This is the default option
	KIfHaveCompactionFilter BottommostLevelCompaction = 1
	// KForce always compact bottommost level
	KForce BottommostLevelCompaction = 2
	// KForceOptimized always compact bottommost level but in bottommost level avoid
	// double-compacting files created in the same compaction
	KForceOptimized BottommostLevelCompaction = 3
)

// CompactRangeOptions represent all of the available options for compact range.
type CompactRangeOptions struct {
}

// NewCompactRangeOptions creates new compact range options.
func NewCompactRangeOptions() *CompactRangeOptions {
	return &CompactRangeOptions{}
}

// Destroy deallocates the CompactionOptions object.
func (opts *CompactRangeOptions) Destroy() {
}

// SetExclusiveManualCompaction if more than one thread calls manual compaction,
// only one will actually schedule it while the other threads will simply wait
// for the scheduled manual compaction to complete. If exclusive_manual_compaction
// is set to true, the call will disable scheduling of automatic compaction jobs
// and wait for existing automatic compaction jobs to finish.
//
// Default: true
func (opts *CompactRangeOptions) SetExclusiveManualCompaction(value bool) {
}

// GetExclusiveManualCompaction returns if exclusive manual compaction is turned on.
func (opts *CompactRangeOptions) GetExclusiveManualCompaction() bool {
	return false
}

// SetBottommostLevelCompaction sets bottommost level compaction.
//
// Default: KIfHaveCompactionFilter
func (opts *CompactRangeOptions) SetBottommostLevelCompaction(value BottommostLevelCompaction) {
}

// BottommostLevelCompaction returns if bottommost level compaction feature is turned on.
func (opts *CompactRangeOptions) BottommostLevelCompaction() BottommostLevelCompaction {
	return *new(BottommostLevelCompaction)
}

// SetChangeLevel if true, compacted files will be moved to the minimum level capable
// of holding the data or given level (specified non-negative target_level).
func (opts *CompactRangeOptions) SetChangeLevel(value bool) {
}

// ChangeLevel if true, compacted files will be moved to the minimum level capable
// of holding the data or given level (specified non-negative target_level).
func (opts *CompactRangeOptions) ChangeLevel() bool {
	return false
}

// SetTargetLevel if change_level is true and target_level have non-negative value, compacted
// files will be moved to target_level.
//
// Default: -1 - dynamically
func (opts *CompactRangeOptions) SetTargetLevel(value int32) {
}

// TargetLevel returns target level.
func (opts *CompactRangeOptions) TargetLevel() int32 {
	return 0
}

// SetFullHistoryTsLow user-defined timestamp low bound, the data with older timestamp than
// low bound maybe GCed by compaction.
// Default: nullptr
func (opts *CompactRangeOptions) SetFullHistoryTsLow(ts []byte) {
}

// FIFOCompactionOptions represent all of the available options for
// FIFO compaction.
type FIFOCompactionOptions struct {
}

// NewDefaultFIFOCompactionOptions creates a default FIFOCompactionOptions object.
func NewDefaultFIFOCompactionOptions() *FIFOCompactionOptions {
	return &FIFOCompactionOptions{}
}

// SetMaxTableFilesSize sets the max table file size.
// Once the total sum of table files reaches this, we will delete the oldest
// table file
//
// Default: 1GB
func (opts *FIFOCompactionOptions) SetMaxTableFilesSize(value uint64) {
}

// GetMaxTableFilesSize gets the max table file size.
// Once the total sum of table files reaches this, we will delete the oldest
// table file
func (opts *FIFOCompactionOptions) GetMaxTableFilesSize() uint64 {
	return 0
}

// SetAllowCompaction allows compaction or not.
func (opts *FIFOCompactionOptions) SetAllowCompaction(allow bool) {
}

// AllowCompaction checks if compaction is allowed.
func (opts *FIFOCompactionOptions) AllowCompaction() bool {
	return false
}

// Destroy deallocates the FIFOCompactionOptions object.
func (opts *FIFOCompactionOptions) Destroy() {
}

// UniversalCompactionOptions represent all of the available options for
// universal compaction.
type UniversalCompactionOptions struct {
}

// NewDefaultUniversalCompactionOptions creates a default UniversalCompactionOptions
// object.
func NewDefaultUniversalCompactionOptions() *UniversalCompactionOptions {
	return &UniversalCompactionOptions{}
}

// SetSizeRatio sets the percentage flexibility while comparing file size.
// If the candidate file(s) size is 1% smaller than the next file's size,
// then include next file into this candidate set.
//
// Default: 1
func (opts *UniversalCompactionOptions) SetSizeRatio(value int) {
}

// GetSizeRatio gets the percentage flexibility while comparing file size.
// If the candidate file(s) size is 1% smaller than the next file's size,
// then include next file into this candidate set.
func (opts *UniversalCompactionOptions) GetSizeRatio() int {
	return 0
}

// SetMinMergeWidth sets the minimum number of files in a single compaction run.
//
// Default: 2
func (opts *UniversalCompactionOptions) SetMinMergeWidth(value int) {
}

// GetMinMergeWidth gets the minimum number of files in a single compaction run.
func (opts *UniversalCompactionOptions) GetMinMergeWidth() int {
	return 0
}

// SetMaxMergeWidth sets the maximum number of files in a single compaction run.
//
// Default: UINT_MAX
func (opts *UniversalCompactionOptions) SetMaxMergeWidth(value uint) {
}

// GetMaxMergeWidth gets the maximum number of files in a single compaction run.
func (opts *UniversalCompactionOptions) GetMaxMergeWidth() int {
	return 0
}

// SetMaxSizeAmplificationPercent sets the size amplification.
// It is defined as the amount (in percentage) of
// additional storage needed to store a single byte of data in the database.
// For example, a size amplification of 2% means that a database that
// contains 100 bytes of user-data may occupy upto 102 bytes of
// physical storage. By this definition, a fully compacted database has
// a size amplification of 0%. Rocksdb uses the following heuristic
// to calculate size amplification: it assumes that all files excluding
// the earliest file contribute to the size amplification.
//
// Default: 200, which means that a 100 byte database could require upto
// 300 bytes of storage.
func (opts *UniversalCompactionOptions) SetMaxSizeAmplificationPercent(value int) {
}

// GetMaxSizeAmplificationPercent gets the size amplification.
// It is defined as the amount (in percentage) of
// additional storage needed to store a single byte of data in the database.
// For example, a size amplification of 2% means that a database that
// contains 100 bytes of user-data may occupy upto 102 bytes of
// physical storage. By this definition, a fully compacted database has
// a size amplification of 0%. Rocksdb uses the following heuristic
// to calculate size amplification: it assumes that all files excluding
// the earliest file contribute to the size amplification.
func (opts *UniversalCompactionOptions) GetMaxSizeAmplificationPercent() int {
	return 0
}

// SetCompressionSizePercent sets the percentage of compression size.
//
// If this option is set to be -1, all the output files
// will follow compression type specified.
//
// If this option is not negative, we will try to make sure compressed
// size is just above this value. In normal cases, at least this percentage
// of data will be compressed.
// When we are compacting to a new file, here is the criteria whether
// it needs to be compressed: assuming here are the list of files sorted
// by generation time:
//
//	A1...An B1...Bm C1...Ct
//
// where A1 is the newest and Ct is the oldest, and we are going to compact
// B1...Bm, we calculate the total size of all the files as total_size, as
// well as  the total size of C1...Ct as total_C, the compaction output file
// will be compressed iff
//
//	total_C / total_size < this percentage
//
// Default: -1
func (opts *UniversalCompactionOptions) SetCompressionSizePercent(value int) {
}

// GetCompressionSizePercent gets the percentage of compression size.
//
// If this option is set to be -1, all the output files
// will follow compression type specified.
//
// If this option is not negative, we will try to make sure compressed
// size is just above this value. In normal cases, at least this percentage
// of data will be compressed.
// When we are compacting to a new file, here is the criteria whether
// it needs to be compressed: assuming here are the list of files sorted
// by generation time:
//
//	A1...An B1...Bm C1...Ct
//
// where A1 is the newest and Ct is the oldest, and we are going to compact
// B1...Bm, we calculate the total size of all the files as total_size, as
// well as  the total size of C1...Ct as total_C, the compaction output file
// will be compressed iff
//
//	total_C / total_size < this percentage
func (opts *UniversalCompactionOptions) GetCompressionSizePercent() int {
	return 0
}

// SetStopStyle sets the algorithm used to stop picking files into a single compaction run.
//
// Default: CompactionStopStyleTotalSize
func (opts *UniversalCompactionOptions) SetStopStyle(value UniversalCompactionStopStyle) {
}

// GetStopStyle gets the algorithm used to stop picking files into a single compaction run.
func (opts *UniversalCompactionOptions) GetStopStyle() UniversalCompactionStopStyle {
	return *new(UniversalCompactionStopStyle)
}

// Destroy deallocates the UniversalCompactionOptions object.
func (opts *UniversalCompactionOptions) Destroy() {
}
