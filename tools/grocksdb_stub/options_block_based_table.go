// Code derived from github.com/linxGnu/grocksdb v1.8.1 (options_block_based_table.go) with all cgo removed.
// Pure-Go STUB for offline compilation and testing. Not a real RocksDB binding.

package grocksdb

// IndexType specifies the index type that will be used for this table.
type IndexType uint

const (
	// KBinarySearchIndexType a space efficient index block that is optimized for
	// binary-search-based index.
	KBinarySearchIndexType IndexType = 0x00

	// KHashSearchIndexType the hash index, if enabled, will do the hash lookup when
	// `Options.prefix_extractor` is provided.
	KHashSearchIndexType IndexType = 0x01

	// KTwoLevelIndexSearchIndexType a two-level index implementation. Both levels are binary search indexes.
	KTwoLevelIndexSearchIndexType IndexType = 0x02

	// KBinarySearchWithFirstKey like KBinarySearchIndexType, but index also contains
	// first key of each block.
	//
	// This allows iterators to defer reading the block until it's actually
	// needed. May significantly reduce read amplification of short range scans.
	// Without it, iterator seek usually reads one block from each level-0 file
	// and from each level, which may be expensive.
	// Works best in combination with:
	//  - IndexShorteningMode::kNoShortening,
	//  - custom FlushBlockPolicy to cut blocks at some meaningful boundaries,
	//    e.g. when prefix changes.
	// Makes the index significantly bigger (2x or more), especially when keys
	// are long.
	//
	// IO errors are not handled correctly in this mode right now: if an error
	// happens when lazily reading a block in value(), value() returns empty
	// slice, and you need to call Valid()/status() afterwards.
	KBinarySearchWithFirstKey IndexType = 0x03
)

// DataBlockIndexType specifies index type that will be used for the data block.
type DataBlockIndexType uint

const (
	// KDataBlockIndexTypeBinarySearch is traditional block type
	KDataBlockIndexTypeBinarySearch DataBlockIndexType = 0
	// KDataBlockIndexTypeBinarySearchAndHash additional hash index
	KDataBlockIndexTypeBinarySearchAndHash DataBlockIndexType = 1
)

// BlockBasedTableOptions represents block-based table options.
type BlockBasedTableOptions struct {

	// Hold references for GC.
	cache     *Cache
	compCache *Cache

	// We keep these so we can free their memory in Destroy.

}

// NewDefaultBlockBasedTableOptions creates a default BlockBasedTableOptions object.
func NewDefaultBlockBasedTableOptions() *BlockBasedTableOptions {
	return &BlockBasedTableOptions{}
}

// Destroy deallocates the BlockBasedTableOptions object.
func (opts *BlockBasedTableOptions) Destroy() {
}

// SetChecksum sets checksum types.
//
//	enum ChecksumType : char {
//	  kNoChecksum = 0x0,
//	  kCRC32c = 0x1,
//	  kxxHash = 0x2,
//	  kxxHash64 = 0x3,
//	  kXXH3 = 0x4,  // Supported since RocksDB 6.27
//	};
func (opts *BlockBasedTableOptions) SetChecksum(csType int8) {
}

// SetCacheIndexAndFilterBlocks is indicating if we'd put index/filter blocks to the block cache.
// If not specified, each "table reader" object will pre-load index/filter
// block during table initialization.
// Default: false
func (opts *BlockBasedTableOptions) SetCacheIndexAndFilterBlocks(value bool) {
}

// SetPinL0FilterAndIndexBlocksInCache sets cache_index_and_filter_blocks.
// If is true and the below is true (hash_index_allow_collision), then
// filter and index blocks are stored in the cache, but a reference is
// held in the "table reader" object so the blocks are pinned and only
// evicted from cache when the table reader is freed.
func (opts *BlockBasedTableOptions) SetPinL0FilterAndIndexBlocksInCache(value bool) {
}

// SetBlockSize sets the approximate size of user data packed per block.
// Note that the block size specified here corresponds opts uncompressed data.
// The actual size of the unit read from disk may be smaller if
// compression is enabled. This parameter can be changed dynamically.
// Default: 4K
func (opts *BlockBasedTableOptions) SetBlockSize(blockSize int) {
}

// SetBlockSizeDeviation sets the block size deviation.
// This is used opts close a block before it reaches the configured
// 'block_size'. If the percentage of free space in the current block is less
// than this specified number and adding a new record opts the block will
// exceed the configured block size, then this block will be closed and the
// new record will be written opts the next block.
// Default: 10
func (opts *BlockBasedTableOptions) SetBlockSizeDeviation(blockSizeDeviation int) {
}

// SetBlockRestartInterval sets the number of keys between
// restart points for delta encoding of keys.
// This parameter can be changed dynamically. Most clients should
// leave this parameter alone.
// Default: 16
func (opts *BlockBasedTableOptions) SetBlockRestartInterval(blockRestartInterval int) {
}

// SetFilterPolicy sets the filter policy opts reduce disk reads.
// Many applications will benefit from passing the result of
// NewBloomFilterPolicy() here.
//
// Note: this op is `move`, fp is no longer usable.
//
// Default: nil
func (opts *BlockBasedTableOptions) SetFilterPolicy(fp *NativeFilterPolicy) {
}

// SetNoBlockCache specify whether block cache should be used or not.
// Default: false
func (opts *BlockBasedTableOptions) SetNoBlockCache(value bool) {
}

// SetBlockCache sets the control over blocks (user data is stored in a set of blocks, and
// a block is the unit of reading from disk).
//
// If set, use the specified cache for blocks.
// If nil, rocksdb will auoptsmatically create and use an 8MB internal cache.
// Default: nil
func (opts *BlockBasedTableOptions) SetBlockCache(cache *Cache) {
}

// SetWholeKeyFiltering specify if whole keys in the filter (not just prefixes)
// should be placed.
// This must generally be true for gets opts be efficient.
// Default: true
func (opts *BlockBasedTableOptions) SetWholeKeyFiltering(value bool) {
}

// SetIndexType sets the index type used for this table.
// kBinarySearch:
// A space efficient index block that is optimized for
// binary-search-based index.
//
// kHashSearch:
// The hash index, if enabled, will do the hash lookup when
// `Options.prefix_extractor` is provided.
//
// kTwoLevelIndexSearch:
// A two-level index implementation. Both levels are binary search indexes.
// Default: kBinarySearch
func (opts *BlockBasedTableOptions) SetIndexType(value IndexType) {
}

// SetDataBlockIndexType sets data block index type
func (opts *BlockBasedTableOptions) SetDataBlockIndexType(value DataBlockIndexType) {
}

// SetDataBlockHashRatio is valid only when data_block_hash_index_type is
// KDataBlockIndexTypeBinarySearchAndHash.
//
// Default value: 0.75
func (opts *BlockBasedTableOptions) SetDataBlockHashRatio(value float64) {
}

// SetIndexBlockRestartInterval same as block_restart_interval but used for the index block.
func (opts *BlockBasedTableOptions) SetIndexBlockRestartInterval(value int) {
}

// SetMetadataBlockSize sets block size for partitioned metadata. Currently applied to indexes when
// kTwoLevelIndexSearch is used and to filters when partition_filters is used.
// Note: Since in the current implementation the filters and index partitions
// are aligned, an index/filter block is created when either index or filter
// block size reaches the specified limit.
// Note: this limit is currently applied to only index blocks; a filter
// partition is cut right after an index block is cut.
func (opts *BlockBasedTableOptions) SetMetadataBlockSize(value uint64) {
}

// SetPartitionFilters use partitioned full filters for each SST file. This option is
// incompatible with block-based filters.
//
// Note: currently this option requires kTwoLevelIndexSearch to be set as
// well.
func (opts *BlockBasedTableOptions) SetPartitionFilters(value bool) {
}

// SetOptimizeFiltersForMemory to generate Bloom/Ribbon filters that minimize memory
// internal fragmentation.
//
// When false, malloc_usable_size is not available, or format_version < 5,
// filters are generated without regard to internal fragmentation when
// loaded into memory (historical behavior). When true (and
// malloc_usable_size is available and format_version >= 5), then
// filters are generated to "round up" and "round down" their sizes to
// minimize internal fragmentation when loaded into memory, assuming the
// reading DB has the same memory allocation characteristics as the
// generating DB. This option does not break forward or backward
// compatibility.
//
// While individual filters will vary in bits/key and false positive rate
// when setting is true, the implementation attempts to maintain a weighted
// average FP rate for filters consistent with this option set to false.
//
// With Jemalloc for example, this setting is expected to save about 10% of
// the memory footprint and block cache charge of filters, while increasing
// disk usage of filters by about 1-2% due to encoding efficiency losses
// with variance in bits/key.
//
// NOTE: Because some memory counted by block cache might be unmapped pages
// within internal fragmentation, this option can increase observed RSS
// memory usage. With cache_index_and_filter_blocks=true, this option makes
// the block cache better at using space it is allowed. (These issues
// should not arise with partitioned filters.)
//
// NOTE: Do not set to true if you do not trust malloc_usable_size. With
// this option, RocksDB might access an allocated memory object beyond its
// original size if malloc_usable_size says it is safe to do so. While this
// can be considered bad practice, it should not produce undefined behavior
// unless malloc_usable_size is buggy or broken.
//
// Default: false
func (opts *BlockBasedTableOptions) SetOptimizeFiltersForMemory(value bool) {
}

// SetUseDeltaEncoding uses delta encoding to compress keys in blocks.
// ReadOptions::pin_data requires this option to be disabled.
//
// Default: true
func (opts *BlockBasedTableOptions) SetUseDeltaEncoding(value bool) {
}

// SetFormatVersion set format version. We currently have five options:
// 0 -- This version is currently written out by all RocksDB's versions by
// default.  Can be read by really old RocksDB's. Doesn't support changing
// checksum (default is CRC32).
// 1 -- Can be read by RocksDB's versions since 3.0. Supports non-default
// checksum, like xxHash. It is written by RocksDB when
// BlockBasedTableOptions::checksum is something other than kCRC32c. (version
// 0 is silently upconverted)
// 2 -- Can be read by RocksDB's versions since 3.10. Changes the way we
// encode compressed blocks with LZ4, BZip2 and Zlib compression. If you
// don't plan to run RocksDB before version 3.10, you should probably use
// this.
// 3 -- Can be read by RocksDB's versions since 5.15. Changes the way we
// encode the keys in index blocks. If you don't plan to run RocksDB before
// version 5.15, you should probably use this.
// This option only affects newly written tables. When reading existing
// tables, the information about version is read from the footer.
// 4 -- Can be read by RocksDB's versions since 5.16. Changes the way we
// encode the values in index blocks. If you don't plan to run RocksDB before
// version 5.16 and you are using index_block_restart_interval > 1, you should
// probably use this as it would reduce the index size.
// This option only affects newly written tables. When reading existing
// tables, the information about version is read from the footer.
func (opts *BlockBasedTableOptions) SetFormatVersion(value int) {
}

// SetCacheIndexAndFilterBlocksWithHighPriority if cache_index_and_filter_blocks is enabled,
// cache index and filter blocks with high priority. If set to true, depending on implementation of
// block cache, index and filter blocks may be less likely to be evicted
// than data blocks.
//
// Default: true.
func (opts *BlockBasedTableOptions) SetCacheIndexAndFilterBlocksWithHighPriority(value bool) {
}

// SetPinTopLevelIndexAndFilter if cache_index_and_filter_blocks is true and the below is true, then
// the top-level index of partitioned filter and index blocks are stored in
// the cache, but a reference is held in the "table reader" object so the
// blocks are pinned and only evicted from cache when the table reader is
// freed. This is not limited to l0 in LSM tree.
//
// Default: true.
func (opts *BlockBasedTableOptions) SetPinTopLevelIndexAndFilter(value bool) {
}
