// Code derived from github.com/linxGnu/grocksdb v1.8.1 (options_write.go) with all cgo removed.
// Pure-Go STUB for offline compilation and testing. Not a real RocksDB binding.

package grocksdb

// WriteOptions represent all of the available options when writing to a
// database.
type WriteOptions struct {
	sync       bool
	disableWAL bool
}

// NewDefaultWriteOptions creates a default WriteOptions object.
func NewDefaultWriteOptions() *WriteOptions {
	return &WriteOptions{}
}

// SetSync sets the sync mode. If true, the write will be flushed
// from the operating system buffer cache before the write is considered complete.
// If this flag is true, writes will be slower.
//
// Default: false
func (opts *WriteOptions) SetSync(value bool) {
	opts.sync = value
}

// IsSync returns if sync mode is turned on.
func (opts *WriteOptions) IsSync() bool {
	return opts.sync
}

// DisableWAL sets whether WAL should be active or not.
// If true, writes will not first go to the write ahead log,
// and the write may got lost after a crash.
//
// Default: false
func (opts *WriteOptions) DisableWAL(value bool) {
	opts.disableWAL = value
}

// IsDisableWAL returns if we turned on DisableWAL flag for writing.
func (opts *WriteOptions) IsDisableWAL() bool {
	return opts.disableWAL
}

// SetIgnoreMissingColumnFamilies if true and if user is trying to write
// to column families that don't exist (they were dropped), ignore the
// write (don't return an error). If there are multiple writes in a WriteBatch,
// other writes will succeed.
//
// Default: false
func (opts *WriteOptions) SetIgnoreMissingColumnFamilies(value bool) {
}

// IgnoreMissingColumnFamilies returns the setting for ignoring missing column famlies.
//
// If true and if user is trying to write
// to column families that don't exist (they were dropped), ignore the
// write (don't return an error). If there are multiple writes in a WriteBatch,
// other writes will succeed.
func (opts *WriteOptions) IgnoreMissingColumnFamilies() bool {
	return false
}

// SetNoSlowdown if true and we need to wait or sleep for the write request, fails
// immediately with Status::Incomplete().
//
// Default: false
func (opts *WriteOptions) SetNoSlowdown(value bool) {
}

// IsNoSlowdown returns no_slow_down setting.
func (opts *WriteOptions) IsNoSlowdown() bool {
	return false
}

// SetLowPri if true, this write request is of lower priority if compaction is
// behind. In this case, no_slowdown = true, the request will be cancelled
// immediately with Status::Incomplete() returned. Otherwise, it will be
// slowed down. The slowdown value is determined by RocksDB to guarantee
// it introduces minimum impacts to high priority writes.
//
// Default: false
func (opts *WriteOptions) SetLowPri(value bool) {
}

// IsLowPri returns if the write request is of lower priority if compaction is behind.
func (opts *WriteOptions) IsLowPri() bool {
	return false
}

// SetMemtableInsertHintPerBatch if true, this writebatch will maintain the last insert positions of each
// memtable as hints in concurrent write. It can improve write performance
// in concurrent writes if keys in one writebatch are sequential. In
// non-concurrent writes (when concurrent_memtable_writes is false) this
// option will be ignored.
//
// Default: false
func (opts *WriteOptions) SetMemtableInsertHintPerBatch(value bool) {
}

// MemtableInsertHintPerBatch returns if this writebatch will maintain the last insert positions of each
// memtable as hints in concurrent write.
func (opts *WriteOptions) MemtableInsertHintPerBatch() bool {
	return false
}

// Destroy deallocates the WriteOptions object.
func (opts *WriteOptions) Destroy() {
}
