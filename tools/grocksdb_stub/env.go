// Code derived from github.com/linxGnu/grocksdb v1.8.1 (env.go) with all cgo removed.
// Pure-Go STUB for offline compilation and testing. Not a real RocksDB binding.

package grocksdb

// Env is a system call environment used by a database.
type Env struct {
}

// NewDefaultEnv creates a default environment.
func NewDefaultEnv() *Env {
	return &Env{}
}

// NewMemEnv returns a new environment that stores its data in memory and delegates
// all non-file-storage tasks to base_env.
func NewMemEnv() *Env {
	return &Env{}
}

// SetBackgroundThreads sets the number of background worker threads
// of a specific thread pool for this environment.
// 'LOW' is the default pool.
//
// Default: 1
func (env *Env) SetBackgroundThreads(n int) {
}

// GetBackgroundThreads sets the number of background worker threads
// of a specific thread pool for this environment.
// 'LOW' is the default pool.
func (env *Env) GetBackgroundThreads() int {
	return 0
}

// SetHighPriorityBackgroundThreads sets the size of the high priority
// thread pool that can be used to prevent compactions from stalling
// memtable flushes.
func (env *Env) SetHighPriorityBackgroundThreads(n int) {
}

// GetHighPriorityBackgroundThreads gets the size of the high priority
// thread pool that can be used to prevent compactions from stalling
// memtable flushes.
func (env *Env) GetHighPriorityBackgroundThreads() int {
	return 0
}

// SetLowPriorityBackgroundThreads sets the size of the low priority
// thread pool that can be used to prevent compactions from stalling
// memtable flushes.
func (env *Env) SetLowPriorityBackgroundThreads(n int) {
}

// GetLowPriorityBackgroundThreads gets the size of the low priority
// thread pool that can be used to prevent compactions from stalling
// memtable flushes.
func (env *Env) GetLowPriorityBackgroundThreads() int {
	return 0
}

// SetBottomPriorityBackgroundThreads sets the size of
// thread pool that can be used to prevent bottommost compactions
// from stalling memtable flushes.
func (env *Env) SetBottomPriorityBackgroundThreads(n int) {
}

// GetBottomPriorityBackgroundThreads gets the size of
// thread pool that can be used to prevent bottommost compactions
// from stalling memtable flushes.
func (env *Env) GetBottomPriorityBackgroundThreads() int {
	return 0
}

// JoinAllThreads wait for all threads started by StartThread to terminate.
func (env *Env) JoinAllThreads() {
}

// LowerThreadPoolIOPriority lower IO priority for threads from the specified pool.
func (env *Env) LowerThreadPoolIOPriority() {
}

// LowerHighPriorityThreadPoolIOPriority lower IO priority for high priority
// thread pool.
func (env *Env) LowerHighPriorityThreadPoolIOPriority() {
}

// LowerThreadPoolCPUPriority lower CPU priority for threads from the specified pool.
func (env *Env) LowerThreadPoolCPUPriority() {
}

// LowerHighPriorityThreadPoolCPUPriority lower CPU priority for high priority
// thread pool.
func (env *Env) LowerHighPriorityThreadPoolCPUPriority() {
}

// Destroy deallocates the Env object.
func (env *Env) Destroy() {
}
