// Code derived from github.com/linxGnu/grocksdb v1.8.1 (options_env.go) with all cgo removed.
// Pure-Go STUB for offline compilation and testing. Not a real RocksDB binding.

package grocksdb

// EnvOptions represents options for env.
type EnvOptions struct {
}

// NewDefaultEnvOptions creates a default EnvOptions object.
func NewDefaultEnvOptions() *EnvOptions {
	return &EnvOptions{}
}

// Destroy deallocates the EnvOptions object.
func (opts *EnvOptions) Destroy() {
}
