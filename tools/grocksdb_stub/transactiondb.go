// Code derived from github.com/linxGnu/grocksdb v1.8.1 (transactiondb.go) with all cgo removed.
// Pure-Go STUB for offline compilation and testing. Not a real RocksDB binding.

package grocksdb

// TransactionDB is a reusable handle to a RocksDB transactional database on disk, created by OpenTransactionDb.
type TransactionDB struct {
	name              string
	opts              *Options
	transactionDBOpts *TransactionDBOptions

	m *memDB
}

// OpenTransactionDb opens a database with the specified options.
func OpenTransactionDb(
	opts *Options,
	transactionDBOpts *TransactionDBOptions,
	name string,
) (tdb *TransactionDB, err error) {
	if transactionDBOpts == nil {
		transactionDBOpts = NewDefaultTransactionDBOptions()
	}
	m, _, err := openMem(opts, name, nil, nil, openReadWrite)
	if err != nil {
		return nil, err
	}
	return &TransactionDB{name: name, opts: opts, transactionDBOpts: transactionDBOpts, m: m}, nil
}

// OpenTransactionDbColumnFamilies opens a database with the specified column families.
func OpenTransactionDbColumnFamilies(
	opts *Options,
	transactionDBOpts *TransactionDBOptions,
	name string,
	cfNames []string,
	cfOpts []*Options,
) (db *TransactionDB, cfHandles []*ColumnFamilyHandle, err error) {
	if len(cfNames) != len(cfOpts) {
		return nil, nil, ErrColumnFamilyMustMatch
	}
	if transactionDBOpts == nil {
		transactionDBOpts = NewDefaultTransactionDBOptions()
	}
	m, cfs, err := openMem(opts, name, cfNames, cfOpts, openReadWrite)
	if err != nil {
		return nil, nil, err
	}
	for _, cf := range cfs {
		cfHandles = append(cfHandles, newCFHandle(cf))
	}
	return &TransactionDB{name: name, opts: opts, transactionDBOpts: transactionDBOpts, m: m}, cfHandles, nil
}

// NewSnapshot creates a new snapshot of the database.
func (db *TransactionDB) NewSnapshot() *Snapshot {
	return &Snapshot{snap: db.m.snapshot()}
}

// ReleaseSnapshot releases the snapshot and its resources.
func (db *TransactionDB) ReleaseSnapshot(snapshot *Snapshot) {
	if snapshot != nil {
		snapshot.snap = nil
	}
}

// TransactionBegin begins a new transaction
// with the WriteOptions and TransactionOptions given.
func (db *TransactionDB) TransactionBegin(
	opts *WriteOptions,
	transactionOpts *TransactionOptions,
	oldTransaction *Transaction,
) *Transaction {
	if transactionOpts == nil {
		transactionOpts = NewDefaultTransactionOptions()
	}
	timeout := transactionOpts.lockTimeout
	if timeout < 0 {
		timeout = db.transactionDBOpts.transactionLockTimeout
	}
	return beginTransaction(db.m, oldTransaction, opts, true, timeout, transactionOpts.setSnapshot)
}

// Get returns the data associated with the key from the database.
func (db *TransactionDB) Get(opts *ReadOptions, key []byte) (slice *Slice, err error) {
	return db.GetCF(opts, nil, key)
}

// GetPinned returns the data associated with the key from the database.
func (db *TransactionDB) GetPinned(opts *ReadOptions, key []byte) (handle *PinnableSliceHandle, err error) {
	return db.GetPinnedWithCF(opts, nil, key)
}

// GetCF returns the data associated with the key from the database, from column family.
func (db *TransactionDB) GetCF(opts *ReadOptions, cf *ColumnFamilyHandle, key []byte) (slice *Slice, err error) {
	v, ok, err := db.m.get(opts, cfID(cf), key)
	if err != nil {
		return nil, err
	}
	return newSlice(v, ok), nil
}

// GetPinnedWithCF returns the data associated with the key from the database.
func (db *TransactionDB) GetPinnedWithCF(opts *ReadOptions, cf *ColumnFamilyHandle, key []byte) (handle *PinnableSliceHandle, err error) {
	v, ok, err := db.m.get(opts, cfID(cf), key)
	if err != nil {
		return nil, err
	}
	return newPinnableSliceHandle(v, ok), nil
}

// MultiGet returns the data associated with the passed keys from the database.
func (db *TransactionDB) MultiGet(opts *ReadOptions, keys ...[]byte) (Slices, error) {
	return db.MultiGetWithCF(opts, nil, keys...)
}

// MultiGetWithCF returns the data associated with the passed keys from the database.
func (db *TransactionDB) MultiGetWithCF(opts *ReadOptions, cf *ColumnFamilyHandle, keys ...[]byte) (Slices, error) {
	return multiGet(db.m, opts, func(int) *ColumnFamilyHandle { return cf }, keys)
}

// Put writes data associated with a key to the database.
func (db *TransactionDB) Put(opts *WriteOptions, key, value []byte) (err error) {
	return db.write(opts, []wbOp{{t: WriteBatchValueRecord, key: key, value: value, isData: true}})
}

// PutCF writes data associated with a key to the database on specific column family.
func (db *TransactionDB) PutCF(opts *WriteOptions, cf *ColumnFamilyHandle, key, value []byte) (err error) {
	return db.write(opts, []wbOp{{t: WriteBatchCFValueRecord, cf: cfID(cf), key: key, value: value, isData: true}})
}

// Merge writes data associated with a key to the database.
func (db *TransactionDB) Merge(opts *WriteOptions, key, value []byte) (err error) {
	return db.write(opts, []wbOp{{t: WriteBatchMergeRecord, key: key, value: value, isData: true}})
}

// MergeCF writes data associated with a key to the database on specific column family.
func (db *TransactionDB) MergeCF(opts *WriteOptions, cf *ColumnFamilyHandle, key, value []byte) (err error) {
	return db.write(opts, []wbOp{{t: WriteBatchCFMergeRecord, cf: cfID(cf), key: key, value: value, isData: true}})
}

// Delete removes the data associated with the key from the database.
func (db *TransactionDB) Delete(opts *WriteOptions, key []byte) (err error) {
	return db.write(opts, []wbOp{{t: WriteBatchDeletionRecord, key: key, isData: true}})
}

// DeleteCF removes the data associated with the key from the database on specific column family.
func (db *TransactionDB) DeleteCF(opts *WriteOptions, cf *ColumnFamilyHandle, key []byte) (err error) {
	return db.write(opts, []wbOp{{t: WriteBatchCFDeletionRecord, cf: cfID(cf), key: key, isData: true}})
}

// NewCheckpoint creates a new Checkpoint for this db.
func (db *TransactionDB) NewCheckpoint() (cp *Checkpoint, err error) {
	panic("grocksdb stub: not implemented: TransactionDB.NewCheckpoint")
}

// CreateColumnFamily create a new column family.
func (db *TransactionDB) CreateColumnFamily(opts *Options, name string) (handle *ColumnFamilyHandle, err error) {
	cf, err := db.m.createCF(opts, name)
	if err != nil {
		return nil, err
	}
	return newCFHandle(cf), nil
}

// Write writes a WriteBatch to the database.
func (db *TransactionDB) Write(opts *WriteOptions, batch *WriteBatch) (err error) {
	return db.write(opts, batch.ops)
}

// Flush triggers a manual flush for the database.
func (db *TransactionDB) Flush(opts *FlushOptions) (err error) {
	return nil
}

// FlushCF triggers a manual flush for the database on specific column family.
func (db *TransactionDB) FlushCF(cf *ColumnFamilyHandle, opts *FlushOptions) (err error) {
	return nil
}

// FlushCFs triggers a manual flush for the database on specific column families.
func (db *TransactionDB) FlushCFs(cfs []*ColumnFamilyHandle, opts *FlushOptions) (err error) {
	return nil
}

// FlushWAL flushes the WAL memory buffer to the file. If sync is true, it calls SyncWAL
// afterwards.
func (db *TransactionDB) FlushWAL(sync bool) (err error) {
	return nil
}

// NewIterator returns an Iterator over the the database that uses the
// ReadOptions given.
func (db *TransactionDB) NewIterator(opts *ReadOptions) *Iterator {
	return db.NewIteratorCF(opts, nil)
}

// NewIteratorCF returns an Iterator over the the database and column family
// that uses the ReadOptions given.
func (db *TransactionDB) NewIteratorCF(opts *ReadOptions, cf *ColumnFamilyHandle) *Iterator {
	items, cmp := db.m.sortedPairs(opts, cfID(cf))
	return newMemIterator(items, cmp)
}

// Close closes the database.
func (db *TransactionDB) Close() {
	if db.m != nil {
		db.m.close()
	}
}
