// Code derived from github.com/linxGnu/grocksdb v1.8.1 (cf_handle.go) with all cgo removed.
// Pure-Go STUB for offline compilation and testing. Not a real RocksDB binding.

package grocksdb

// ColumnFamilyHandle represents a handle to a ColumnFamily.
type ColumnFamilyHandle struct {
	id   uint32
	name string
}

func newCFHandle(cf *memCF) *ColumnFamilyHandle {
	return &ColumnFamilyHandle{id: cf.id, name: cf.name}
}

// ID returned id of Column family.
func (h *ColumnFamilyHandle) ID() uint32 {
	return h.id
}

// Name returned name of Column family.
func (h *ColumnFamilyHandle) Name() string {
	return h.name
}

// Destroy calls the destructor of the underlying column family handle.
func (h *ColumnFamilyHandle) Destroy() {
}

// ColumnFamilyHandles represents collection of multiple column family handle.
type ColumnFamilyHandles []*ColumnFamilyHandle
