// Code derived from github.com/linxGnu/grocksdb v1.8.1 (dbpath.go) with all cgo removed.
// Pure-Go STUB for offline compilation and testing. Not a real RocksDB binding.

package grocksdb

// DBPath represents options for a dbpath.
type DBPath struct {
}

// NewDBPath creates a DBPath object
// with the given path and target_size.
func NewDBPath(path string, targetSize uint64) (dbPath *DBPath) {
	return
}

// Destroy deallocates the DBPath object.
func (dbpath *DBPath) Destroy() {
}

// NewDBPathsFromData creates a slice with allocated DBPath objects
// from paths and target_sizes.
func NewDBPathsFromData(paths []string, targetSizes []uint64) []*DBPath {
	dbpaths := make([]*DBPath, len(paths))
	for i, path := range paths {
		targetSize := targetSizes[i]
		dbpaths[i] = NewDBPath(path, targetSize)
	}

	return dbpaths
}

// DestroyDBPaths deallocates all DBPath objects in dbpaths.
func DestroyDBPaths(dbpaths []*DBPath) {
	for _, dbpath := range dbpaths {
		dbpath.Destroy()
	}
}
