// Code derived from github.com/linxGnu/grocksdb v1.8.1 (merge_operator.go) with all cgo removed.
// Pure-Go STUB for offline compilation and testing. Not a real RocksDB binding.

package grocksdb

import (
	"unsafe"
)

// A MergeOperator specifies the SEMANTICS of a merge, which only
// client knows. It could be numeric addition, list append, string
// concatenation, edit data structure, ... , anything.
// The library, on the other hand, is concerned with the exercise of this
// interface, at the right time (during get, iteration, compaction...)
//
// Please read the RocksDB documentation <http://rocksdb.org/> for
// more details and example implementations.
type MergeOperator interface {
	// Gives the client a way to express the read -> modify -> write semantics
	// key:           The key that's associated with this merge operation.
	//                Client could multiplex the merge operator based on it
	//                if the key space is partitioned and different subspaces
	//                refer to different types of data which have different
	//                merge operation semantics.
	// existingValue: null indicates that the key does not exist before this op.
	// operands:      the sequence of merge operations to apply, front() first.
	//
	// Return true on success.
	//
	// All values passed in will be client-specific values. So if this method
	// returns false, it is because client specified bad data or there was
	// internal corruption. This will be treated as an error by the library.
	FullMerge(key, existingValue []byte, operands [][]byte) ([]byte, bool)

	// The name of the MergeOperator.
	Name() string
}

// PartialMerger implements PartialMerge(key, leftOperand, rightOperand []byte) ([]byte, err)
// When a MergeOperator implements this interface, PartialMerge will be called in addition
// to FullMerge for compactions across levels
type PartialMerger interface {
	// This function performs merge(left_op, right_op)
	// when both the operands are themselves merge operation types
	// that you would have passed to a db.Merge() call in the same order
	// (i.e.: db.Merge(key,left_op), followed by db.Merge(key,right_op)).
	//
	// PartialMerge should combine them into a single merge operation.
	// The return value should be constructed such that a call to
	// db.Merge(key, new_value) would yield the same result as a call
	// to db.Merge(key, left_op) followed by db.Merge(key, right_op).
	//
	// If it is impossible or infeasible to combine the two operations, return false.
	// The library will internally keep track of the operations, and apply them in the
	// correct order once a base-value (a Put/Delete/End-of-Database) is seen.
	PartialMerge(key, leftOperand, rightOperand []byte) ([]byte, bool)
}

// MultiMerger implements PartialMergeMulti(key []byte, operands [][]byte) ([]byte, err)
// When a MergeOperator implements this interface, PartialMergeMulti will be called in addition
// to FullMerge for compactions across levels
type MultiMerger interface {
	// PartialMerge performs merge on multiple operands
	// when all of the operands are themselves merge operation types
	// that you would have passed to a db.Merge() call in the same order
	// (i.e.: db.Merge(key,operand[0]), followed by db.Merge(key,operand[1]),
	// ... db.Merge(key, operand[n])).
	//
	// PartialMerge should combine them into a single merge operation.
	// The return value should be constructed such that a call to
	// db.Merge(key, new_value) would yield the same result as a call
	// to db.Merge(key,operand[0]), followed by db.Merge(key,operand[1]),
	// ... db.Merge(key, operand[n])).
	//
	// If it is impossible or infeasible to combine the operations, return false.
	// The library will internally keep track of the operations, and apply them in the
	// correct order once a base-value (a Put/Delete/End-of-Database) is seen.
	PartialMergeMulti(key []byte, operands [][]byte) ([]byte, bool)

	// Destroy pointer/underlying data
	Destroy()
}

// NewNativeMergeOperator creates a MergeOperator object.
func NewNativeMergeOperator(c unsafe.Pointer) MergeOperator {
	return &nativeMergeOperator{}
}

type nativeMergeOperator struct {
}

func (mo *nativeMergeOperator) FullMerge(key, existingValue []byte, operands [][]byte) ([]byte, bool) {
	return nil, false
}

func (mo *nativeMergeOperator) PartialMerge(key, leftOperand, rightOperand []byte) ([]byte, bool) {
	return nil, false
}

func (mo *nativeMergeOperator) Name() string { return "" }

func (mo *nativeMergeOperator) Destroy() {
}

// Hold references to merge operators.
var mergeOperators = NewCOWList()

type mergeOperatorWrapper struct {
	mergeOperator MergeOperator
}
