// Code derived from github.com/linxGnu/grocksdb v1.8.1 (options_ingest.go) with all cgo removed.
// Pure-Go STUB for offline compilation and testing. Not a real RocksDB binding.

package grocksdb

// IngestExternalFileOptions represents available options when ingesting external files.
type IngestExternalFileOptions struct {
}

// NewDefaultIngestExternalFileOptions creates a default IngestExternalFileOptions object.
func NewDefaultIngestExternalFileOptions() *IngestExternalFileOptions {
	return &IngestExternalFileOptions{}
}

// SetMoveFiles specifies if it should move the files instead of copying them.
// Default to false.
func (opts *IngestExternalFileOptions) SetMoveFiles(flag bool) {
}

// SetSnapshotConsistency if specifies the consistency.
// If set to false, an ingested file key could appear in existing snapshots that were created before the
// file was ingested.
// Default to true.
func (opts *IngestExternalFileOptions) SetSnapshotConsistency(flag bool) {
}

// SetAllowGlobalSeqNo sets allow_global_seqno. If set to false,IngestExternalFile() will fail if the file key
// range overlaps with existing keys or tombstones in the DB.
// Default true.
func (opts *IngestExternalFileOptions) SetAllowGlobalSeqNo(flag bool) {
}

// SetAllowBlockingFlush sets allow_blocking_flush. If set to false and the file key range overlaps with
// the memtable key range (memtable flush required), IngestExternalFile will fail.
// Default to true.
func (opts *IngestExternalFileOptions) SetAllowBlockingFlush(flag bool) {
}

// SetIngestionBehind sets ingest_behind
// Set to true if you would like duplicate keys in the file being ingested
// to be skipped rather than overwriting existing data under that key.
// Usecase: back-fill of some historical data in the database without
// over-writing existing newer version of data.
// This option could only be used if the DB has been running
// with allow_ingest_behind=true since the dawn of time.
// All files will be ingested at the bottommost level with seqno=0.
func (opts *IngestExternalFileOptions) SetIngestionBehind(flag bool) {
}

// SetFailIfNotBottommostLevel sets to TRUE if user wants file to be ingested to the bottommost level. An
// error of Status::TryAgain() will be returned if a file cannot fit in the bottommost level when calling
// DB::IngestExternalFile()/DB::IngestExternalFiles().
//
// The user should clear the bottommost level in the overlapping range before re-attempt.
// Ingest_behind takes precedence over fail_if_not_bottommost_level.
func (opts *IngestExternalFileOptions) SetFailIfNotBottommostLevel(flag bool) {
}

// Destroy deallocates the IngestExternalFileOptions object.
func (opts *IngestExternalFileOptions) Destroy() {
}
