// Code derived from github.com/linxGnu/grocksdb v1.8.1 (options_flush.go) with all cgo removed.
// Pure-Go STUB for offline compilation and testing. Not a real RocksDB binding.

package grocksdb

// FlushOptions represent all of the available options when manual flushing the
// database.
type FlushOptions struct {
}

// NewDefaultFlushOptions creates a default FlushOptions object.
func NewDefaultFlushOptions() *FlushOptions {
	return &FlushOptions{}
}

// SetWait specify if the flush will wait until the flush is done.
//
// Default: true
func (opts *FlushOptions) SetWait(value bool) {
}

// Destroy deallocates the FlushOptions object.
func (opts *FlushOptions) Destroy() {
}
