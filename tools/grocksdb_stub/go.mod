module github.com/linxGnu/grocksdb

go 1.21
