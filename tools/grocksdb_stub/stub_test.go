package grocksdb

import (
	"bytes"
	"fmt"
	"os"
	"path/filepath"
	"reflect"
	"strconv"
	"testing"
	"time"
)

func mustNil(t *testing.T, err error) {
	t.Helper()
	if err != nil {
		t.Fatal(err)
	}
}

func TestDBBasic(t *testing.T) {
	dir := filepath.Join(t.TempDir(), "db")
	opts := NewDefaultOptions()
	if _, err := OpenDb(opts, dir); err == nil {
		t.Fatal("expected create_if_missing error")
	}
	opts.SetCreateIfMissing(true)
	db, err := OpenDb(opts, dir)
	mustNil(t, err)
	if _, err := OpenDb(opts, dir); err == nil {
		t.Fatal("expected lock error on double open")
	}
	ro, wo := NewDefaultReadOptions(), NewDefaultWriteOptions()

	s, err := db.Get(ro, []byte("missing"))
	mustNil(t, err)
	if s.Exists() || s.Data() != nil || s.Size() != 0 {
		t.Fatal("missing key must yield an empty, non-existing slice and a nil error")
	}
	s.Free()

	mustNil(t, db.Put(wo, []byte("a"), []byte("1")))
	mustNil(t, db.Put(wo, []byte("c"), []byte("3")))
	mustNil(t, db.Put(wo, []byte("b"), []byte("2")))
	mustNil(t, db.Put(wo, []byte("e"), []byte{}))
	s, _ = db.Get(ro, []byte("e"))
	if !s.Exists() || len(s.Data()) != 0 {
		t.Fatal("empty value must exist")
	}
	s, _ = db.Get(ro, []byte("b"))
	if string(s.Data()) != "2" || s.Size() != 1 {
		t.Fatal("bad get")
	}
	s.Free()
	if s.Data() != nil {
		t.Fatal("freed slice must have nil data")
	}

	it := db.NewIterator(ro)
	if it.Valid() {
		t.Fatal("fresh iterator must not be valid")
	}
	var keys string
	for it.SeekToFirst(); it.Valid(); it.Next() {
		k, v := it.Key(), it.Value()
		keys += string(k.Data())
		k.Free()
		v.Free()
		if k.Data() == nil {
			t.Fatal("iterator slices are not owned: Free must be a no-op")
		}
	}
	if keys != "abce" {
		t.Fatal(keys)
	}
	keys = ""
	for it.SeekToLast(); it.Valid(); it.Prev() {
		keys += string(it.Key().Data())
	}
	if keys != "ecba" {
		t.Fatal(keys)
	}
	it.Seek([]byte("bb"))
	if string(it.Key().Data()) != "c" {
		t.Fatal("seek")
	}
	it.SeekForPrev([]byte("bb"))
	if string(it.Key().Data()) != "b" {
		t.Fatal("seekforprev")
	}
	it.Close()

	// iterator is a snapshot
	it = db.NewIterator(ro)
	mustNil(t, db.Delete(wo, []byte("a")))
	it.SeekToFirst()
	if string(it.Key().Data()) != "a" {
		t.Fatal("iterator must see a consistent snapshot")
	}
	it.Close()

	// write batch
	wb := NewWriteBatch()
	wb.Put([]byte("x"), []byte("24"))
	wb.Delete([]byte("b"))
	wb.PutLogData([]byte("blob"))
	if wb.Count() != 2 {
		t.Fatal("count")
	}
	wb2 := WriteBatchFrom(wb.Data())
	if wb2.Count() != 2 || !bytes.Equal(wb2.Data(), wb.Data()) {
		t.Fatal("write batch round trip")
	}
	n := 0
	for bi := wb.NewIterator(); bi.Next(); n++ {
	}
	if n != 3 {
		t.Fatal("batch iterator", n)
	}
	mustNil(t, db.Write(wo, wb2))
	wb.Destroy()
	if s, _ := db.Get(ro, []byte("b")); s.Exists() {
		t.Fatal("b should be gone")
	}
	if got := db.GetProperty("rocksdb.estimate-num-keys"); got != "3" {
		t.Fatal(got)
	}

	// snapshot
	snap := db.NewSnapshot()
	sro := NewDefaultReadOptions()
	sro.SetSnapshot(snap)
	mustNil(t, db.Put(wo, []byte("x"), []byte("25")))
	if s, _ := db.Get(sro, []byte("x")); string(s.Data()) != "24" {
		t.Fatal("snapshot read")
	}
	db.ReleaseSnapshot(snap)

	// close / reopen keeps the data; wiping the directory resets it
	db.Close()
	db, err = OpenDb(opts, dir)
	mustNil(t, err)
	if s, _ := db.Get(ro, []byte("x")); string(s.Data()) != "25" {
		t.Fatal("reopen lost data")
	}
	db.Close()
	mustNil(t, os.RemoveAll(dir))
	db, err = OpenDb(opts, dir)
	mustNil(t, err)
	if s, _ := db.Get(ro, []byte("x")); s.Exists() {
		t.Fatal("wiped directory must give an empty db")
	}
	db.Close()
	mustNil(t, DestroyDb(dir, opts))
}

func TestColumnFamilies(t *testing.T) {
	dir := t.TempDir()
	opts := NewDefaultOptions()
	opts.SetCreateIfMissing(true)
	opts.SetCreateIfMissingColumnFamilies(true)
	opts.SetPrefixExtractor(NewFixedPrefixTransform(6))
	db, cfh, err := OpenDbColumnFamilies(opts, dir, []string{"default", "dead"}, []*Options{opts, opts})
	mustNil(t, err)
	ro, wo := NewDefaultReadOptions(), NewDefaultWriteOptions()
	mustNil(t, db.PutCF(wo, cfh[1], []byte("k"), []byte("dead")))
	mustNil(t, db.Put(wo, []byte("k"), []byte("def")))
	if s, _ := db.GetCF(ro, cfh[1], []byte("k")); string(s.Data()) != "dead" {
		t.Fatal("cf get")
	}
	if s, _ := db.GetCF(ro, cfh[0], []byte("k")); string(s.Data()) != "def" {
		t.Fatal("default cf get")
	}
	wb := NewWriteBatch()
	wb.DeleteCF(cfh[1], []byte("k"))
	mustNil(t, db.Write(wo, wb))
	it := db.NewIteratorCF(ro, cfh[1])
	it.SeekToFirst()
	if it.Valid() {
		t.Fatal("cf should be empty")
	}
	it.Close()
	if db.GetPropertyCF("rocksdb.estimate-num-keys", cfh[0]) != "1" {
		t.Fatal("prop")
	}
	names, err := ListColumnFamilies(opts, dir)
	mustNil(t, err)
	if fmt.Sprint(names) != "[default dead]" {
		t.Fatal(names)
	}
	mustNil(t, db.Flush(NewDefaultFlushOptions()))
	cfh[0].Destroy()
	cfh[1].Destroy()
	db.Close()
}

type counterMerge struct{}

func (counterMerge) Name() string { return "counter" }
func (counterMerge) FullMerge(key, existing []byte, operands [][]byte) ([]byte, bool) {
	n := 0
	if existing != nil {
		n, _ = strconv.Atoi(string(existing))
	}
	for _, o := range operands {
		d, _ := strconv.Atoi(string(o))
		n += d
	}
	return []byte(strconv.Itoa(n)), true
}

func TestTransactionDB(t *testing.T) {
	dir := t.TempDir()
	opts := NewDefaultOptions()
	opts.SetCreateIfMissing(true)
	opts.SetMergeOperator(counterMerge{})
	tdb, err := OpenTransactionDb(opts, NewDefaultTransactionDBOptions(), dir)
	mustNil(t, err)
	defer tdb.Close()
	ro, wo, to := NewDefaultReadOptions(), NewDefaultWriteOptions(), NewDefaultTransactionOptions()

	tx := tdb.TransactionBegin(wo, to, nil)
	mustNil(t, tx.Put([]byte("k"), []byte("v")))
	if s, _ := tx.Get(ro, []byte("k")); string(s.Data()) != "v" {
		t.Fatal("txn must read its own writes")
	}
	if s, err := tdb.Get(ro, []byte("k")); err != nil || s.Exists() {
		t.Fatal("uncommitted write visible")
	}
	mustNil(t, tx.Rollback())
	tx.Destroy()
	if s, _ := tdb.Get(ro, []byte("k")); s.Exists() {
		t.Fatal("rolled back write visible")
	}

	tx = tdb.TransactionBegin(wo, to, nil)
	mustNil(t, tx.Put([]byte("k"), []byte("v")))
	mustNil(t, tx.Put([]byte("j"), []byte("w")))
	mustNil(t, tx.Delete([]byte("j")))
	mustNil(t, tx.Merge([]byte("cnt"), []byte("2")))
	mustNil(t, tx.Merge([]byte("cnt"), []byte("3")))
	if s, _ := tx.Get(ro, []byte("cnt")); string(s.Data()) != "5" {
		t.Fatal("merge in txn")
	}
	it := tx.NewIterator(ro)
	var keys string
	for it.SeekToFirst(); it.Valid(); it.Next() {
		keys += string(it.Key().Data()) + ","
	}
	it.Close()
	if keys != "cnt,k," {
		t.Fatal(keys)
	}
	mustNil(t, tx.Commit())
	tx.Destroy()
	if s, _ := tdb.Get(ro, []byte("k")); string(s.Data()) != "v" {
		t.Fatal("commit")
	}
	mustNil(t, tdb.Merge(wo, []byte("cnt"), []byte("10")))
	if s, _ := tdb.Get(ro, []byte("cnt")); string(s.Data()) != "15" {
		t.Fatal("merge")
	}

	// like the opaque cgo handles, any two transactions are DeepEqual
	a, b := tdb.TransactionBegin(wo, to, nil), tdb.TransactionBegin(wo, to, nil)
	mustNil(t, a.Put([]byte("zz"), []byte("1")))
	if a == b || !reflect.DeepEqual(a, b) {
		t.Fatal("transactions must be distinct but DeepEqual")
	}
	a.Destroy()
	b.Destroy()

	// pessimistic locking: second writer times out
	to2 := NewDefaultTransactionOptions()
	to2.SetLockTimeout(50)
	t1 := tdb.TransactionBegin(wo, to, nil)
	t2 := tdb.TransactionBegin(wo, to2, nil)
	mustNil(t, t1.Put([]byte("lk"), []byte("1")))
	start := time.Now()
	if err := t2.Put([]byte("lk"), []byte("2")); err == nil {
		t.Fatal("expected lock timeout")
	}
	if time.Since(start) < 40*time.Millisecond {
		t.Fatal("did not wait for the lock")
	}
	done := make(chan error, 1)
	to3 := NewDefaultTransactionOptions()
	to3.SetLockTimeout(5000)
	t3 := tdb.TransactionBegin(wo, to3, nil)
	go func() { done <- t3.Put([]byte("lk"), []byte("3")) }()
	time.Sleep(20 * time.Millisecond)
	mustNil(t, t1.Commit())
	mustNil(t, <-done)
	mustNil(t, t3.Commit())
	if s, _ := tdb.Get(ro, []byte("lk")); string(s.Data()) != "3" {
		t.Fatal("lock hand-over")
	}
	t1.Destroy()
	t2.Destroy()
	t3.Destroy()
	ro.Destroy()
	wo.Destroy()
	to.Destroy()
}

func TestComparatorAndBounds(t *testing.T) {
	dir := t.TempDir()
	opts := NewDefaultOptions()
	opts.SetCreateIfMissing(true)
	opts.SetComparator(NewComparator("rev", func(a, b []byte) int { return bytes.Compare(b, a) }))
	db, err := OpenDb(opts, dir)
	mustNil(t, err)
	defer db.Close()
	wo := NewDefaultWriteOptions()
	for _, k := range []string{"a", "b", "c", "d"} {
		mustNil(t, db.Put(wo, []byte(k), []byte(k)))
	}
	ro := NewDefaultReadOptions()
	ro.SetIterateUpperBound([]byte("a")) // exclusive, in comparator order: d c b
	it := db.NewIterator(ro)
	var keys string
	for it.SeekToFirst(); it.Valid(); it.Next() {
		keys += string(it.Key().Data())
	}
	if keys != "dcb" {
		t.Fatal(keys)
	}
	mustNil(t, db.DeleteRangeCF(wo, nil, []byte("d"), []byte("b")))
	if s, _ := db.Get(NewDefaultReadOptions(), []byte("c")); s.Exists() {
		t.Fatal("delete range")
	}
}
