// stubgen: derive a cgo-free API skeleton from the real grocksdb sources.
// usage: stubgen <srcdir> <dstdir>
package main

import (
	"bytes"
	"fmt"
	"go/ast"
	"go/format"
	"go/parser"
	"go/printer"
	"go/token"
	"os"
	"path/filepath"
	"sort"
	"strings"
)

var skipFiles = map[string]bool{
	"array.go": true, "util.go": true, "jemalloc.go": true,
	"non_builtin.go": true, "non_builtin_clean_link.go": true,
	"testing_darwin_arm64.go": true, "testing_linux_amd64.go": true, "testing_linux_arm64.go": true,
	"doc.go": true, "cow.go": true, // copied verbatim
}

var noopFiles = map[string]bool{
	"cache.go": true, "ratelimiter.go": true, "env.go": true, "filter_policy.go": true,
	"slice_transform.go": true, "comparator.go": true, "merge_operator.go": true,
	"compaction_filter.go": true, "dbpath.go": true, "cuckoo_table.go": true,
	"mem_alloc.go": true, "perf_context.go": true, "perf_level.go": true,
	"cf_handle.go": true, "snapshot.go": true,
}

var noopNames = map[string]bool{"Destroy": true, "Close": true, "Free": true, "Release": true, "Clear": true}

var cEnum = map[string]string{
	"rocksdb_no_compression": "0", "rocksdb_snappy_compression": "1", "rocksdb_zlib_compression": "2",
	"rocksdb_bz2_compression": "3", "rocksdb_lz4_compression": "4", "rocksdb_lz4hc_compression": "5",
	"rocksdb_xpress_compression": "6", "rocksdb_zstd_compression": "7",
	"rocksdb_level_compaction": "0", "rocksdb_universal_compaction": "1", "rocksdb_fifo_compaction": "2",
	"rocksdb_similar_size_compaction_stop_style": "0", "rocksdb_total_size_compaction_stop_style": "1",
}

func mentionsC(n ast.Node) bool {
	found := false
	ast.Inspect(n, func(x ast.Node) bool {
		if se, ok := x.(*ast.SelectorExpr); ok {
			if id, ok := se.X.(*ast.Ident); ok && id.Name == "C" {
				found = true
			}
		}
		return !found
	})
	return found
}

var structTypes = map[string]bool{}

// unexported funcs that are dropped (they mention C); computed in main.
var dropped = map[string]bool{}

// removed struct fields (names), computed in main.
var removedFields = map[string]bool{}

var forceStub = map[string]bool{}

func usesDropped(n ast.Node) bool {
	found := false
	ast.Inspect(n, func(x ast.Node) bool {
		switch t := x.(type) {
		case *ast.CallExpr:
			if id, ok := t.Fun.(*ast.Ident); ok && dropped[id.Name] {
				found = true
			}
		case *ast.SelectorExpr:
			if removedFields[t.Sel.Name] {
				found = true
			}
		case *ast.KeyValueExpr:
			if id, ok := t.Key.(*ast.Ident); ok && removedFields[id.Name] {
				found = true
			}
		}
		return !found
	})
	return found
}

func zero(e ast.Expr) string {
	switch t := e.(type) {
	case *ast.Ident:
		switch t.Name {
		case "bool":
			return "false"
		case "string":
			return `""`
		case "error":
			return "nil"
		case "int", "int8", "int16", "int32", "int64", "uint", "uint8", "uint16", "uint32", "uint64",
			"uintptr", "float32", "float64", "byte", "rune":
			return "0"
		}
		if structTypes[t.Name] {
			return t.Name + "{}"
		}
		return "*new(" + t.Name + ")"
	case *ast.StarExpr:
		if id, ok := t.X.(*ast.Ident); ok && structTypes[id.Name] {
			return "&" + id.Name + "{}"
		}
		return "nil"
	case *ast.ArrayType:
		if t.Len == nil {
			return "nil"
		}
	case *ast.MapType, *ast.FuncType, *ast.InterfaceType, *ast.ChanType:
		return "nil"
	}
	var b bytes.Buffer
	printer.Fprint(&b, token.NewFileSet(), e)
	return "*new(" + b.String() + ")"
}

func main() {
	src, dst := os.Args[1], os.Args[2]
	for _, n := range []string{"boolToChar", "charToBool", "charToByte", "byteToChar", "cByteSlice", "charSlice",
		"charSliceIntoStringSlice", "sizeSlice", "fromCError", "toString", "byteSlicesToCSlices"} {
		dropped[n] = true
	}
	for _, n := range os.Args[3:] {
		forceStub[n] = true
	}
	files, _ := filepath.Glob(filepath.Join(src, "*.go"))
	sort.Strings(files)
	fset := token.NewFileSet()
	type pf struct {
		name string
		f    *ast.File
	}
	var parsed []pf
	for _, p := range files {
		base := filepath.Base(p)
		if strings.HasSuffix(base, "_test.go") || skipFiles[base] {
			continue
		}
		f, err := parser.ParseFile(fset, p, nil, parser.ParseComments)
		if err != nil {
			panic(err)
		}
		parsed = append(parsed, pf{base, f})
		for _, d := range f.Decls {
			if fd, ok := d.(*ast.FuncDecl); ok && !fd.Name.IsExported() && mentionsC(fd) {
				dropped[fd.Name.Name] = true
			}
			if gd, ok := d.(*ast.GenDecl); ok && gd.Tok == token.TYPE {
				for _, s := range gd.Specs {
					ts := s.(*ast.TypeSpec)
					if st, ok := ts.Type.(*ast.StructType); ok {
						structTypes[ts.Name.Name] = true
						for _, fld := range st.Fields.List {
							if mentionsC(fld.Type) {
								for _, n := range fld.Names {
									removedFields[n.Name] = true
								}
							}
						}
					}
				}
			}
		}
	}
	for _, p := range parsed {
		var out bytes.Buffer
		out.WriteString("// Code derived from github.com/linxGnu/grocksdb v1.8.1 (" + p.name + ") with all cgo removed.\n")
		out.WriteString("// Pure-Go STUB for offline compilation and testing. Not a real RocksDB binding.\n\n")
		out.WriteString("package grocksdb\n\n")
		var body bytes.Buffer
		for _, d := range p.f.Decls {
			switch dd := d.(type) {
			case *ast.GenDecl:
				if dd.Tok == token.IMPORT {
					continue
				}
				var keep []ast.Spec
				for _, s := range dd.Specs {
					switch ss := s.(type) {
					case *ast.TypeSpec:
						if st, ok := ss.Type.(*ast.StructType); ok {
							var fl []*ast.Field
							for _, fld := range st.Fields.List {
								if !mentionsC(fld.Type) {
									fl = append(fl, fld)
								}
							}
							st.Fields.List = fl
							keep = append(keep, ss)
						} else if !mentionsC(ss.Type) {
							keep = append(keep, ss)
						} else {
							fmt.Fprintf(os.Stderr, "drop type %s (%s)\n", ss.Name.Name, p.name)
						}
					case *ast.ValueSpec:
						for i, v := range ss.Values {
							ss.Values[i] = replaceEnum(v)
						}
						if mentionsC(ss) {
							fmt.Fprintf(os.Stderr, "drop value %v (%s)\n", ss.Names, p.name)
						} else {
							keep = append(keep, ss)
						}
					}
				}
				if len(keep) == 0 {
					continue
				}
				dd.Specs = keep
				var cg []*ast.CommentGroup
				for _, c := range p.f.Comments {
					if c.Pos() >= dd.Pos() && c.End() <= dd.End() {
						cg = append(cg, c)
					}
				}
				writeDoc(&body, dd.Doc)
				dd.Doc = nil
				printer.Fprint(&body, fset, &printer.CommentedNode{Node: dd, Comments: cg})
				body.WriteString("\n\n")
			case *ast.FuncDecl:
				if !dd.Name.IsExported() && (mentionsC(dd) || usesDropped(dd)) {
					continue
				}
				if dd.Body != nil && !mentionsC(dd) && !usesDropped(dd) && !forceStub[dd.Name.Name] {
					writeDoc(&body, dd.Doc)
					dd.Doc = nil
					var cg []*ast.CommentGroup
					for _, c := range p.f.Comments {
						if c.Pos() >= dd.Pos() && c.End() <= dd.End() {
							cg = append(cg, c)
						}
					}
					printer.Fprint(&body, fset, &printer.CommentedNode{Node: dd, Comments: cg})
					body.WriteString("\n\n")
					continue
				}
				if dd.Body != nil && !mentionsC(dd) {
					fmt.Fprintf(os.Stderr, "stubbed although pure Go: %s (%s)\n", dd.Name.Name, p.name)
				}
				if mentionsC(dd.Type) {
					fmt.Fprintf(os.Stderr, "drop func %s (%s): C type in signature\n", dd.Name.Name, p.name)
					continue
				}
				writeDoc(&body, dd.Doc)
				dd.Doc = nil
				dd.Body = nil
				var sig bytes.Buffer
				printer.Fprint(&sig, fset, dd)
				body.Write(sig.Bytes())
				body.WriteString(" {\n")
				noop := noopFiles[p.name] || strings.HasPrefix(p.name, "options") || noopNames[dd.Name.Name]
				res := dd.Type.Results
				if !noop {
					name := dd.Name.Name
					if dd.Recv != nil {
						var rb bytes.Buffer
						printer.Fprint(&rb, fset, dd.Recv.List[0].Type)
						name = strings.TrimPrefix(rb.String(), "*") + "." + name
					}
					fmt.Fprintf(&body, "\tpanic(\"grocksdb stub: not implemented: %s\")\n", name)
				} else if res != nil && len(res.List) > 0 {
					if len(res.List[0].Names) > 0 {
						body.WriteString("\treturn\n")
					} else {
						var zs []string
						for _, r := range res.List {
							zs = append(zs, zero(r.Type))
						}
						body.WriteString("\treturn " + strings.Join(zs, ", ") + "\n")
					}
				}
				body.WriteString("}\n\n")
			}
		}
		// imports actually used
		var imps []string
		for _, im := range p.f.Imports {
			path := strings.Trim(im.Path.Value, `"`)
			if path == "C" {
				continue
			}
			name := filepath.Base(path)
			if im.Name != nil {
				name = im.Name.Name
			}
			if strings.Contains(body.String(), name+".") {
				imps = append(imps, im.Path.Value)
			}
		}
		if len(imps) > 0 {
			out.WriteString("import (\n")
			for _, i := range imps {
				out.WriteString("\t" + i + "\n")
			}
			out.WriteString(")\n\n")
		}
		out.Write(body.Bytes())
		b, err := format.Source(out.Bytes())
		if err != nil {
			fmt.Fprintf(os.Stderr, "FORMAT ERROR %s: %v\n", p.name, err)
			b = out.Bytes()
		}
		if err := os.WriteFile(filepath.Join(dst, p.name), b, 0o644); err != nil {
			panic(err)
		}
	}
}

func writeDoc(b *bytes.Buffer, doc *ast.CommentGroup) {
	if doc == nil {
		return
	}
	for _, c := range doc.List {
		if strings.HasPrefix(c.Text, "//export") {
			continue
		}
		b.WriteString(c.Text + "\n")
	}
}

func replaceEnum(e ast.Expr) ast.Expr {
	if ce, ok := e.(*ast.CallExpr); ok {
		for i, a := range ce.Args {
			ce.Args[i] = replaceEnum(a)
		}
		return ce
	}
	if se, ok := e.(*ast.SelectorExpr); ok {
		if id, ok := se.X.(*ast.Ident); ok && id.Name == "C" {
			if v, ok := cEnum[se.Sel.Name]; ok {
				return &ast.BasicLit{Kind: token.INT, Value: v, ValuePos: se.Pos()}
			}
		}
	}
	return e
}
