#!/usr/bin/env python3
# Replace `panic("grocksdb stub: not implemented: X")` bodies in the generated
# skeleton with hand-written in-memory implementations.
import re, sys, os

D = sys.argv[1]
B = {}

def b(name, body):
    B[name] = body.strip("\n")

# ----------------------------------------------------------------- write batch
b("NewWriteBatch", "\treturn &WriteBatch{}")
b("WriteBatchFrom", """
	wb := &WriteBatch{}
	if len(data) < writeBatchHeaderSize {
		return wb
	}
	it := &WriteBatchIterator{data: data[writeBatchHeaderSize:]}
	for it.Next() {
		r := it.Record()
		op := wbOp{t: r.Type, cf: uint32(r.CF), key: cloneBytes(r.Key), value: cloneBytes(r.Value)}
		switch r.Type {
		case WriteBatchLogDataRecord, WriteBatchNoopRecord:
		default:
			op.isData = true
		}
		wb.ops = append(wb.ops, op)
	}
	return wb
""")
b("WriteBatch.Put", "\twb.add(WriteBatchValueRecord, nil, key, value)")
b("WriteBatch.PutCF", "\twb.add(WriteBatchCFValueRecord, cf, key, value)")
b("WriteBatch.PutLogData", "\twb.ops = append(wb.ops, wbOp{t: WriteBatchLogDataRecord, value: cloneBytes(blob)})")
b("WriteBatch.Merge", "\twb.add(WriteBatchMergeRecord, nil, key, value)")
b("WriteBatch.MergeCF", "\twb.add(WriteBatchCFMergeRecord, cf, key, value)")
b("WriteBatch.Delete", "\twb.add(WriteBatchDeletionRecord, nil, key, nil)")
b("WriteBatch.SingleDelete", "\twb.add(WriteBatchSingleDeletionRecord, nil, key, nil)")
b("WriteBatch.DeleteCF", "\twb.add(WriteBatchCFDeletionRecord, cf, key, nil)")
b("WriteBatch.SingleDeleteCF", "\twb.add(WriteBatchCFSingleDeletionRecord, cf, key, nil)")
b("WriteBatch.DeleteRange", "\twb.add(WriteBatchRangeDeletion, nil, startKey, endKey)")
b("WriteBatch.DeleteRangeCF", "\twb.add(WriteBatchCFRangeDeletion, cf, startKey, endKey)")
b("WriteBatch.Data", "\treturn wb.serialize()")
b("WriteBatch.Count", """
	n := 0
	for _, op := range wb.ops {
		if op.isData {
			n++
		}
	}
	return n
""")
b("WriteBatch.NewIterator", """
	data := wb.Data()
	if len(data) < writeBatchHeaderSize {
		return &WriteBatchIterator{}
	}
	return &WriteBatchIterator{data: data[writeBatchHeaderSize:]}
""")
b("WriteBatch.SetSavePoint", "\twb.savePoints = append(wb.savePoints, len(wb.ops))")
b("WriteBatch.RollbackToSavePoint", """
	if len(wb.savePoints) == 0 {
		return errors.New("NotFound: ")
	}
	n := wb.savePoints[len(wb.savePoints)-1]
	wb.savePoints = wb.savePoints[:len(wb.savePoints)-1]
	wb.ops = wb.ops[:n]
	return nil
""")
b("WriteBatch.PopSavePoint", """
	if len(wb.savePoints) == 0 {
		return errors.New("NotFound: ")
	}
	wb.savePoints = wb.savePoints[:len(wb.savePoints)-1]
	return nil
""")

# ------------------------------------------------------------------------- DB
b("OpenDb", """
	m, _, err := openMem(opts, name, nil, nil, openReadWrite)
	if err != nil {
		return nil, err
	}
	return &DB{name: name, opts: opts, m: m}, nil
""")
b("OpenDbWithTTL", "\treturn OpenDb(opts, name)")
b("OpenDbForReadOnly", """
	m, _, err := openMem(opts, name, nil, nil, openReadOnly)
	if err != nil {
		return nil, err
	}
	return &DB{name: name, opts: opts, m: m, readOnly: true}, nil
""")
b("OpenDbAsSecondary", """
	m, _, err := openMem(opts, name, nil, nil, openSecondary)
	if err != nil {
		return nil, err
	}
	return &DB{name: name, opts: opts, m: m, readOnly: true}, nil
""")
b("OpenDbColumnFamilies", "\treturn openDbCFs(opts, name, cfNames, cfOpts, openReadWrite)")
b("OpenDbForReadOnlyColumnFamilies", "\treturn openDbCFs(opts, name, cfNames, cfOpts, openReadOnly)")
b("OpenDbAsSecondaryColumnFamilies", "\treturn openDbCFs(opts, name, cfNames, cfOpts, openSecondary)")
b("ListColumnFamilies", "\treturn listMemCFs(name)")
b("DB.KeyMayExists", "\treturn db.KeyMayExistsCF(opts, nil, key, timestamp)")
b("DB.KeyMayExistsCF", """
	v, ok, err := db.m.get(opts, cfID(cf), key)
	if err != nil || !ok {
		return nil
	}
	return newSlice(v, true)
""")
b("DB.Get", "\treturn db.GetCF(opts, nil, key)")
b("DB.GetBytes", """
	v, ok, err := db.m.get(opts, 0, key)
	if err != nil || !ok {
		return nil, err
	}
	return cloneBytes(v), nil
""")
b("DB.GetCF", """
	v, ok, err := db.m.get(opts, cfID(cf), key)
	if err != nil {
		return nil, err
	}
	return newSlice(v, ok), nil
""")
b("DB.GetPinned", "\treturn db.GetPinnedCF(opts, nil, key)")
b("DB.GetPinnedCF", """
	v, ok, err := db.m.get(opts, cfID(cf), key)
	if err != nil {
		return nil, err
	}
	return newPinnableSliceHandle(v, ok), nil
""")
b("DB.MultiGet", "\treturn db.MultiGetCF(opts, nil, keys...)")
b("DB.MultiGetCF", "\treturn multiGet(db.m, opts, func(int) *ColumnFamilyHandle { return cf }, keys)")
b("DB.MultiGetCFMultiCF", """
	if len(cfs) != len(keys) {
		return nil, ErrColumnFamilyMustMatch
	}
	return multiGet(db.m, opts, func(i int) *ColumnFamilyHandle { return cfs[i] }, keys)
""")
b("DB.Put", "\treturn db.write([]wbOp{{t: WriteBatchValueRecord, key: key, value: value, isData: true}})")
b("DB.PutCF", "\treturn db.write([]wbOp{{t: WriteBatchCFValueRecord, cf: cfID(cf), key: key, value: value, isData: true}})")
b("DB.Delete", "\treturn db.write([]wbOp{{t: WriteBatchDeletionRecord, key: key, isData: true}})")
b("DB.DeleteCF", "\treturn db.write([]wbOp{{t: WriteBatchCFDeletionRecord, cf: cfID(cf), key: key, isData: true}})")
b("DB.DeleteRangeCF", "\treturn db.write([]wbOp{{t: WriteBatchCFRangeDeletion, cf: cfID(cf), key: startKey, value: endKey, isData: true}})")
b("DB.SingleDelete", "\treturn db.write([]wbOp{{t: WriteBatchSingleDeletionRecord, key: key, isData: true}})")
b("DB.SingleDeleteCF", "\treturn db.write([]wbOp{{t: WriteBatchCFSingleDeletionRecord, cf: cfID(cf), key: key, isData: true}})")
b("DB.Merge", "\treturn db.write([]wbOp{{t: WriteBatchMergeRecord, key: key, value: value, isData: true}})")
b("DB.MergeCF", "\treturn db.write([]wbOp{{t: WriteBatchCFMergeRecord, cf: cfID(cf), key: key, value: value, isData: true}})")
b("DB.Write", "\treturn db.write(batch.ops)")
b("DB.NewIterator", "\treturn db.NewIteratorCF(opts, nil)")
b("DB.NewIteratorCF", """
	items, cmp := db.m.sortedPairs(opts, cfID(cf))
	return newMemIterator(items, cmp)
""")
b("DB.NewIterators", """
	for _, cf := range cfs {
		iters = append(iters, db.NewIteratorCF(opts, cf))
	}
	return iters, nil
""")
b("DB.GetLatestSequenceNumber", """
	db.m.mu.RLock()
	defer db.m.mu.RUnlock()
	return db.m.seq
""")
b("DB.NewSnapshot", "\treturn &Snapshot{snap: db.m.snapshot()}")
b("DB.ReleaseSnapshot", """
	if snapshot != nil {
		snapshot.snap = nil
	}
""")
b("DB.GetProperty", "\treturn db.GetPropertyCF(propName, nil)")
b("DB.GetIntProperty", "\treturn db.GetIntPropertyCF(propName, nil)")
b("DB.GetIntPropertyCF", """
	s, ok := db.m.property(propName, cfID(cf))
	if !ok {
		return 0, false
	}
	v, err := strconv.ParseUint(s, 10, 64)
	return v, err == nil
""")
b("DB.GetPropertyCF", """
	value, _ = db.m.property(propName, cfID(cf))
	return value
""")
b("DB.CreateColumnFamily", """
	if db.readOnly {
		return nil, errReadOnly
	}
	cf, err := db.m.createCF(opts, name)
	if err != nil {
		return nil, err
	}
	return newCFHandle(cf), nil
""")
b("DB.CreateColumnFamilyWithTTL", "\treturn db.CreateColumnFamily(opts, name)")
b("DB.DropColumnFamily", """
	if db.readOnly {
		return errReadOnly
	}
	return db.m.dropCF(cfID(c))
""")
b("DB.GetApproximateSizes", "\treturn db.GetApproximateSizesCF(nil, ranges)")
b("DB.GetApproximateSizesCF", """
	sizes := make([]uint64, len(ranges))
	items, cmp := db.m.sortedPairs(nil, cfID(cf))
	for i, r := range ranges {
		for _, it := range items {
			if cmp(it.k, r.Start) >= 0 && cmp(it.k, r.Limit) < 0 {
				sizes[i] += uint64(len(it.k) + len(it.v))
			}
		}
	}
	return sizes, nil
""")
b("DB.SetOptions", "\treturn nil")
b("DB.SetOptionsCF", "\treturn nil")
b("DB.GetLiveFilesMetaData", "\treturn nil")
for n in ["CompactRange", "CompactRangeCF", "CompactRangeOpt", "CompactRangeCFOpt", "DeleteFile",
          "CancelAllBackgroundWork", "EnableManualCompaction", "DisableManualCompaction"]:
    b("DB." + n, "\t// no-op in the stub")
for n in ["SuggestCompactRange", "SuggestCompactRangeCF", "Flush", "FlushCF", "FlushCFs", "FlushWAL",
          "DisableFileDeletions", "EnableFileDeletions", "DeleteFileInRange", "DeleteFileInRangeCF",
          "TryCatchUpWithPrimary"]:
    b("DB." + n, "\treturn nil")
b("DestroyDb", "\treturn destroyMem(name)")
b("RepairDb", "\treturn nil")

# -------------------------------------------------------------- TransactionDB
b("OpenTransactionDb", """
	if transactionDBOpts == nil {
		transactionDBOpts = NewDefaultTransactionDBOptions()
	}
	m, _, err := openMem(opts, name, nil, nil, openReadWrite)
	if err != nil {
		return nil, err
	}
	return &TransactionDB{name: name, opts: opts, transactionDBOpts: transactionDBOpts, m: m}, nil
""")
b("OpenTransactionDbColumnFamilies", """
	if len(cfNames) != len(cfOpts) {
		return nil, nil, ErrColumnFamilyMustMatch
	}
	if transactionDBOpts == nil {
		transactionDBOpts = NewDefaultTransactionDBOptions()
	}
	m, cfs, err := openMem(opts, name, cfNames, cfOpts, openReadWrite)
	if err != nil {
		return nil, nil, err
	}
	for _, cf := range cfs {
		cfHandles = append(cfHandles, newCFHandle(cf))
	}
	return &TransactionDB{name: name, opts: opts, transactionDBOpts: transactionDBOpts, m: m}, cfHandles, nil
""")
b("TransactionDB.NewSnapshot", "\treturn &Snapshot{snap: db.m.snapshot()}")
b("TransactionDB.ReleaseSnapshot", """
	if snapshot != nil {
		snapshot.snap = nil
	}
""")
b("TransactionDB.TransactionBegin", """
	if transactionOpts == nil {
		transactionOpts = NewDefaultTransactionOptions()
	}
	timeout := transactionOpts.lockTimeout
	if timeout < 0 {
		timeout = db.transactionDBOpts.transactionLockTimeout
	}
	return beginTransaction(db.m, oldTransaction, true, timeout, transactionOpts.setSnapshot)
""")
b("TransactionDB.Get", "\treturn db.GetCF(opts, nil, key)")
b("TransactionDB.GetPinned", "\treturn db.GetPinnedWithCF(opts, nil, key)")
b("TransactionDB.GetCF", """
	v, ok, err := db.m.get(opts, cfID(cf), key)
	if err != nil {
		return nil, err
	}
	return newSlice(v, ok), nil
""")
b("TransactionDB.GetPinnedWithCF", """
	v, ok, err := db.m.get(opts, cfID(cf), key)
	if err != nil {
		return nil, err
	}
	return newPinnableSliceHandle(v, ok), nil
""")
b("TransactionDB.MultiGet", "\treturn db.MultiGetWithCF(opts, nil, keys...)")
b("TransactionDB.MultiGetWithCF", "\treturn multiGet(db.m, opts, func(int) *ColumnFamilyHandle { return cf }, keys)")
b("TransactionDB.Put", "\treturn db.write([]wbOp{{t: WriteBatchValueRecord, key: key, value: value, isData: true}})")
b("TransactionDB.PutCF", "\treturn db.write([]wbOp{{t: WriteBatchCFValueRecord, cf: cfID(cf), key: key, value: value, isData: true}})")
b("TransactionDB.Merge", "\treturn db.write([]wbOp{{t: WriteBatchMergeRecord, key: key, value: value, isData: true}})")
b("TransactionDB.MergeCF", "\treturn db.write([]wbOp{{t: WriteBatchCFMergeRecord, cf: cfID(cf), key: key, value: value, isData: true}})")
b("TransactionDB.Delete", "\treturn db.write([]wbOp{{t: WriteBatchDeletionRecord, key: key, isData: true}})")
b("TransactionDB.DeleteCF", "\treturn db.write([]wbOp{{t: WriteBatchCFDeletionRecord, cf: cfID(cf), key: key, isData: true}})")
b("TransactionDB.CreateColumnFamily", """
	cf, err := db.m.createCF(opts, name)
	if err != nil {
		return nil, err
	}
	return newCFHandle(cf), nil
""")
b("TransactionDB.Write", "\treturn db.write(batch.ops)")
for n in ["Flush", "FlushCF", "FlushCFs", "FlushWAL"]:
    b("TransactionDB." + n, "\treturn nil")
b("TransactionDB.NewIterator", "\treturn db.NewIteratorCF(opts, nil)")
b("TransactionDB.NewIteratorCF", """
	items, cmp := db.m.sortedPairs(opts, cfID(cf))
	return newMemIterator(items, cmp)
""")

# ------------------------------------------------------ OptimisticTransactionDB
b("OpenOptimisticTransactionDb", """
	m, _, err := openMem(opts, name, nil, nil, openReadWrite)
	if err != nil {
		return nil, err
	}
	return &OptimisticTransactionDB{name: name, opts: opts, m: m}, nil
""")
b("OpenOptimisticTransactionDbColumnFamilies", """
	if len(cfNames) != len(cfOpts) {
		return nil, nil, ErrColumnFamilyMustMatch
	}
	m, cfs, err := openMem(opts, name, cfNames, cfOpts, openReadWrite)
	if err != nil {
		return nil, nil, err
	}
	for _, cf := range cfs {
		cfHandles = append(cfHandles, newCFHandle(cf))
	}
	return &OptimisticTransactionDB{name: name, opts: opts, m: m}, cfHandles, nil
""")
b("OptimisticTransactionDB.TransactionBegin", """
	setSnapshot := transactionOpts != nil && transactionOpts.setSnapshot
	return beginTransaction(db.m, oldTransaction, false, 0, setSnapshot)
""")
b("OptimisticTransactionDB.Write", "\treturn db.m.apply(batch.ops)")
b("OptimisticTransactionDB.GetBaseDB", "\treturn &DB{name: db.name, opts: db.opts, m: db.m, isBase: true}")
b("OptimisticTransactionDB.CloseBaseDB", "\t// the base DB shares the store with db: nothing to release")

# ----------------------------------------------------------------- Transaction
b("Transaction.SetName", """
	transaction.name = name
	return nil
""")
b("Transaction.GetName", "\treturn transaction.name")
b("Transaction.Prepare", "\treturn nil")
b("Transaction.Commit", "\treturn transaction.commit()")
b("Transaction.Rollback", "\treturn transaction.rollback()")
b("Transaction.Get", "\treturn transaction.GetWithCF(opts, nil, key)")
b("Transaction.GetPinned", "\treturn transaction.GetPinnedWithCF(opts, nil, key)")
b("Transaction.GetWithCF", """
	v, ok, err := transaction.get(opts, cfID(cf), key)
	if err != nil {
		return nil, err
	}
	return newSlice(v, ok), nil
""")
b("Transaction.GetPinnedWithCF", """
	v, ok, err := transaction.get(opts, cfID(cf), key)
	if err != nil {
		return nil, err
	}
	return newPinnableSliceHandle(v, ok), nil
""")
b("Transaction.GetForUpdate", "\treturn transaction.GetForUpdateWithCF(opts, nil, key)")
b("Transaction.GetPinnedForUpdate", "\treturn transaction.GetPinnedForUpdateWithCF(opts, nil, key)")
b("Transaction.GetForUpdateWithCF", """
	if err := transaction.lock(cfID(cf), key); err != nil {
		return nil, err
	}
	return transaction.GetWithCF(opts, cf, key)
""")
b("Transaction.GetPinnedForUpdateWithCF", """
	if err := transaction.lock(cfID(cf), key); err != nil {
		return nil, err
	}
	return transaction.GetPinnedWithCF(opts, cf, key)
""")
b("Transaction.MultiGet", "\treturn transaction.MultiGetWithCF(opts, nil, keys...)")
b("Transaction.MultiGetWithCF", """
	slices := make(Slices, len(keys))
	for i, k := range keys {
		s, err := transaction.GetWithCF(opts, cf, k)
		if err != nil {
			return nil, fmt.Errorf("failed to get %d keys, first error: getting %q failed: %v", 1, string(k), err)
		}
		slices[i] = s
	}
	return slices, nil
""")
b("Transaction.Put", "\treturn transaction.PutCF(nil, key, value)")
b("Transaction.PutCF", "\treturn transaction.write(wbOp{t: WriteBatchCFValueRecord, cf: cfID(cf), key: cloneBytes(key), value: cloneBytes(value), isData: true})")
b("Transaction.Merge", "\treturn transaction.MergeCF(nil, key, value)")
b("Transaction.MergeCF", "\treturn transaction.write(wbOp{t: WriteBatchCFMergeRecord, cf: cfID(cf), key: cloneBytes(key), value: cloneBytes(value), isData: true})")
b("Transaction.Delete", "\treturn transaction.DeleteCF(nil, key)")
b("Transaction.DeleteCF", "\treturn transaction.write(wbOp{t: WriteBatchCFDeletionRecord, cf: cfID(cf), key: cloneBytes(key), isData: true})")
b("Transaction.NewIterator", "\treturn transaction.NewIteratorCF(opts, nil)")
b("Transaction.NewIteratorCF", "\treturn transaction.iterator(opts, cfID(cf))")
b("Transaction.SetSavePoint", "\ttransaction.savePoints = append(transaction.savePoints, len(transaction.ops))")
b("Transaction.RollbackToSavePoint", """
	transaction.mu.Lock()
	defer transaction.mu.Unlock()
	if len(transaction.savePoints) == 0 {
		return errors.New("NotFound: ")
	}
	n := transaction.savePoints[len(transaction.savePoints)-1]
	transaction.savePoints = transaction.savePoints[:len(transaction.savePoints)-1]
	transaction.ops = transaction.ops[:n]
	return nil
""")
b("Transaction.GetSnapshot", """
	if transaction.snap == nil {
		return nil
	}
	return &Snapshot{snap: transaction.snap}
""")
b("Transaction.RebuildFromWriteBatch", """
	transaction.mu.Lock()
	transaction.ops = nil
	transaction.mu.Unlock()
	for _, op := range wb.ops {
		if !op.isData {
			continue
		}
		if err := transaction.write(op); err != nil {
			return err
		}
	}
	return nil
""")
b("Transaction.SetCommitTimestamp", "\t// user-defined timestamps are not supported by the stub")
b("Transaction.SetReadTimestampForValidation", "\t// user-defined timestamps are not supported by the stub")

# ---------------------------------------------------------------------- apply
used = set()
for fn in sorted(os.listdir(D)):
    if not fn.endswith(".go"):
        continue
    p = os.path.join(D, fn)
    s = open(p).read()
    def rep(m):
        name = m.group(1)
        if name in B:
            used.add(name)
            return B[name]
        return m.group(0)
    s2 = re.sub(r'\tpanic\("grocksdb stub: not implemented: ([A-Za-z.]+)"\)', rep, s)
    if s2 != s:
        open(p, "w").write(s2)
missing = set(B) - used
if missing:
    print("UNUSED BODIES:", sorted(missing))
