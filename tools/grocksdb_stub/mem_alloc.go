// Code derived from github.com/linxGnu/grocksdb v1.8.1 (mem_alloc.go) with all cgo removed.
// Pure-Go STUB for offline compilation and testing. Not a real RocksDB binding.

package grocksdb

// MemoryAllocator wraps memory allocator for rocksdb.
type MemoryAllocator struct {
}

// Destroy this mem allocator.
func (m *MemoryAllocator) Destroy() {
}
