// Code derived from github.com/linxGnu/grocksdb v1.8.1 (compaction_filter.go) with all cgo removed.
// Pure-Go STUB for offline compilation and testing. Not a real RocksDB binding.

package grocksdb

import (
	"unsafe"
)

// A CompactionFilter can be used to filter keys during compaction time.
type CompactionFilter interface {
	// If the Filter function returns false, it indicates
	// that the kv should be preserved, while a return value of true
	// indicates that this key-value should be removed from the
	// output of the compaction. The application can inspect
	// the existing value of the key and make decision based on it.
	//
	// When the value is to be preserved, the application has the option
	// to modify the existing value and pass it back through a new value.
	// To retain the previous value, simply return nil
	//
	// If multithreaded compaction is being used *and* a single CompactionFilter
	// instance was supplied via SetCompactionFilter, this the Filter function may be
	// called from different threads concurrently. The application must ensure
	// that the call is thread-safe.
	Filter(level int, key, val []byte) (remove bool, newVal []byte)

	// The name of the compaction filter, for logging
	Name() string

	// SetIgnoreSnapshots before release 6.0, if there is a snapshot taken later than
	// the key/value pair, RocksDB always try to prevent the key/value pair from being
	// filtered by compaction filter so that users can preserve the same view from a
	// snapshot, unless the compaction filter returns IgnoreSnapshots() = true. However,
	// this feature is deleted since 6.0, after realized that the feature has a bug which
	// can't be easily fixed. Since release 6.0, with compaction filter enabled, RocksDB
	// always invoke filtering for any key, even if it knows it will make a snapshot
	// not repeatable.
	SetIgnoreSnapshots(value bool)

	// Destroy underlying pointer/data.
	Destroy()
}

// NewNativeCompactionFilter creates a CompactionFilter object.
func NewNativeCompactionFilter(c unsafe.Pointer) CompactionFilter {
	return &nativeCompactionFilter{}
}

type nativeCompactionFilter struct {
}

func (c *nativeCompactionFilter) Filter(level int, key, val []byte) (remove bool, newVal []byte) {
	return false, nil
}

func (c *nativeCompactionFilter) Name() string { return "" }

func (c *nativeCompactionFilter) SetIgnoreSnapshots(value bool) {
}

func (c *nativeCompactionFilter) Destroy() {
}

// Hold references to compaction filters.
var compactionFilters = NewCOWList()

type compactionFilterWrapper struct {
	filter CompactionFilter
}
