// Code derived from github.com/linxGnu/grocksdb v1.8.1 (write_batch.go) with all cgo removed.
// Pure-Go STUB for offline compilation and testing. Not a real RocksDB binding.

package grocksdb

import (
	"errors"
	"io"
)

// WriteBatch is a batching of Puts, Merges and Deletes.
type WriteBatch struct {
	ops        []wbOp
	savePoints []int
}

// NewWriteBatch create a WriteBatch object.
func NewWriteBatch() *WriteBatch {
	return &WriteBatch{}
}

// WriteBatchFrom creates a write batch from a serialized WriteBatch.
func WriteBatchFrom(data []byte) *WriteBatch {
	wb := &WriteBatch{}
	if len(data) < writeBatchHeaderSize {
		return wb
	}
	it := &WriteBatchIterator{data: data[writeBatchHeaderSize:]}
	for it.Next() {
		r := it.Record()
		op := wbOp{t: r.Type, cf: uint32(r.CF), key: cloneBytes(r.Key), value: cloneBytes(r.Value)}
		switch r.Type {
		case WriteBatchLogDataRecord, WriteBatchNoopRecord:
		default:
			op.isData = true
		}
		wb.ops = append(wb.ops, op)
	}
	return wb
}

// Put queues a key-value pair.
func (wb *WriteBatch) Put(key, value []byte) {
	wb.add(WriteBatchValueRecord, nil, key, value)
}

// PutCF queues a key-value pair in a column family.
func (wb *WriteBatch) PutCF(cf *ColumnFamilyHandle, key, value []byte) {
	wb.add(WriteBatchCFValueRecord, cf, key, value)
}

// PutCFWithTS queues a key-value pair with given timestamp in a column family.
func (wb *WriteBatch) PutCFWithTS(cf *ColumnFamilyHandle, key, ts, value []byte) {
	panic("grocksdb stub: not implemented: WriteBatch.PutCFWithTS")
}

// PutLogData appends a blob of arbitrary size to the records in this batch.
func (wb *WriteBatch) PutLogData(blob []byte) {
	wb.ops = append(wb.ops, wbOp{t: WriteBatchLogDataRecord, value: cloneBytes(blob)})
}

// Merge queues a merge of "value" with the existing value of "key".
func (wb *WriteBatch) Merge(key, value []byte) {
	wb.add(WriteBatchMergeRecord, nil, key, value)
}

// MergeCF queues a merge of "value" with the existing value of "key" in a
// column family.
func (wb *WriteBatch) MergeCF(cf *ColumnFamilyHandle, key, value []byte) {
	wb.add(WriteBatchCFMergeRecord, cf, key, value)
}

// Delete queues a deletion of the data at key.
func (wb *WriteBatch) Delete(key []byte) {
	wb.add(WriteBatchDeletionRecord, nil, key, nil)
}

// SingleDelete removes the database entry for "key". Requires that the key exists
// and was not overwritten. Returns OK on success, and a non-OK status
// on error.  It is not an error if "key" did not exist in the database.
//
// If a key is overwritten (by calling Put() multiple times), then the result
// of calling SingleDelete() on this key is undefined.  SingleDelete() only
// behaves correctly if there has been only one Put() for this key since the
// previous call to SingleDelete() for this key.
//
// This feature is currently an experimental performance optimization
// for a very specific workload.  It is up to the caller to ensure that
// SingleDelete is only used for a key that is not deleted using Delete() or
// written using Merge().  Mixing SingleDelete operations with Deletes and
// Merges can result in undefined behavior.
//
// Note: consider setting options.sync = true.
func (wb *WriteBatch) SingleDelete(key []byte) {
	wb.add(WriteBatchSingleDeletionRecord, nil, key, nil)
}

// DeleteCF queues a deletion of the data at key in a column family.
func (wb *WriteBatch) DeleteCF(cf *ColumnFamilyHandle, key []byte) {
	wb.add(WriteBatchCFDeletionRecord, cf, key, nil)
}

// DeleteCF queues a deletion of the data at key with given timestamp in a column family.
func (wb *WriteBatch) DeleteCFWithTS(cf *ColumnFamilyHandle, key, ts []byte) {
	panic("grocksdb stub: not implemented: WriteBatch.DeleteCFWithTS")
}

// SingleDeleteCF same as SingleDelete but specific column family
func (wb *WriteBatch) SingleDeleteCF(cf *ColumnFamilyHandle, key []byte) {
	wb.add(WriteBatchCFSingleDeletionRecord, cf, key, nil)
}

// SingleDeleteCFWithTS same as SingleDelete but with timestamp for specific column family
func (wb *WriteBatch) SingleDeleteCFWithTS(cf *ColumnFamilyHandle, key, ts []byte) {
	panic("grocksdb stub: not implemented: WriteBatch.SingleDeleteCFWithTS")
}

// DeleteRange deletes keys that are between [startKey, endKey)
func (wb *WriteBatch) DeleteRange(startKey []byte, endKey []byte) {
	wb.add(WriteBatchRangeDeletion, nil, startKey, endKey)
}

// DeleteRangeCF deletes keys that are between [startKey, endKey) and
// belong to a given column family
func (wb *WriteBatch) DeleteRangeCF(cf *ColumnFamilyHandle, startKey []byte, endKey []byte) {
	wb.add(WriteBatchCFRangeDeletion, cf, startKey, endKey)
}

// Data returns the serialized version of this batch.
func (wb *WriteBatch) Data() []byte {
	return wb.serialize()
}

// Count returns the number of updates in the batch.
func (wb *WriteBatch) Count() int {
	n := 0
	for _, op := range wb.ops {
		if op.isData {
			n++
		}
	}
	return n
}

// NewIterator returns a iterator to iterate over the records in the batch.
func (wb *WriteBatch) NewIterator() *WriteBatchIterator {
	data := wb.Data()
	if len(data) < writeBatchHeaderSize {
		return &WriteBatchIterator{}
	}
	return &WriteBatchIterator{data: data[writeBatchHeaderSize:]}
}

// SetSavePoint records the state of the batch for future calls to RollbackToSavePoint().
// May be called multiple times to set multiple save points.
func (wb *WriteBatch) SetSavePoint() {
	wb.savePoints = append(wb.savePoints, len(wb.ops))
}

// RollbackToSavePoint removes all entries in this batch (Put, Merge, Delete, PutLogData) since the
// most recent call to SetSavePoint() and removes the most recent save point.
func (wb *WriteBatch) RollbackToSavePoint() (err error) {
	if len(wb.savePoints) == 0 {
		return errors.New("NotFound: ")
	}
	n := wb.savePoints[len(wb.savePoints)-1]
	wb.savePoints = wb.savePoints[:len(wb.savePoints)-1]
	wb.ops = wb.ops[:n]
	return nil
}

// PopSavePoint pops the most recent save point.
// If there is no previous call to SetSavePoint(), Status::NotFound()
// will be returned.
func (wb *WriteBatch) PopSavePoint() (err error) {
	if len(wb.savePoints) == 0 {
		return errors.New("NotFound: ")
	}
	wb.savePoints = wb.savePoints[:len(wb.savePoints)-1]
	return nil
}

// Clear removes all the enqueued Put and Deletes.
func (wb *WriteBatch) Clear() {
	wb.ops = nil
	wb.savePoints = nil
}

// Destroy deallocates the WriteBatch object.
func (wb *WriteBatch) Destroy() {
	wb.ops = nil
	wb.savePoints = nil
}

// WriteBatchRecordType describes the type of a batch record.
type WriteBatchRecordType byte

// Types of batch records.
const (
	WriteBatchDeletionRecord                 WriteBatchRecordType = 0x0
	WriteBatchValueRecord                    WriteBatchRecordType = 0x1
	WriteBatchMergeRecord                    WriteBatchRecordType = 0x2
	WriteBatchLogDataRecord                  WriteBatchRecordType = 0x3
	WriteBatchCFDeletionRecord               WriteBatchRecordType = 0x4
	WriteBatchCFValueRecord                  WriteBatchRecordType = 0x5
	WriteBatchCFMergeRecord                  WriteBatchRecordType = 0x6
	WriteBatchSingleDeletionRecord           WriteBatchRecordType = 0x7
	WriteBatchCFSingleDeletionRecord         WriteBatchRecordType = 0x8
	WriteBatchBeginPrepareXIDRecord          WriteBatchRecordType = 0x9
	WriteBatchEndPrepareXIDRecord            WriteBatchRecordType = 0xA
	WriteBatchCommitXIDRecord                WriteBatchRecordType = 0xB
	WriteBatchRollbackXIDRecord              WriteBatchRecordType = 0xC
	WriteBatchNoopRecord                     WriteBatchRecordType = 0xD
	WriteBatchRangeDeletion                  WriteBatchRecordType = 0xF
	WriteBatchCFRangeDeletion                WriteBatchRecordType = 0xE
	WriteBatchCFBlobIndex                    WriteBatchRecordType = 0x10
	WriteBatchBlobIndex                      WriteBatchRecordType = 0x11
	WriteBatchBeginPersistedPrepareXIDRecord WriteBatchRecordType = 0x12
	WriteBatchNotUsedRecord                  WriteBatchRecordType = 0x7F
)

// WriteBatchRecord represents a record inside a WriteBatch.
type WriteBatchRecord struct {
	CF    int
	Key   []byte
	Value []byte
	Type  WriteBatchRecordType
}

// WriteBatchIterator represents a iterator to iterator over records.
type WriteBatchIterator struct {
	data   []byte
	record WriteBatchRecord
	err    error
}

// Next returns the next record.
// Returns false if no further record exists.
func (iter *WriteBatchIterator) Next() bool {
	if iter.err != nil || len(iter.data) == 0 {
		return false
	}
	// reset the current record
	iter.record.CF = 0
	iter.record.Key = nil
	iter.record.Value = nil

	// parse the record type
	iter.record.Type = iter.decodeRecType()

	switch iter.record.Type {
	case
		WriteBatchDeletionRecord,
		WriteBatchSingleDeletionRecord:
		iter.record.Key = iter.decodeSlice()
	case
		WriteBatchCFDeletionRecord,
		WriteBatchCFSingleDeletionRecord:
		iter.record.CF = int(iter.decodeVarint())
		if iter.err == nil {
			iter.record.Key = iter.decodeSlice()
		}
	case
		WriteBatchValueRecord,
		WriteBatchMergeRecord,
		WriteBatchRangeDeletion,
		WriteBatchBlobIndex:
		iter.record.Key = iter.decodeSlice()
		if iter.err == nil {
			iter.record.Value = iter.decodeSlice()
		}
	case
		WriteBatchCFValueRecord,
		WriteBatchCFRangeDeletion,
		WriteBatchCFMergeRecord,
		WriteBatchCFBlobIndex:
		iter.record.CF = int(iter.decodeVarint())
		if iter.err == nil {
			iter.record.Key = iter.decodeSlice()
		}
		if iter.err == nil {
			iter.record.Value = iter.decodeSlice()
		}
	case WriteBatchLogDataRecord:
		iter.record.Value = iter.decodeSlice()
	case
		WriteBatchNoopRecord,
		WriteBatchBeginPrepareXIDRecord,
		WriteBatchBeginPersistedPrepareXIDRecord:
	case
		WriteBatchEndPrepareXIDRecord,
		WriteBatchCommitXIDRecord,
		WriteBatchRollbackXIDRecord:
		iter.record.Value = iter.decodeSlice()
	default:
		iter.err = errors.New("unsupported wal record type")
	}

	return iter.err == nil
}

// Record returns the current record.
func (iter *WriteBatchIterator) Record() *WriteBatchRecord {
	return &iter.record
}

// Error returns the error if the iteration is failed.
func (iter *WriteBatchIterator) Error() error {
	return iter.err
}

func (iter *WriteBatchIterator) decodeSlice() []byte {
	l := int(iter.decodeVarint())
	if l > len(iter.data) {
		iter.err = io.ErrShortBuffer
	}
	if iter.err != nil {
		return []byte{}
	}
	ret := iter.data[:l]
	iter.data = iter.data[l:]
	return ret
}

func (iter *WriteBatchIterator) decodeRecType() WriteBatchRecordType {
	if len(iter.data) == 0 {
		iter.err = io.ErrShortBuffer
		return WriteBatchNotUsedRecord
	}
	t := iter.data[0]
	iter.data = iter.data[1:]
	return WriteBatchRecordType(t)
}

func (iter *WriteBatchIterator) decodeVarint() uint64 {
	var n int
	var x uint64
	for shift := uint(0); shift < 64 && n < len(iter.data); shift += 7 {
		b := uint64(iter.data[n])
		n++
		x |= (b & 0x7F) << shift
		if (b & 0x80) == 0 {
			iter.data = iter.data[n:]
			return x
		}
	}
	if n == len(iter.data) {
		iter.err = io.ErrShortBuffer
	} else {
		iter.err = errors.New("malformed varint")
	}
	return 0
}
