// Code derived from github.com/linxGnu/grocksdb v1.8.1 (options_transactiondb.go) with all cgo removed.
// Pure-Go STUB for offline compilation and testing. Not a real RocksDB binding.

package grocksdb

// TransactionDBOptions represent all of the available options when opening a transactional database
// with OpenTransactionDb.
type TransactionDBOptions struct {
	transactionLockTimeout int64 // ms, default 1000
	defaultLockTimeout     int64 // ms, default 1000
}

// NewDefaultTransactionDBOptions creates a default TransactionDBOptions object.
func NewDefaultTransactionDBOptions() *TransactionDBOptions {
	return &TransactionDBOptions{transactionLockTimeout: 1000, defaultLockTimeout: 1000}
}

// SetMaxNumLocks sets the maximum number of keys that can be locked at the same time
// per column family.
// If the number of locked keys is greater than max_num_locks, transaction
// writes (or GetForUpdate) will return an error.
// If this value is not positive, no limit will be enforced.
func (opts *TransactionDBOptions) SetMaxNumLocks(maxNumLocks int64) {
}

// SetNumStripes sets the concurrency level.
// Increasing this value will increase the concurrency by dividing the lock
// table (per column family) into more sub-tables, each with their own
// separate
// mutex.
func (opts *TransactionDBOptions) SetNumStripes(numStripes uint64) {
}

// SetTransactionLockTimeout if positive, specifies the default wait timeout in milliseconds when
// a transaction attempts to lock a key if not specified by
// TransactionOptions::lock_timeout.
//
// If 0, no waiting is done if a lock cannot instantly be acquired.
// If negative, there is no timeout.  Not using a timeout is not recommended
// as it can lead to deadlocks.  Currently, there is no deadlock-detection to
// recover from a deadlock.
func (opts *TransactionDBOptions) SetTransactionLockTimeout(txnLockTimeout int64) {
	opts.transactionLockTimeout = txnLockTimeout
}

// SetDefaultLockTimeout if posititve, specifies the wait timeout in milliseconds when writing a key
// OUTSIDE of a transaction (ie by calling DB::Put(),Merge(),Delete(),Write()
// directly).
// If 0, no waiting is done if a lock cannot instantly be acquired.
// If negative, there is no timeout and will block indefinitely when acquiring
// a lock.
//
// Not using a timeout can lead to deadlocks.  Currently, there
// is no deadlock-detection to recover from a deadlock.  While DB writes
// cannot deadlock with other DB writes, they can deadlock with a transaction.
// A negative timeout should only be used if all transactions have a small
// expiration set.
func (opts *TransactionDBOptions) SetDefaultLockTimeout(defaultLockTimeout int64) {
	opts.defaultLockTimeout = defaultLockTimeout
}

// Destroy deallocates the TransactionDBOptions object.
func (opts *TransactionDBOptions) Destroy() {
}
