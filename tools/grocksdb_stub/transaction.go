// Code derived from github.com/linxGnu/grocksdb v1.8.1 (transaction.go) with all cgo removed.
// Pure-Go STUB for offline compilation and testing. Not a real RocksDB binding.

package grocksdb

import (
	"errors"
	"fmt"
)

// Transaction is used with TransactionDB for transaction support.
type Transaction struct {
	// The real Transaction only wraps an opaque C pointer, so any two
	// transactions are reflect.DeepEqual (0chain's tests rely on that when
	// they compare Connection structs). To keep that property the stub keeps
	// no state here: everything lives in a side table keyed by the address of
	// this struct (see txnState in stub_helpers.go). The pad byte gives the
	// struct a non-zero size and therefore a unique address.
	_ byte
}

// SetName of transaction.
func (transaction *Transaction) SetName(name string) (err error) {
	transaction.state().name = name
	return nil
}

// GetName of transaction.
func (transaction *Transaction) GetName() string {
	return transaction.state().name
}

// Prepare transaction.
func (transaction *Transaction) Prepare() (err error) {
	return nil
}

// Commit commits the transaction to the database.
func (transaction *Transaction) Commit() (err error) {
	return transaction.state().commit()
}

// Rollback performs a rollback on the transaction.
func (transaction *Transaction) Rollback() (err error) {
	return transaction.state().rollback()
}

// Get returns the data associated with the key from the database given this transaction.
func (transaction *Transaction) Get(opts *ReadOptions, key []byte) (slice *Slice, err error) {
	return transaction.GetWithCF(opts, nil, key)
}

// GetPinned returns the data associated with the key from the transaction.
func (transaction *Transaction) GetPinned(opts *ReadOptions, key []byte) (handle *PinnableSliceHandle, err error) {
	return transaction.GetPinnedWithCF(opts, nil, key)
}

// GetWithCF returns the data associated with the key from the database, with column family, given this transaction.
func (transaction *Transaction) GetWithCF(opts *ReadOptions, cf *ColumnFamilyHandle, key []byte) (slice *Slice, err error) {
	v, ok, err := transaction.state().get(opts, cfID(cf), key)
	if err != nil {
		return nil, err
	}
	return newSlice(v, ok), nil
}

// GetPinnedWithCF returns the data associated with the key from the transaction.
func (transaction *Transaction) GetPinnedWithCF(opts *ReadOptions, cf *ColumnFamilyHandle, key []byte) (handle *PinnableSliceHandle, err error) {
	v, ok, err := transaction.state().get(opts, cfID(cf), key)
	if err != nil {
		return nil, err
	}
	return newPinnableSliceHandle(v, ok), nil
}

// GetForUpdate returns the data associated with the key and puts an exclusive lock on the key
// from the database given this transaction.
func (transaction *Transaction) GetForUpdate(opts *ReadOptions, key []byte) (slice *Slice, err error) {
	return transaction.GetForUpdateWithCF(opts, nil, key)
}

// GetPinnedForUpdate returns the data associated with the key and puts an exclusive lock on the key
// from the database given this transaction.
func (transaction *Transaction) GetPinnedForUpdate(opts *ReadOptions, key []byte) (handle *PinnableSliceHandle, err error) {
	return transaction.GetPinnedForUpdateWithCF(opts, nil, key)
}

// GetForUpdateWithCF queries the data associated with the key and puts an exclusive lock on the key
// from the database, with column family, given this transaction.
func (transaction *Transaction) GetForUpdateWithCF(opts *ReadOptions, cf *ColumnFamilyHandle, key []byte) (slice *Slice, err error) {
	if err := transaction.state().lock(cfID(cf), key); err != nil {
		return nil, err
	}
	return transaction.GetWithCF(opts, cf, key)
}

// GetPinnedForUpdateWithCF returns the data associated with the key and puts an exclusive lock on the key
// from the database given this transaction.
func (transaction *Transaction) GetPinnedForUpdateWithCF(opts *ReadOptions, cf *ColumnFamilyHandle, key []byte) (handle *PinnableSliceHandle, err error) {
	if err := transaction.state().lock(cfID(cf), key); err != nil {
		return nil, err
	}
	return transaction.GetPinnedWithCF(opts, cf, key)
}

// MultiGet returns the data associated with the passed keys from the transaction.
func (transaction *Transaction) MultiGet(opts *ReadOptions, keys ...[]byte) (Slices, error) {
	return transaction.MultiGetWithCF(opts, nil, keys...)
}

// MultiGetWithCF returns the data associated with the passed keys from the transaction.
func (transaction *Transaction) MultiGetWithCF(opts *ReadOptions, cf *ColumnFamilyHandle, keys ...[]byte) (Slices, error) {
	slices := make(Slices, len(keys))
	for i, k := range keys {
		s, err := transaction.GetWithCF(opts, cf, k)
		if err != nil {
			return nil, fmt.Errorf("failed to get %d keys, first error: getting %q failed: %v", 1, string(k), err)
		}
		slices[i] = s
	}
	return slices, nil
}

// Put writes data associated with a key to the transaction.
func (transaction *Transaction) Put(key, value []byte) (err error) {
	return transaction.PutCF(nil, key, value)
}

// PutCF writes data associated with a key to the transaction. Key belongs to column family.
func (transaction *Transaction) PutCF(cf *ColumnFamilyHandle, key, value []byte) (err error) {
	return transaction.state().write(wbOp{t: WriteBatchCFValueRecord, cf: cfID(cf), key: cloneBytes(key), value: cloneBytes(value), isData: true})
}

// Merge key, value to the transaction.
func (transaction *Transaction) Merge(key, value []byte) (err error) {
	return transaction.MergeCF(nil, key, value)
}

// MergeCF key, value to the transaction on specific column family.
func (transaction *Transaction) MergeCF(cf *ColumnFamilyHandle, key, value []byte) (err error) {
	return transaction.state().write(wbOp{t: WriteBatchCFMergeRecord, cf: cfID(cf), key: cloneBytes(key), value: cloneBytes(value), isData: true})
}

// Delete removes the data associated with the key from the transaction.
func (transaction *Transaction) Delete(key []byte) (err error) {
	return transaction.DeleteCF(nil, key)
}

// DeleteCF removes the data associated with the key (belongs to specific column family) from the transaction.
func (transaction *Transaction) DeleteCF(cf *ColumnFamilyHandle, key []byte) (err error) {
	return transaction.state().write(wbOp{t: WriteBatchCFDeletionRecord, cf: cfID(cf), key: cloneBytes(key), isData: true})
}

// NewIterator returns an iterator that will iterate on all keys in the default
// column family including both keys in the DB and uncommitted keys in this
// transaction.
//
// Setting read_options.snapshot will affect what is read from the
// DB but will NOT change which keys are read from this transaction (the keys
// in this transaction do not yet belong to any snapshot and will be fetched
// regardless).
//
// Caller is responsible for deleting the returned Iterator.
func (transaction *Transaction) NewIterator(opts *ReadOptions) *Iterator {
	return transaction.NewIteratorCF(opts, nil)
}

// NewIteratorCF returns an iterator that will iterate on all keys in the specific
// column family including both keys in the DB and uncommitted keys in this
// transaction.
//
// Setting read_options.snapshot will affect what is read from the
// DB but will NOT change which keys are read from this transaction (the keys
// in this transaction do not yet belong to any snapshot and will be fetched
// regardless).
//
// Caller is responsible for deleting the returned Iterator.
func (transaction *Transaction) NewIteratorCF(opts *ReadOptions, cf *ColumnFamilyHandle) *Iterator {
	return transaction.state().iterator(opts, cfID(cf))
}

// SetSavePoint records the state of the transaction for future calls to
// RollbackToSavePoint().  May be called multiple times to set multiple save
// points.
func (transaction *Transaction) SetSavePoint() {
	st := transaction.state()
	st.mu.Lock()
	st.savePoints = append(st.savePoints, len(st.ops))
	st.mu.Unlock()
}

// RollbackToSavePoint undo all operations in this transaction (Put, Merge, Delete, PutLogData)
// since the most recent call to SetSavePoint() and removes the most recent
// SetSavePoint().
func (transaction *Transaction) RollbackToSavePoint() (err error) {
	st := transaction.state()
	st.mu.Lock()
	defer st.mu.Unlock()
	if len(st.savePoints) == 0 {
		return errors.New("NotFound: ")
	}
	n := st.savePoints[len(st.savePoints)-1]
	st.savePoints = st.savePoints[:len(st.savePoints)-1]
	st.ops = st.ops[:n]
	return nil
}

// GetSnapshot returns the Snapshot created by the last call to SetSnapshot().
func (transaction *Transaction) GetSnapshot() *Snapshot {
	st := transaction.state()
	if st.snap == nil {
		return nil
	}
	return &Snapshot{snap: st.snap}
}

// Destroy deallocates the transaction object.
func (transaction *Transaction) Destroy() {
	if v, ok := txnStates.LoadAndDelete(transaction); ok {
		st := v.(*txnState)
		_ = st.rollback()
		st.done = true
	}
}

// GetWriteBatchWI returns underlying write batch wi.
func (transaction *Transaction) GetWriteBatchWI() *WriteBatchWI {
	panic("grocksdb stub: not implemented: Transaction.GetWriteBatchWI")
}

// RebuildFromWriteBatch rebuilds transaction from write_batch.
// Note: If no error, write_batch will be destroyed. It's move-op (see also: C++ Move)
func (transaction *Transaction) RebuildFromWriteBatch(wb *WriteBatch) (err error) {
	st := transaction.state()
	st.mu.Lock()
	st.ops = nil
	st.mu.Unlock()
	for _, op := range wb.ops {
		if !op.isData {
			continue
		}
		if err := st.write(op); err != nil {
			return err
		}
	}
	return nil
}

// RebuildFromWriteBatchWI rebuilds transaction from write_batch.
// Note: If no error, write_batch will be destroyed. It's move-op (see also: C++ Move)
func (transaction *Transaction) RebuildFromWriteBatchWI(wb *WriteBatchWI) (err error) {
	panic("grocksdb stub: not implemented: Transaction.RebuildFromWriteBatchWI")
}

// SetCommitTimestamp sets the commit timestamp for the transaction.
// If a transaction's write batch includes at least one key for a column family that enables user-defined timestamp,
// then the transaction must be assigned a commit timestamp in order to commit.
// SetCommitTimestamp should be called before transaction commits.
// If two-phase commit (2PC) is enabled, then SetCommitTimestamp should be called after Transaction Prepare succeeds.
func (transaction *Transaction) SetCommitTimestamp(ts uint64) {
	// user-defined timestamps are not supported by the stub
}

// SetReadTimestampForValidation sets the read timestamp for the transaction.
// Each transaction can have a read timestamp.
// The transaction will use this timestamp to read data from the database.
// Any data with timestamp after this read timestamp should be considered invisible to this transaction.
// The same read timestamp is also used for validation.
func (transaction *Transaction) SetReadTimestampForValidation(ts uint64) {
	// user-defined timestamps are not supported by the stub
}
