/*
Package grocksdb provides the ability to create and access RocksDB databases.

grocksdb.OpenDb opens and creates databases.

	bbto := grocksdb.NewDefaultBlockBasedTableOptions()
	bbto.SetBlockCache(grocksdb.NewLRUCache(3 << 30))

	opts := grocksdb.NewDefaultOptions()
	opts.SetBlockBasedTableFactory(bbto)
	opts.SetCreateIfMissing(true)

	db, err := grocksdb.OpenDb(opts, "/path/to/db")

The DB struct returned by OpenDb provides DB.Get, DB.Put, DB.Merge and DB.Delete to modify
and query the database.

	ro := grocksdb.NewDefaultReadOptions()
	wo := grocksdb.NewDefaultWriteOptions()

	// if ro and wo are not used again, be sure to Close them.
	err = db.Put(wo, []byte("foo"), []byte("bar"))
	...
	value, err := db.Get(ro, []byte("foo"))
	defer value.Free()
	...
	err = db.Delete(wo, []byte("foo"))

For bulk reads, use an Iterator. If you want to avoid disturbing your live
traffic while doing the bulk read, be sure to call SetFillCache(false) on the
ReadOptions you use when creating the Iterator.

	ro := grocksdb.NewDefaultReadOptions()
	ro.SetFillCache(false)

	it := db.NewIterator(ro)
	defer it.Close()

	it.Seek([]byte("foo"))
	for it = it; it.Valid(); it.Next() {
		key := it.Key()
		value := it.Value()
		fmt.Printf("Key: %v Value: %v\n", key.Data(), value.Data())
		key.Free()
		value.Free()
	}
	if err := it.Err(); err != nil {
		...
	}

Batched, atomic writes can be performed with a WriteBatch and
DB.Write.

	wb := grocksdb.NewWriteBatch()
	// defer wb.Close or use wb.Clear and reuse.
	wb.Delete([]byte("foo"))

	wb.Put([]byte("foo"), []byte("bar"))
	wb.Put([]byte("bar"), []byte("foo"))

	err := db.Write(wo, wb)

If your working dataset does not fit in memory, you'll want to add a bloom
filter to your database. NewBloomFilter and
BlockBasedTableOptions.SetFilterPolicy is what you want. NewBloomFilter is
amount of bits in the filter to use per key in your database.

	filter := grocksdb.NewBloomFilter(10)
	bbto := grocksdb.NewDefaultBlockBasedTableOptions()
	bbto.SetFilterPolicy(filter)
	opts.SetBlockBasedTableFactory(bbto)
	db, err := grocksdb.OpenDb(opts, "/path/to/db")

If you're using a custom comparator in your code, be aware you may have to
make your own filter policy object.

This documentation is not a complete discussion of RocksDB. Please read the
RocksDB documentation <http://rocksdb.org/> for information on its
operation. You'll find lots of goodies there.
*/
package grocksdb
