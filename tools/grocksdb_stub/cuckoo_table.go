// Code derived from github.com/linxGnu/grocksdb v1.8.1 (cuckoo_table.go) with all cgo removed.
// Pure-Go STUB for offline compilation and testing. Not a real RocksDB binding.

package grocksdb

// CuckooTableOptions are options for cuckoo table.
type CuckooTableOptions struct {
}

// NewCuckooTableOptions returns new cuckoo table options.
func NewCuckooTableOptions() *CuckooTableOptions {
	return &CuckooTableOptions{}
}

// Destroy options.
func (opts *CuckooTableOptions) Destroy() {
}

// SetHashRatio determines the utilization of hash tables. Smaller values
// result in larger hash tables with fewer collisions.
//
// Default: 0.9.
func (opts *CuckooTableOptions) SetHashRatio(value float64) {
}

// SetMaxSearchDepth property used by builder to determine the depth to go to
// to search for a path to displace elements in case of
// collision. See Builder.MakeSpaceForKey method. Higher
// values result in more efficient hash tables with fewer
// lookups but take more time to build.
//
// Default: 100.
func (opts *CuckooTableOptions) SetMaxSearchDepth(value uint32) {
}

// SetCuckooBlockSize in case of collision while inserting, the builder
// attempts to insert in the next cuckoo_block_size
// locations before skipping over to the next Cuckoo hash
// function. This makes lookups more cache friendly in case
// of collisions.
//
// Default: 5.
func (opts *CuckooTableOptions) SetCuckooBlockSize(value uint32) {
}

// SetIdentityAsFirstHash if this option is enabled, user key is treated as uint64_t and its value
// is used as hash value directly. This option changes builder's behavior.
// Reader ignore this option and behave according to what specified in table
// property.
//
// Default: false.
func (opts *CuckooTableOptions) SetIdentityAsFirstHash(value bool) {
}

// SetUseModuleHash if this option is set to true, module is used during hash calculation.
// This often yields better space efficiency at the cost of performance.
// If this option is set to false, # of entries in table is constrained to be
// power of two, and bit and is used to calculate hash, which is faster in
// general.
//
// Default: true
func (opts *CuckooTableOptions) SetUseModuleHash(value bool) {
}
