// Code derived from github.com/linxGnu/grocksdb v1.8.1 (snapshot.go) with all cgo removed.
// Pure-Go STUB for offline compilation and testing. Not a real RocksDB binding.

package grocksdb

// Snapshot provides a consistent view of read operations in a DB.
type Snapshot struct {
	snap *memSnapshot
}

// Destroy deallocates the Snapshot object.
func (snapshot *Snapshot) Destroy() {
	snapshot.snap = nil
}
