// Code derived from github.com/linxGnu/grocksdb v1.8.1 (options_compression.go) with all cgo removed.
// Pure-Go STUB for offline compilation and testing. Not a real RocksDB binding.

package grocksdb

// CompressionOptions represents options for different compression algorithms like Zlib.
type CompressionOptions struct {
	WindowBits   int
	Level        int
	Strategy     int
	MaxDictBytes int
}

// NewDefaultCompressionOptions creates a default CompressionOptions object.
func NewDefaultCompressionOptions() CompressionOptions {
	return NewCompressionOptions(-14, -1, 0, 0)
}

// NewCompressionOptions creates a CompressionOptions object.
func NewCompressionOptions(windowBits, level, strategy, maxDictBytes int) CompressionOptions {
	return CompressionOptions{
		WindowBits:   windowBits,
		Level:        level,
		Strategy:     strategy,
		MaxDictBytes: maxDictBytes,
	}
}
