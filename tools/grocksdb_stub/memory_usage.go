// Code derived from github.com/linxGnu/grocksdb v1.8.1 (memory_usage.go) with all cgo removed.
// Pure-Go STUB for offline compilation and testing. Not a real RocksDB binding.

package grocksdb

// MemoryUsage contains memory usage statistics provided by RocksDB
type MemoryUsage struct {
	// MemTableTotal estimates memory usage of all mem-tables
	MemTableTotal uint64
	// MemTableUnflushed estimates memory usage of unflushed mem-tables
	MemTableUnflushed uint64
	// MemTableReadersTotal memory usage of table readers (indexes and bloom filters)
	MemTableReadersTotal uint64
	// CacheTotal memory usage of cache
	CacheTotal uint64
}

// GetApproximateMemoryUsageByType returns summary
// memory usage stats for given databases and caches.
func GetApproximateMemoryUsageByType(dbs []*DB, caches []*Cache) (result *MemoryUsage, err error) {
	panic("grocksdb stub: not implemented: GetApproximateMemoryUsageByType")
}
