// Code derived from github.com/linxGnu/grocksdb v1.8.1 (iterator.go) with all cgo removed.
// Pure-Go STUB for offline compilation and testing. Not a real RocksDB binding.

package grocksdb

import (
	"bytes"
	"sort"
)

// Iterator provides a way to seek to specific keys and iterate through
// the keyspace from that point, as well as access the values of those keys.
//
// For example:
//
//	     it := db.NewIterator(readOpts)
//	     defer it.Close()
//
//	     it.Seek([]byte("foo"))
//			for ; it.Valid(); it.Next() {
//	         fmt.Printf("Key: %v Value: %v\n", it.Key().Data(), it.Value().Data())
//			}
//
//	     if err := it.Err(); err != nil {
//	         return err
//	     }
type Iterator struct {
	items  []kvPair
	cmp    func(a, b []byte) int
	pos    int // valid iff 0 <= pos < len(items)
	closed bool
}

// newMemIterator creates an iterator over an already ordered, private copy of
// the data. Like a fresh rocksdb iterator it is not positioned (not Valid).
func newMemIterator(items []kvPair, cmp func(a, b []byte) int) *Iterator {
	if cmp == nil {
		cmp = bytes.Compare
	}
	return &Iterator{items: items, cmp: cmp, pos: -1}
}

// Valid returns false only when an Iterator has iterated past either the
// first or the last key in the database.
func (iter *Iterator) Valid() bool {
	return !iter.closed && iter.pos >= 0 && iter.pos < len(iter.items)
}

// ValidForPrefix returns false only when an Iterator has iterated past the
// first or the last key in the database or the specified prefix.
func (iter *Iterator) ValidForPrefix(prefix []byte) bool {
	if !iter.Valid() {
		return false
	}

	return bytes.HasPrefix(iter.items[iter.pos].k, prefix)
}

// Key returns the key the iterator currently holds.
func (iter *Iterator) Key() *Slice {
	if !iter.Valid() {
		return nil
	}
	return newIterSlice(iter.items[iter.pos].k)
}

// Timestamp returns the timestamp in the database the iterator currently holds.
// The stub has no user-defined timestamp support: always nil.
func (iter *Iterator) Timestamp() *Slice {
	return nil
}

// Value returns the value in the database the iterator currently holds.
func (iter *Iterator) Value() *Slice {
	if !iter.Valid() {
		return nil
	}
	return newIterSlice(iter.items[iter.pos].v)
}

// Next moves the iterator to the next sequential key in the database.
func (iter *Iterator) Next() {
	if iter.Valid() {
		iter.pos++
	}
}

// Prev moves the iterator to the previous sequential key in the database.
func (iter *Iterator) Prev() {
	if iter.Valid() {
		iter.pos--
	}
}

// SeekToFirst moves the iterator to the first key in the database.
func (iter *Iterator) SeekToFirst() {
	iter.pos = 0
}

// SeekToLast moves the iterator to the last key in the database.
func (iter *Iterator) SeekToLast() {
	iter.pos = len(iter.items) - 1
}

// Seek moves the iterator to the position greater than or equal to the key.
func (iter *Iterator) Seek(key []byte) {
	iter.pos = sort.Search(len(iter.items), func(i int) bool {
		return iter.cmp(iter.items[i].k, key) >= 0
	})
}

// SeekForPrev moves the iterator to the last key that less than or equal
// to the target key, in contrast with Seek.
func (iter *Iterator) SeekForPrev(key []byte) {
	iter.pos = sort.Search(len(iter.items), func(i int) bool {
		return iter.cmp(iter.items[i].k, key) > 0
	}) - 1
}

// Err returns nil if no errors happened during iteration, or the actual
// error otherwise.
func (iter *Iterator) Err() (err error) {
	return nil
}

// Close closes the iterator.
func (iter *Iterator) Close() {
	iter.closed = true
	iter.items = nil
}
