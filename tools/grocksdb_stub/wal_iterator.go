// Code derived from github.com/linxGnu/grocksdb v1.8.1 (wal_iterator.go) with all cgo removed.
// Pure-Go STUB for offline compilation and testing. Not a real RocksDB binding.

package grocksdb

// WalIterator is iterator for WAL Files.
type WalIterator struct {
}

// Valid check if current WAL is valid.
func (iter *WalIterator) Valid() bool {
	panic("grocksdb stub: not implemented: WalIterator.Valid")
}

// Next moves next.
func (iter *WalIterator) Next() {
	panic("grocksdb stub: not implemented: WalIterator.Next")
}

// Err returns error happened during iteration.
func (iter *WalIterator) Err() (err error) {
	panic("grocksdb stub: not implemented: WalIterator.Err")
}

// Destroy free iterator.
func (iter *WalIterator) Destroy() {
}

// GetBatch returns the current write_batch and the sequence number of the
// earliest transaction contained in the batch.
func (iter *WalIterator) GetBatch() (*WriteBatch, uint64) {
	panic("grocksdb stub: not implemented: WalIterator.GetBatch")
}
