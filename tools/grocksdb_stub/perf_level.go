// Code derived from github.com/linxGnu/grocksdb v1.8.1 (perf_level.go) with all cgo removed.
// Pure-Go STUB for offline compilation and testing. Not a real RocksDB binding.

package grocksdb

// PerfLevel indicates how much perf stats to collect. Affects perf_context and iostats_context.
type PerfLevel int

const (
	// KUninitialized indicates unknown setting
	KUninitialized PerfLevel = 0
	// KDisable disables perf stats
	KDisable PerfLevel = 1
	// KEnableCount enables only count stats
	KEnableCount PerfLevel = 2
	// KEnableTimeExceptForMutex other than count stats,
	// also enable time stats except for mutexes
	KEnableTimeExceptForMutex PerfLevel = 3
	// KEnableTimeAndCPUTimeExceptForMutex other than time,
	// also measure CPU time counters. Still don't measure
	// time (neither wall time nor CPU time) for mutexes.
	KEnableTimeAndCPUTimeExceptForMutex PerfLevel = 4
	// KEnableTime enables count and time stats
	KEnableTime PerfLevel = 5
	// KOutOfBounds N.B. Must always be the last value!
	KOutOfBounds PerfLevel = 6
)

// SetPerfLevel sets the perf stats level for current thread.
func SetPerfLevel(level PerfLevel) {
}
