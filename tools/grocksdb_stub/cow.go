package grocksdb

import (
	"sync"
	"sync/atomic"
)

// COWList implements a copy-on-write list. It is intended to be used by go
// callback registry for CGO, which is read-heavy with occasional writes.
// Reads do not block; Writes do not block reads (or vice versa), but only
// one write can occur at once;
type COWList struct {
	v  atomic.Value
	mu sync.Mutex
}

// NewCOWList creates a new COWList.
func NewCOWList() *COWList {
	l := &COWList{}
	l.v.Store([]interface{}{})
	return l
}

// Append appends an item to the COWList and returns the index for that item.
func (c *COWList) Append(i interface{}) (index int) {
	c.mu.Lock()
	list := c.v.Load().([]interface{})
	newLen := len(list) + 1
	newList := make([]interface{}, newLen)
	copy(newList, list)
	newList[newLen-1] = i
	c.v.Store(newList)
	c.mu.Unlock()
	index = newLen - 1
	return
}

// Get gets the item at index.
func (c *COWList) Get(index int) interface{} {
	list := c.v.Load().([]interface{})
	return list[index]
}
