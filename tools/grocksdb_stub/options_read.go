// Code derived from github.com/linxGnu/grocksdb v1.8.1 (options_read.go) with all cgo removed.
// Pure-Go STUB for offline compilation and testing. Not a real RocksDB binding.

package grocksdb

// ReadTier controls fetching of data during a read request.
// An application can issue a read request (via Get/Iterators) and specify
// if that read should process data that ALREADY resides on a specified cache
// level. For example, if an application specifies BlockCacheTier then the
// Get call will process data that is already processed in the memtable or
// the block cache. It will not page in data from the OS cache or data that
// resides in storage.
type ReadTier uint

const (
	// ReadAllTier reads data in memtable, block cache, OS cache or storage.
	ReadAllTier = ReadTier(0)
	// BlockCacheTier reads data in memtable or block cache.
	BlockCacheTier = ReadTier(1)
)

// ReadOptions represent all of the available options when reading from a
// database.
type ReadOptions struct {
	snapshot       *Snapshot
	iterUpperBound []byte
	iterLowerBound []byte
	timestamp      []byte
	timestampStart []byte
}

// NewDefaultReadOptions creates a default ReadOptions object.
func NewDefaultReadOptions() *ReadOptions {
	return &ReadOptions{}
}

// SetVerifyChecksums specify if all data read from underlying storage will be
// verified against corresponding checksums.
//
// Default: false
func (opts *ReadOptions) SetVerifyChecksums(value bool) {
}

// VerifyChecksums returns if all data read from underlying storage will be
// verified against corresponding checksums.
func (opts *ReadOptions) VerifyChecksums() bool {
	return false
}

// SetFillCache specify whether the "data block"/"index block"/"filter block"
// read for this iteration should be cached in memory?
// Callers may wish to set this field to false for bulk scans.
//
// Default: true
func (opts *ReadOptions) SetFillCache(value bool) {
}

// FillCache returns whether the "data block"/"index block"/"filter block"
// read for this iteration should be cached in memory?
// Callers may wish to set this field to false for bulk scans.
func (opts *ReadOptions) FillCache() bool {
	return false
}

// SetSnapshot sets the snapshot which should be used for the read.
// The snapshot must belong to the DB that is being read and must
// not have been released.
//
// Default: nil
func (opts *ReadOptions) SetSnapshot(snap *Snapshot) {
	opts.snapshot = snap
}

// SetIterateUpperBound specifies "iterate_upper_bound", which defines
// the extent upto which the forward iterator can returns entries.
// Once the bound is reached, Valid() will be false.
// "iterate_upper_bound" is exclusive ie the bound value is
// not a valid entry.  If iterator_extractor is not null, the Seek target
// and iterator_upper_bound need to have the same prefix.
// This is because ordering is not guaranteed outside of prefix domain.
// There is no lower bound on the iterator. If needed, that can be easily
// implemented.
// Default: nullptr
func (opts *ReadOptions) SetIterateUpperBound(key []byte) {
	opts.iterUpperBound = cloneBytes(key)
}

// SetIterateLowerBound specifies `iterate_lower_bound` defines the smallest
// key at which the backward iterator can return an entry. Once the bound is
// passed, Valid() will be false. `iterate_lower_bound` is inclusive ie the
// bound value is a valid entry.
// If prefix_extractor is not null, the Seek target and `iterate_lower_bound`
// need to have the same prefix. This is because ordering is not guaranteed
// outside of prefix domain.
// Default: nullptr
func (opts *ReadOptions) SetIterateLowerBound(key []byte) {
	opts.iterLowerBound = cloneBytes(key)
}

// SetReadTier specify if this read request should process data that ALREADY
// resides on a particular cache. If the required data is not
// found at the specified cache, then Status::Incomplete is returned.
//
// Default: ReadAllTier
func (opts *ReadOptions) SetReadTier(value ReadTier) {
}

// GetReadTier returns read tier that the request should process data.
func (opts *ReadOptions) GetReadTier() ReadTier {
	return *new(ReadTier)
}

// SetTailing specify if we are creating a tailing iterator.
// A special iterator that has a view of the complete database
// (i.e. it can also be used to read newly added data) and
// is optimized for sequential reads. It will return records
// that were inserted into the database after the creation of the iterator.
//
// Default: false
func (opts *ReadOptions) SetTailing(value bool) {
}

// Tailing returns if creating a tailing iterator.
func (opts *ReadOptions) Tailing() bool {
	return false
}

// SetReadaheadSize specifies the value of "readahead_size".
// If non-zero, NewIterator will create a new table reader which
// performs reads of the given size. Using a large size (> 2MB) can
// improve the performance of forward iteration on spinning disks.
//
// Default: 0
func (opts *ReadOptions) SetReadaheadSize(value uint64) {
}

// GetReadaheadSize returns the value of "readahead_size".
func (opts *ReadOptions) GetReadaheadSize() uint64 {
	return 0
}

// SetPrefixSameAsStart forces the iterator iterate over the same
// prefix as the seek.
//
// This option is effective only for prefix seeks, i.e. prefix_extractor is
// non-null for the column family and total_order_seek is false.  Unlike
// iterate_upper_bound, prefix_same_as_start only works within a prefix
// but in both directions.
//
// Default: false
func (opts *ReadOptions) SetPrefixSameAsStart(value bool) {
}

// PrefixSameAsStart returns if the iterator will iterate over the same prefix
// as the seek.
func (opts *ReadOptions) PrefixSameAsStart() bool {
	return false
}

// SetPinData specifies the value of "pin_data". If true, it keeps the blocks
// loaded by the iterator pinned in memory as long as the iterator is not deleted,
// If used when reading from tables created with
// BlockBasedTableOptions::use_delta_encoding = false,
// Iterator's property "rocksdb.iterator.is-key-pinned" is guaranteed to
// return 1.
//
// Default: false
func (opts *ReadOptions) SetPinData(value bool) {
}

// PinData returns the value of "pin_data". If true, it keeps the blocks
// loaded by the iterator pinned in memory as long as the iterator is not deleted,
// If used when reading from tables created with
// BlockBasedTableOptions::use_delta_encoding = false,
// Iterator's property "rocksdb.iterator.is-key-pinned" is guaranteed to
// return 1.
func (opts *ReadOptions) PinData() bool {
	return false
}

// SetTotalOrderSeek enable a total order seek regardless of index format (e.g. hash index)
// used in the table. Some table format (e.g. plain table) may not support
// this option.
// If true when calling Get(), we also skip prefix bloom when reading from
// block based table. It provides a way to read existing data after
// changing implementation of prefix extractor.
//
// Default: false
func (opts *ReadOptions) SetTotalOrderSeek(value bool) {
}

// GetTotalOrderSeek returns if total order seek is enabled.
func (opts *ReadOptions) GetTotalOrderSeek() bool {
	return false
}

// SetMaxSkippableInternalKeys sets a threshold for the number of keys that can be skipped
// before failing an iterator seek as incomplete. The default value of 0 should be used to
// never fail a request as incomplete, even on skipping too many keys.
//
// Default: 0
func (opts *ReadOptions) SetMaxSkippableInternalKeys(value uint64) {
}

// GetMaxSkippableInternalKeys returns the threshold for the number of keys that can be skipped
// before failing an iterator seek as incomplete. The default value of 0 should be used to
// never fail a request as incomplete, even on skipping too many keys.
func (opts *ReadOptions) GetMaxSkippableInternalKeys() uint64 {
	return 0
}

// SetBackgroundPurgeOnIteratorCleanup if true, when PurgeObsoleteFile is called in
// CleanupIteratorState, we schedule a background job in the flush job queue and delete obsolete files
// in background.
//
// Default: false
func (opts *ReadOptions) SetBackgroundPurgeOnIteratorCleanup(value bool) {
}

// GetBackgroundPurgeOnIteratorCleanup returns if background purge on iterator cleanup is turned on.
func (opts *ReadOptions) GetBackgroundPurgeOnIteratorCleanup() bool {
	return false
}

// SetIgnoreRangeDeletions if true, keys deleted using the DeleteRange() API will be visible to
// readers until they are naturally deleted during compaction. This improves
// read performance in DBs with many range deletions.
//
// Default: false
func (opts *ReadOptions) SetIgnoreRangeDeletions(value bool) {
}

// IgnoreRangeDeletions returns if ignore range deletion is turned on.
func (opts *ReadOptions) IgnoreRangeDeletions() bool {
	return false
}

// SetDeadline for completing an API call (Get/MultiGet/Seek/Next for now)
// in microseconds.
//
// It should be set to microseconds since epoch, i.e, gettimeofday or
// equivalent plus allowed duration in microseconds. The best way is to use
// env->NowMicros() + some timeout.
//
// This is best efforts. The call may exceed the deadline if there is IO
// involved and the file system doesn't support deadlines, or due to
// checking for deadline periodically rather than for every key if
// processing a batch
func (opts *ReadOptions) SetDeadline(microseconds uint64) {
}

// GetDeadline for completing an API call (Get/MultiGet/Seek/Next for now)
// in microseconds.
func (opts *ReadOptions) GetDeadline() uint64 {
	return 0
}

// SetIOTimeout sets a timeout in microseconds to be passed to the underlying FileSystem for
// reads. As opposed to deadline, this determines the timeout for each
// individual file read request. If a MultiGet/Get/Seek/Next etc call
// results in multiple reads, each read can last upto io_timeout us.
func (opts *ReadOptions) SetIOTimeout(microseconds uint64) {
}

// SetAsyncIO toggles async_io flag.
//
// If async_io is enabled, RocksDB will prefetch some of data asynchronously.
// RocksDB apply it if reads are sequential and its internal automatic
// prefetching.
//
// Default: false
//
// Note: Experimental
func (opts *ReadOptions) SetAsyncIO(value bool) {
}

// IsAsyncIO checks if async_io flag is on.
func (opts *ReadOptions) IsAsyncIO() bool {
	return false
}

// GetIOTimeout gets timeout in microseconds to be passed to the underlying FileSystem for
// reads. As opposed to deadline, this determines the timeout for each
// individual file read request. If a MultiGet/Get/Seek/Next etc call
// results in multiple reads, each read can last upto io_timeout us.
func (opts *ReadOptions) GetIOTimeout() uint64 {
	return 0
}

// Destroy deallocates the ReadOptions object.
func (opts *ReadOptions) Destroy() {
}

// SetTimestamp sets timestamp. Read should return the latest data visible to the
// specified timestamp. All timestamps of the same database must be of the
// same length and format. The user is responsible for providing a customized
// compare function via Comparator to order <key, timestamp> tuples.
// Default: nullptr
func (opts *ReadOptions) SetTimestamp(ts []byte) {
}

// SetIterStartTimestamp sets iter_start_ts which is the lower bound (older) and timestamp
// serves as the upper bound. Versions of the same record that fall in
// the timestamp range will be returned. If iter_start_ts is nullptr,
// only the most recent version visible to timestamp is returned.
// Default: nullptr
func (opts *ReadOptions) SetIterStartTimestamp(ts []byte) {
}
