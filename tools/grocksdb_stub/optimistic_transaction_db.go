// Code derived from github.com/linxGnu/grocksdb v1.8.1 (optimistic_transaction_db.go) with all cgo removed.
// Pure-Go STUB for offline compilation and testing. Not a real RocksDB binding.

package grocksdb

// OptimisticTransactionDB is a reusable handle to a RocksDB optimistic transactional database on disk.
type OptimisticTransactionDB struct {
	name string
	opts *Options

	m *memDB
}

// OpenOptimisticTransactionDb opens a database with the specified options.
func OpenOptimisticTransactionDb(
	opts *Options,
	name string,
) (tdb *OptimisticTransactionDB, err error) {
	m, _, err := openMem(opts, name, nil, nil, openReadWrite)
	if err != nil {
		return nil, err
	}
	return &OptimisticTransactionDB{name: name, opts: opts, m: m}, nil
}

// OpenOptimisticTransactionDbColumnFamilies opens a database with the specified column families.
func OpenOptimisticTransactionDbColumnFamilies(
	opts *Options,
	name string,
	cfNames []string,
	cfOpts []*Options,
) (db *OptimisticTransactionDB, cfHandles []*ColumnFamilyHandle, err error) {
	if len(cfNames) != len(cfOpts) {
		return nil, nil, ErrColumnFamilyMustMatch
	}
	m, cfs, err := openMem(opts, name, cfNames, cfOpts, openReadWrite)
	if err != nil {
		return nil, nil, err
	}
	for _, cf := range cfs {
		cfHandles = append(cfHandles, newCFHandle(cf))
	}
	return &OptimisticTransactionDB{name: name, opts: opts, m: m}, cfHandles, nil
}

// TransactionBegin begins a new transaction
// with the WriteOptions and TransactionOptions given.
func (db *OptimisticTransactionDB) TransactionBegin(
	opts *WriteOptions,
	transactionOpts *OptimisticTransactionOptions,
	oldTransaction *Transaction,
) *Transaction {
	setSnapshot := transactionOpts != nil && transactionOpts.setSnapshot
	return beginTransaction(db.m, oldTransaction, opts, false, 0, setSnapshot)
}

// NewCheckpoint creates a new Checkpoint for this db.
func (db *OptimisticTransactionDB) NewCheckpoint() (cp *Checkpoint, err error) {
	panic("grocksdb stub: not implemented: OptimisticTransactionDB.NewCheckpoint")
}

// Write batch.
func (db *OptimisticTransactionDB) Write(opts *WriteOptions, batch *WriteBatch) (err error) {
	if err := checkWriteOptions(opts); err != nil {
		return err
	}
	return db.m.apply(batch.ops)
}

// Close closes the database.
func (db *OptimisticTransactionDB) Close() {
	if db.m != nil {
		db.m.close()
	}
}

// GetBaseDB returns base-database.
func (db *OptimisticTransactionDB) GetBaseDB() *DB {
	return &DB{name: db.name, opts: db.opts, m: db.m, isBase: true}
}

// CloseBaseDB closes base-database.
func (db *OptimisticTransactionDB) CloseBaseDB(base *DB) {
	// the base DB shares the store with db: nothing to release
}
