// Hand-written helpers of the grocksdb STUB (glue between the exported API,
// whose signatures are copied from grocksdb v1.8.1, and the in-memory engine
// in memstore.go).
package grocksdb

import (
	"encoding/binary"
	"errors"
	"fmt"
	"sort"
	"sync"
)

var errReadOnly = errors.New("Not implemented: Not supported operation in read only mode.")

// ---------------------------------------------------------------------------
// DB

func openDbCFs(opts *Options, name string, cfNames []string, cfOpts []*Options, mode openMode) (*DB, []*ColumnFamilyHandle, error) {
	if len(cfNames) != len(cfOpts) {
		return nil, nil, ErrColumnFamilyMustMatch
	}
	m, cfs, err := openMem(opts, name, cfNames, cfOpts, mode)
	if err != nil {
		return nil, nil, err
	}
	handles := make([]*ColumnFamilyHandle, 0, len(cfs))
	for _, cf := range cfs {
		handles = append(handles, newCFHandle(cf))
	}
	return &DB{name: name, opts: opts, m: m, readOnly: mode != openReadWrite}, handles, nil
}

// checkWriteOptions reproduces the one WriteOptions sanity check of rocksdb
// that client test-suites like to (ab)use to provoke write errors.
func checkWriteOptions(wo *WriteOptions) error {
	if wo != nil && wo.sync && wo.disableWAL {
		return errors.New("Invalid argument: Sync writes has to enable WAL.")
	}
	return nil
}

func (db *DB) write(wo *WriteOptions, ops []wbOp) error {
	if db.readOnly {
		return errReadOnly
	}
	if err := checkWriteOptions(wo); err != nil {
		return err
	}
	return db.m.apply(ops)
}

func multiGet(m *memDB, ro *ReadOptions, cfOf func(i int) *ColumnFamilyHandle, keys [][]byte) (Slices, error) {
	slices := make(Slices, len(keys))
	for i, k := range keys {
		v, ok, err := m.get(ro, cfID(cfOf(i)), k)
		if err != nil {
			return nil, fmt.Errorf("failed to get %d keys, first error: getting %q failed: %v", 1, string(k), err)
		}
		slices[i] = newSlice(v, ok)
	}
	return slices, nil
}

func (m *memDB) createCF(opts *Options, name string) (*memCF, error) {
	m.mu.Lock()
	defer m.mu.Unlock()
	if cf := m.cfByName[name]; cf != nil && !cf.dropped {
		return nil, errors.New("Invalid argument: Column family already exists")
	}
	return m.addCF(name, opts), nil
}

func (m *memDB) dropCF(id uint32) error {
	m.mu.Lock()
	defer m.mu.Unlock()
	if id == 0 {
		return errors.New("Invalid argument: Can't drop default column family")
	}
	cf := m.cfs[id]
	if cf == nil || cf.dropped {
		return errors.New("Invalid argument: Column family already dropped!")
	}
	cf.dropped = true
	cf.kv = map[string][]byte{}
	delete(m.cfByName, cf.name)
	return nil
}

// ---------------------------------------------------------------------------
// TransactionDB

// write performs a non-transactional write on a TransactionDB. Like the real
// thing it goes through the lock manager, i.e. it conflicts with keys locked
// by open transactions (default_lock_timeout).
func (db *TransactionDB) write(wo *WriteOptions, ops []wbOp) error {
	t := newTxnState(db.m, wo, true, db.transactionDBOpts.defaultLockTimeout, false)
	defer t.release()
	for _, op := range ops {
		if !op.isData {
			continue
		}
		if err := t.write(op); err != nil {
			return err
		}
	}
	return t.commit()
}

// ---------------------------------------------------------------------------
// WriteBatch

const writeBatchHeaderSize = 12 // 8 byte sequence + 4 byte count

func (wb *WriteBatch) add(t WriteBatchRecordType, cf *ColumnFamilyHandle, key, value []byte) {
	op := wbOp{t: t, key: cloneBytes(key), isData: true}
	if value != nil {
		op.value = cloneBytes(value)
	}
	if cf != nil {
		op.cf = cf.id
		op.hasCF = true
	}
	wb.ops = append(wb.ops, op)
}

// serialize renders the batch in the rocksdb WriteBatch wire format so that
// WriteBatchIterator / WriteBatchFrom behave like with the real library.
func (wb *WriteBatch) serialize() []byte {
	buf := make([]byte, writeBatchHeaderSize)
	binary.LittleEndian.PutUint32(buf[8:], uint32(wb.Count()))
	putVar := func(v uint64) {
		var tmp [binary.MaxVarintLen64]byte
		n := binary.PutUvarint(tmp[:], v)
		buf = append(buf, tmp[:n]...)
	}
	putSlice := func(b []byte) {
		putVar(uint64(len(b)))
		buf = append(buf, b...)
	}
	for _, op := range wb.ops {
		t := op.t
		withCF := false
		switch t {
		case WriteBatchCFValueRecord, WriteBatchCFDeletionRecord, WriteBatchCFSingleDeletionRecord,
			WriteBatchCFMergeRecord, WriteBatchCFRangeDeletion:
			withCF = true
			if op.cf == 0 { // rocksdb encodes the default CF without an id
				switch t {
				case WriteBatchCFValueRecord:
					t = WriteBatchValueRecord
				case WriteBatchCFDeletionRecord:
					t = WriteBatchDeletionRecord
				case WriteBatchCFSingleDeletionRecord:
					t = WriteBatchSingleDeletionRecord
				case WriteBatchCFMergeRecord:
					t = WriteBatchMergeRecord
				case WriteBatchCFRangeDeletion:
					t = WriteBatchRangeDeletion
				}
				withCF = false
			}
		}
		buf = append(buf, byte(t))
		if withCF {
			putVar(uint64(op.cf))
		}
		switch t {
		case WriteBatchLogDataRecord:
			putSlice(op.value)
		case WriteBatchDeletionRecord, WriteBatchCFDeletionRecord,
			WriteBatchSingleDeletionRecord, WriteBatchCFSingleDeletionRecord:
			putSlice(op.key)
		case WriteBatchNoopRecord:
		default:
			putSlice(op.key)
			putSlice(op.value)
		}
	}
	return buf
}

// ---------------------------------------------------------------------------
// Transaction

type txnWrite struct {
	value   []byte
	deleted bool
}

// txnState is the real state of a Transaction; see the comment on Transaction.
type txnState struct {
	mu          sync.Mutex
	m           *memDB
	pessimistic bool
	lockTimeout int64 // ms
	ops         []wbOp
	savePoints  []int
	held        []string // lock keys owned (guarded by memDB.lockMu)
	done        bool
	name        string
	snap        *memSnapshot
	wo          *WriteOptions
}

var txnStates sync.Map // *Transaction -> *txnState

func (transaction *Transaction) state() *txnState {
	v, ok := txnStates.Load(transaction)
	if !ok {
		panic("grocksdb stub: use of a destroyed (or never begun) Transaction")
	}
	return v.(*txnState)
}

func newTxnState(m *memDB, wo *WriteOptions, pessimistic bool, lockTimeoutMs int64, setSnapshot bool) *txnState {
	t := &txnState{m: m, pessimistic: pessimistic, lockTimeout: lockTimeoutMs}
	if wo != nil {
		c := *wo // rocksdb copies the write options into the transaction
		t.wo = &c
	}
	if setSnapshot {
		t.snap = m.snapshot()
	}
	return t
}

func beginTransaction(m *memDB, old *Transaction, wo *WriteOptions, pessimistic bool, lockTimeoutMs int64, setSnapshot bool) *Transaction {
	t := old
	if t == nil {
		t = &Transaction{}
	} else if v, ok := txnStates.Load(t); ok {
		_ = v.(*txnState).rollback()
	}
	txnStates.Store(t, newTxnState(m, wo, pessimistic, lockTimeoutMs, setSnapshot))
	return t
}

func (t *txnState) lock(cf uint32, key []byte) error {
	if !t.pessimistic {
		return nil
	}
	return t.m.lock(t, cf, key, t.lockTimeout)
}

func (t *txnState) release() {
	if t.m != nil && t.pessimistic {
		t.m.unlockAll(t)
	}
}

// pending computes the transaction-local state of one key by replaying the
// buffered operations (the committed value is consulted for merges).
// Must be called with t.mu held.
func (t *txnState) pending(cf uint32, key []byte) (txnWrite, bool, error) {
	var (
		cur   txnWrite
		found bool
	)
	for _, op := range t.ops {
		if op.cf != cf || string(op.key) != string(key) {
			continue
		}
		switch op.t {
		case WriteBatchCFValueRecord, WriteBatchValueRecord:
			cur, found = txnWrite{value: op.value}, true
		case WriteBatchCFDeletionRecord, WriteBatchDeletionRecord,
			WriteBatchCFSingleDeletionRecord, WriteBatchSingleDeletionRecord:
			cur, found = txnWrite{deleted: true}, true
		case WriteBatchCFMergeRecord, WriteBatchMergeRecord:
			var existing []byte
			if found {
				if !cur.deleted {
					existing = cloneBytes(cur.value)
				}
			} else if v, ok, err := t.m.get(nil, cf, key); err != nil {
				return cur, false, err
			} else if ok {
				existing = cloneBytes(v)
			}
			t.m.mu.RLock()
			mo := t.m.mergeOperatorLocked(cf)
			t.m.mu.RUnlock()
			if mo == nil {
				return cur, false, errors.New("Not implemented: Provide a merge_operator when opening DB")
			}
			nv, ok := mo.FullMerge(cloneBytes(key), existing, [][]byte{cloneBytes(op.value)})
			if !ok {
				return cur, false, errors.New("Corruption: Error: Could not perform merge.")
			}
			cur, found = txnWrite{value: nv}, true
		}
	}
	return cur, found, nil
}

func (t *txnState) get(ro *ReadOptions, cf uint32, key []byte) ([]byte, bool, error) {
	t.mu.Lock()
	defer t.mu.Unlock()
	w, found, err := t.pending(cf, key)
	if err != nil {
		return nil, false, err
	}
	if found {
		if w.deleted {
			return nil, false, nil
		}
		return w.value, true, nil
	}
	return t.m.get(ro, cf, key)
}

func (t *txnState) write(op wbOp) error {
	if t.done {
		return errors.New("Invalid argument: Transaction has already been committed or rolled back")
	}
	// normalise to the CF flavoured record types
	switch op.t {
	case WriteBatchValueRecord:
		op.t = WriteBatchCFValueRecord
	case WriteBatchDeletionRecord:
		op.t = WriteBatchCFDeletionRecord
	case WriteBatchSingleDeletionRecord:
		op.t = WriteBatchCFSingleDeletionRecord
	case WriteBatchMergeRecord:
		op.t = WriteBatchCFMergeRecord
	case WriteBatchRangeDeletion, WriteBatchCFRangeDeletion:
		return errors.New("Not implemented: DeleteRange is not supported in transactions")
	}
	if err := t.lock(op.cf, op.key); err != nil {
		return err
	}
	t.mu.Lock()
	t.ops = append(t.ops, op)
	t.mu.Unlock()
	return nil
}

func (t *txnState) commit() error {
	t.mu.Lock()
	if t.done {
		t.mu.Unlock()
		return errors.New("Invalid argument: Transaction has already been committed or rolled back")
	}
	ops := t.ops
	t.ops = nil
	t.savePoints = nil
	t.done = true
	t.mu.Unlock()
	err := checkWriteOptions(t.wo)
	if err == nil {
		err = t.m.apply(ops)
	}
	t.release()
	return err
}

func (t *txnState) rollback() error {
	t.mu.Lock()
	t.ops = nil
	t.savePoints = nil
	t.mu.Unlock()
	t.release()
	return nil
}

// iterator returns a merged view of the database and the uncommitted writes of
// the transaction.
func (t *txnState) iterator(ro *ReadOptions, cf uint32) *Iterator {
	items, cmp := t.m.sortedPairs(ro, cf)
	t.mu.Lock()
	defer t.mu.Unlock()
	touched := map[string]bool{}
	for _, op := range t.ops {
		if op.cf == cf {
			touched[string(op.key)] = true
		}
	}
	if len(touched) == 0 {
		return newMemIterator(items, cmp)
	}
	merged := make([]kvPair, 0, len(items)+len(touched))
	for _, it := range items {
		if !touched[string(it.k)] {
			merged = append(merged, it)
		}
	}
	for k := range touched {
		kb := []byte(k)
		if ro != nil {
			if ro.iterLowerBound != nil && cmp(kb, ro.iterLowerBound) < 0 {
				continue
			}
			if ro.iterUpperBound != nil && cmp(kb, ro.iterUpperBound) >= 0 {
				continue
			}
		}
		w, found, err := t.pending(cf, kb)
		if err != nil || !found || w.deleted {
			continue
		}
		merged = append(merged, kvPair{kb, w.value})
	}
	sort.Slice(merged, func(i, j int) bool { return cmp(merged[i].k, merged[j].k) < 0 })
	return newMemIterator(merged, cmp)
}
