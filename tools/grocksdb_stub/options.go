// Code derived from github.com/linxGnu/grocksdb v1.8.1 (options.go) with all cgo removed.
// Pure-Go STUB for offline compilation and testing. Not a real RocksDB binding.

package grocksdb

import (
	"unsafe"
)

// CompressionType specifies the block compression.
// DB contents are stored in a set of blocks, each of which holds a
// sequence of key,value pairs. Each block may be compressed before
// being stored in a file. The following enum describes which
// compression method (if any) is used to compress a block.
type CompressionType uint

// Compression types.
const (
	NoCompression     = CompressionType(0)
	SnappyCompression = CompressionType(1)
	ZLibCompression   = CompressionType(2)
	Bz2Compression    = CompressionType(3)
	LZ4Compression    = CompressionType(4)
	LZ4HCCompression  = CompressionType(5)
	XpressCompression = CompressionType(6)
	ZSTDCompression   = CompressionType(7)
)

// CompactionStyle specifies the compaction style.
type CompactionStyle uint

// Compaction styles.
const (
	LevelCompactionStyle     = CompactionStyle(0)
	UniversalCompactionStyle = CompactionStyle(1)
	FIFOCompactionStyle      = CompactionStyle(2)
)

// CompactionAccessPattern specifies the access patern in compaction.
type CompactionAccessPattern uint

// Access patterns for compaction.
const (
	NoneCompactionAccessPattern       = CompactionAccessPattern(0)
	NormalCompactionAccessPattern     = CompactionAccessPattern(1)
	SequentialCompactionAccessPattern = CompactionAccessPattern(2)
	WillneedCompactionAccessPattern   = CompactionAccessPattern(3)
)

// InfoLogLevel describes the log level.
type InfoLogLevel uint

// Log leves.
const (
	DebugInfoLogLevel = InfoLogLevel(0)
	InfoInfoLogLevel  = InfoLogLevel(1)
	WarnInfoLogLevel  = InfoLogLevel(2)
	ErrorInfoLogLevel = InfoLogLevel(3)
	FatalInfoLogLevel = InfoLogLevel(4)
)

// WALRecoveryMode mode of WAL Recovery.
type WALRecoveryMode int

const (
	// TolerateCorruptedTailRecordsRecovery is original levelDB recovery
	// We tolerate incomplete record in trailing data on all logs
	// Use case : This is legacy behavior
	TolerateCorruptedTailRecordsRecovery = WALRecoveryMode(0)
	// AbsoluteConsistencyRecovery recover from clean shutdown
	// We don't expect to find any corruption in the WAL
	// Use case : This is ideal for unit tests and rare applications that
	// can require high consistency guarantee
	AbsoluteConsistencyRecovery = WALRecoveryMode(1)
	// PointInTimeRecovery recover to point-in-time consistency (default)
	// We stop the WAL playback on discovering WAL inconsistency
	// Use case : Ideal for systems that have disk controller cache like
	// hard disk, SSD without super capacitor that store related data
	PointInTimeRecovery = WALRecoveryMode(2)
	// SkipAnyCorruptedRecordsRecovery recovery after a disaster
	// We ignore any corruption in the WAL and try to salvage as much data as
	// possible
	// Use case : Ideal for last ditch effort to recover data or systems that
	// operate with low grade unrelated data
	SkipAnyCorruptedRecordsRecovery = WALRecoveryMode(3)
)

// PrepopulateBlob represents strategy for prepopulate warm/hot blobs which are already in memory into
// blob cache at the time of flush.
type PrepopulateBlob int

const (
	// PrepopulateBlobDisable disables prepopulate blob cache.
	PrepopulateBlobDisable = PrepopulateBlob(0)
	// PrepopulateBlobFlushOnly prepopulates blobs during flush only.
	PrepopulateBlobFlushOnly = PrepopulateBlob(1)
)

// Options represent all of the available options when opening a database with Open.
type Options struct {
	// stub: the few options that influence the in-memory engine
	createIfMissing               bool
	errorIfExists                 bool
	createIfMissingColumnFamilies bool
	mergeOperator                 MergeOperator
	comparator                    *Comparator

	// Hold references for GC.
	bbto *BlockBasedTableOptions

	// We keep these so we can free their memory in Destroy.

}

// NewDefaultOptions creates the default Options.
func NewDefaultOptions() *Options {
	return &Options{}
}

// GetOptionsFromString creates a Options object from existing opt and string.
// If base is nil, a default opt create by NewDefaultOptions will be used as base opt.
func GetOptionsFromString(base *Options, optStr string) (newOpt *Options, err error) {
	return
}

// Clone the options
func (opts *Options) Clone() *Options {
	c := *opts
	return &c
}

// SetCompactionFilter sets the specified compaction filter
// which will be applied on compactions.
//
// Default: nil
func (opts *Options) SetCompactionFilter(value CompactionFilter) {
}

// SetComparator sets the comparator which define the order of keys in the table.
// This operation is `move`, thus underlying native c-pointer is owned by Options.
// `cmp` is no longer usable.
//
// Default: a comparator that uses lexicographic byte-wise ordering
func (opts *Options) SetComparator(cmp *Comparator) {
	opts.comparator = cmp
}

// SetNativeComparator sets the comparator which define the order of keys in the table.
//
// Default: a comparator that uses lexicographic byte-wise ordering
func (opts *Options) SetNativeComparator(cmp unsafe.Pointer) {
}

// SetMergeOperator sets the merge operator which will be called
// if a merge operations are used.
//
// Default: nil
func (opts *Options) SetMergeOperator(value MergeOperator) {
	opts.mergeOperator = value
}

// SetCreateIfMissing specifies whether the database
// should be created if it is missing.
// Default: false
func (opts *Options) SetCreateIfMissing(value bool) {
	opts.createIfMissing = value
}

// CreateIfMissing checks if create_if_mission option is set
func (opts *Options) CreateIfMissing() bool {
	return opts.createIfMissing
}

// SetErrorIfExists specifies whether an error should be raised
// if the database already exists.
// Default: false
func (opts *Options) SetErrorIfExists(value bool) {
	opts.errorIfExists = value
}

// ErrorIfExists checks if error_if_exist option is set
func (opts *Options) ErrorIfExists() bool {
	return opts.errorIfExists
}

// SetParanoidChecks enable/disable paranoid checks.
//
// If true, the implementation will do aggressive checking of the
// data it is processing and will stop early if it detects any
// errors. This may have unforeseen ramifications: for example, a
// corruption of one DB entry may cause a large number of entries to
// become unreadable or for the entire DB to become unopenable.
// If any of the  writes to the database fails (Put, Delete, Merge, Write),
// the database will switch to read-only mode and fail all other
// Write operations.
// Default: false
func (opts *Options) SetParanoidChecks(value bool) {
}

// ParanoidChecks checks if paranoid_check option is set
func (opts *Options) ParanoidChecks() bool {
	return false
}

// SetDBPaths sets the DBPaths of the options.
//
// A list of paths where SST files can be put into, with its target size.
// Newer data is placed into paths specified earlier in the vector while
// older data gradually moves to paths specified later in the vector.
//
// For example, you have a flash device with 10GB allocated for the DB,
// as well as a hard drive of 2TB, you should config it to be:
//
//	[{"/flash_path", 10GB}, {"/hard_drive", 2TB}]
//
// The system will try to guarantee data under each path is close to but
// not larger than the target size. But current and future file sizes used
// by determining where to place a file are based on best-effort estimation,
// which means there is a chance that the actual size under the directory
// is slightly more than target size under some workloads. User should give
// some buffer room for those cases.
//
// If none of the paths has sufficient room to place a file, the file will
// be placed to the last path anyway, despite to the target size.
//
// Placing newer data to earlier paths is also best-efforts. User should
// expect user files to be placed in higher levels in some extreme cases.
//
// If left empty, only one path will be used, which is db_name passed when
// opening the DB.
//
// Default: empty
func (opts *Options) SetDBPaths(dbpaths []*DBPath) {
}

// SetEnv sets the specified object to interact with the environment,
// e.g. to read/write files, schedule background work, etc.
//
// NOTE: move semantic. Don't use env after calling this function
func (opts *Options) SetEnv(env *Env) {
}

// SetInfoLogLevel sets the info log level.
//
// Default: InfoInfoLogLevel
func (opts *Options) SetInfoLogLevel(value InfoLogLevel) {
}

// GetInfoLogLevel gets the info log level which options hold
func (opts *Options) GetInfoLogLevel() InfoLogLevel {
	return *new(InfoLogLevel)
}

// IncreaseParallelism sets the parallelism.
//
// By default, RocksDB uses only one background thread for flush and
// compaction. Calling this function will set it up such that total of
// `total_threads` is used. Good value for `total_threads` is the number of
// cores. You almost definitely want to call this function if your system is
// bottlenecked by RocksDB.
func (opts *Options) IncreaseParallelism(totalThreads int) {
}

// OptimizeForPointLookup optimize the DB for point lookups.
//
// Use this if you don't need to keep the data sorted, i.e. you'll never use
// an iterator, only Put() and Get() API calls
//
// If you use this with rocksdb >= 5.0.2, you must call `SetAllowConcurrentMemtableWrites(false)`
// to avoid an assertion error immediately on opening the db.
func (opts *Options) OptimizeForPointLookup(blockCacheSizeMB uint64) {
}

// OptimizeLevelStyleCompaction optimize the DB for leveld compaction.
//
// Default values for some parameters in ColumnFamilyOptions are not
// optimized for heavy workloads and big datasets, which means you might
// observe write stalls under some conditions. As a starting point for tuning
// RocksDB options, use the following two functions:
// * OptimizeLevelStyleCompaction -- optimizes level style compaction
// * OptimizeUniversalStyleCompaction -- optimizes universal style compaction
// Universal style compaction is focused on reducing Write Amplification
// Factor for big data sets, but increases Space Amplification. You can learn
// more about the different styles here:
// https://github.com/facebook/rocksdb/wiki/Rocksdb-Architecture-Guide
// Make sure to also call IncreaseParallelism(), which will provide the
// biggest performance gains.
// Note: we might use more memory than memtable_memory_budget during high
// write rate period
func (opts *Options) OptimizeLevelStyleCompaction(memtableMemoryBudget uint64) {
}

// OptimizeUniversalStyleCompaction optimize the DB for universal compaction.
// See note on OptimizeLevelStyleCompaction.
func (opts *Options) OptimizeUniversalStyleCompaction(memtableMemoryBudget uint64) {
}

// SetAllowConcurrentMemtableWrites whether to allow concurrent memtable writes. Conccurent writes are
// not supported by all memtable factories (currently only SkipList memtables).
// As of rocksdb 5.0.2 you must call `SetAllowConcurrentMemtableWrites(false)`
// if you use `OptimizeForPointLookup`.
func (opts *Options) SetAllowConcurrentMemtableWrites(allow bool) {
}

// AllowConcurrentMemtableWrites whether to allow concurrent memtable writes. Conccurent writes are
// not supported by all memtable factories (currently only SkipList memtables).
// As of rocksdb 5.0.2 you must call `SetAllowConcurrentMemtableWrites(false)`
// if you use `OptimizeForPointLookup`.
func (opts *Options) AllowConcurrentMemtableWrites() bool {
	return false
}

// SetWriteBufferSize sets the amount of data to build up in memory
// (backed by an unsorted log on disk) before converting to a sorted on-disk file.
//
// Larger values increase performance, especially during bulk loads.
// Up to max_write_buffer_number write buffers may be held in memory
// at the same time,
// so you may wish to adjust this parameter to control memory usage.
// Also, a larger write buffer will result in a longer recovery time
// the next time the database is opened.
//
// Default: 64MB
func (opts *Options) SetWriteBufferSize(value uint64) {
}

// GetWriteBufferSize gets write_buffer_size which is set for options
func (opts *Options) GetWriteBufferSize() uint64 {
	return 0
}

// SetMaxWriteBufferNumber sets the maximum number of write buffers
// that are built up in memory.
//
// The default is 2, so that when 1 write buffer is being flushed to
// storage, new writes can continue to the other write buffer.
//
// Default: 2
func (opts *Options) SetMaxWriteBufferNumber(value int) {
}

// GetMaxWriteBufferNumber gets the maximum number of write buffers
// that are built up in memory.
func (opts *Options) GetMaxWriteBufferNumber() int {
	return 0
}

// SetMinWriteBufferNumberToMerge sets the minimum number of write buffers
// that will be merged together before writing to storage.
//
// If set to 1, then all write buffers are flushed to L0 as individual files
// and this increases read amplification because a get request has to check
// in all of these files. Also, an in-memory merge may result in writing lesser
// data to storage if there are duplicate records in each of these
// individual write buffers.
//
// Default: 1
func (opts *Options) SetMinWriteBufferNumberToMerge(value int) {
}

// GetMinWriteBufferNumberToMerge gets the minimum number of write buffers
// that will be merged together before writing to storage.
func (opts *Options) GetMinWriteBufferNumberToMerge() int {
	return 0
}

// SetMaxOpenFiles sets the number of open files that can be used by the DB.
//
// You may need to increase this if your database has a large working set
// (budget one open file per 2MB of working set).
//
// Default: -1 - unlimited
func (opts *Options) SetMaxOpenFiles(value int) {
}

// GetMaxOpenFiles gets the number of open files that can be used by the DB.
func (opts *Options) GetMaxOpenFiles() int {
	return 0
}

// SetMaxFileOpeningThreads sets the maximum number of file opening threads.
// If max_open_files is -1, DB will open all files on DB::Open(). You can
// use this option to increase the number of threads used to open the files.
//
// Default: 16
func (opts *Options) SetMaxFileOpeningThreads(value int) {
}

// GetMaxFileOpeningThreads gets the maximum number of file opening threads.
func (opts *Options) GetMaxFileOpeningThreads() int {
	return 0
}

// SetMaxTotalWalSize sets the maximum total wal size (in bytes).
// Once write-ahead logs exceed this size, we will start forcing the flush of
// column families whose memtables are backed by the oldest live WAL file
// (i.e. the ones that are causing all the space amplification). If set to 0
// (default), we will dynamically choose the WAL size limit to be
// [sum of all write_buffer_size * max_write_buffer_number] * 4
// Default: 0
func (opts *Options) SetMaxTotalWalSize(value uint64) {
}

// GetMaxTotalWalSize gets the maximum total wal size (in bytes).
func (opts *Options) GetMaxTotalWalSize() uint64 {
	return 0
}

// SetCompression sets the compression algorithm.
//
// Default: SnappyCompression, which gives lightweight but fast
// compression.
func (opts *Options) SetCompression(value CompressionType) {
}

// GetCompression returns the compression algorithm.
func (opts *Options) GetCompression() CompressionType {
	return *new(CompressionType)
}

// SetCompressionOptions sets different options for compression algorithms.
func (opts *Options) SetCompressionOptions(value CompressionOptions) {
}

// SetBottommostCompression sets the compression algorithm for
// bottommost level.
func (opts *Options) SetBottommostCompression(value CompressionType) {
}

// GetBottommostCompression returns the compression algorithm for
// bottommost level.
func (opts *Options) GetBottommostCompression() CompressionType {
	return *new(CompressionType)
}

// SetBottommostCompressionOptions sets different options for compression algorithms, for bottommost.
//
// `enabled` true to use these compression options.
func (opts *Options) SetBottommostCompressionOptions(value CompressionOptions, enabled bool) {
}

// SetCompressionPerLevel sets different compression algorithm per level.
//
// Different levels can have different compression policies. There
// are cases where most lower levels would like to quick compression
// algorithm while the higher levels (which have more data) use
// compression algorithms that have better compression but could
// be slower. This array should have an entry for
// each level of the database. This array overrides the
// value specified in the previous field 'compression'.
func (opts *Options) SetCompressionPerLevel(value []CompressionType) {
}

// SetCompressionOptionsZstdMaxTrainBytes sets maximum size of training data passed
// to zstd's dictionary trainer. Using zstd's dictionary trainer can achieve even
// better compression ratio improvements than using `max_dict_bytes` alone.
//
// The training data will be used to generate a dictionary of max_dict_bytes.
//
// Default: 0.
func (opts *Options) SetCompressionOptionsZstdMaxTrainBytes(value int) {
}

// GetCompressionOptionsZstdMaxTrainBytes gets maximum size of training data passed
// to zstd's dictionary trainer. Using zstd's dictionary trainer can achieve even
// better compression ratio improvements than using `max_dict_bytes` alone.
func (opts *Options) GetCompressionOptionsZstdMaxTrainBytes() int {
	return 0
}

// SetCompressionOptionsZstdDictTrainer uses/not use zstd trainer to generate dictionaries.
// When this option is set to true, zstd_max_train_bytes of training data sampled from
// max_dict_buffer_bytes buffered data will be passed to zstd dictionary trainer to generate a
// dictionary of size max_dict_bytes.
//
// When this option is false, zstd's API ZDICT_finalizeDictionary() will be
// called to generate dictionaries. zstd_max_train_bytes of training sampled
// data will be passed to this API. Using this API should save CPU time on
// dictionary training, but the compression ratio may not be as good as using
// a dictionary trainer.
//
// Default: true
func (opts *Options) SetCompressionOptionsZstdDictTrainer(enabled bool) {
}

// GetCompressionOptionsZstdDictTrainer returns if zstd dict trainer is used or not.
func (opts *Options) GetCompressionOptionsZstdDictTrainer() bool {
	return false
}

// SetCompressionOptionsParallelThreads sets number of threads for
// parallel compression. Parallel compression is enabled only if threads > 1.
//
// This option is valid only when BlockBasedTable is used.
//
// When parallel compression is enabled, SST size file sizes might be
// more inflated compared to the target size, because more data of unknown
// compressed size is in flight when compression is parallelized. To be
// reasonably accurate, this inflation is also estimated by using historical
// compression ratio and current bytes inflight.
//
// Default: 1.
//
// Note: THE FEATURE IS STILL EXPERIMENTAL
func (opts *Options) SetCompressionOptionsParallelThreads(n int) {
}

// GetCompressionOptionsParallelThreads returns  number of threads for
// parallel compression. Parallel compression is enabled only if threads > 1.
//
// This option is valid only when BlockBasedTable is used.
// Default: 1.
//
// Note: THE FEATURE IS STILL EXPERIMENTAL
func (opts *Options) GetCompressionOptionsParallelThreads() int {
	return 0
}

// SetCompressionOptionsMaxDictBufferBytes limits on data buffering when
// gathering samples to build a dictionary.  Zero means no limit. When dictionary
// is disabled (`max_dict_bytes == 0`), enabling this limit (`max_dict_buffer_bytes != 0`)
// has no effect.
//
// In compaction, the buffering is limited to the target file size (see
// `target_file_size_base` and `target_file_size_multiplier`) even if this
// setting permits more buffering. Since we cannot determine where the file
// should be cut until data blocks are compressed with dictionary, buffering
// more than the target file size could lead to selecting samples that belong
// to a later output SST.
//
// Limiting too strictly may harm dictionary effectiveness since it forces
// RocksDB to pick samples from the initial portion of the output SST, which
// may not be representative of the whole file. Configuring this limit below
// `zstd_max_train_bytes` (when enabled) can restrict how many samples we can
// pass to the dictionary trainer. Configuring it below `max_dict_bytes` can
// restrict the size of the final dictionary.
//
// Default: 0 (unlimited)
func (opts *Options) SetCompressionOptionsMaxDictBufferBytes(value uint64) {
}

// GetCompressionOptionsMaxDictBufferBytes returns the limit on data buffering when
// gathering samples to build a dictionary.  Zero means no limit. When dictionary
// is disabled (`max_dict_bytes == 0`), enabling this limit (`max_dict_buffer_bytes != 0`)
// has no effect.
func (opts *Options) GetCompressionOptionsMaxDictBufferBytes() uint64 {
	return 0
}

// SetBottommostCompressionOptionsZstdMaxTrainBytes sets maximum size of training data passed
// to zstd's dictionary trainer for bottommost level. Using zstd's dictionary trainer can achieve even
// better compression ratio improvements than using `max_dict_bytes` alone.
//
// `enabled` true to use these compression options.
func (opts *Options) SetBottommostCompressionOptionsZstdMaxTrainBytes(value int, enabled bool) {
}

// SetBottommostCompressionOptionsMaxDictBufferBytes limits on data buffering
// when gathering samples to build a dictionary, for bottom most level.
// Zero means no limit. When dictionary is disabled (`max_dict_bytes == 0`),
// enabling this limit (`max_dict_buffer_bytes != 0`) has no effect.
//
// In compaction, the buffering is limited to the target file size (see
// `target_file_size_base` and `target_file_size_multiplier`) even if this
// setting permits more buffering. Since we cannot determine where the file
// should be cut until data blocks are compressed with dictionary, buffering
// more than the target file size could lead to selecting samples that belong
// to a later output SST.
//
// Limiting too strictly may harm dictionary effectiveness since it forces
// RocksDB to pick samples from the initial portion of the output SST, which
// may not be representative of the whole file. Configuring this limit below
// `zstd_max_train_bytes` (when enabled) can restrict how many samples we can
// pass to the dictionary trainer. Configuring it below `max_dict_bytes` can
// restrict the size of the final dictionary.
//
// Default: 0 (unlimited)
func (opts *Options) SetBottommostCompressionOptionsMaxDictBufferBytes(value uint64, enabled bool) {
}

// SetBottommostCompressionOptionsZstdDictTrainer uses/not use zstd trainer to generate dictionaries.
// When this option is set to true, zstd_max_train_bytes of training data sampled from
// max_dict_buffer_bytes buffered data will be passed to zstd dictionary trainer to generate a
// dictionary of size max_dict_bytes.
//
// When this option is false, zstd's API ZDICT_finalizeDictionary() will be
// called to generate dictionaries. zstd_max_train_bytes of training sampled
// data will be passed to this API. Using this API should save CPU time on
// dictionary training, but the compression ratio may not be as good as using
// a dictionary trainer.
//
// Default: true
func (opts *Options) SetBottommostCompressionOptionsZstdDictTrainer(enabled bool) {
}

// GetBottommostCompressionOptionsZstdDictTrainer returns if zstd dict trainer is used or not.
func (opts *Options) GetBottommostCompressionOptionsZstdDictTrainer() bool {
	return false
}

// SetMinLevelToCompress sets the start level to use compression.
func (opts *Options) SetMinLevelToCompress(value int) {
}

// SetPrefixExtractor sets the prefic extractor.
//
// If set, use the specified function to determine the
// prefixes for keys. These prefixes will be placed in the filter.
// Depending on the workload, this can reduce the number of read-IOP
// cost for scans when a prefix is passed via ReadOptions to
// db.NewIterator().
//
// Note: move semantic. Don't use slice transform after calling this function.
func (opts *Options) SetPrefixExtractor(value SliceTransform) {
}

// SetNumLevels sets the number of levels for this database.
//
// Default: 7
func (opts *Options) SetNumLevels(value int) {
}

// GetNumLevels gets the number of levels.
func (opts *Options) GetNumLevels() int {
	return 0
}

// SetLevel0FileNumCompactionTrigger sets the number of files
// to trigger level-0 compaction.
//
// A value <0 means that level-0 compaction will not be
// triggered by number of files at all.
//
// Default: 2
func (opts *Options) SetLevel0FileNumCompactionTrigger(value int) {
}

// GetLevel0FileNumCompactionTrigger gets the number of files to trigger level-0 compaction.
func (opts *Options) GetLevel0FileNumCompactionTrigger() int {
	return 0
}

// SetLevel0SlowdownWritesTrigger sets the soft limit on number of level-0 files.
//
// We start slowing down writes at this point.
// A value <0 means that no writing slow down will be triggered by
// number of files in level-0.
//
// Default: 20
func (opts *Options) SetLevel0SlowdownWritesTrigger(value int) {
}

// GetLevel0SlowdownWritesTrigger gets the soft limit on number of level-0 files.
// We start slowing down writes at this point.
func (opts *Options) GetLevel0SlowdownWritesTrigger() int {
	return 0
}

// SetLevel0StopWritesTrigger sets the maximum number of level-0 files.
// We stop writes at this point.
//
// Default: 36
func (opts *Options) SetLevel0StopWritesTrigger(value int) {
}

// GetLevel0StopWritesTrigger gets the maximum number of level-0 files.
// We stop writes at this point.
func (opts *Options) GetLevel0StopWritesTrigger() int {
	return 0
}

// SetTargetFileSizeBase sets the target file size for compaction.
//
// Target file size is per-file size for level-1.
// Target file size for level L can be calculated by
// target_file_size_base * (target_file_size_multiplier ^ (L-1))
//
// For example, if target_file_size_base is 2MB and
// target_file_size_multiplier is 10, then each file on level-1 will
// be 2MB, and each file on level 2 will be 20MB,
// and each file on level-3 will be 200MB.
//
// Default: 1MB
func (opts *Options) SetTargetFileSizeBase(value uint64) {
}

// GetTargetFileSizeBase gets the target file size base for compaction.
func (opts *Options) GetTargetFileSizeBase() uint64 {
	return 0
}

// SetTargetFileSizeMultiplier sets the target file size multiplier for compaction.
//
// Default: 1
func (opts *Options) SetTargetFileSizeMultiplier(value int) {
}

// GetTargetFileSizeMultiplier gets the target file size multiplier for compaction.
func (opts *Options) GetTargetFileSizeMultiplier() int {
	return 0
}

// SetMaxBytesForLevelBase sets the maximum total data size for a level.
//
// It is the max total for level-1.
// Maximum number of bytes for level L can be calculated as
// (max_bytes_for_level_base) * (max_bytes_for_level_multiplier ^ (L-1))
//
// For example, if max_bytes_for_level_base is 20MB, and if
// max_bytes_for_level_multiplier is 10, total data size for level-1
// will be 20MB, total file size for level-2 will be 200MB,
// and total file size for level-3 will be 2GB.
//
// Default: 10MB
func (opts *Options) SetMaxBytesForLevelBase(value uint64) {
}

// GetMaxBytesForLevelBase gets the maximum total data size for a level.
func (opts *Options) GetMaxBytesForLevelBase() uint64 {
	return 0
}

// SetMaxBytesForLevelMultiplier sets the max bytes for level multiplier.
//
// Default: 10
func (opts *Options) SetMaxBytesForLevelMultiplier(value float64) {
}

// GetMaxBytesForLevelMultiplier gets the max bytes for level multiplier.
func (opts *Options) GetMaxBytesForLevelMultiplier() float64 {
	return 0
}

// SetLevelCompactionDynamicLevelBytes specifies whether to pick
// target size of each level dynamically.
//
// We will pick a base level b >= 1. L0 will be directly merged into level b,
// instead of always into level 1. Level 1 to b-1 need to be empty.
// We try to pick b and its target size so that
//  1. target size is in the range of
//     (max_bytes_for_level_base / max_bytes_for_level_multiplier,
//     max_bytes_for_level_base]
//  2. target size of the last level (level num_levels-1) equals to extra size
//     of the level.
//
// At the same time max_bytes_for_level_multiplier and
// max_bytes_for_level_multiplier_additional are still satisfied.
//
// With this option on, from an empty DB, we make last level the base level,
// which means merging L0 data into the last level, until it exceeds
// max_bytes_for_level_base. And then we make the second last level to be
// base level, to start to merge L0 data to second last level, with its
// target size to be 1/max_bytes_for_level_multiplier of the last level's
// extra size. After the data accumulates more so that we need to move the
// base level to the third last one, and so on.
//
// For example, assume max_bytes_for_level_multiplier=10, num_levels=6,
// and max_bytes_for_level_base=10MB.
// Target sizes of level 1 to 5 starts with:
// [- - - - 10MB]
// with base level is level. Target sizes of level 1 to 4 are not applicable
// because they will not be used.
// Until the size of Level 5 grows to more than 10MB, say 11MB, we make
// base target to level 4 and now the targets looks like:
// [- - - 1.1MB 11MB]
// While data are accumulated, size targets are tuned based on actual data
// of level 5. When level 5 has 50MB of data, the target is like:
// [- - - 5MB 50MB]
// Until level 5's actual size is more than 100MB, say 101MB. Now if we keep
// level 4 to be the base level, its target size needs to be 10.1MB, which
// doesn't satisfy the target size range. So now we make level 3 the target
// size and the target sizes of the levels look like:
// [- - 1.01MB 10.1MB 101MB]
// In the same way, while level 5 further grows, all levels' targets grow,
// like
// [- - 5MB 50MB 500MB]
// Until level 5 exceeds 1000MB and becomes 1001MB, we make level 2 the
// base level and make levels' target sizes like this:
// [- 1.001MB 10.01MB 100.1MB 1001MB]
// and go on...
//
// By doing it, we give max_bytes_for_level_multiplier a priority against
// max_bytes_for_level_base, for a more predictable LSM tree shape. It is
// useful to limit worse case space amplification.
//
// max_bytes_for_level_multiplier_additional is ignored with this flag on.
//
// Turning this feature on or off for an existing DB can cause unexpected
// LSM tree structure so it's not recommended.
//
// Default: false
func (opts *Options) SetLevelCompactionDynamicLevelBytes(value bool) {
}

// GetLevelCompactionDynamicLevelBytes checks if level_compaction_dynamic_level_bytes option
// is set.
func (opts *Options) GetLevelCompactionDynamicLevelBytes() bool {
	return false
}

// SetMaxCompactionBytes sets the maximum number of bytes in all compacted files.
// We try to limit number of bytes in one compaction to be lower than this
// threshold. But it's not guaranteed.
// Value 0 will be sanitized.
//
// Default: result.target_file_size_base * 25
func (opts *Options) SetMaxCompactionBytes(value uint64) {
}

// GetMaxCompactionBytes returns the maximum number of bytes in all compacted files.
// We try to limit number of bytes in one compaction to be lower than this
// threshold. But it's not guaranteed.
func (opts *Options) GetMaxCompactionBytes() uint64 {
	return 0
}

// SetSoftPendingCompactionBytesLimit sets the threshold at which
// all writes will be slowed down to at least delayed_write_rate if estimated
// bytes needed to be compaction exceed this threshold.
//
// Default: 64GB
func (opts *Options) SetSoftPendingCompactionBytesLimit(value uint64) {
}

// GetSoftPendingCompactionBytesLimit returns the threshold at which
// all writes will be slowed down to at least delayed_write_rate if estimated
// bytes needed to be compaction exceed this threshold.
func (opts *Options) GetSoftPendingCompactionBytesLimit() uint64 {
	return 0
}

// SetHardPendingCompactionBytesLimit sets the bytes threshold at which
// all writes are stopped if estimated bytes needed to be compaction exceed
// this threshold.
//
// Default: 256GB
func (opts *Options) SetHardPendingCompactionBytesLimit(value uint64) {
}

// GetHardPendingCompactionBytesLimit returns the threshold at which
// all writes will be slowed down to at least delayed_write_rate if estimated
// bytes needed to be compaction exceed this threshold.
func (opts *Options) GetHardPendingCompactionBytesLimit() uint64 {
	return 0
}

// SetMaxBytesForLevelMultiplierAdditional sets different max-size multipliers
// for different levels.
//
// These are multiplied by max_bytes_for_level_multiplier to arrive
// at the max-size of each level.
//
// Default: 1 for each level
func (opts *Options) SetMaxBytesForLevelMultiplierAdditional(value []int) {
}

// SetUseFsync enable/disable fsync.
//
// If true, then every store to stable storage will issue a fsync.
// If false, then every store to stable storage will issue a fdatasync.
// This parameter should be set to true while storing data to
// filesystem like ext3 that can lose files after a reboot.
// Default: false
func (opts *Options) SetUseFsync(value bool) {
}

// UseFsync returns fsync setting.
func (opts *Options) UseFsync() bool {
	return false
}

// SetDbLogDir specifies the absolute info LOG dir.
//
// If it is empty, the log files will be in the same dir as data.
// If it is non empty, the log files will be in the specified dir,
// and the db data dir's absolute path will be used as the log file
// name's prefix.
// Default: empty
func (opts *Options) SetDbLogDir(value string) {
}

// SetWalDir specifies the absolute dir path for write-ahead logs (WAL).
//
// If it is empty, the log files will be in the same dir as data.
// If it is non empty, the log files will be in the specified dir,
// When destroying the db, all log files and the dir itopts is deleted.
// Default: empty
func (opts *Options) SetWalDir(value string) {
}

// SetDeleteObsoleteFilesPeriodMicros sets the periodicity
// when obsolete files get deleted.
//
// The files that get out of scope by compaction
// process will still get automatically delete on every compaction,
// regardless of this setting.
// Default: 6 hours
func (opts *Options) SetDeleteObsoleteFilesPeriodMicros(value uint64) {
}

// GetDeleteObsoleteFilesPeriodMicros returns the periodicity
// when obsolete files get deleted.
func (opts *Options) GetDeleteObsoleteFilesPeriodMicros() uint64 {
	return 0
}

// SetMaxBackgroundCompactions sets the maximum number of
// concurrent background compaction jobs, submitted to
// the default LOW priority thread pool
// Default: 1
//
// Deprecated: RocksDB automatically decides this based on the
// value of max_background_jobs. For backwards compatibility we will set
// `max_background_jobs = max_background_compactions + max_background_flushes`
// in the case where user sets at least one of `max_background_compactions` or
// `max_background_flushes` (we replace -1 by 1 in case one option is unset).
func (opts *Options) SetMaxBackgroundCompactions(value int) {
}

// GetMaxBackgroundCompactions returns maximum number of concurrent background compaction jobs setting.
func (opts *Options) GetMaxBackgroundCompactions() int {
	return 0
}

// SetMaxBackgroundFlushes sets the maximum number of
// concurrent background memtable flush jobs, submitted to
// the HIGH priority thread pool.
//
// By default, all background jobs (major compaction and memtable flush) go
// to the LOW priority pool. If this option is set to a positive number,
// memtable flush jobs will be submitted to the HIGH priority pool.
// It is important when the same Env is shared by multiple db instances.
// Without a separate pool, long running major compaction jobs could
// potentially block memtable flush jobs of other db instances, leading to
// unnecessary Put stalls.
// Default: 0
//
// Deprecated: RocksDB automatically decides this based on the
// value of max_background_jobs. For backwards compatibility we will set
// `max_background_jobs = max_background_compactions + max_background_flushes`
// in the case where user sets at least one of `max_background_compactions` or
// `max_background_flushes`.
func (opts *Options) SetMaxBackgroundFlushes(value int) {
}

// GetMaxBackgroundFlushes returns the maximum number of concurrent background
// memtable flush jobs setting.
func (opts *Options) GetMaxBackgroundFlushes() int {
	return 0
}

// SetMaxLogFileSize sets the maximum size of the info log file.
//
// If the log file is larger than `max_log_file_size`, a new info log
// file will be created.
// If max_log_file_size == 0, all logs will be written to one log file.
// Default: 0
func (opts *Options) SetMaxLogFileSize(value uint64) {
}

// GetMaxLogFileSize returns setting for maximum size of the info log file.
func (opts *Options) GetMaxLogFileSize() uint64 {
	return 0
}

// SetLogFileTimeToRoll sets the time for the info log file to roll (in seconds).
//
// If specified with non-zero value, log file will be rolled
// if it has been active longer than `log_file_time_to_roll`.
// Default: 0 (disabled)
func (opts *Options) SetLogFileTimeToRoll(value uint64) {
}

// GetLogFileTimeToRoll returns the time for info log file to roll (in seconds).
func (opts *Options) GetLogFileTimeToRoll() uint64 {
	return 0
}

// SetKeepLogFileNum sets the maximum info log files to be kept.
// Default: 1000
func (opts *Options) SetKeepLogFileNum(value uint) {
}

// GetKeepLogFileNum return setting for maximum info log files to be kept.
func (opts *Options) GetKeepLogFileNum() uint {
	return 0
}

// SetMaxManifestFileSize sets the maximum manifest file size until is rolled over.
// The older manifest file be deleted.
// Default: MAX_INT so that roll-over does not take place.
func (opts *Options) SetMaxManifestFileSize(value uint64) {
}

// GetMaxManifestFileSize returns the maximum manifest file size until is rolled over.
// The older manifest file be deleted.
func (opts *Options) GetMaxManifestFileSize() uint64 {
	return 0
}

// SetTableCacheNumshardbits sets the number of shards used for table cache.
// Default: 4
func (opts *Options) SetTableCacheNumshardbits(value int) {
}

// GetTableCacheNumshardbits returns the number of shards used for table cache.
func (opts *Options) GetTableCacheNumshardbits() int {
	return 0
}

// SetArenaBlockSize sets the size of one block in arena memory allocation.
//
// If <= 0, a proper value is automatically calculated (usually 1/10 of
// writer_buffer_size).
//
// Default: 0
func (opts *Options) SetArenaBlockSize(value uint64) {
}

// GetArenaBlockSize returns the size of one block in arena memory allocation.
func (opts *Options) GetArenaBlockSize() uint64 {
	return 0
}

// SetDisableAutoCompactions enable/disable automatic compactions.
//
// Manual compactions can still be issued on this database.
//
// Default: false
func (opts *Options) SetDisableAutoCompactions(value bool) {
}

// DisabledAutoCompactions returns if automatic compactions is disabled.
func (opts *Options) DisabledAutoCompactions() bool {
	return false
}

// SetWALRecoveryMode sets the recovery mode.
// Recovery mode to control the consistency while replaying WAL.
//
// Default: PointInTimeRecovery
func (opts *Options) SetWALRecoveryMode(mode WALRecoveryMode) {
}

// GetWALRecoveryMode returns the recovery mode.
func (opts *Options) GetWALRecoveryMode() WALRecoveryMode {
	return *new(WALRecoveryMode)
}

// SetWALTtlSeconds sets the WAL ttl in seconds.
//
// The following two options affect how archived logs will be deleted.
//  1. If both set to 0, logs will be deleted asap and will not get into
//     the archive.
//  2. If wal_ttl_seconds is 0 and wal_size_limit_mb is not 0,
//     WAL files will be checked every 10 min and if total size is greater
//     then wal_size_limit_mb, they will be deleted starting with the
//     earliest until size_limit is met. All empty files will be deleted.
//  3. If wal_ttl_seconds is not 0 and wall_size_limit_mb is 0, then
//     WAL files will be checked every wal_ttl_seconds / 2 and those that
//     are older than wal_ttl_seconds will be deleted.
//  4. If both are not 0, WAL files will be checked every 10 min and both
//     checks will be performed with ttl being first.
//
// Default: 0
func (opts *Options) SetWALTtlSeconds(value uint64) {
}

// GetWALTtlSeconds returns WAL ttl in seconds.
func (opts *Options) GetWALTtlSeconds() uint64 {
	return 0
}

// SetWalSizeLimitMb sets the WAL size limit in MB.
//
// If total size of WAL files is greater then wal_size_limit_mb,
// they will be deleted starting with the earliest until size_limit is met.
//
// Default: 0
func (opts *Options) SetWalSizeLimitMb(value uint64) {
}

// GetWalSizeLimitMb returns the WAL size limit in MB.
func (opts *Options) GetWalSizeLimitMb() uint64 {
	return 0
}

// SetEnablePipelinedWrite enables pipelined write.
//
// By default, a single write thread queue is maintained. The thread gets
// to the head of the queue becomes write batch group leader and responsible
// for writing to WAL and memtable for the batch group.
//
// If enable_pipelined_write is true, separate write thread queue is
// maintained for WAL write and memtable write. A write thread first enter WAL
// writer queue and then memtable writer queue. Pending thread on the WAL
// writer queue thus only have to wait for previous writers to finish their
// WAL writing but not the memtable writing. Enabling the feature may improve
// write throughput and reduce latency of the prepare phase of two-phase
// commit.
//
// Default: false
func (opts *Options) SetEnablePipelinedWrite(value bool) {
}

// EnabledPipelinedWrite check if enable_pipelined_write is turned on.
func (opts *Options) EnabledPipelinedWrite() bool {
	return false
}

// SetManifestPreallocationSize sets the number of bytes
// to preallocate (via fallocate) the manifest files.
//
// Default is 4MB, which is reasonable to reduce random IO
// as well as prevent overallocation for mounts that preallocate
// large amounts of data (such as xfs's allocsize option).
func (opts *Options) SetManifestPreallocationSize(value uint64) {
}

// GetManifestPreallocationSize returns the number of bytes
// to preallocate (via fallocate) the manifest files.
func (opts *Options) GetManifestPreallocationSize() uint64 {
	return 0
}

// SetAllowMmapReads enable/disable mmap reads for reading sst tables.
// Default: false
func (opts *Options) SetAllowMmapReads(value bool) {
}

// AllowMmapReads returns setting for enable/disable mmap reads for sst tables.
func (opts *Options) AllowMmapReads() bool {
	return false
}

// SetAllowMmapWrites enable/disable mmap writes for writing sst tables.
// Default: false
func (opts *Options) SetAllowMmapWrites(value bool) {
}

// AllowMmapWrites returns setting for enable/disable mmap writes for sst tables.
func (opts *Options) AllowMmapWrites() bool {
	return false
}

// SetUseDirectReads enable/disable direct I/O mode (O_DIRECT) for reads
// Default: false
func (opts *Options) SetUseDirectReads(value bool) {
}

// UseDirectReads returns setting for enable/disable direct I/O mode (O_DIRECT) for reads
func (opts *Options) UseDirectReads() bool {
	return false
}

// SetUseDirectIOForFlushAndCompaction enable/disable direct I/O mode (O_DIRECT) for both reads and writes in background flush and compactions
// When true, new_table_reader_for_compaction_inputs is forced to true.
// Default: false
func (opts *Options) SetUseDirectIOForFlushAndCompaction(value bool) {
}

// UseDirectIOForFlushAndCompaction returns setting for enable/disable direct I/O mode (O_DIRECT)
// for both reads and writes in background flush and compactions
func (opts *Options) UseDirectIOForFlushAndCompaction() bool {
	return false
}

// SetIsFdCloseOnExec enable/dsiable child process inherit open files.
// Default: true
func (opts *Options) SetIsFdCloseOnExec(value bool) {
}

// IsFdCloseOnExec returns setting for enable/dsiable child process inherit open files.
func (opts *Options) IsFdCloseOnExec() bool {
	return false
}

// SetStatsDumpPeriodSec sets the stats dump period in seconds.
//
// If not zero, dump stats to LOG every stats_dump_period_sec
// Default: 3600 (1 hour)
func (opts *Options) SetStatsDumpPeriodSec(value uint) {
}

// GetStatsDumpPeriodSec returns the stats dump period in seconds.
func (opts *Options) GetStatsDumpPeriodSec() uint {
	return 0
}

// SetStatsPersistPeriodSec if not zero, dump rocksdb.stats to RocksDB every stats_persist_period_sec
//
// Default: 600
func (opts *Options) SetStatsPersistPeriodSec(value uint) {
}

// GetStatsPersistPeriodSec returns number of sec that RocksDB periodically dump stats.
func (opts *Options) GetStatsPersistPeriodSec() uint {
	return 0
}

// SetAdviseRandomOnOpen specifies whether we will hint the underlying
// file system that the file access pattern is random, when a sst file is opened.
// Default: true
func (opts *Options) SetAdviseRandomOnOpen(value bool) {
}

// AdviseRandomOnOpen returns whether we will hint the underlying
// file system that the file access pattern is random, when a sst file is opened.
func (opts *Options) AdviseRandomOnOpen() bool {
	return false
}

// SetDbWriteBufferSize sets the amount of data to build up
// in memtables across all column families before writing to disk.
//
// This is distinct from write_buffer_size, which enforces a limit
// for a single memtable.
//
// This feature is disabled by default. Specify a non-zero value
// to enable it.
//
// Default: 0 (disabled)
func (opts *Options) SetDbWriteBufferSize(value uint64) {
}

// GetDbWriteBufferSize gets db_write_buffer_size which is set in options
func (opts *Options) GetDbWriteBufferSize() uint64 {
	return 0
}

// SetAccessHintOnCompactionStart specifies the file access pattern
// once a compaction is started.
//
// It will be applied to all input files of a compaction.
// Default: NormalCompactionAccessPattern
func (opts *Options) SetAccessHintOnCompactionStart(value CompactionAccessPattern) {
}

// GetAccessHintOnCompactionStart returns the file access pattern
// once a compaction is started.
func (opts *Options) GetAccessHintOnCompactionStart() CompactionAccessPattern {
	return *new(CompactionAccessPattern)
}

// SetUseAdaptiveMutex enable/disable adaptive mutex, which spins
// in the user space before resorting to kernel.
//
// This could reduce context switch when the mutex is not
// heavily contended. However, if the mutex is hot, we could end up
// wasting spin time.
// Default: false
func (opts *Options) SetUseAdaptiveMutex(value bool) {
}

// UseAdaptiveMutex returns setting for enable/disable adaptive mutex, which spins
// in the user space before resorting to kernel.
func (opts *Options) UseAdaptiveMutex() bool {
	return false
}

// SetBytesPerSync sets the bytes per sync.
//
// Allows OS to incrementally sync files to disk while they are being
// written, asynchronously, in the background.
// Issue one request for every bytes_per_sync written.
// Default: 0 (disabled)
func (opts *Options) SetBytesPerSync(value uint64) {
}

// GetBytesPerSync return setting for bytes (size) per sync.
func (opts *Options) GetBytesPerSync() uint64 {
	return 0
}

// SetCompactionStyle sets compaction style.
//
// Default: LevelCompactionStyle
func (opts *Options) SetCompactionStyle(value CompactionStyle) {
}

// GetCompactionStyle returns compaction style.
func (opts *Options) GetCompactionStyle() CompactionStyle {
	return *new(CompactionStyle)
}

// SetUniversalCompactionOptions sets the options needed
// to support Universal Style compactions.
//
// Note: move semantic. Don't use universal compaction options after calling
// this function
//
// Default: nil
func (opts *Options) SetUniversalCompactionOptions(value *UniversalCompactionOptions) {
}

// SetFIFOCompactionOptions sets the options for FIFO compaction style.
//
// Note: move semantic. Don't use fifo compaction options after calling
// this function
//
// Default: nil
func (opts *Options) SetFIFOCompactionOptions(value *FIFOCompactionOptions) {
}

// GetStatisticsString returns the statistics as a string.
func (opts *Options) GetStatisticsString() (stats string) {
	return
}

// SetRateLimiter sets the rate limiter of the options.
// Use to control write rate of flush and compaction. Flush has higher
// priority than compaction. Rate limiting is disabled if nullptr.
// If rate limiter is enabled, bytes_per_sync is set to 1MB by default.
//
// Note: move semantic. Don't use rate limiter after calling
// this function
//
// Default: nil
func (opts *Options) SetRateLimiter(rateLimiter *RateLimiter) {
}

// SetAtomicFlush if true, RocksDB supports flushing multiple column families
// and committing their results atomically to MANIFEST. Note that it is not
// necessary to set atomic_flush to true if WAL is always enabled since WAL
// allows the database to be restored to the last persistent state in WAL.
// This option is useful when there are column families with writes NOT
// protected by WAL.
// For manual flush, application has to specify which column families to
// flush atomically in DB::Flush.
// For auto-triggered flush, RocksDB atomically flushes ALL column families.
//
// Currently, any WAL-enabled writes after atomic flush may be replayed
// independently if the process crashes later and tries to recover.
func (opts *Options) SetAtomicFlush(value bool) {
}

// IsAtomicFlush returns setting for atomic flushing.
// If true, RocksDB supports flushing multiple column families and committing
// their results atomically to MANIFEST. Note that it is not
// necessary to set atomic_flush to true if WAL is always enabled since WAL
// allows the database to be restored to the last persistent state in WAL.
// This option is useful when there are column families with writes NOT
// protected by WAL.
// For manual flush, application has to specify which column families to
// flush atomically in DB::Flush.
// For auto-triggered flush, RocksDB atomically flushes ALL column families.
//
// Currently, any WAL-enabled writes after atomic flush may be replayed
// independently if the process crashes later and tries to recover.
func (opts *Options) IsAtomicFlush() bool {
	return false
}

// SetRowCache set global cache for table-level rows.
//
// Default: nil (disabled)
// Not supported in ROCKSDB_LITE mode!
func (opts *Options) SetRowCache(cache *Cache) {
}

// AddCompactOnDeletionCollectorFactory marks a SST
// file as need-compaction when it observe at least "D" deletion
// entries in any "N" consecutive entries or the ratio of tombstone
// entries in the whole file >= the specified deletion ratio.
func (opts *Options) AddCompactOnDeletionCollectorFactory(windowSize, numDelsTrigger uint) {
}

// SetManualWALFlush if true WAL is not flushed automatically after each write. Instead it
// relies on manual invocation of db.FlushWAL to write the WAL buffer to its
// file.
//
// Default: false
func (opts *Options) SetManualWALFlush(v bool) {
}

// IsManualWALFlush returns true if WAL is not flushed automatically after each write.
func (opts *Options) IsManualWALFlush() bool {
	return false
}

// SetWALCompression sets compression type for WAL.
//
// Note: this feature is WORK IN PROGRESS
// If enabled WAL records will be compressed before they are written.
// Only zstd is supported. Compressed WAL records will be read in supported
// versions regardless of the wal_compression settings.
//
// Default: no compression
func (opts *Options) SetWALCompression(cType CompressionType) {
}

// GetWALCompression returns compression type of WAL.
func (opts *Options) GetWALCompression() CompressionType {
	return *new(CompressionType)
}

// SetMaxSequentialSkipInIterations specifies whether an iteration->Next()
// sequentially skips over keys with the same user-key or not.
//
// This number specifies the number of keys (with the same userkey)
// that will be sequentially skipped before a reseek is issued.
//
// Default: 8
func (opts *Options) SetMaxSequentialSkipInIterations(value uint64) {
}

// GetMaxSequentialSkipInIterations returns the number of keys (with the same userkey)
// that will be sequentially skipped before a reseek is issued.
func (opts *Options) GetMaxSequentialSkipInIterations() uint64 {
	return 0
}

// SetInplaceUpdateSupport enable/disable thread-safe inplace updates.
//
// Requires updates if
// * key exists in current memtable
// * new sizeof(new_value) <= sizeof(old_value)
// * old_value for that key is a put i.e. kTypeValue
//
// Default: false.
func (opts *Options) SetInplaceUpdateSupport(value bool) {
}

// InplaceUpdateSupport returns setting for enable/disable
// thread-safe inplace updates.
func (opts *Options) InplaceUpdateSupport() bool {
	return false
}

// SetInplaceUpdateNumLocks sets the number of locks used for inplace update.
//
// Default: 10000, if inplace_update_support = true, else 0.
func (opts *Options) SetInplaceUpdateNumLocks(value uint) {
}

// GetInplaceUpdateNumLocks returns number of locks used for inplace upddate.
func (opts *Options) GetInplaceUpdateNumLocks() uint {
	return 0
}

// SetMemtableHugePageSize sets the page size for huge page for
// arena used by the memtable.
// If <=0, it won't allocate from huge page but from malloc.
// Users are responsible to reserve huge pages for it to be allocated. For
// example:
//
//	sysctl -w vm.nr_hugepages=20
//
// See linux doc Documentation/vm/hugetlbpage.txt
// If there isn't enough free huge page available, it will fall back to
// malloc.
//
// Dynamically changeable through SetOptions() API
func (opts *Options) SetMemtableHugePageSize(value uint64) {
}

// GetMemtableHugePageSize returns the page size for huge page for
// arena used by the memtable.
func (opts *Options) GetMemtableHugePageSize() uint64 {
	return 0
}

// SetBloomLocality sets the bloom locality.
//
// Control locality of bloom filter probes to improve cache miss rate.
// This option only applies to memtable prefix bloom and plaintable
// prefix bloom. It essentially limits the max number of cache lines each
// bloom filter check can touch.
// This optimization is turned off when set to 0. The number should never
// be greater than number of probes. This option can boost performance
// for in-memory workload but should use with care since it can cause
// higher false positive rate.
// Default: 0
func (opts *Options) SetBloomLocality(value uint32) {
}

// GetBloomLocality returns control locality of bloom filter probes to improve cache miss rate.
// This option only applies to memtable prefix bloom and plaintable
// prefix bloom. It essentially limits the max number of cache lines each
// bloom filter check can touch.
// This optimization is turned off when set to 0. The number should never
// be greater than number of probes. This option can boost performance
// for in-memory workload but should use with care since it can cause
// higher false positive rate.
func (opts *Options) GetBloomLocality() uint32 {
	return 0
}

// SetMaxSuccessiveMerges sets the maximum number of
// successive merge operations on a key in the memtable.
//
// When a merge operation is added to the memtable and the maximum number of
// successive merges is reached, the value of the key will be calculated and
// inserted into the memtable instead of the merge operation. This will
// ensure that there are never more than max_successive_merges merge
// operations in the memtable.
// Default: 0 (disabled)
func (opts *Options) SetMaxSuccessiveMerges(value uint) {
}

// GetMaxSuccessiveMerges returns the maximum number of
// successive merge operations on a key in the memtable.
//
// When a merge operation is added to the memtable and the maximum number of
// successive merges is reached, the value of the key will be calculated and
// inserted into the memtable instead of the merge operation. This will
// ensure that there are never more than max_successive_merges merge
// operations in the memtable.
func (opts *Options) GetMaxSuccessiveMerges() uint {
	return 0
}

// EnableStatistics enable statistics.
func (opts *Options) EnableStatistics() {
}

// PrepareForBulkLoad prepare the DB for bulk loading.
//
// All data will be in level 0 without any automatic compaction.
// It's recommended to manually call CompactRange(NULL, NULL) before reading
// from the database, because otherwise the read can be very slow.
func (opts *Options) PrepareForBulkLoad() {
}

// SetMemtableVectorRep sets a MemTableRep which is backed by a vector.
//
// On iteration, the vector is sorted. This is useful for workloads where
// iteration is very rare and writes are generally not issued after reads begin.
func (opts *Options) SetMemtableVectorRep() {
}

// SetHashSkipListRep sets a hash skip list as MemTableRep.
//
// It contains a fixed array of buckets, each
// pointing to a skiplist (null if the bucket is empty).
//
// bucketCount:             number of fixed array buckets
// skiplistHeight:          the max height of the skiplist
// skiplistBranchingFactor: probabilistic size ratio between adjacent
//
//	link lists in the skiplist
func (opts *Options) SetHashSkipListRep(bucketCount uint, skiplistHeight, skiplistBranchingFactor int32) {
}

// SetHashLinkListRep sets a hashed linked list as MemTableRep.
//
// It contains a fixed array of buckets, each pointing to a sorted single
// linked list (null if the bucket is empty).
//
// bucketCount: number of fixed array buckets
func (opts *Options) SetHashLinkListRep(bucketCount uint) {
}

// SetPlainTableFactory sets a plain table factory with prefix-only seek.
//
// For this factory, you need to set prefix_extractor properly to make it
// work. Look-up will starts with prefix hash lookup for key prefix. Inside the
// hash bucket found, a binary search is executed for hash conflicts. Finally,
// a linear search is used.
//
// keyLen: 			plain table has optimization for fix-sized keys,
//
//	which can be specified via keyLen.
//
// bloomBitsPerKey: the number of bits used for bloom filer per prefix. You
//
//	may disable it by passing a zero.
//
// hashTableRatio:  the desired utilization of the hash table used for prefix
//
//	hashing. hashTableRatio = number of prefixes / #buckets
//	in the hash table
//
// indexSparseness: inside each prefix, need to build one index record for how
//
//	many keys for binary search inside each hash bucket.
func (opts *Options) SetPlainTableFactory(
	keyLen uint32,
	bloomBitsPerKey int,
	hashTableRatio float64,
	indexSparseness uint,
) {
}

// SetCreateIfMissingColumnFamilies specifies whether the column families
// should be created if they are missing.
func (opts *Options) SetCreateIfMissingColumnFamilies(value bool) {
	opts.createIfMissingColumnFamilies = value
}

// CreateIfMissingColumnFamilies checks if create_if_missing_cf option is set
func (opts *Options) CreateIfMissingColumnFamilies() bool {
	return opts.createIfMissingColumnFamilies
}

// SetBlockBasedTableFactory sets the block based table factory.
func (opts *Options) SetBlockBasedTableFactory(value *BlockBasedTableOptions) {
}

// SetAllowIngestBehind sets allow_ingest_behind
// Set this option to true during creation of database if you want
// to be able to ingest behind (call IngestExternalFile() skipping keys
// that already exist, rather than overwriting matching keys).
// Setting this option to true will affect 2 things:
// 1) Disable some internal optimizations around SST file compression
// 2) Reserve bottom-most level for ingested files only.
// 3) Note that num_levels should be >= 3 if this option is turned on.
//
// Default: false
func (opts *Options) SetAllowIngestBehind(value bool) {
}

// AllowIngestBehind checks if allow_ingest_behind is set
func (opts *Options) AllowIngestBehind() bool {
	return false
}

// SetMemTablePrefixBloomSizeRatio sets memtable_prefix_bloom_size_ratio
// if prefix_extractor is set and memtable_prefix_bloom_size_ratio is not 0,
// create prefix bloom for memtable with the size of
// write_buffer_size * memtable_prefix_bloom_size_ratio.
// If it is larger than 0.25, it is sanitized to 0.25.
//
// Default: 0 (disable)
func (opts *Options) SetMemTablePrefixBloomSizeRatio(value float64) {
}

// GetMemTablePrefixBloomSizeRatio returns memtable_prefix_bloom_size_ratio.
func (opts *Options) GetMemTablePrefixBloomSizeRatio() float64 {
	return 0
}

// SetOptimizeFiltersForHits sets optimize_filters_for_hits
// This flag specifies that the implementation should optimize the filters
// mainly for cases where keys are found rather than also optimize for keys
// missed. This would be used in cases where the application knows that
// there are very few misses or the performance in the case of misses is not
// important.
//
// For now, this flag allows us to not store filters for the last level i.e
// the largest level which contains data of the LSM store. For keys which
// are hits, the filters in this level are not useful because we will search
// for the data anyway. NOTE: the filters in other levels are still useful
// even for key hit because they tell us whether to look in that level or go
// to the higher level.
//
// Default: false
func (opts *Options) SetOptimizeFiltersForHits(value bool) {
}

// OptimizeFiltersForHits gets setting for optimize_filters_for_hits.
func (opts *Options) OptimizeFiltersForHits() bool {
	return false
}

// CompactionReadaheadSize if non-zero, we perform bigger reads when doing
// compaction. If you're running RocksDB on spinning disks, you should set
// this to at least 2MB. That way RocksDB's compaction is doing sequential
// instead of random reads.
//
// When non-zero, we also force new_table_reader_for_compaction_inputs to
// true.
//
// Default: 0
//
// Dynamically changeable through SetDBOptions() API.
func (opts *Options) CompactionReadaheadSize(value uint64) {
}

// GetCompactionReadaheadSize gets readahead size
func (opts *Options) GetCompactionReadaheadSize() uint64 {
	return 0
}

// SetUint64AddMergeOperator set add/merge operator.
func (opts *Options) SetUint64AddMergeOperator() {
}

// SetSkipStatsUpdateOnDBOpen if true, then DB::Open() will not update
// the statistics used to optimize compaction decision by loading table
// properties from many files. Turning off this feature will improve
// DBOpen time especially in disk environment.
//
// Default: false
func (opts *Options) SetSkipStatsUpdateOnDBOpen(value bool) {
}

// SkipStatsUpdateOnDBOpen checks if skip_stats_update_on_db_open is set.
func (opts *Options) SkipStatsUpdateOnDBOpen() bool {
	return false
}

// SetSkipCheckingSSTFileSizesOnDBOpen skips checking sst file sizes on db openning
//
// Default: false
func (opts *Options) SetSkipCheckingSSTFileSizesOnDBOpen(value bool) {
}

// SkipCheckingSSTFileSizesOnDBOpen checks if skips_checking_sst_file_sizes_on_db_openning is set.
func (opts *Options) SkipCheckingSSTFileSizesOnDBOpen() bool {
	return false
}

// EnableBlobFiles when set, large values (blobs) are written to separate blob files, and
// only pointers to them are stored in SST files. This can reduce write
// amplification for large-value use cases at the cost of introducing a level
// of indirection for reads. See also the options min_blob_size,
// blob_file_size, blob_compression_type, enable_blob_garbage_collection,
// and blob_garbage_collection_age_cutoff below.
//
// Default: false
//
// Dynamically changeable through the API.
func (opts *Options) EnableBlobFiles(value bool) {
}

// IsBlobFilesEnabled returns if blob-file setting is enabled.
func (opts *Options) IsBlobFilesEnabled() bool {
	return false
}

// SetMinBlogSize sets the size of the smallest value to be stored separately in a blob file.
// Values which have an uncompressed size smaller than this threshold are
// stored alongside the keys in SST files in the usual fashion. A value of
// zero for this option means that all values are stored in blob files. Note
// that enable_blob_files has to be set in order for this option to have any
// effect.
//
// Default: 0
//
// Dynamically changeable through the API.
func (opts *Options) SetMinBlobSize(value uint64) {
}

// GetMinBlobSize returns the size of the smallest value to be stored separately in a blob file.
func (opts *Options) GetMinBlobSize() uint64 {
	return 0
}

// SetBlobFileSize sets the size limit for blob files. When writing blob files, a new file is
// opened once this limit is reached. Note that enable_blob_files has to be
// set in order for this option to have any effect.
//
// Default: 256 MB
//
// Dynamically changeable through the API.
func (opts *Options) SetBlobFileSize(value uint64) {
}

// GetBlobFileSize gets the size limit for blob files.
func (opts *Options) GetBlobFileSize() uint64 {
	return 0
}

// SetBlobCompressionType sets the compression algorithm to use for large values stored in blob files.
// Note that enable_blob_files has to be set in order for this option to have
// any effect.
//
// Default: no compression
//
// Dynamically changeable through the API.
func (opts *Options) SetBlobCompressionType(compressionType CompressionType) {
}

// GetBlobCompressionType gets the compression algorithm to use for large values stored in blob files.
// Note that enable_blob_files has to be set in order for this option to have
// any effect.
func (opts *Options) GetBlobCompressionType() CompressionType {
	return *new(CompressionType)
}

// EnableBlobGC toggles garbage collection of blobs. Blob GC is performed as part of
// compaction. Valid blobs residing in blob files older than a cutoff get
// relocated to new files as they are encountered during compaction, which
// makes it possible to clean up blob files once they contain nothing but
// obsolete/garbage blobs. See also blob_garbage_collection_age_cutoff below.
//
// Default: false
//
// Dynamically changeable through the API.
func (opts *Options) EnableBlobGC(value bool) {
}

// IsBlobGCEnabled returns if blob garbage collection is enabled.
func (opts *Options) IsBlobGCEnabled() bool {
	return false
}

// SetBlobGCAgeCutoff sets the cutoff in terms of blob file age for garbage collection. Blobs in
// the oldest N blob files will be relocated when encountered during
// compaction, where N = garbage_collection_cutoff * number_of_blob_files.
// Note that enable_blob_garbage_collection has to be set in order for this
// option to have any effect.
//
// Default: 0.25
//
// Dynamically changeable through the API.
func (opts *Options) SetBlobGCAgeCutoff(value float64) {
}

// GetBlobGCAgeCutoff returns the cutoff in terms of blob file age for garbage collection.
func (opts *Options) GetBlobGCAgeCutoff() float64 {
	return 0
}

// SetBlobGCForceThreshold if the ratio of garbage in the oldest blob files exceeds this threshold,
// targeted compactions are scheduled in order to force garbage collecting
// the blob files in question, assuming they are all eligible based on the
// value of blob_garbage_collection_age_cutoff above. This option is
// currently only supported with leveled compactions.
// Note that enable_blob_garbage_collection has to be set in order for this
// option to have any effect.
//
// Default: 1.0
func (opts *Options) SetBlobGCForceThreshold(val float64) {
}

// GetBlobGCForceThreshold get the threshold for ratio of garbage in the oldest blob files.
// See also: `SetBlobGCForceThreshold`
//
// Default: 1.0
func (opts *Options) GetBlobGCForceThreshold() float64 {
	return 0
}

// SetBlobCompactionReadaheadSize sets compaction readahead for blob files.
//
// Default: 0
//
// Dynamically changeable through the SetOptions() API.
func (opts *Options) SetBlobCompactionReadaheadSize(val uint64) {
}

// GetBlobCompactionReadaheadSize returns compaction readahead size for blob files.
func (opts *Options) GetBlobCompactionReadaheadSize() uint64 {
	return 0
}

// SetBlobFileStartingLevel enables blob files starting from a certain LSM tree level.
//
// For certain use cases that have a mix of short-lived and long-lived values,
// it might make sense to support extracting large values only during
// compactions whose output level is greater than or equal to a specified LSM
// tree level (e.g. compactions into L1/L2/... or above). This could reduce
// the space amplification caused by large values that are turned into garbage
// shortly after being written at the price of some write amplification
// incurred by long-lived values whose extraction to blob files is delayed.
//
// Default: 0
//
// Dynamically changeable through the SetOptions() API
func (opts *Options) SetBlobFileStartingLevel(level int) {
}

// GetBlobFileStartingLevel returns blob starting level.
func (opts *Options) GetBlobFileStartingLevel() int {
	return 0
}

// SetBlobCache caches blob.
func (opts *Options) SetBlobCache(cache *Cache) {
}

// SetPrepopulateBlobCache sets strategy for prepopulate blob caching strategy.
//
// If enabled, prepopulate warm/hot blobs which are already in memory into
// blob cache at the time of flush. On a flush, the blob that is in memory (in
// memtables) get flushed to the device. If using Direct IO, additional IO is
// incurred to read this blob back into memory again, which is avoided by
// enabling this option. This further helps if the workload exhibits high
// temporal locality, where most of the reads go to recently written data.
// This also helps in case of the remote file system since it involves network
// traffic and higher latencies.
//
// Default: disabled
//
// Dynamically changeable through this API
func (opts *Options) SetPrepopulateBlobCache(strategy PrepopulateBlob) {
}

// GetPrepopulateBlobCache gets prepopulate blob caching strategy
func (opts *Options) GetPrepopulateBlobCache() PrepopulateBlob {
	return *new(PrepopulateBlob)
}

// SetMaxWriteBufferNumberToMaintain sets total maximum number of write buffers
// to maintain in memory including copies of buffers that have already been flushed.
// Unlike max_write_buffer_number, this parameter does not affect flushing.
// This controls the minimum amount of write history that will be available
// in memory for conflict checking when Transactions are used.
//
// When using an OptimisticTransactionDB:
// If this value is too low, some transactions may fail at commit time due
// to not being able to determine whether there were any write conflicts.
//
// When using a TransactionDB:
// If Transaction::SetSnapshot is used, TransactionDB will read either
// in-memory write buffers or SST files to do write-conflict checking.
// Increasing this value can reduce the number of reads to SST files
// done for conflict detection.
//
// Setting this value to 0 will cause write buffers to be freed immediately
// after they are flushed.
// If this value is set to -1, 'max_write_buffer_number' will be used.
//
// Default:
// If using a TransactionDB/OptimisticTransactionDB, the default value will
// be set to the value of 'max_write_buffer_number' if it is not explicitly
// set by the user.  Otherwise, the default is 0.
//
// Deprecated: soon
func (opts *Options) SetMaxWriteBufferNumberToMaintain(value int) {
}

// GetMaxWriteBufferNumberToMaintain gets total maximum number of write buffers
// to maintain in memory including copies of buffers that have already been flushed.
// Unlike max_write_buffer_number, this parameter does not affect flushing.
// This controls the minimum amount of write history that will be available
// in memory for conflict checking when Transactions are used.
//
// Deprecated: soon
func (opts *Options) GetMaxWriteBufferNumberToMaintain() int {
	return 0
}

// SetMaxWriteBufferSizeToMaintain is the total maximum size(bytes) of write buffers to maintain in memory
// including copies of buffers that have already been flushed. This parameter
// only affects trimming of flushed buffers and does not affect flushing.
// This controls the maximum amount of write history that will be available
// in memory for conflict checking when Transactions are used. The actual
// size of write history (flushed Memtables) might be higher than this limit
// if further trimming will reduce write history total size below this
// limit. For example, if max_write_buffer_size_to_maintain is set to 64MB,
// and there are three flushed Memtables, with sizes of 32MB, 20MB, 20MB.
// Because trimming the next Memtable of size 20MB will reduce total memory
// usage to 52MB which is below the limit, RocksDB will stop trimming.
//
// When using an OptimisticTransactionDB:
// If this value is too low, some transactions may fail at commit time due
// to not being able to determine whether there were any write conflicts.
//
// When using a TransactionDB:
// If Transaction::SetSnapshot is used, TransactionDB will read either
// in-memory write buffers or SST files to do write-conflict checking.
// Increasing this value can reduce the number of reads to SST files
// done for conflict detection.
//
// Setting this value to 0 will cause write buffers to be freed immediately
// after they are flushed. If this value is set to -1,
// 'max_write_buffer_number * write_buffer_size' will be used.
//
// Default:
// If using a TransactionDB/OptimisticTransactionDB, the default value will
// be set to the value of 'max_write_buffer_number * write_buffer_size'
// if it is not explicitly set by the user.  Otherwise, the default is 0.
func (opts *Options) SetMaxWriteBufferSizeToMaintain(value int64) {
}

// GetMaxWriteBufferSizeToMaintain gets the total maximum size(bytes) of write buffers to maintain in memory
// including copies of buffers that have already been flushed. This parameter
// only affects trimming of flushed buffers and does not affect flushing.
// This controls the maximum amount of write history that will be available
// in memory for conflict checking when Transactions are used. The actual
// size of write history (flushed Memtables) might be higher than this limit
// if further trimming will reduce write history total size below this
// limit. For example, if max_write_buffer_size_to_maintain is set to 64MB,
// and there are three flushed Memtables, with sizes of 32MB, 20MB, 20MB.
// Because trimming the next Memtable of size 20MB will reduce total memory
// usage to 52MB which is below the limit, RocksDB will stop trimming.
func (opts *Options) GetMaxWriteBufferSizeToMaintain() int64 {
	return 0
}

// SetMaxSubcompactions represents the maximum number of threads that will
// concurrently perform a compaction job by breaking it into multiple,
// smaller ones that are run simultaneously.
//
// Default: 1 (i.e. no subcompactions)
func (opts *Options) SetMaxSubcompactions(value uint32) {
}

// GetMaxSubcompactions gets the maximum number of threads that will
// concurrently perform a compaction job by breaking it into multiple,
// smaller ones that are run simultaneously.
func (opts *Options) GetMaxSubcompactions() uint32 {
	return 0
}

// SetMaxBackgroundJobs maximum number of concurrent background jobs
// (compactions and flushes).
//
// Default: 2
//
// Dynamically changeable through SetDBOptions() API.
func (opts *Options) SetMaxBackgroundJobs(value int) {
}

// GetMaxBackgroundJobs returns maximum number of concurrent background jobs setting.
func (opts *Options) GetMaxBackgroundJobs() int {
	return 0
}

// SetRecycleLogFileNum if non-zero, we will reuse previously written
// log files for new logs, overwriting the old data. The value
// indicates how many such files we will keep around at any point in
// time for later use. This is more efficient because the blocks
// are already allocated and fdatasync does not need to update
// the inode after each write.
// Default: 0
func (opts *Options) SetRecycleLogFileNum(value uint) {
}

// GetRecycleLogFileNum returns setting for number of recycling log files.
func (opts *Options) GetRecycleLogFileNum() uint {
	return 0
}

// SetWALBytesPerSync same as bytes_per_sync, but applies to WAL files.
//
// Default: 0, turned off
//
// Dynamically changeable through SetDBOptions() API.
func (opts *Options) SetWALBytesPerSync(value uint64) {
}

// GetWALBytesPerSync same as bytes_per_sync, but applies to WAL files.
func (opts *Options) GetWALBytesPerSync() uint64 {
	return 0
}

// SetWritableFileMaxBufferSize is the maximum buffer size that is
// used by WritableFileWriter.
// On Windows, we need to maintain an aligned buffer for writes.
// We allow the buffer to grow until it's size hits the limit in buffered
// IO and fix the buffer size when using direct IO to ensure alignment of
// write requests if the logical sector size is unusual
//
// Default: 1024 * 1024 (1 MB)
//
// Dynamically changeable through SetDBOptions() API.
func (opts *Options) SetWritableFileMaxBufferSize(value uint64) {
}

// GetWritableFileMaxBufferSize returns the maximum buffer size that is
// used by WritableFileWriter.
// On Windows, we need to maintain an aligned buffer for writes.
// We allow the buffer to grow until it's size hits the limit in buffered
// IO and fix the buffer size when using direct IO to ensure alignment of
// write requests if the logical sector size is unusual
func (opts *Options) GetWritableFileMaxBufferSize() uint64 {
	return 0
}

// SetEnableWriteThreadAdaptiveYield if true, threads synchronizing with
// the write batch group leader will wait for up to write_thread_max_yield_usec
// before blocking on a mutex. This can substantially improve throughput
// for concurrent workloads, regardless of whether allow_concurrent_memtable_write
// is enabled.
//
// Default: true
func (opts *Options) SetEnableWriteThreadAdaptiveYield(value bool) {
}

// EnabledWriteThreadAdaptiveYield if true, threads synchronizing with
// the write batch group leader will wait for up to write_thread_max_yield_usec
// before blocking on a mutex. This can substantially improve throughput
// for concurrent workloads, regardless of whether allow_concurrent_memtable_write
// is enabled.
func (opts *Options) EnabledWriteThreadAdaptiveYield() bool {
	return false
}

// SetReportBackgroundIOStats measures IO stats in compactions and
// flushes, if true.
//
// Default: false
//
// Dynamically changeable through SetOptions() API
func (opts *Options) SetReportBackgroundIOStats(value bool) {
}

// ReportBackgroundIOStats returns if measureing IO stats in compactions and
// flushes is turned on.
func (opts *Options) ReportBackgroundIOStats() bool {
	return false
}

// AvoidUnnecessaryBlockingIO if true, working thread may avoid doing unnecessary and long-latency
// operation (such as deleting obsolete files directly or deleting memtable)
// and will instead schedule a background job to do it.
// Use it if you're latency-sensitive.
//
// If set to true, takes precedence over ReadOptions::background_purge_on_iterator_cleanup.
func (opts *Options) AvoidUnnecessaryBlockingIO(v bool) {
}

// GetAvoidUnnecessaryBlockingIOFlag returns value of avoid unnecessary blocking io flag.
func (opts *Options) GetAvoidUnnecessaryBlockingIOFlag() bool {
	return false
}

// SetMempurgeThreshold is experimental function to set mempurge threshold.
//
// It is used to activate or deactive the Mempurge feature (memtable garbage
// collection, which is deactivated by default).
//
// At every flush, the total useful payload (total entries minus garbage entries) is estimated as a ratio
// [useful payload bytes]/[size of a memtable (in bytes)]. This ratio is then
// compared to this `threshold` value:
//   - if ratio<threshold: the flush is replaced by a mempurge operation
//   - else: a regular flush operation takes place.
//
// Threshold values:
//
//	0.0: mempurge deactivated (default).
//	1.0: recommended threshold value.
//	>1.0 : aggressive mempurge.
//	0 < threshold < 1.0: mempurge triggered only for very low useful payload
//	ratios.
func (opts *Options) SetMempurgeThreshold(threshold float64) {
}

// GetMempurgeThreshold gets current mempurge threshold value.
func (opts *Options) GetMempurgeThreshold() float64 {
	return 0
}

// SetUnorderedWrite sets unordered_write to true trades higher write throughput with
// relaxing the immutability guarantee of snapshots. This violates the
// repeatability one expects from ::Get from a snapshot, as well as
// ::MultiGet and Iterator's consistent-point-in-time view property.
// If the application cannot tolerate the relaxed guarantees, it can implement
// its own mechanisms to work around that and yet benefit from the higher
// throughput. Using TransactionDB with WRITE_PREPARED write policy and
// two_write_queues=true is one way to achieve immutable snapshots despite
// unordered_write.
//
// By default, i.e., when it is false, rocksdb does not advance the sequence
// number for new snapshots unless all the writes with lower sequence numbers
// are already finished. This provides the immutability that we except from
// snapshots. Moreover, since Iterator and MultiGet internally depend on
// snapshots, the snapshot immutability results into Iterator and MultiGet
// offering consistent-point-in-time view. If set to true, although
// Read-Your-Own-Write property is still provided, the snapshot immutability
// property is relaxed: the writes issued after the snapshot is obtained (with
// larger sequence numbers) will be still not visible to the reads from that
// snapshot, however, there still might be pending writes (with lower sequence
// number) that will change the state visible to the snapshot after they are
// landed to the memtable.
//
// Default: false
func (opts *Options) SetUnorderedWrite(value bool) {
}

// UnorderedWrite checks if unordered_write is turned on.
func (opts *Options) UnorderedWrite() bool {
	return false
}

// SetCuckooTableFactory sets to use cuckoo table factory.
//
// Note: move semantic. Don't use cuckoo options after calling this function.
//
// Default: nil.
func (opts *Options) SetCuckooTableFactory(cuckooOpts *CuckooTableOptions) {
}

// SetDumpMallocStats if true, then print malloc stats together with rocksdb.stats
// when printing to LOG.
func (opts *Options) SetDumpMallocStats(value bool) {
}

// SetMemtableWholeKeyFiltering enable whole key bloom filter in memtable. Note this will only take effect
// if memtable_prefix_bloom_size_ratio is not 0. Enabling whole key filtering
// can potentially reduce CPU usage for point-look-ups.
//
// Default: false (disable)
//
// Dynamically changeable through SetOptions() API
func (opts *Options) SetMemtableWholeKeyFiltering(value bool) {
}

// Destroy deallocates the Options object.
func (opts *Options) Destroy() {
}

type LatestOptions struct {
	opts Options

	cfNames []string

	cfOptions []Options
}

// LoadLatestOptions loads the latest rocksdb options from the specified db_path.
//
// On success, num_column_families will be updated with a non-zero
// number indicating the number of column families.
func LoadLatestOptions(path string, env *Env, ignoreUnknownOpts bool, cache *Cache) (lo *LatestOptions, err error) {
	return
}

// Options gets the latest options.
func (l *LatestOptions) Options() *Options {
	return &l.opts
}

// ColumnFamilyNames gets column family names.
func (l *LatestOptions) ColumnFamilyNames() []string {
	return l.cfNames
}

// ColumnFamilyOpts returns corresponding options of column families.
func (l *LatestOptions) ColumnFamilyOpts() []Options {
	return l.cfOptions
}

// Destroy release underlying db_options, column_family_names, and column_family_options.
func (l *LatestOptions) Destroy() {
}
