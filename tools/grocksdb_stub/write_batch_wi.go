// Code derived from github.com/linxGnu/grocksdb v1.8.1 (write_batch_wi.go) with all cgo removed.
// Pure-Go STUB for offline compilation and testing. Not a real RocksDB binding.

package grocksdb

// WriteBatchWI is a batching with index of Puts, Merges and Deletes to implement read-your-own-write.
// See also: https://rocksdb.org/blog/2015/02/27/write-batch-with-index.html
type WriteBatchWI struct {
}

// NewWriteBatchWI create a WriteBatchWI object.
//   - reserved_bytes: reserved bytes in underlying WriteBatch
//   - overwrite_key: if true, overwrite the key in the index when inserting
//     the same key as previously, so iterator will never
//     show two entries with the same key.
func NewWriteBatchWI(reservedBytes uint, overwriteKeys bool) *WriteBatchWI {
	panic("grocksdb stub: not implemented: NewWriteBatchWI")
}

// Put queues a key-value pair.
func (wb *WriteBatchWI) Put(key, value []byte) {
	panic("grocksdb stub: not implemented: WriteBatchWI.Put")
}

// PutCF queues a key-value pair in a column family.
func (wb *WriteBatchWI) PutCF(cf *ColumnFamilyHandle, key, value []byte) {
	panic("grocksdb stub: not implemented: WriteBatchWI.PutCF")
}

// PutLogData appends a blob of arbitrary size to the records in this batch.
func (wb *WriteBatchWI) PutLogData(blob []byte) {
	panic("grocksdb stub: not implemented: WriteBatchWI.PutLogData")
}

// Merge queues a merge of "value" with the existing value of "key".
func (wb *WriteBatchWI) Merge(key, value []byte) {
	panic("grocksdb stub: not implemented: WriteBatchWI.Merge")
}

// MergeCF queues a merge of "value" with the existing value of "key" in a
// column family.
func (wb *WriteBatchWI) MergeCF(cf *ColumnFamilyHandle, key, value []byte) {
	panic("grocksdb stub: not implemented: WriteBatchWI.MergeCF")
}

// Delete queues a deletion of the data at key.
func (wb *WriteBatchWI) Delete(key []byte) {
	panic("grocksdb stub: not implemented: WriteBatchWI.Delete")
}

// SingleDelete removes the database entry for "key". Requires that the key exists
// and was not overwritten. Returns OK on success, and a non-OK status
// on error.  It is not an error if "key" did not exist in the database.
//
// If a key is overwritten (by calling Put() multiple times), then the result
// of calling SingleDelete() on this key is undefined.  SingleDelete() only
// behaves correctly if there has been only one Put() for this key since the
// previous call to SingleDelete() for this key.
//
// This feature is currently an experimental performance optimization
// for a very specific workload.  It is up to the caller to ensure that
// SingleDelete is only used for a key that is not deleted using Delete() or
// written using Merge().  Mixing SingleDelete operations with Deletes and
// Merges can result in undefined behavior.
//
// Note: consider setting options.sync = true.
func (wb *WriteBatchWI) SingleDelete(key []byte) {
	panic("grocksdb stub: not implemented: WriteBatchWI.SingleDelete")
}

// DeleteCF queues a deletion of the data at key in a column family.
func (wb *WriteBatchWI) DeleteCF(cf *ColumnFamilyHandle, key []byte) {
	panic("grocksdb stub: not implemented: WriteBatchWI.DeleteCF")
}

// SingleDeleteCF same as SingleDelete but specific column family
func (wb *WriteBatchWI) SingleDeleteCF(cf *ColumnFamilyHandle, key []byte) {
	panic("grocksdb stub: not implemented: WriteBatchWI.SingleDeleteCF")
}

// DeleteRange deletes keys that are between [startKey, endKey)
func (wb *WriteBatchWI) DeleteRange(startKey []byte, endKey []byte) {
	panic("grocksdb stub: not implemented: WriteBatchWI.DeleteRange")
}

// DeleteRangeCF deletes keys that are between [startKey, endKey) and
// belong to a given column family
func (wb *WriteBatchWI) DeleteRangeCF(cf *ColumnFamilyHandle, startKey []byte, endKey []byte) {
	panic("grocksdb stub: not implemented: WriteBatchWI.DeleteRangeCF")
}

// Data returns the serialized version of this batch.
func (wb *WriteBatchWI) Data() []byte {
	panic("grocksdb stub: not implemented: WriteBatchWI.Data")
}

// Count returns the number of updates in the batch.
func (wb *WriteBatchWI) Count() int {
	panic("grocksdb stub: not implemented: WriteBatchWI.Count")
}

// NewIterator returns a iterator to iterate over the records in the batch.
func (wb *WriteBatchWI) NewIterator() *WriteBatchIterator {
	panic("grocksdb stub: not implemented: WriteBatchWI.NewIterator")
}

// SetSavePoint records the state of the batch for future calls to RollbackToSavePoint().
// May be called multiple times to set multiple save points.
func (wb *WriteBatchWI) SetSavePoint() {
	panic("grocksdb stub: not implemented: WriteBatchWI.SetSavePoint")
}

// RollbackToSavePoint removes all entries in this batch (Put, Merge, Delete, PutLogData) since the
// most recent call to SetSavePoint() and removes the most recent save point.
func (wb *WriteBatchWI) RollbackToSavePoint() (err error) {
	panic("grocksdb stub: not implemented: WriteBatchWI.RollbackToSavePoint")
}

// Get returns the data associated with the key from batch.
func (wb *WriteBatchWI) Get(opts *Options, key []byte) (slice *Slice, err error) {
	panic("grocksdb stub: not implemented: WriteBatchWI.Get")
}

// GetWithCF returns the data associated with the key from batch.
// Key belongs to specific column family.
func (wb *WriteBatchWI) GetWithCF(opts *Options, cf *ColumnFamilyHandle, key []byte) (slice *Slice, err error) {
	panic("grocksdb stub: not implemented: WriteBatchWI.GetWithCF")
}

// GetFromDB returns the data associated with the key from the database and write batch.
func (wb *WriteBatchWI) GetFromDB(db *DB, opts *ReadOptions, key []byte) (slice *Slice, err error) {
	panic("grocksdb stub: not implemented: WriteBatchWI.GetFromDB")
}

// GetFromDBWithCF returns the data associated with the key from the database and write batch.
// Key belongs to specific column family.
func (wb *WriteBatchWI) GetFromDBWithCF(db *DB, opts *ReadOptions, cf *ColumnFamilyHandle, key []byte) (slice *Slice, err error) {
	panic("grocksdb stub: not implemented: WriteBatchWI.GetFromDBWithCF")
}

// NewIteratorWithBase will create a new Iterator that will use WBWIIterator as a delta and
// base_iterator as base.
//
// This function is only supported if the WriteBatchWithIndex was
// constructed with overwrite_key=true.
//
// The returned iterator should be deleted by the caller.
// The base_iterator is now 'owned' by the returned iterator. Deleting the
// returned iterator will also delete the base_iterator.
//
// Updating write batch with the current key of the iterator is not safe.
// We strongly recommend users not to do it. It will invalidate the current
// key() and value() of the iterator. This invalidation happens even before
// the write batch update finishes. The state may recover after Next() is
// called.
func (wb *WriteBatchWI) NewIteratorWithBase(db *DB, baseIter *Iterator) *Iterator {
	panic("grocksdb stub: not implemented: WriteBatchWI.NewIteratorWithBase")
}

// NewIteratorWithBaseCF will create a new Iterator that will use WBWIIterator as a delta and
// base_iterator as base.
//
// This function is only supported if the WriteBatchWithIndex was
// constructed with overwrite_key=true.
//
// The returned iterator should be deleted by the caller.
// The base_iterator is now 'owned' by the returned iterator. Deleting the
// returned iterator will also delete the base_iterator.
//
// Updating write batch with the current key of the iterator is not safe.
// We strongly recommend users not to do it. It will invalidate the current
// key() and value() of the iterator. This invalidation happens even before
// the write batch update finishes. The state may recover after Next() is
// called.
func (wb *WriteBatchWI) NewIteratorWithBaseCF(db *DB, baseIter *Iterator, cf *ColumnFamilyHandle) *Iterator {
	panic("grocksdb stub: not implemented: WriteBatchWI.NewIteratorWithBaseCF")
}

// Clear removes all the enqueued Put and Deletes.
func (wb *WriteBatchWI) Clear() {
}

// Destroy deallocates the WriteBatch object.
func (wb *WriteBatchWI) Destroy() {
}
