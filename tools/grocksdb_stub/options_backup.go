// Code derived from github.com/linxGnu/grocksdb v1.8.1 (options_backup.go) with all cgo removed.
// Pure-Go STUB for offline compilation and testing. Not a real RocksDB binding.

package grocksdb

// ShareFilesNaming describes possible naming schemes for backup
// table file names when the table files are stored in the shared_checksum
// directory (i.e., both share_table_files and share_files_with_checksum
// are true).
type ShareFilesNaming uint32

const (
	// LegacyCrc32cAndFileSize indicates backup SST filenames are <file_number>_<crc32c>_<file_size>.sst
	// where <crc32c> is an unsigned decimal integer. This is the
	// original/legacy naming scheme for share_files_with_checksum,
	// with two problems:
	// * At massive scale, collisions on this triple with different file
	//   contents is plausible.
	// * Determining the name to use requires computing the checksum,
	//   so generally requires reading the whole file even if the file
	//   is already backed up.
	// ** ONLY RECOMMENDED FOR PRESERVING OLD BEHAVIOR **
	LegacyCrc32cAndFileSize ShareFilesNaming = 1

	// UseDBSessionID indicates backup SST filenames are <file_number>_s<db_session_id>.sst. This
	// pair of values should be very strongly unique for a given SST file
	// and easily determined before computing a checksum. The 's' indicates
	// the value is a DB session id, not a checksum.
	//
	// Exceptions:
	// * For old SST files without a DB session id, kLegacyCrc32cAndFileSize
	//   will be used instead, matching the names assigned by RocksDB versions
	//   not supporting the newer naming scheme.
	// * See also flags below.
	UseDBSessionID ShareFilesNaming = 2

	MaskNoNamingFlags ShareFilesNaming = 0xffff

	// FlagIncludeFileSize if not already part of the naming scheme, insert
	//   _<file_size>
	// before .sst in the name. In case of user code actually parsing the
	// last _<whatever> before the .sst as the file size, this preserves that
	// feature of kLegacyCrc32cAndFileSize. In other words, this option makes
	// official that unofficial feature of the backup metadata.
	//
	// We do not consider SST file sizes to have sufficient entropy to
	// contribute significantly to naming uniqueness.
	FlagIncludeFileSize ShareFilesNaming = 1 << 31

	// FlagMatchInterimNaming indicates when encountering an SST file from a Facebook-internal early
	// release of 6.12, use the default naming scheme in effect for
	// when the SST file was generated (assuming full file checksum
	// was not set to GetFileChecksumGenCrc32cFactory()). That naming is
	// <file_number>_<db_session_id>.sst
	// and ignores kFlagIncludeFileSize setting.
	// NOTE: This flag is intended to be temporary and should be removed
	// in a later release.
	FlagMatchInterimNaming ShareFilesNaming = 1 << 30

	MaskNamingFlags ShareFilesNaming = ^MaskNoNamingFlags
)

// BackupEngineOptions represents options for backup engine.
type BackupEngineOptions struct {
}

// NewBackupableDBOptions
func NewBackupableDBOptions(backupDir string) *BackupEngineOptions {
	return &BackupEngineOptions{}
}

// SetBackupDir sets where to keep the backup files. Has to be different than dbname_
// Best to set this to dbname_ + "/backups".
func (b *BackupEngineOptions) SetBackupDir(dir string) {
}

// SetEnv to be used for backup file I/O. If it's
// nullptr, backups will be written out using DBs Env. If it's
// non-nullptr, backup's I/O will be performed using this object.
// If you want to have backups on HDFS, use HDFS Env here!
func (b *BackupEngineOptions) SetEnv(env *Env) {
}

// ShareTableFiles if set to true, backup will assume that table files with
// same name have the same contents. This enables incremental backups and
// avoids unnecessary data copies.
//
// If false, each backup will be on its own and will
// not share any data with other backups.
//
// Default: true
func (b *BackupEngineOptions) ShareTableFiles(flag bool) {
}

// IsShareTableFiles returns if backup will assume that table files with
// same name have the same contents. This enables incremental backups and
// avoids unnecessary data copies.
//
// If false, each backup will be on its own and will
// not share any data with other backups.
func (b *BackupEngineOptions) IsShareTableFiles() bool {
	return false
}

// SetSync if true, we can guarantee you'll get consistent backup even
// on a machine crash/reboot. Backup process is slower with sync enabled.
//
// If false, we don't guarantee anything on machine reboot. However,
// chances are some of the backups are consistent.
//
// Default: true
func (b *BackupEngineOptions) SetSync(flag bool) {
}

// IsSync if true, we can guarantee you'll get consistent backup even
// on a machine crash/reboot. Backup process is slower with sync enabled.
//
// If false, we don't guarantee anything on machine reboot. However,
// chances are some of the backups are consistent.
func (b *BackupEngineOptions) IsSync() bool {
	return false
}

// DestroyOldData if true, it will delete whatever backups there are already
//
// Default: false
func (b *BackupEngineOptions) DestroyOldData(flag bool) {
}

// IsDestroyOldData indicates if we should delete whatever backups there are already.
func (b *BackupEngineOptions) IsDestroyOldData() bool {
	return false
}

// BackupLogFiles if false, we won't backup log files. This option can be useful for backing
// up in-memory databases where log file are persisted, but table files are in
// memory.
//
// Default: true
func (b *BackupEngineOptions) BackupLogFiles(flag bool) {
}

// IsBackupLogFiles if false, we won't backup log files. This option can be useful for backing
// up in-memory databases where log file are persisted, but table files are in
// memory.
func (b *BackupEngineOptions) IsBackupLogFiles() bool {
	return false
}

// SetBackupRateLimit sets max bytes that can be transferred in a second during backup.
// If 0, go as fast as you can.
//
// Default: 0
func (b *BackupEngineOptions) SetBackupRateLimit(limit uint64) {
}

// GetBackupRateLimit gets max bytes that can be transferred in a second during backup.
// If 0, go as fast as you can.
func (b *BackupEngineOptions) GetBackupRateLimit() uint64 {
	return 0
}

// SetRestoreRateLimit sets max bytes that can be transferred in a second during restore.
// If 0, go as fast as you can
//
// Default: 0
func (b *BackupEngineOptions) SetRestoreRateLimit(limit uint64) {
}

// GetRestoreRateLimit gets max bytes that can be transferred in a second during restore.
// If 0, go as fast as you can
func (b *BackupEngineOptions) GetRestoreRateLimit() uint64 {
	return 0
}

// SetMaxBackgroundOperations sets max number of background threads will copy files for CreateNewBackup()
// and RestoreDBFromBackup()
//
// Default: 1
func (b *BackupEngineOptions) SetMaxBackgroundOperations(v int) {
}

// GetMaxBackgroundOperations gets max number of background threads will copy files for CreateNewBackup()
// and RestoreDBFromBackup()
func (b *BackupEngineOptions) GetMaxBackgroundOperations() int {
	return 0
}

// SetCallbackTriggerIntervalSize sets size (N) during backup user can get callback every time next
// N bytes being copied.
//
// Default: N=4194304
func (b *BackupEngineOptions) SetCallbackTriggerIntervalSize(size uint64) {
}

// GetCallbackTriggerIntervalSize gets size (N) during backup user can get callback every time next
// N bytes being copied.
func (b *BackupEngineOptions) GetCallbackTriggerIntervalSize() uint64 {
	return 0
}

// SetMaxValidBackupsToOpen sets max number of valid backup to open.
//
// For BackupEngineReadOnly, Open() will open at most this many of the
// latest non-corrupted backups.
//
// Note: this setting is ignored (behaves like INT_MAX) for any kind of
// writable BackupEngine because it would inhibit accounting for shared
// files for proper backup deletion, including purging any incompletely
// created backups on creation of a new backup.
//
// Default: INT_MAX
func (b *BackupEngineOptions) SetMaxValidBackupsToOpen(val int) {
}

// GetMaxValidBackupsToOpen gets max number of valid backup to open.
//
// For BackupEngineReadOnly, Open() will open at most this many of the
// latest non-corrupted backups.
//
// Note: this setting is ignored (behaves like INT_MAX) for any kind of
// writable BackupEngine because it would inhibit accounting for shared
// files for proper backup deletion, including purging any incompletely
// created backups on creation of a new backup.
func (b *BackupEngineOptions) GetMaxValidBackupsToOpen() int {
	return 0
}

// SetShareFilesWithChecksumNaming sets naming option for share_files_with_checksum table files. See
// ShareFilesNaming for details.
//
// Modifying this option cannot introduce a downgrade compatibility issue
// because RocksDB can read, restore, and delete backups using different file
// names, and it's OK for a backup directory to use a mixture of table file
// naming schemes.
//
// However, modifying this option and saving more backups to the same
// directory can lead to the same file getting saved again to that
// directory, under the new shared name in addition to the old shared
// name.
//
// Default: UseDBSessionID | FlagIncludeFileSize | FlagMatchInterimNaming
func (b *BackupEngineOptions) SetShareFilesWithChecksumNaming(val ShareFilesNaming) {
}

// GetShareFilesWithChecksumNaming gets naming option for share_files_with_checksum table files. See
// ShareFilesNaming for details.
func (b *BackupEngineOptions) GetShareFilesWithChecksumNaming() ShareFilesNaming {
	return *new(ShareFilesNaming)
}

// Destroy releases these options.
func (b *BackupEngineOptions) Destroy() {
}
