// In-memory engine backing the grocksdb STUB. Hand-written; not derived from
// the real grocksdb sources.
//
// Semantics that are emulated:
//   - one memDB per path, kept in a process-wide registry so that Close +
//     re-open of the same path sees the same data (as long as the directory
//     has not been removed in between: a marker file is written into the
//     directory, if it is gone the store is considered wiped);
//   - create_if_missing / error_if_exists;
//   - "lock held by current process" when the same path is opened twice;
//   - column families (each CF is its own ordered key space);
//   - atomic write batches, merge operators, custom comparators;
//   - consistent snapshots for iterators and explicit Snapshot objects;
//   - pessimistic per-key locking for TransactionDB transactions.
//
// Nothing is ever written to disk apart from the (empty) marker file.
package grocksdb

import (
	"bytes"
	"errors"
	"fmt"
	"os"
	"path/filepath"
	"sort"
	"strconv"
	"sync"
	"time"
)

const stubMarkerFile = "GROCKSDB_STUB_CURRENT"

const defaultCFName = "default"

var (
	registryMu sync.Mutex
	registry   = map[string]*memDB{}
)

type memCF struct {
	id      uint32
	name    string
	kv      map[string][]byte
	opts    *Options
	dropped bool
}

type memDB struct {
	mu       sync.RWMutex
	path     string
	opts     *Options
	cfs      map[uint32]*memCF
	cfByName map[string]*memCF
	nextCF   uint32
	seq      uint64
	open     bool // a read-write handle is currently open

	// pessimistic transaction locks
	lockMu sync.Mutex
	lockCv *sync.Cond
	locks  map[string]*txnState
}

func newMemDB(path string) *memDB {
	m := &memDB{
		path:     path,
		cfs:      map[uint32]*memCF{},
		cfByName: map[string]*memCF{},
		locks:    map[string]*txnState{},
	}
	m.lockCv = sync.NewCond(&m.lockMu)
	return m
}

type openMode int

const (
	openReadWrite openMode = iota
	openReadOnly
	openSecondary
)

// openMem opens (or creates) the in-memory store registered under path.
func openMem(opts *Options, path string, cfNames []string, cfOpts []*Options, mode openMode) (*memDB, []*memCF, error) {
	if opts == nil {
		opts = NewDefaultOptions()
	}
	abs, err := filepath.Abs(path)
	if err != nil {
		return nil, nil, fmt.Errorf("IO error: %v", err)
	}

	registryMu.Lock()
	defer registryMu.Unlock()

	marker := filepath.Join(abs, stubMarkerFile)
	m := registry[abs]
	if m != nil {
		if _, err := os.Stat(marker); err != nil && !m.open {
			// directory has been wiped since the last use: start afresh
			delete(registry, abs)
			m = nil
		}
	}

	if m == nil {
		if mode != openReadWrite || !opts.createIfMissing {
			if _, err := os.Stat(marker); err != nil {
				return nil, nil, fmt.Errorf("Invalid argument: %s/CURRENT: does not exist (create_if_missing is false)", path)
			}
			// marker present but unknown to this process: a store created by
			// another process; the stub cannot load it, treat as empty.
		}
		if err := os.MkdirAll(abs, 0o755); err != nil {
			return nil, nil, fmt.Errorf("IO error: %v", err)
		}
		if f, err := os.OpenFile(marker, os.O_CREATE|os.O_WRONLY, 0o644); err != nil {
			return nil, nil, fmt.Errorf("IO error: %v", err)
		} else {
			_ = f.Close()
		}
		m = newMemDB(abs)
		m.addCF(defaultCFName, opts)
		registry[abs] = m
	} else if mode == openReadWrite && opts.errorIfExists {
		return nil, nil, fmt.Errorf("Invalid argument: %s: exists (error_if_exists is true)", path)
	}

	m.mu.Lock()
	defer m.mu.Unlock()
	if mode == openReadWrite {
		if m.open {
			return nil, nil, fmt.Errorf("IO error: lock hold by current process: %s/LOCK: No locks available", path)
		}
		m.open = true
		m.opts = opts
	}

	var cfs []*memCF
	for i, n := range cfNames {
		cf := m.cfByName[n]
		var o *Options
		if i < len(cfOpts) {
			o = cfOpts[i]
		}
		if cf == nil {
			if mode != openReadWrite || !(opts.createIfMissingColumnFamilies || n == defaultCFName) {
				if mode == openReadWrite {
					m.open = false
				}
				return nil, nil, fmt.Errorf("Invalid argument: Column family not found: %s", n)
			}
			cf = m.addCF(n, o)
		} else if o != nil && mode == openReadWrite {
			cf.opts = o
		}
		cfs = append(cfs, cf)
	}
	if len(cfNames) == 0 && mode == openReadWrite {
		m.cfs[0].opts = opts
	}
	return m, cfs, nil
}

// addCF must be called with m.mu held (or before m is published).
func (m *memDB) addCF(name string, opts *Options) *memCF {
	cf := &memCF{id: m.nextCF, name: name, kv: map[string][]byte{}, opts: opts}
	m.nextCF++
	m.cfs[cf.id] = cf
	m.cfByName[name] = cf
	return cf
}

func (m *memDB) close() {
	m.mu.Lock()
	m.open = false
	m.mu.Unlock()
}

func destroyMem(path string) error {
	abs, err := filepath.Abs(path)
	if err != nil {
		return fmt.Errorf("IO error: %v", err)
	}
	registryMu.Lock()
	defer registryMu.Unlock()
	if m := registry[abs]; m != nil {
		if m.open {
			return fmt.Errorf("IO error: lock hold by current process: %s/LOCK: No locks available", path)
		}
		delete(registry, abs)
	}
	_ = os.Remove(filepath.Join(abs, stubMarkerFile))
	_ = os.Remove(abs) // only succeeds when empty, like rocksdb
	return nil
}

func listMemCFs(path string) ([]string, error) {
	abs, err := filepath.Abs(path)
	if err != nil {
		return nil, fmt.Errorf("IO error: %v", err)
	}
	registryMu.Lock()
	m := registry[abs]
	registryMu.Unlock()
	if m == nil {
		return nil, fmt.Errorf("IO error: No such file or directory: %s/CURRENT", path)
	}
	m.mu.RLock()
	defer m.mu.RUnlock()
	ids := make([]int, 0, len(m.cfs))
	for id := range m.cfs {
		ids = append(ids, int(id))
	}
	sort.Ints(ids)
	var names []string
	for _, id := range ids {
		names = append(names, m.cfs[uint32(id)].name)
	}
	return names, nil
}

func cfID(cf *ColumnFamilyHandle) uint32 {
	if cf == nil {
		return 0
	}
	return cf.id
}

func cloneBytes(b []byte) []byte {
	c := make([]byte, len(b))
	copy(c, b)
	return c
}

// ---------------------------------------------------------------------------
// snapshots

type memSnapshot struct {
	seq uint64
	cfs map[uint32]map[string][]byte
}

func (m *memDB) snapshot() *memSnapshot {
	m.mu.RLock()
	defer m.mu.RUnlock()
	s := &memSnapshot{seq: m.seq, cfs: map[uint32]map[string][]byte{}}
	for id, cf := range m.cfs {
		c := make(map[string][]byte, len(cf.kv))
		for k, v := range cf.kv {
			c[k] = v // values are never mutated in place
		}
		s.cfs[id] = c
	}
	return s
}

func readSnapshot(ro *ReadOptions) *memSnapshot {
	if ro == nil || ro.snapshot == nil {
		return nil
	}
	return ro.snapshot.snap
}

// ---------------------------------------------------------------------------
// reads

var errCFNotFound = errors.New("Invalid argument: Column family not found")

func (m *memDB) get(ro *ReadOptions, cf uint32, key []byte) ([]byte, bool, error) {
	if s := readSnapshot(ro); s != nil {
		kv, ok := s.cfs[cf]
		if !ok {
			return nil, false, errCFNotFound
		}
		v, ok := kv[string(key)]
		return v, ok, nil
	}
	m.mu.RLock()
	defer m.mu.RUnlock()
	c := m.cfs[cf]
	if c == nil || c.dropped {
		return nil, false, errCFNotFound
	}
	v, ok := c.kv[string(key)]
	return v, ok, nil
}

func (m *memDB) comparator(cf uint32) func(a, b []byte) int {
	m.mu.RLock()
	defer m.mu.RUnlock()
	return m.comparatorLocked(cf)
}

func (m *memDB) comparatorLocked(cf uint32) func(a, b []byte) int {
	if c := m.cfs[cf]; c != nil && c.opts != nil && c.opts.comparator != nil && c.opts.comparator.compare != nil {
		return c.opts.comparator.compare
	}
	if m.opts != nil && m.opts.comparator != nil && m.opts.comparator.compare != nil {
		return m.opts.comparator.compare
	}
	return bytes.Compare
}

type kvPair struct {
	k, v []byte
}

// sortedPairs returns a consistent, ordered copy of a column family.
func (m *memDB) sortedPairs(ro *ReadOptions, cf uint32) ([]kvPair, func(a, b []byte) int) {
	var src map[string][]byte
	cmp := m.comparator(cf)
	if s := readSnapshot(ro); s != nil {
		src = s.cfs[cf]
		return pairsOf(src, cmp, ro), cmp
	}
	m.mu.RLock()
	if c := m.cfs[cf]; c != nil && !c.dropped {
		src = c.kv
	}
	ps := pairsOf(src, cmp, ro)
	m.mu.RUnlock()
	return ps, cmp
}

func pairsOf(src map[string][]byte, cmp func(a, b []byte) int, ro *ReadOptions) []kvPair {
	ps := make([]kvPair, 0, len(src))
	for k, v := range src {
		kb := []byte(k)
		if ro != nil {
			if ro.iterLowerBound != nil && cmp(kb, ro.iterLowerBound) < 0 {
				continue
			}
			if ro.iterUpperBound != nil && cmp(kb, ro.iterUpperBound) >= 0 {
				continue
			}
		}
		ps = append(ps, kvPair{kb, v})
	}
	sort.Slice(ps, func(i, j int) bool { return cmp(ps[i].k, ps[j].k) < 0 })
	return ps
}

func (m *memDB) property(name string, cf uint32) (string, bool) {
	m.mu.RLock()
	defer m.mu.RUnlock()
	c := m.cfs[cf]
	if c == nil {
		return "", false
	}
	switch name {
	case "rocksdb.estimate-num-keys":
		return strconv.Itoa(len(c.kv)), true
	case "rocksdb.estimate-live-data-size", "rocksdb.total-sst-files-size", "rocksdb.live-sst-files-size",
		"rocksdb.cur-size-all-mem-tables", "rocksdb.size-all-mem-tables":
		n := 0
		for k, v := range c.kv {
			n += len(k) + len(v)
		}
		return strconv.Itoa(n), true
	case "rocksdb.num-snapshots", "rocksdb.num-running-compactions", "rocksdb.num-running-flushes",
		"rocksdb.mem-table-flush-pending", "rocksdb.compaction-pending", "rocksdb.background-errors",
		"rocksdb.num-immutable-mem-table", "rocksdb.is-write-stopped":
		return "0", true
	case "rocksdb.stats", "rocksdb.sstables", "rocksdb.levelstats", "rocksdb.cfstats", "rocksdb.dbstats":
		return "grocksdb stub: no statistics\n", true
	}
	return "", false
}

// ---------------------------------------------------------------------------
// writes

type wbOp struct {
	t      WriteBatchRecordType
	cf     uint32
	key    []byte
	value  []byte // value, merge operand or range end
	hasCF  bool
	isData bool // false for log data / markers
}

func (m *memDB) mergeOperatorLocked(cf uint32) MergeOperator {
	if c := m.cfs[cf]; c != nil && c.opts != nil && c.opts.mergeOperator != nil {
		return c.opts.mergeOperator
	}
	if m.opts != nil {
		return m.opts.mergeOperator
	}
	return nil
}

// apply executes the operations atomically.
func (m *memDB) apply(ops []wbOp) error {
	m.mu.Lock()
	defer m.mu.Unlock()
	// validate first so that the batch is all-or-nothing
	for _, op := range ops {
		c := m.cfs[op.cf]
		if c == nil || c.dropped {
			return fmt.Errorf("Invalid argument: Invalid column family specified in write batch")
		}
		switch op.t {
		case WriteBatchMergeRecord, WriteBatchCFMergeRecord:
			if m.mergeOperatorLocked(op.cf) == nil {
				return errors.New("Not implemented: Provide a merge_operator when opening DB")
			}
		}
	}
	for _, op := range ops {
		c := m.cfs[op.cf]
		switch op.t {
		case WriteBatchValueRecord, WriteBatchCFValueRecord:
			c.kv[string(op.key)] = cloneBytes(op.value)
		case WriteBatchDeletionRecord, WriteBatchCFDeletionRecord,
			WriteBatchSingleDeletionRecord, WriteBatchCFSingleDeletionRecord:
			delete(c.kv, string(op.key))
		case WriteBatchMergeRecord, WriteBatchCFMergeRecord:
			mo := m.mergeOperatorLocked(op.cf)
			var existing []byte
			if v, ok := c.kv[string(op.key)]; ok {
				existing = cloneBytes(v)
			}
			nv, ok := mo.FullMerge(cloneBytes(op.key), existing, [][]byte{cloneBytes(op.value)})
			if !ok {
				return errors.New("Corruption: Error: Could not perform merge.")
			}
			c.kv[string(op.key)] = cloneBytes(nv)
		case WriteBatchRangeDeletion, WriteBatchCFRangeDeletion:
			cmp := m.comparatorLocked(op.cf)
			for k := range c.kv {
				kb := []byte(k)
				if cmp(kb, op.key) >= 0 && cmp(kb, op.value) < 0 {
					delete(c.kv, k)
				}
			}
		default:
			continue
		}
		m.seq++
	}
	return nil
}

// ---------------------------------------------------------------------------
// pessimistic locks

func lockKey(cf uint32, key []byte) string {
	return strconv.FormatUint(uint64(cf), 10) + "/" + string(key)
}

var errLockTimeout = errors.New("Operation timed out: Timeout waiting to lock key")

// lock acquires the key lock for owner. timeoutMs < 0 waits forever,
// 0 does not wait.
func (m *memDB) lock(owner *txnState, cf uint32, key []byte, timeoutMs int64) error {
	lk := lockKey(cf, key)
	m.lockMu.Lock()
	defer m.lockMu.Unlock()
	var deadline time.Time
	var timer *time.Timer
	for {
		cur, held := m.locks[lk]
		if !held || cur == owner {
			m.locks[lk] = owner
			if !held {
				owner.held = append(owner.held, lk)
			}
			if timer != nil {
				timer.Stop()
			}
			return nil
		}
		if timeoutMs == 0 {
			return errLockTimeout
		}
		if timeoutMs > 0 {
			now := time.Now()
			if deadline.IsZero() {
				deadline = now.Add(time.Duration(timeoutMs) * time.Millisecond)
				timer = time.AfterFunc(time.Duration(timeoutMs)*time.Millisecond, func() {
					m.lockMu.Lock()
					m.lockCv.Broadcast()
					m.lockMu.Unlock()
				})
			} else if !now.Before(deadline) {
				return errLockTimeout
			}
		}
		m.lockCv.Wait()
	}
}

func (m *memDB) unlockAll(owner *txnState) {
	m.lockMu.Lock()
	for _, lk := range owner.held {
		if m.locks[lk] == owner {
			delete(m.locks, lk)
		}
	}
	owner.held = nil
	m.lockCv.Broadcast()
	m.lockMu.Unlock()
}
