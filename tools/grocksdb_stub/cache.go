// Code derived from github.com/linxGnu/grocksdb v1.8.1 (cache.go) with all cgo removed.
// Pure-Go STUB for offline compilation and testing. Not a real RocksDB binding.

package grocksdb

// Cache is a cache used to store data read from data in memory.
type Cache struct {
}

// NewLRUCache creates a new LRU Cache object with the capacity given.
func NewLRUCache(capacity uint64) *Cache {
	return &Cache{}
}

// NewLRUCacheWithOptions creates a new LRU Cache from options.
func NewLRUCacheWithOptions(opt *LRUCacheOptions) *Cache {
	return &Cache{}
}

// NewHyperClockCache creates a new hyper clock cache.
func NewHyperClockCache(capacity, estimatedEntryCharge int) *Cache {
	return &Cache{}
}

// NewHyperClockCacheWithOpts creates a hyper clock cache with predefined options.
func NewHyperClockCacheWithOpts(opt *HyperClockCacheOptions) *Cache {
	return &Cache{}
}

// GetUsage returns the Cache memory usage.
func (c *Cache) GetUsage() uint64 {
	return 0
}

// GetPinnedUsage returns the Cache pinned memory usage.
func (c *Cache) GetPinnedUsage() uint64 {
	return 0
}

// SetCapacity sets capacity of the cache.
func (c *Cache) SetCapacity(value uint64) {
}

// GetCapacity returns capacity of the cache.
func (c *Cache) GetCapacity() uint64 {
	return 0
}

// Disowndata call this on shutdown if you want to speed it up. Cache will disown
// any underlying data and will not free it on delete. This call will leak
// memory - call this only if you're shutting down the process.
// Any attempts of using cache after this call will fail terribly.
// Always delete the DB object before calling this method!
func (c *Cache) DisownData() {
}

// Destroy deallocates the Cache object.
func (c *Cache) Destroy() {
}

// LRUCacheOptions are options for LRU Cache.
type LRUCacheOptions struct {
}

// NewLRUCacheOptions creates lru cache options.
func NewLRUCacheOptions() *LRUCacheOptions {
	return &LRUCacheOptions{}
}

// Destroy lru cache options.
func (l *LRUCacheOptions) Destroy() {
}

// SetCapacity sets capacity for this lru cache.
func (l *LRUCacheOptions) SetCapacity(s uint) {
}

// SetCapacity sets number of shards used for this lru cache.
func (l *LRUCacheOptions) SetNumShardBits(n int) {
}

// SetMemoryAllocator for this lru cache.
func (l *LRUCacheOptions) SetMemoryAllocator(m *MemoryAllocator) {
}

// HyperClockCacheOptions are options for HyperClockCache.
//
// HyperClockCache is a lock-free Cache alternative for RocksDB block cache
// that offers much improved CPU efficiency vs. LRUCache under high parallel
// load or high contention, with some caveats:
// * Not a general Cache implementation: can only be used for
// BlockBasedTableOptions::block_cache, which RocksDB uses in a way that is
// compatible with HyperClockCache.
// * Requires an extra tuning parameter: see estimated_entry_charge below.
// Similarly, substantially changing the capacity with SetCapacity could
// harm efficiency.
// * SecondaryCache is not yet supported.
// * Cache priorities are less aggressively enforced, which could cause
// cache dilution from long range scans (unless they use fill_cache=false).
// * Can be worse for small caches, because if almost all of a cache shard is
// pinned (more likely with non-partitioned filters), then CLOCK eviction
// becomes very CPU intensive.
//
// See internal cache/clock_cache.h for full description.
type HyperClockCacheOptions struct {
}

// NewHyperClockCacheOptions creates new options for hyper clock cache.
func NewHyperClockCacheOptions(capacity, estimatedEntryCharge int) *HyperClockCacheOptions {
	return &HyperClockCacheOptions{}
}

// SetCapacity sets the capacity of the cache.
func (h *HyperClockCacheOptions) SetCapacity(capacity int) {
}

// SetEstimatedEntryCharge sets the estimated average `charge` associated with cache entries.
//
// This is a critical configuration parameter for good performance from the hyper
// cache, because having a table size that is fixed at creation time greatly
// reduces the required synchronization between threads.
// * If the estimate is substantially too low (e.g. less than half the true
// average) then metadata space overhead with be substantially higher (e.g.
// 200 bytes per entry rather than 100). With kFullChargeCacheMetadata, this
// can slightly reduce cache hit rates, and slightly reduce access times due
// to the larger working memory size.
// * If the estimate is substantially too high (e.g. 25% higher than the true
// average) then there might not be sufficient slots in the hash table for
// both efficient operation and capacity utilization (hit rate). The hyper
// cache will evict entries to prevent load factors that could dramatically
// affect lookup times, instead letting the hit rate suffer by not utilizing
// the full capacity.
//
// A reasonable choice is the larger of block_size and metadata_block_size.
// When WriteBufferManager (and similar) charge memory usage to the block
// cache, this can lead to the same effect as estimate being too low, which
// is better than the opposite. Therefore, the general recommendation is to
// assume that other memory charged to block cache could be negligible, and
// ignore it in making the estimate.
//
// The best parameter choice based on a cache in use is given by
// GetUsage() / GetOccupancyCount(), ignoring metadata overheads such as
// with kDontChargeCacheMetadata. More precisely with
// kFullChargeCacheMetadata is (GetUsage() - 64 * GetTableAddressCount()) /
// GetOccupancyCount(). However, when the average value size might vary
// (e.g. balance between metadata and data blocks in cache), it is better
// to estimate toward the lower side than the higher side.
func (h *HyperClockCacheOptions) SetEstimatedEntryCharge(v int) {
}

// SetCapacity sets number of shards used for this cache.
func (h *HyperClockCacheOptions) SetNumShardBits(n int) {
}

// SetMemoryAllocator for this cache.
func (h *HyperClockCacheOptions) SetMemoryAllocator(m *MemoryAllocator) {
}

// Destroy the options.
func (h *HyperClockCacheOptions) Destroy() {
}
