// Code derived from github.com/linxGnu/grocksdb v1.8.1 (ratelimiter.go) with all cgo removed.
// Pure-Go STUB for offline compilation and testing. Not a real RocksDB binding.

package grocksdb

// RateLimiter is used to control write rate of flush and
// compaction.
type RateLimiter struct {
}

// NewRateLimiter creates a default RateLimiter object.
func NewRateLimiter(rateBytesPerSec, refillPeriodMicros int64, fairness int32) *RateLimiter {
	return &RateLimiter{}
}

// Destroy deallocates the RateLimiter object.
func (r *RateLimiter) Destroy() {
}
