// Code derived from github.com/linxGnu/grocksdb v1.8.1 (db.go) with all cgo removed.
// Pure-Go STUB for offline compilation and testing. Not a real RocksDB binding.

package grocksdb

import (
	"fmt"
	"strconv"
)

// ErrColumnFamilyMustMatch indicates number of column family names and options must match.
var ErrColumnFamilyMustMatch = fmt.Errorf("must provide the same number of column family names and options")

// Range is a range of keys in the database. GetApproximateSizes calls with it
// begin at the key Start and end right before the key Limit.
type Range struct {
	Start []byte
	Limit []byte
}

// DB is a reusable handle to a RocksDB database on disk, created by Open.
type DB struct {
	name string
	opts *Options

	m        *memDB
	readOnly bool
	isBase   bool // handed out by OptimisticTransactionDB.GetBaseDB
}

// OpenDb opens a database with the specified options.
func OpenDb(opts *Options, name string) (db *DB, err error) {
	m, _, err := openMem(opts, name, nil, nil, openReadWrite)
	if err != nil {
		return nil, err
	}
	return &DB{name: name, opts: opts, m: m}, nil
}

// OpenDbWithTTL opens a database with TTL support with the specified options.
func OpenDbWithTTL(opts *Options, name string, ttl int) (db *DB, err error) {
	return OpenDb(opts, name)
}

// OpenDbForReadOnly opens a database with the specified options for readonly usage.
func OpenDbForReadOnly(opts *Options, name string, errorIfWalFileExists bool) (db *DB, err error) {
	m, _, err := openMem(opts, name, nil, nil, openReadOnly)
	if err != nil {
		return nil, err
	}
	return &DB{name: name, opts: opts, m: m, readOnly: true}, nil
}

// OpenDbAsSecondary creates a secondary instance that
// can dynamically tail the MANIFEST of a primary that must have already been
// created. User can call TryCatchUpWithPrimary to make the secondary
// instance catch up with primary (WAL tailing is NOT supported now) whenever
// the user feels necessary. Column families created by the primary after the
// secondary instance starts are currently ignored by the secondary instance.
// Column families opened by secondary and dropped by the primary will be
// dropped by secondary as well. However the user of the secondary instance
// can still access the data of such dropped column family as long as they
// do not destroy the corresponding column family handle.
// WAL tailing is not supported at present, but will arrive soon.
func OpenDbAsSecondary(opts *Options, name, secondaryPath string) (db *DB, err error) {
	m, _, err := openMem(opts, name, nil, nil, openSecondary)
	if err != nil {
		return nil, err
	}
	return &DB{name: name, opts: opts, m: m, readOnly: true}, nil
}

// OpenDbColumnFamilies opens a database with the specified column families.
func OpenDbColumnFamilies(
	opts *Options,
	name string,
	cfNames []string,
	cfOpts []*Options,
) (db *DB, cfHandles []*ColumnFamilyHandle, err error) {
	return openDbCFs(opts, name, cfNames, cfOpts, openReadWrite)
}

// OpenDbForReadOnlyColumnFamilies opens a database with the specified column
// families in read only mode.
func OpenDbForReadOnlyColumnFamilies(
	opts *Options,
	name string,
	cfNames []string,
	cfOpts []*Options,
	errorIfWalFileExists bool,
) (db *DB, cfHandles []*ColumnFamilyHandle, err error) {
	return openDbCFs(opts, name, cfNames, cfOpts, openReadOnly)
}

// OpenDbAsSecondaryColumnFamilies opens database as secondary instance with column families.
// You can open a subset of column families in secondary mode.
// The `opts` specify the database specific options.
// The `name` argument specifies the name of the primary db that you have used
// to open the primary instance.
// The `secondaryPath` argument points to a directory where the secondary
// instance stores its info log.
// The `column_families` arguments specifieds a list of column families to open.
// If any of the column families does not exist, the function returns non-OK
// status.
func OpenDbAsSecondaryColumnFamilies(
	opts *Options,
	name string,
	secondaryPath string,
	cfNames []string,
	cfOpts []*Options,
) (db *DB, cfHandles []*ColumnFamilyHandle, err error) {
	return openDbCFs(opts, name, cfNames, cfOpts, openSecondary)
}

// OpenDbAndTrimHistory opens DB and trim data newer than specified timestamp.
// The trim_ts specified the user-defined timestamp trim bound.
// This API should only be used at timestamp enabled column families recovery.
// If some input column families do not support timestamp, nothing will
// be happened to them. The data with timestamp > trim_ts
// will be removed after this API returns successfully.
func OpenDbAndTrimHistory(opts *Options,
	name string,
	cfNames []string,
	cfOpts []*Options,
	trimTimestamp []byte,
) (db *DB, cfHandles []*ColumnFamilyHandle, err error) {
	panic("grocksdb stub: not implemented: OpenDbAndTrimHistory")
}

// ListColumnFamilies lists the names of the column families in the DB.
func ListColumnFamilies(opts *Options, name string) (names []string, err error) {
	return listMemCFs(name)
}

// Name returns the name of the database.
func (db *DB) Name() string {
	return db.name
}

// KeyMayExists the value is only allocated (using malloc) and returned if it is found and
// value_found isn't NULL. In that case the user is responsible for freeing it.
func (db *DB) KeyMayExists(opts *ReadOptions, key []byte, timestamp string) (slice *Slice) {
	return db.KeyMayExistsCF(opts, nil, key, timestamp)
}

// KeyMayExistsCF the value is only allocated (using malloc) and returned if it is found and
// value_found isn't NULL. In that case the user is responsible for freeing it.
func (db *DB) KeyMayExistsCF(opts *ReadOptions, cf *ColumnFamilyHandle, key []byte, timestamp string) (slice *Slice) {
	v, ok, err := db.m.get(opts, cfID(cf), key)
	if err != nil || !ok {
		return nil
	}
	return newSlice(v, true)
}

// Get returns the data associated with the key from the database.
func (db *DB) Get(opts *ReadOptions, key []byte) (slice *Slice, err error) {
	return db.GetCF(opts, nil, key)
}

// GetWithTS returns the data and timestamp associated with the key from the database.
func (db *DB) GetWithTS(opts *ReadOptions, key []byte) (value, timestamp *Slice, err error) {
	panic("grocksdb stub: not implemented: DB.GetWithTS")
}

// GetBytes is like Get but returns a copy of the data.
func (db *DB) GetBytes(opts *ReadOptions, key []byte) (data []byte, err error) {
	v, ok, err := db.m.get(opts, 0, key)
	if err != nil || !ok {
		return nil, err
	}
	return cloneBytes(v), nil
}

// GetBytesWithTS is like Get but returns a copy of the data and timestamp.
func (db *DB) GetBytesWithTS(opts *ReadOptions, key []byte) (data, timestamp []byte, err error) {
	panic("grocksdb stub: not implemented: DB.GetBytesWithTS")
}

// GetCF returns the data associated with the key from the database and column family.
func (db *DB) GetCF(opts *ReadOptions, cf *ColumnFamilyHandle, key []byte) (slice *Slice, err error) {
	v, ok, err := db.m.get(opts, cfID(cf), key)
	if err != nil {
		return nil, err
	}
	return newSlice(v, ok), nil
}

// GetCFWithTS returns the data and timestamp associated with the key from the database and column family.
func (db *DB) GetCFWithTS(opts *ReadOptions, cf *ColumnFamilyHandle, key []byte) (value, timestamp *Slice, err error) {
	panic("grocksdb stub: not implemented: DB.GetCFWithTS")
}

// GetPinned returns the data associated with the key from the database.
func (db *DB) GetPinned(opts *ReadOptions, key []byte) (handle *PinnableSliceHandle, err error) {
	return db.GetPinnedCF(opts, nil, key)
}

// GetPinnedCF returns the data associated with the key from the database, specific column family.
func (db *DB) GetPinnedCF(opts *ReadOptions, cf *ColumnFamilyHandle, key []byte) (handle *PinnableSliceHandle, err error) {
	v, ok, err := db.m.get(opts, cfID(cf), key)
	if err != nil {
		return nil, err
	}
	return newPinnableSliceHandle(v, ok), nil
}

// MultiGet returns the data associated with the passed keys from the database
func (db *DB) MultiGet(opts *ReadOptions, keys ...[]byte) (Slices, error) {
	return db.MultiGetCF(opts, nil, keys...)
}

// MultiGetWithTS returns the data and timestamps associated with the passed keys from the database
func (db *DB) MultiGetWithTS(opts *ReadOptions, keys ...[]byte) (Slices, Slices, error) {
	panic("grocksdb stub: not implemented: DB.MultiGetWithTS")
}

// MultiGetCF returns the data associated with the passed keys from the column family
func (db *DB) MultiGetCF(opts *ReadOptions, cf *ColumnFamilyHandle, keys ...[]byte) (Slices, error) {
	cfs := make(ColumnFamilyHandles, len(keys))
	for i := 0; i < len(keys); i++ {
		cfs[i] = cf
	}
	return db.MultiGetCFMultiCF(opts, cfs, keys)
}

// MultiGetCFMultiCF returns the data associated with the passed keys and
// column families.
func (db *DB) MultiGetCFMultiCF(opts *ReadOptions, cfs ColumnFamilyHandles, keys [][]byte) (Slices, error) {
	if len(cfs) != len(keys) {
		return nil, ErrColumnFamilyMustMatch
	}
	return multiGet(db.m, opts, func(i int) *ColumnFamilyHandle { return cfs[i] }, keys)
}

// MultiGetCFWithTS returns the data and timestamp associated with the passed keys from the column family
func (db *DB) MultiGetCFWithTS(opts *ReadOptions, cf *ColumnFamilyHandle, keys ...[]byte) (Slices, Slices, error) {
	cfs := make(ColumnFamilyHandles, len(keys))
	for i := 0; i < len(keys); i++ {
		cfs[i] = cf
	}
	return db.MultiGetMultiCFWithTS(opts, cfs, keys)
}

// MultiGetMultiCFWithTS returns the data and timestamp associated with the passed keys and
// column families.
func (db *DB) MultiGetMultiCFWithTS(opts *ReadOptions, cfs ColumnFamilyHandles, keys [][]byte) (Slices, Slices, error) {
	panic("grocksdb stub: not implemented: DB.MultiGetMultiCFWithTS")
}

// Put writes data associated with a key to the database.
func (db *DB) Put(opts *WriteOptions, key, value []byte) (err error) {
	return db.write(opts, []wbOp{{t: WriteBatchValueRecord, key: key, value: value, isData: true}})
}

// PutWithTS writes data associated with a key and timestamp to the database.
func (db *DB) PutWithTS(opts *WriteOptions, key, ts, value []byte) (err error) {
	panic("grocksdb stub: not implemented: DB.PutWithTS")
}

// PutCF writes data associated with a key to the database and column family.
func (db *DB) PutCF(opts *WriteOptions, cf *ColumnFamilyHandle, key, value []byte) (err error) {
	return db.write(opts, []wbOp{{t: WriteBatchCFValueRecord, cf: cfID(cf), key: key, value: value, isData: true}})
}

// PutCFWithTS writes data associated with a key and timestamp to the database and column family.
func (db *DB) PutCFWithTS(opts *WriteOptions, cf *ColumnFamilyHandle, key, ts, value []byte) (err error) {
	panic("grocksdb stub: not implemented: DB.PutCFWithTS")
}

// Delete removes the data associated with the key from the database.
func (db *DB) Delete(opts *WriteOptions, key []byte) (err error) {
	return db.write(opts, []wbOp{{t: WriteBatchDeletionRecord, key: key, isData: true}})
}

// DeleteCF removes the data associated with the key from the database and column family.
func (db *DB) DeleteCF(opts *WriteOptions, cf *ColumnFamilyHandle, key []byte) (err error) {
	return db.write(opts, []wbOp{{t: WriteBatchCFDeletionRecord, cf: cfID(cf), key: key, isData: true}})
}

// DeleteWithTS removes the data associated with the key and timestamp from the database.
func (db *DB) DeleteWithTS(opts *WriteOptions, key, ts []byte) (err error) {
	panic("grocksdb stub: not implemented: DB.DeleteWithTS")
}

// DeleteCFWithTS removes the data associated with the key and timestamp from the database and column family.
func (db *DB) DeleteCFWithTS(opts *WriteOptions, cf *ColumnFamilyHandle, key, ts []byte) (err error) {
	panic("grocksdb stub: not implemented: DB.DeleteCFWithTS")
}

// SingleDeleteWithTS removes the data associated with the key and timestamp from the database.
func (db *DB) SingleDeleteWithTS(opts *WriteOptions, key, ts []byte) (err error) {
	panic("grocksdb stub: not implemented: DB.SingleDeleteWithTS")
}

// SingleDeleteCFWithTS removes the data associated with the key and timestamp from the database and column family.
func (db *DB) SingleDeleteCFWithTS(opts *WriteOptions, cf *ColumnFamilyHandle, key, ts []byte) (err error) {
	panic("grocksdb stub: not implemented: DB.SingleDeleteCFWithTS")
}

// DeleteRangeCF deletes keys that are between [startKey, endKey)
func (db *DB) DeleteRangeCF(opts *WriteOptions, cf *ColumnFamilyHandle, startKey []byte, endKey []byte) (err error) {
	return db.write(opts, []wbOp{{t: WriteBatchCFRangeDeletion, cf: cfID(cf), key: startKey, value: endKey, isData: true}})
}

// SingleDelete removes the database entry for "key". Requires that the key exists
// and was not overwritten. Returns OK on success, and a non-OK status
// on error.  It is not an error if "key" did not exist in the database.
//
// If a key is overwritten (by calling Put() multiple times), then the result
// of calling SingleDelete() on this key is undefined.  SingleDelete() only
// behaves correctly if there has been only one Put() for this key since the
// previous call to SingleDelete() for this key.
//
// This feature is currently an experimental performance optimization
// for a very specific workload.  It is up to the caller to ensure that
// SingleDelete is only used for a key that is not deleted using Delete() or
// written using Merge().  Mixing SingleDelete operations with Deletes and
// Merges can result in undefined behavior.
//
// Note: consider setting options.sync = true.
func (db *DB) SingleDelete(opts *WriteOptions, key []byte) (err error) {
	return db.write(opts, []wbOp{{t: WriteBatchSingleDeletionRecord, key: key, isData: true}})
}

// SingleDeleteCF removes the database entry for "key". Requires that the key exists
// and was not overwritten. Returns OK on success, and a non-OK status
// on error.  It is not an error if "key" did not exist in the database.
//
// If a key is overwritten (by calling Put() multiple times), then the result
// of calling SingleDelete() on this key is undefined.  SingleDelete() only
// behaves correctly if there has been only one Put() for this key since the
// previous call to SingleDelete() for this key.
//
// This feature is currently an experimental performance optimization
// for a very specific workload.  It is up to the caller to ensure that
// SingleDelete is only used for a key that is not deleted using Delete() or
// written using Merge().  Mixing SingleDelete operations with Deletes and
// Merges can result in undefined behavior.
//
// Note: consider setting options.sync = true.
func (db *DB) SingleDeleteCF(opts *WriteOptions, cf *ColumnFamilyHandle, key []byte) (err error) {
	return db.write(opts, []wbOp{{t: WriteBatchCFSingleDeletionRecord, cf: cfID(cf), key: key, isData: true}})
}

// Merge merges the data associated with the key with the actual data in the database.
func (db *DB) Merge(opts *WriteOptions, key []byte, value []byte) (err error) {
	return db.write(opts, []wbOp{{t: WriteBatchMergeRecord, key: key, value: value, isData: true}})
}

// MergeCF merges the data associated with the key with the actual data in the
// database and column family.
func (db *DB) MergeCF(opts *WriteOptions, cf *ColumnFamilyHandle, key []byte, value []byte) (err error) {
	return db.write(opts, []wbOp{{t: WriteBatchCFMergeRecord, cf: cfID(cf), key: key, value: value, isData: true}})
}

// Write a batch to the database.
func (db *DB) Write(opts *WriteOptions, batch *WriteBatch) (err error) {
	return db.write(opts, batch.ops)
}

// WriteWI writes a batch wi to the database.
func (db *DB) WriteWI(opts *WriteOptions, batch *WriteBatchWI) (err error) {
	panic("grocksdb stub: not implemented: DB.WriteWI")
}

// NewIterator returns an Iterator over the the database that uses the
// ReadOptions given.
func (db *DB) NewIterator(opts *ReadOptions) *Iterator {
	return db.NewIteratorCF(opts, nil)
}

// NewIteratorCF returns an Iterator over the the database and column family
// that uses the ReadOptions given.
func (db *DB) NewIteratorCF(opts *ReadOptions, cf *ColumnFamilyHandle) *Iterator {
	items, cmp := db.m.sortedPairs(opts, cfID(cf))
	return newMemIterator(items, cmp)
}

// NewIterators returns iterators from a consistent database state across multiple
// column families. Iterators are heap allocated and need to be deleted
// before the db is deleted
func (db *DB) NewIterators(opts *ReadOptions, cfs []*ColumnFamilyHandle) (iters []*Iterator, err error) {
	for _, cf := range cfs {
		iters = append(iters, db.NewIteratorCF(opts, cf))
	}
	return iters, nil
}

// GetUpdatesSince if the sequence number is non existent, it returns an iterator
// at the first available seq_no after the requested seq_no.
//
// Must set WAL_ttl_seconds or WAL_size_limit_MB to large values to
// use this api, else the WAL files will get
// cleared aggressively and the iterator might keep getting invalid before
// an update is read.
//
// Note: this API is not yet consistent with WritePrepared transactions.
// Sets iter to an iterator that is positioned at a write-batch containing
// seq_number.
func (db *DB) GetUpdatesSince(seqNumber uint64) (iter *WalIterator, err error) {
	panic("grocksdb stub: not implemented: DB.GetUpdatesSince")
}

// GetLatestSequenceNumber returns sequence number of the most recent transaction.
func (db *DB) GetLatestSequenceNumber() uint64 {
	db.m.mu.RLock()
	defer db.m.mu.RUnlock()
	return db.m.seq
}

// NewSnapshot creates a new snapshot of the database.
func (db *DB) NewSnapshot() *Snapshot {
	return &Snapshot{snap: db.m.snapshot()}
}

// ReleaseSnapshot releases the snapshot and its resources.
func (db *DB) ReleaseSnapshot(snapshot *Snapshot) {
	if snapshot != nil {
		snapshot.snap = nil
	}
}

// GetProperty returns the value of a database property.
func (db *DB) GetProperty(propName string) (value string) {
	return db.GetPropertyCF(propName, nil)
}

// GetIntProperty similar to `GetProperty`, but only works for a subset of properties whose
// return value is an integer. Return the value by integer.
func (db *DB) GetIntProperty(propName string) (value uint64, success bool) {
	return db.GetIntPropertyCF(propName, nil)
}

// GetIntPropertyCF similar to `GetProperty`, but only works for a subset of properties whose
// return value is an integer. Return the value by integer.
func (db *DB) GetIntPropertyCF(propName string, cf *ColumnFamilyHandle) (value uint64, success bool) {
	s, ok := db.m.property(propName, cfID(cf))
	if !ok {
		return 0, false
	}
	v, err := strconv.ParseUint(s, 10, 64)
	return v, err == nil
}

// GetPropertyCF returns the value of a database property.
func (db *DB) GetPropertyCF(propName string, cf *ColumnFamilyHandle) (value string) {
	value, _ = db.m.property(propName, cfID(cf))
	return value
}

// CreateColumnFamily create a new column family.
func (db *DB) CreateColumnFamily(opts *Options, name string) (handle *ColumnFamilyHandle, err error) {
	if db.readOnly {
		return nil, errReadOnly
	}
	cf, err := db.m.createCF(opts, name)
	if err != nil {
		return nil, err
	}
	return newCFHandle(cf), nil
}

// CreateColumnFamilyWithTTL create a new column family along with its ttl.
//
// BEHAVIOUR:
// TTL is accepted in seconds
// (int32_t)Timestamp(creation) is suffixed to values in Put internally
// Expired TTL values deleted in compaction only:(Timestamp+ttl<time_now)
// Get/Iterator may return expired entries(compaction not run on them yet)
// Different TTL may be used during different Opens
// Example:
// Open1 at t=0 with ttl=4 and insert k1,k2, close at t=2
// Open2 at t=3 with ttl=5. Now k1,k2 should be deleted at t>=5
// read_only=true opens in the usual read-only mode. Compactions will not be
// triggered(neither manual nor automatic), so no expired entries removed
//
// CONSTRAINTS:
// Not specifying/passing or non-positive TTL behaves like TTL = infinity
func (db *DB) CreateColumnFamilyWithTTL(opts *Options, name string, ttl int) (handle *ColumnFamilyHandle, err error) {
	return db.CreateColumnFamily(opts, name)
}

// DropColumnFamily drops a column family.
func (db *DB) DropColumnFamily(c *ColumnFamilyHandle) (err error) {
	if db.readOnly {
		return errReadOnly
	}
	return db.m.dropCF(cfID(c))
}

// GetApproximateSizes returns the approximate number of bytes of file system
// space used by one or more key ranges.
//
// The keys counted will begin at Range.Start and end on the key before
// Range.Limit.
func (db *DB) GetApproximateSizes(ranges []Range) ([]uint64, error) {
	return db.GetApproximateSizesCF(nil, ranges)
}

// GetApproximateSizesCF returns the approximate number of bytes of file system
// space used by one or more key ranges in the column family.
//
// The keys counted will begin at Range.Start and end on the key before
// Range.Limit.
func (db *DB) GetApproximateSizesCF(cf *ColumnFamilyHandle, ranges []Range) ([]uint64, error) {
	sizes := make([]uint64, len(ranges))
	items, cmp := db.m.sortedPairs(nil, cfID(cf))
	for i, r := range ranges {
		for _, it := range items {
			if cmp(it.k, r.Start) >= 0 && cmp(it.k, r.Limit) < 0 {
				sizes[i] += uint64(len(it.k) + len(it.v))
			}
		}
	}
	return sizes, nil
}

// SetOptions dynamically changes options through the SetOptions API.
func (db *DB) SetOptions(keys, values []string) (err error) {
	return nil
}

// SetOptionsCF dynamically changes options through the SetOptions API for specific Column Family.
func (db *DB) SetOptionsCF(cf *ColumnFamilyHandle, keys, values []string) (err error) {
	return nil
}

// LiveFileMetadata is a metadata which is associated with each SST file.
type LiveFileMetadata struct {
	Name             string
	ColumnFamilyName string
	Level            int
	Size             int64
	SmallestKey      []byte
	LargestKey       []byte
	Entries          uint64 // number of entries
	Deletions        uint64 // number of deletions
}

// GetLiveFilesMetaData returns a list of all table files with their
// level, start key and end key.
func (db *DB) GetLiveFilesMetaData() []LiveFileMetadata {
	return nil
}

// CompactRange runs a manual compaction on the Range of keys given. This is
// not likely to be needed for typical usage.
func (db *DB) CompactRange(r Range) {
	// no-op in the stub
}

// CompactRangeCF runs a manual compaction on the Range of keys given on the
// given column family. This is not likely to be needed for typical usage.
func (db *DB) CompactRangeCF(cf *ColumnFamilyHandle, r Range) {
	// no-op in the stub
}

// CompactRangeOpt runs a manual compaction on the Range of keys given with provided options. This is
// not likely to be needed for typical usage.
func (db *DB) CompactRangeOpt(r Range, opt *CompactRangeOptions) {
	// no-op in the stub
}

// CompactRangeCFOpt runs a manual compaction on the Range of keys given on the
// given column family with provided options. This is not likely to be needed for typical usage.
func (db *DB) CompactRangeCFOpt(cf *ColumnFamilyHandle, r Range, opt *CompactRangeOptions) {
	// no-op in the stub
}

// SuggestCompactRange only for leveled compaction.
func (db *DB) SuggestCompactRange(r Range) (err error) {
	return nil
}

// SuggestCompactRangeCF only for leveled compaction.
func (db *DB) SuggestCompactRangeCF(cf *ColumnFamilyHandle, r Range) (err error) {
	return nil
}

// Flush triggers a manual flush for the database.
func (db *DB) Flush(opts *FlushOptions) (err error) {
	return nil
}

// FlushCF triggers a manual flush for the database on specific column family.
func (db *DB) FlushCF(cf *ColumnFamilyHandle, opts *FlushOptions) (err error) {
	return nil
}

// FlushCFs triggers a manual flush for the database on specific column families.
func (db *DB) FlushCFs(cfs []*ColumnFamilyHandle, opts *FlushOptions) (err error) {
	return nil
}

// FlushWAL flushes the WAL memory buffer to the file. If sync is true, it calls SyncWAL
// afterwards.
func (db *DB) FlushWAL(sync bool) (err error) {
	return nil
}

// DisableFileDeletions disables file deletions and should be used when backup the database.
func (db *DB) DisableFileDeletions() (err error) {
	return nil
}

// EnableFileDeletions enables file deletions for the database.
func (db *DB) EnableFileDeletions(force bool) (err error) {
	return nil
}

// DeleteFile deletes the file name from the db directory and update the internal state to
// reflect that. Supports deletion of sst and log files only. 'name' must be
// path relative to the db directory. eg. 000001.sst, /archive/000003.log.
func (db *DB) DeleteFile(name string) {
	// no-op in the stub
}

// DeleteFileInRange deletes SST files that contain keys between the Range, [r.Start, r.Limit]
func (db *DB) DeleteFileInRange(r Range) (err error) {
	return nil
}

// DeleteFileInRangeCF deletes SST files that contain keys between the Range, [r.Start, r.Limit], and
// belong to a given column family
func (db *DB) DeleteFileInRangeCF(cf *ColumnFamilyHandle, r Range) (err error) {
	return nil
}

// IncreaseFullHistoryTsLow increases the full_history_ts of column family. The new ts_low value should
// be newer than current full_history_ts value.
// If another thread updates full_history_ts_low concurrently to a higher
// timestamp than the requested ts_low, a try again error will be returned.
func (db *DB) IncreaseFullHistoryTsLow(handle *ColumnFamilyHandle, ts []byte) (err error) {
	panic("grocksdb stub: not implemented: DB.IncreaseFullHistoryTsLow")
}

// GetFullHistoryTsLow returns current full_history_ts value.
func (db *DB) GetFullHistoryTsLow(handle *ColumnFamilyHandle) (slice *Slice, err error) {
	panic("grocksdb stub: not implemented: DB.GetFullHistoryTsLow")
}

// IngestExternalFile loads a list of external SST files.
func (db *DB) IngestExternalFile(filePaths []string, opts *IngestExternalFileOptions) (err error) {
	panic("grocksdb stub: not implemented: DB.IngestExternalFile")
}

// IngestExternalFileCF loads a list of external SST files for a column family.
func (db *DB) IngestExternalFileCF(handle *ColumnFamilyHandle, filePaths []string, opts *IngestExternalFileOptions) (err error) {
	panic("grocksdb stub: not implemented: DB.IngestExternalFileCF")
}

// NewCheckpoint creates a new Checkpoint for this db.
func (db *DB) NewCheckpoint() (cp *Checkpoint, err error) {
	panic("grocksdb stub: not implemented: DB.NewCheckpoint")
}

// TryCatchUpWithPrimary to make the secondary
// instance catch up with primary (WAL tailing is NOT supported now) whenever
// the user feels necessary. Column families created by the primary after the
// secondary instance starts are currently ignored by the secondary instance.
// Column families opened by secondary and dropped by the primary will be
// dropped by secondary as well. However the user of the secondary instance
// can still access the data of such dropped column family as long as they
// do not destroy the corresponding column family handle.
// WAL tailing is not supported at present, but will arrive soon.
func (db *DB) TryCatchUpWithPrimary() (err error) {
	return nil
}

// CancelAllBackgroundWork requests stopping background work, if wait is true wait until it's done
func (db *DB) CancelAllBackgroundWork(wait bool) {
	// no-op in the stub
}

// EnableManualCompaction enables manual compaction.
func (db *DB) EnableManualCompaction() {
	// no-op in the stub
}

// DisableManualCompaction disables manual compaction.
func (db *DB) DisableManualCompaction() {
	// no-op in the stub
}

// GetColumnFamilyMetadata returns the metadata of the default column family.
func (db *DB) GetColumnFamilyMetadata() (m *ColumnFamilyMetadata) {
	return db.GetColumnFamilyMetadataCF(nil)
}

// GetColumnFamilyMetadataCF returns the metadata of the specified column family.
func (db *DB) GetColumnFamilyMetadataCF(cf *ColumnFamilyHandle) (m *ColumnFamilyMetadata) {
	size, _ := db.GetIntPropertyCF("rocksdb.estimate-live-data-size", cf)
	name := defaultCFName
	if cf != nil {
		name = cf.name
	}
	return &ColumnFamilyMetadata{size: size, name: name}
}

// Close the database.
func (db *DB) Close() {
	if db.m != nil && !db.readOnly && !db.isBase {
		db.m.close()
	}
}

// DestroyDb removes a database entirely, removing everything from the
// filesystem.
func DestroyDb(name string, opts *Options) (err error) {
	return destroyMem(name)
}

// RepairDb repairs a database.
func RepairDb(name string, opts *Options) (err error) {
	return nil
}
