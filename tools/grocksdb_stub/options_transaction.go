// Code derived from github.com/linxGnu/grocksdb v1.8.1 (options_transaction.go) with all cgo removed.
// Pure-Go STUB for offline compilation and testing. Not a real RocksDB binding.

package grocksdb

// TransactionOptions represent all of the available options options for
// a transaction on the database.
type TransactionOptions struct {
	setSnapshot bool
	lockTimeout int64 // ms; <0: use the TransactionDB default
}

// NewDefaultTransactionOptions creates a default TransactionOptions object.
func NewDefaultTransactionOptions() *TransactionOptions {
	return &TransactionOptions{lockTimeout: -1}
}

// SetSetSnapshot to true is the same as calling
// Transaction::SetSnapshot().
func (opts *TransactionOptions) SetSetSnapshot(value bool) {
	opts.setSnapshot = value
}

// SetDeadlockDetect to true means that before acquiring locks, this transaction will
// check if doing so will cause a deadlock. If so, it will return with
// Status::Busy.  The user should retry their transaction.
func (opts *TransactionOptions) SetDeadlockDetect(value bool) {
}

// SetLockTimeout positive, specifies the wait timeout in milliseconds when
// a transaction attempts to lock a key.
// If 0, no waiting is done if a lock cannot instantly be acquired.
// If negative, TransactionDBOptions::transaction_lock_timeout will be used
func (opts *TransactionOptions) SetLockTimeout(lockTimeout int64) {
	opts.lockTimeout = lockTimeout
}

// SetExpiration sets the Expiration duration in milliseconds.
// If non-negative, transactions that last longer than this many milliseconds will fail to commit.
// If not set, a forgotten transaction that is never committed, rolled back, or deleted
// will never relinquish any locks it holds.  This could prevent keys from
// being written by other writers.
func (opts *TransactionOptions) SetExpiration(expiration int64) {
}

// SetDeadlockDetectDepth sets the number of traversals to make during deadlock detection.
func (opts *TransactionOptions) SetDeadlockDetectDepth(depth int64) {
}

// SetMaxWriteBatchSize sets the maximum number of bytes used for the write batch. 0 means no limit.
func (opts *TransactionOptions) SetMaxWriteBatchSize(size uint64) {
}

// SetSkipPrepare skips prepare phase.
func (opts *TransactionOptions) SetSkipPrepare(skip bool) {
}

// Destroy deallocates the TransactionOptions object.
func (opts *TransactionOptions) Destroy() {
}

// OptimisticTransactionOptions represent all of the available options options for
// a optimistic transaction on the database.
type OptimisticTransactionOptions struct {
	setSnapshot bool
}

// NewDefaultOptimisticTransactionOptions creates a default TransactionOptions object.
func NewDefaultOptimisticTransactionOptions() *OptimisticTransactionOptions {
	return &OptimisticTransactionOptions{}
}

// SetSetSnapshot to true is the same as calling
// Transaction::SetSnapshot().
func (opts *OptimisticTransactionOptions) SetSetSnapshot(value bool) {
	opts.setSnapshot = value
}

// Destroy deallocates the TransactionOptions object.
func (opts *OptimisticTransactionOptions) Destroy() {
}
