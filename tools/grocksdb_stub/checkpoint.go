// Code derived from github.com/linxGnu/grocksdb v1.8.1 (checkpoint.go) with all cgo removed.
// Pure-Go STUB for offline compilation and testing. Not a real RocksDB binding.

package grocksdb

// Checkpoint provides persistent snapshots of RocksDB databases.
type Checkpoint struct {
}

// CreateCheckpoint builds an openable snapshot of RocksDB on the same disk, which
// accepts an output directory on the same disk, and under the directory
// (1) hard-linked SST files pointing to existing live SST files
// SST files will be copied if output directory is on a different filesystem
// (2) a copied manifest files and other files
// The directory should not already exist and will be created by this API.
// The directory will be an absolute path
// log_size_for_flush: if the total log file size is equal or larger than
// this value, then a flush is triggered for all the column families. The
// default value is 0, which means flush is always triggered. If you move
// away from the default, the checkpoint may not contain up-to-date data
// if WAL writing is not always enabled.
// Flush will always trigger if it is 2PC.
func (checkpoint *Checkpoint) CreateCheckpoint(checkpointDir string, logSizeForFlush uint64) (err error) {
	panic("grocksdb stub: not implemented: Checkpoint.CreateCheckpoint")
}

// Destroy deallocates the Checkpoint object.
func (checkpoint *Checkpoint) Destroy() {
}
