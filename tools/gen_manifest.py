#!/usr/bin/env python3
"""Regenerates /verif/MANIFEST.json from tools/claims.json (claimed checks) and
tools/na.json (not claimed, with reason). Validates against the schema."""
import json, os, sys
V = os.path.dirname(os.path.dirname(os.path.abspath(__file__)))
claims = json.load(open(os.path.join(V, "tools", "claims.json")))
na = json.load(open(os.path.join(V, "tools", "na.json")))
props = [json.loads(l) for l in open(os.path.join(V, "properties.jsonl"))]
ids = [p["id"] for p in props]
BASE = json.load(open("/root/.vp/BASELINE.json"))["cmd"] if os.path.exists("/root/.vp/BASELINE.json") else ""
checks = []
for pid in ids:
    if pid not in claims:
        continue
    c = claims[pid]
    checks.append({
        "property_id": pid,
        "quick_cmd": f"/verif/bin/zv check {pid} --tier quick",
        "thorough_cmd": f"/verif/bin/zv check {pid} --tier thorough",
        "evidence_file": f"/verif/evidence/{pid}.json",
        "replay_cmd_template": f"/verif/bin/zv check {pid} --tier thorough # violated obligations are listed in {{path}}; add --only <obligation-key> to re-run one",
        "engine": "zv",
        "level_claimed": {"category": c.get("level", "other"), "text": c["text"], "design_ref": c.get("design_ref", f"DESIGN.md §5 {pid}")},
        "level_note": c["note"],
        "technique": c["technique"],
    })
missing = [i for i in ids if i not in claims and i not in na]
if missing:
    sys.exit(f"properties neither claimed nor in na.json: {missing}")
both = [i for i in ids if i in claims and i in na]
if both:
    sys.exit(f"properties both claimed and n/a: {both}")
m = {
    "version": 1,
    "setup_cmd": "cd /verif/zv && GOFLAGS=-mod=vendor GOPROXY=off GOSUMDB=off GOTOOLCHAIN=local go build -o ../bin/zv ./cmd/zv",
    "hooks": {
        "guard": "verif",
        "enable": "none — static analysis reads /repo's source only; no hook or instrumentation exists in /repo",
        "baseline_off_cmd": BASE,
        "source_commits": [],
        "add_only": True,
    },
    "engines": [{
        "name": "zv", "path": "/verif/zv",
        "serves_properties": [c["property_id"] for c in checks],
        "kind_free_text": "repository-specific static analysers (Go): go/packages type-check of the whole module from source, go/ssa with dominator-based path rules, field-writer, provenance, lockset, hash-coverage, exhaustiveness and loop-stutter engines; VTA call graph for reachability",
    }],
    "checks": checks,
    "notes": "Every check re-loads /repo's working tree (env ZV_REPO overrides the root only for scratch-copy self tests). Violated obligations that match /verif/known_findings.json print KNOWN-FINDING and do not fail the check. The thorough tier runs the same rules with the wider scopes (C02/C06: whole consensus closure; C44: every inferred guard) and then exercises the property's rules on the stored controls: each patch under zv/mutants/<id> (one rule instance broken) and zv/equiv/<id> (behaviour-preserving rewrite) is applied to a scratch copy of the tree under analysis and analysed by the same binary; the CONTROLS line and coverage.controls in the evidence file say how many broken variants were reported and how many equivalent ones stayed silent (a control whose patch no longer applies is skipped). Controls are evidence about the checker and never change the exit status; they make a thorough run take 1-3 minutes per property.",
    "not_applicable": [{"property_id": i, "reason": na[i]} for i in ids if i in na],
}
json.dump(m, open(os.path.join(V, "MANIFEST.json"), "w"), indent=1)
try:
    import jsonschema
    jsonschema.validate(m, json.load(open("/root/.vp/MANIFEST.schema.json")))
    print("MANIFEST.json valid;", len(checks), "claimed,", len(m["not_applicable"]), "not claimed")
except ImportError:
    print("jsonschema not available; wrote without validation")
