#!/bin/bash
# intake_neutral.sh <out-dir-name e.g. C01n> — confirm a behaviour-preserving refactor and store it under /verif/neutral/<Cnn>-<v>/
set -u
export GOFLAGS=-mod=mod GOPROXY=off GOSUMDB=off GOTOOLCHAIN=local GOWORK=off
s=$1; prop=${s:0:3}; v=${s:3}
src=/tmp/out/$s
wt=/tmp/intake.$$.$s
log=/tmp/intake.$s.log
: > $log
fail() { echo "INTAKE-NEUTRAL $s: FAIL — $1" | tee -a $log; git -C /repo worktree remove --force $wt 2>/dev/null; rm -rf $wt; git -C /repo worktree remove --force /tmp/wt/$s 2>/dev/null; rm -rf /tmp/wt/$s; exit 1; }
[ -f $src/patch.diff ] || fail "no patch.diff"
git -C /repo worktree add -q --detach $wt HEAD || fail "worktree"
mod=$wt/code/go/0chain.net
[ -d /tmp/grocksdb_stub ] || cp -r /verif/tools/grocksdb_stub /tmp/grocksdb_stub
echo 'replace github.com/linxGnu/grocksdb => /tmp/grocksdb_stub' >> $mod/go.mod
( cd $src && timeout 1200 bash demo/run.sh $wt ) >> $log 2>&1 || fail "demo does not pass on the clean tree"
git -C $wt checkout -q -- . ; git -C $wt clean -fdq
echo 'replace github.com/linxGnu/grocksdb => /tmp/grocksdb_stub' >> $mod/go.mod
git -C $wt apply $src/patch.diff >> $log 2>&1 || fail "patch does not apply"
( cd $mod && go build ./... ) >> $log 2>&1 || fail "module does not build with the patch"
( cd $src && timeout 1200 bash demo/run.sh $wt ) >> $log 2>&1 || fail "demo does not pass with the patch (not behaviour-preserving?)"
git -C $wt checkout -q -- . ; git -C $wt clean -fdq
git -C $wt apply $src/patch.diff
( cd $mod && go test -vet=off -count=1 ./chaincore/client/... ./chaincore/node/... ./conductor/conductrpc/stats/... ./core/cache/... ./core/config/... ./core/encryption/... ./core/sortedmap/... ./core/util/... ./core/viper/... ./sharder/blockdb/... ) >> $log 2>&1 || fail "pinned suite fails with the patch"
git -C /repo worktree remove --force $wt; rm -rf $wt
git -C /repo worktree remove --force /tmp/wt/$s 2>/dev/null; rm -rf /tmp/wt/$s
dst=/verif/neutral/$prop-$v
mkdir -p $dst; cp $src/patch.diff $dst/; rm -rf $dst/demo; cp -r $src/demo $dst/demo
python3 - "$src/meta.json" "$dst/meta.json" "$prop" <<'PY'
import json, sys
try:
    m = json.load(open(sys.argv[1]))
except Exception as e:
    m = {"summary": "(agent meta.json unreadable: %s)" % e}
m["property"] = sys.argv[3]; m["kind"] = "neutral"
m["confirmed_by_intake"] = ["demo passes on clean tree", "patch applies and module builds (grocksdb stub)", "demo passes with patch", "pinned suite passes with patch"]
json.dump(m, open(sys.argv[2], "w"), indent=1)
PY
echo "INTAKE-NEUTRAL $s: OK -> $dst" | tee -a $log
