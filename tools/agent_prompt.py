#!/usr/bin/env python3
"""Prints the prompt given to a fresh mutant-writing sub-agent for property <id>.
It contains only the property text and sandbox mechanics, nothing about /verif's checks."""
import json, sys
pid = sys.argv[1]
variant = sys.argv[2] if len(sys.argv) > 2 else "a"
wt = f"/tmp/wt/{pid}{'' if variant=='a' else variant}"
p = [json.loads(l) for l in open('/verif/properties.jsonl') if json.loads(l)['id'] == pid][0]
import glob, os
taken = []
for mf in sorted(glob.glob(f'/verif/seeded/{pid}-*/meta.json')):
    try:
        taken.append(json.load(open(mf)).get('summary', '')[:400])
    except Exception:
        pass
avoid = ""
if taken:
    avoid = "\nALREADY DONE BY OTHERS (choose a DIFFERENT function/mechanism and a different kind of mistake):\n" + "\n".join(" - " + t for t in taken) + "\n"
print(f"""You are testing how well a semantic property of a Go codebase is protected. The codebase is the Züs/0chain blockchain node (miners and sharders, VRF-based round consensus, a Merkle Patricia state trie, storage/staking smart contracts). You have your own scratch git worktree of it at {wt} (Go module at {wt}/code/go/0chain.net). Work ONLY inside {wt} (and /tmp/out/{pid}{'' if variant=='a' else variant} for your deliverables). Never touch /repo or /verif, and do not read anything under /verif.

THE PROPERTY ({pid}: {p['title']})
{p['statement']}
Quantified over: {p['quantifier']['text']}
Files where the mechanism lives (relative to the worktree root): {', '.join(p['anchors']['files'])}
Mechanisms meant to make it hold: {'; '.join(m.get('name','')+' ('+m.get('where','')+')' for m in p['anchors']['mechanism'])}

{avoid}
YOUR TASK
Produce ONE realistic source change (a bug a tired maintainer could plausibly commit during a refactor, an optimisation or a feature tweak — not sabotage that is obvious at a glance) to the NON-TEST Go code in the worktree that BREAKS this property, such that:
 1. the module still compiles/type-checks, and the existing pinned test suite still passes (see MECHANICS);
 2. the breakage needs something specific to manifest — a particular interleaving, a fault or error at a particular point, a multi-step sequence of operations, an unusual input or boundary value, or two cooperating sites that each look fine alone. Do NOT make a change that ordinary use would expose at once (e.g. breaking every transfer).
 3. you provide a DEMONSTRATION: a Go test (or small program) that FAILS with your change applied and PASSES on the unchanged code. Keep it self-contained (hand-written fakes, no mockery mocks).
Prefer changes that are subtle in the code's *structure* (a dropped or reordered check, a wrong variable/key, an off-by-one in a guard, a missing save/unlock/error return, an early return on a rare path, a field left out, a wrong comparison direction) over changes to constants.

MECHANICS (important — this sandbox is offline)
 * In every shell call first run:  export GOFLAGS=-mod=mod GOPROXY=off GOSUMDB=off GOTOOLCHAIN=local GOWORK=off
 * Most packages do not link here because the cgo dependency github.com/linxGnu/grocksdb does not compile against the installed rocksdb. A pure-Go in-memory stub of it is at /tmp/grocksdb_stub (read /tmp/grocksdb_stub/README.md — it explains which packages' tests compile, how to write a standalone _test.go where the existing test files import mocks that are not checked in, logger initialisation, statecache, etc.). To build/test with it, append to {wt}/code/go/0chain.net/go.mod the line
       replace github.com/linxGnu/grocksdb => /tmp/grocksdb_stub
   This go.mod edit (and moving broken *_test.go files aside) is test scaffolding: do NOT include it in your patch.
 * "Compiles": `cd {wt}/code/go/0chain.net && go build ./...` must succeed (with the replace line).
 * "Existing tests pass": with the replace line REMOVED the pinned suite is `cd {wt}/code/go/0chain.net && go test -vet=off -count=1 ./chaincore/client/... ./chaincore/node/... ./conductor/conductrpc/stats/... ./core/cache/... ./core/config/... ./core/encryption/... ./core/sortedmap/... ./core/util/... ./core/viper/... ./sharder/blockdb/...` — it must still pass. In addition, with the stub, the packages the README lists as passing (e.g. smartcontract/stakepool, chaincore/chain/state, miner, sharder/blockstore, chaincore/threshold/bls …) must still pass if your change touches them.
 * Do not run `go mod tidy`, do not add dependencies.
 * NEVER use `git stash` (all scratch worktrees share one stash stack and other engineers work in parallel): to test the unchanged code use `git apply -R <your patch>` / `git apply <your patch>` or a `git archive HEAD` copy.

DELIVERABLES — write them to /tmp/out/{pid}{'' if variant=='a' else variant}/ :
 * patch.diff — `git -C {wt} diff` of ONLY the non-test source change that breaks the property (no go.mod change, no test files, no moved files). It must apply with `git apply` to a clean checkout.
 * demo/ — the demonstration: the new test file(s) with their intended path inside the repo noted in a header comment, plus run.sh that, given the path of a checkout as $1 (already containing the stub replace line in go.mod), copies the demo test into place, moves aside whatever broken *_test.go files it must, runs the test, and exits 0 iff the test PASSES. So: run.sh on a clean checkout → exit 0; on a checkout with patch.diff applied → non-zero.
 * meta.json — {{"property": "{pid}", "summary": "<what the change does>", "needs_to_manifest": "<the specific input/sequence/interleaving/fault>", "files_changed": [...], "why_existing_tests_pass": "...", "demo_cmd": "bash demo/run.sh <checkout>"}}
Before finishing: verify all of it yourself (clean → demo passes; patched → demo fails; build ok; pinned suite ok), then `git -C {wt} checkout -- . && git -C {wt} clean -fdq` is NOT required (leave the worktree as is). Your final message: a short description of the change, why it is subtle, and the verification commands you ran with their results.""")
