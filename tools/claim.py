#!/usr/bin/env python3
# claim.py <id> <technique> <text> <note>
import json,sys,subprocess
V='/verif'
i,tech,text,note=sys.argv[1:5]
c=json.load(open(V+'/tools/claims.json')); n=json.load(open(V+'/tools/na.json'))
c[i]={"level":"other","text":text,"note":note,"technique":tech}
n.pop(i,None)
json.dump(c,open(V+'/tools/claims.json','w'),indent=1,sort_keys=True); json.dump(n,open(V+'/tools/na.json','w'),indent=1,sort_keys=True)
print(subprocess.run(['python3-vt',V+'/tools/gen_manifest.py'],capture_output=True,text=True,cwd=V).stdout[-300:])
