#!/bin/bash
# intake_seed.sh <out-dir-name e.g. C30> [seed-name]
# Confirms a sub-agent's seeded change in a fresh scratch worktree of /repo and, if it
# holds up, stores it as /verif/seeded/<seed-name>/ (patch.diff, demo/, meta.json).
#  1. demo passes on the clean tree        2. patch applies; module builds (with stub)
#  3. demo fails with the patch            4. pinned suite passes with the patch (no stub)
set -u
export GOFLAGS=-mod=mod GOPROXY=off GOSUMDB=off GOTOOLCHAIN=local GOWORK=off
src=/tmp/out/$1
name=${2:-$1-a}
wt=/tmp/intake.$$.$1
log=/tmp/intake.$1.log
: > $log
fail() { echo "INTAKE $1: FAIL — $2" | tee -a $log; git -C /repo worktree remove --force $wt 2>/dev/null; rm -rf $wt; exit 1; }
[ -f $src/patch.diff ] || fail $1 "no patch.diff"
git -C /repo worktree add -q --detach $wt HEAD || fail $1 "worktree"
mod=$wt/code/go/0chain.net
echo 'replace github.com/linxGnu/grocksdb => /tmp/grocksdb_stub' >> $mod/go.mod
[ -d /tmp/grocksdb_stub ] || cp -r /verif/tools/grocksdb_stub /tmp/grocksdb_stub
# 1. clean demo
( cd $src && timeout 1200 bash demo/run.sh $wt ) >> $log 2>&1 || fail $1 "demo does not pass on the clean tree (see $log)"
# reset everything except go.mod replace
git -C $wt stash -q -u 2>/dev/null; git -C $wt stash drop -q 2>/dev/null; git -C $wt checkout -q -- . ; git -C $wt clean -fdq
echo 'replace github.com/linxGnu/grocksdb => /tmp/grocksdb_stub' >> $mod/go.mod
# 2. patch + build
git -C $wt apply $src/patch.diff >> $log 2>&1 || fail $1 "patch does not apply"
( cd $mod && go build ./... ) >> $log 2>&1 || fail $1 "module does not build with the patch"
# 3. patched demo must fail
if ( cd $src && timeout 1200 bash demo/run.sh $wt ) >> $log 2>&1; then fail $1 "demo still passes with the patch"; fi
# 4. pinned suite without the stub
git -C $wt checkout -q -- . ; git -C $wt clean -fdq
git -C $wt apply $src/patch.diff
( cd $mod && go test -vet=off -count=1 ./chaincore/client/... ./chaincore/node/... ./conductor/conductrpc/stats/... ./core/cache/... ./core/config/... ./core/encryption/... ./core/sortedmap/... ./core/util/... ./core/viper/... ./sharder/blockdb/... ) >> $log 2>&1 || fail $1 "pinned suite fails with the patch"
git -C /repo worktree remove --force $wt; rm -rf $wt
dst=/verif/seeded/$name
mkdir -p $dst
cp $src/patch.diff $dst/; rm -rf $dst/demo; cp -r $src/demo $dst/demo
python3 - "$src/meta.json" "$dst/meta.json" "$1" <<'EOF'
import json, sys
try:
    m = json.load(open(sys.argv[1]))
except Exception as e:
    m = {"property": sys.argv[3], "summary": "(agent meta.json unreadable: %s)" % e}
m["confirmed_by_intake"] = ["demo passes on clean tree", "patch applies and module builds (grocksdb stub)", "demo fails with patch", "pinned suite passes with patch"]
json.dump(m, open(sys.argv[2], "w"), indent=1)
EOF
echo "INTAKE $1: OK -> $dst" | tee -a $log
