#!/usr/bin/env python3
"""Prints the prompt for a sub-agent that writes a BEHAVIOUR-PRESERVING refactor of the code
behind property <id> (a negative control: the checks must stay silent on it).
It contains only the property text and sandbox mechanics, nothing about /verif's checks."""
import json, sys
pid = sys.argv[1]
variant = sys.argv[2] if len(sys.argv) > 2 else "n"
wt = f"/tmp/wt/{pid}{variant}"
out = f"/tmp/out/{pid}{variant}"
p = [json.loads(l) for l in open('/verif/properties.jsonl') if json.loads(l)['id'] == pid][0]
print(f"""You are helping to evaluate tooling that guards a semantic property of a Go codebase. The codebase is the Züs/0chain blockchain node (miners and sharders, VRF-based round consensus, a Merkle Patricia state trie, storage/staking smart contracts). You have your own scratch git worktree of it at {wt} (Go module at {wt}/code/go/0chain.net). Work ONLY inside {wt} (and {out} for your deliverables). Never touch /repo or /verif, and do not read anything under /verif.

THE PROPERTY ({pid}: {p['title']})
{p['statement']}
Quantified over: {p['quantifier']['text']}
Files where the mechanism lives (relative to the worktree root): {', '.join(p['anchors']['files'])}
Mechanisms meant to make it hold: {'; '.join(m.get('name','')+' ('+m.get('where','')+')' for m in p['anchors']['mechanism'])}

YOUR TASK
Produce ONE realistic, BEHAVIOUR-PRESERVING refactor of the NON-TEST Go code that implements this mechanism — the kind of clean-up a maintainer really commits: extract a helper function or inline one, rename locals/parameters, restructure an if/else chain or a switch, invert a condition and swap the branches, replace an index loop by a range loop (or the reverse), hoist a repeated sub-expression into a variable, split a long function in two, reorder statements that are independent of each other, turn an early-return cascade into nested ifs, replace a hand-written loop by an equivalent standard-library call, move a check into the callee that every caller performs, etc. Touch the very functions listed above (not unrelated code), change 15-80 lines, and make sure that:
 1. the property STILL HOLDS exactly as before and observable behaviour is unchanged for every input (same results, same errors in the same cases, same state writes in the same order, same locking);
 2. the module still compiles/type-checks and the existing pinned test suite still passes (see MECHANICS);
 3. you provide a DEMONSTRATION of equivalence: a Go test that exercises the refactored code paths (ordinary cases AND the edge cases the property cares about) and PASSES both on the unchanged code and with your change applied. Keep it self-contained (hand-written fakes, no mockery mocks).
Do NOT fix bugs, do NOT change behaviour "for the better", do NOT touch comments only. If you notice that your refactor would change behaviour in some corner case, choose a different refactor.

MECHANICS (important — this sandbox is offline)
 * In every shell call first run:  export GOFLAGS=-mod=mod GOPROXY=off GOSUMDB=off GOTOOLCHAIN=local GOWORK=off
 * Most packages do not link here because the cgo dependency github.com/linxGnu/grocksdb does not compile against the installed rocksdb. A pure-Go in-memory stub of it is at /tmp/grocksdb_stub (read /tmp/grocksdb_stub/README.md — it explains which packages' tests compile, how to write a standalone _test.go where the existing test files import mocks that are not checked in, logger initialisation, statecache, etc.). To build/test with it, append to {wt}/code/go/0chain.net/go.mod the line
       replace github.com/linxGnu/grocksdb => /tmp/grocksdb_stub
   This go.mod edit (and moving broken *_test.go files aside) is test scaffolding: do NOT include it in your patch.
 * "Compiles": `cd {wt}/code/go/0chain.net && go build ./...` must succeed (with the replace line).
 * "Existing tests pass": with the replace line REMOVED the pinned suite is `cd {wt}/code/go/0chain.net && go test -vet=off -count=1 ./chaincore/client/... ./chaincore/node/... ./conductor/conductrpc/stats/... ./core/cache/... ./core/config/... ./core/encryption/... ./core/sortedmap/... ./core/util/... ./core/viper/... ./sharder/blockdb/...` — it must still pass. In addition, with the stub, the packages the README lists as passing must still pass if your change touches them.
 * Do not run `go mod tidy`, do not add dependencies.
 * NEVER use `git stash` (all scratch worktrees share one stash stack and other engineers work in parallel): to test the unchanged code use `git apply -R <your patch>` / `git apply <your patch>` or a `git archive HEAD` copy.

DELIVERABLES — write them to {out}/ :
 * patch.diff — `git -C {wt} diff` of ONLY the non-test source change (no go.mod change, no test files, no moved files). It must apply with `git apply` to a clean checkout.
 * demo/ — the equivalence test file(s) with their intended path inside the repo noted in a header comment, plus run.sh that, given the path of a checkout as $1 (already containing the stub replace line in go.mod), copies the demo test into place, moves aside whatever broken *_test.go files it must, runs the test, restores everything, and exits 0 iff the test PASSES. So: run.sh on a clean checkout → exit 0; on a checkout with patch.diff applied → exit 0 as well.
 * meta.json — {{"property": "{pid}", "kind": "neutral", "summary": "<what the refactor does>", "why_equivalent": "<argument that behaviour is unchanged, case by case>", "files_changed": [...], "demo_cmd": "bash demo/run.sh <checkout>"}}
Before finishing: verify all of it yourself (clean → demo passes; patched → demo passes; build ok; pinned suite ok). Your final message: a short description of the refactor, the equivalence argument, and the verification commands you ran with their results.""")
