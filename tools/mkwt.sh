#!/bin/bash
# mkwt.sh <pid> <variant>: scratch worktree for a seeding sub-agent (outside /repo and /verif)
set -e
pid=$1; v=${2:-a}
suffix=$([ "$v" = a ] && echo "" || echo $v)
wt=/tmp/wt/$pid$suffix
[ -d /tmp/grocksdb_stub ] || cp -r /verif/tools/grocksdb_stub /tmp/grocksdb_stub
mkdir -p /tmp/wt /tmp/out/$pid$suffix
git -C /repo worktree remove --force $wt 2>/dev/null || true
rm -rf $wt
git -C /repo worktree add -q --detach $wt HEAD
echo $wt
