#!/bin/bash
# intake_many.sh <Cnn><v> ...  — intake several finished seeds one after another, removing each scratch worktree
for s in "$@"; do
  prop=${s:0:3}; v=${s:3}; [ -z "$v" ] && v=a
  bash /verif/tools/intake_seed.sh $s $prop-$v
  git -C /repo worktree remove --force /tmp/wt/$s 2>/dev/null; rm -rf /tmp/wt/$s
  python3 - "$prop" "$v" <<'PY'
import json,sys,os
prop,v=sys.argv[1:3]
p=f'/verif/seeded/{prop}-{v}/meta.json'
if os.path.exists(p):
    m=json.load(open(p)); m['property']=prop; m.setdefault('detected_by',[prop]); json.dump(m,open(p,'w'),indent=1)
PY
done
