#!/usr/bin/env python3
"""Checker self-test: applies each mutant patch (zv/mutants/<Cnn>/*.patch, and
seeded/<id>/patch.diff) to a scratch copy of /repo and expects the named property
check to report a VIOLATION that is not a load failure. Behaviour-preserving variants
(zv/equiv/<Cnn>/*.patch) are applied the same way and the check must stay silent on them.
Never touches /repo.

usage: selftest.py [Cnn ...] [--seeded] [--jobs N] [--tier quick|thorough]
"""
import json, os, shutil, subprocess, sys, tempfile, glob, concurrent.futures as cf

V = os.path.dirname(os.path.dirname(os.path.abspath(__file__)))
REPO = os.environ.get("ZV_REPO_SRC", "/repo")


def run_one(prop, patch, tier, expect_key=None, silent=False):
    tmp = tempfile.mkdtemp(prefix="zvself.")
    try:
        repo = os.path.join(tmp, "repo")
        subprocess.run(["rsync", "-a", "--exclude", ".git", REPO + "/", repo + "/"], check=True)
        pr = subprocess.run(["patch", "-p1", "--no-backup-if-mismatch", "-s", "-i", patch], cwd=repo, capture_output=True, text=True)
        if pr.returncode != 0:
            return (prop, patch, "PATCH-FAILED", pr.stdout + pr.stderr)
        vdir = os.path.join(tmp, "verif")
        os.makedirs(os.path.join(vdir, "evidence"))
        shutil.copy(os.path.join(V, "known_findings.json"), vdir)
        env = dict(os.environ, ZV_REPO=repo, ZV_VERIF=vdir)
        out = subprocess.run([os.environ.get("ZV_BIN", os.path.join(V, "bin", "zv")), "check", prop, "--tier", tier], env=env, capture_output=True, text=True)
        txt = out.stdout + out.stderr
        if "meta load" in txt:
            return (prop, patch, "MUTANT-DOES-NOT-TYPECHECK", txt[-1500:])
        if silent:
            # behaviour-preserving variant: the check must stay quiet
            if out.returncode == 0 and "VIOLATION" not in txt:
                return (prop, patch, "SILENT", "")
            viol = [l.strip() for l in txt.splitlines() if l.strip().startswith("violated:")]
            return (prop, patch, "FALSE-ALARM", "\n".join(viol[:6]) or txt[-600:])
        if out.returncode == 1 and "VIOLATION property=" + prop in txt:
            viol = [l.strip() for l in txt.splitlines() if l.strip().startswith("violated:")]
            if expect_key and not any(expect_key in l for l in viol):
                return (prop, patch, "KILLED-BUT-OTHER-KEY", "\n".join(viol[:6]))
            return (prop, patch, "KILLED", "\n".join(viol[:4]))
        return (prop, patch, "SURVIVED", txt[-600:])
    finally:
        shutil.rmtree(tmp, ignore_errors=True)


def main():
    args = sys.argv[1:]
    tier = "quick"
    jobs = 6
    seeded = False
    only_seeded = False
    props = []
    i = 0
    while i < len(args):
        if args[i] == "--tier":
            tier = args[i + 1]; i += 2
        elif args[i] == "--jobs":
            jobs = int(args[i + 1]); i += 2
        elif args[i] == "--seeded":
            seeded = True; i += 1
        elif args[i] == "--neutral":
            i += 1
        elif args[i] == "--seeded-only":
            seeded = True; only_seeded = True; i += 1
        else:
            props.append(args[i]); i += 1
    tasks = []
    for d in sorted(glob.glob(os.path.join(V, "zv", "mutants", "C*"))):
        prop = os.path.basename(d)
        if props and prop not in props:
            continue
        for patch in sorted(glob.glob(os.path.join(d, "*.patch"))):
            if not only_seeded:
                tasks.append((prop, patch, None))
    for d in sorted(glob.glob(os.path.join(V, "zv", "equiv", "C*"))):
        prop = os.path.basename(d)
        if props and prop not in props:
            continue
        for patch in sorted(glob.glob(os.path.join(d, "*.patch"))):
            if not only_seeded:
                tasks.append((prop, patch, "SILENT"))
    for d in sorted(glob.glob(os.path.join(V, "neutral", "*"))):
        mf = os.path.join(d, "meta.json")
        if not os.path.exists(mf) or only_seeded and "--neutral" not in sys.argv:
            continue
        meta = json.load(open(mf))
        for prop in meta.get("silent_for", [meta.get("property")]):
            if props and prop not in props:
                continue
            # a refactor the checks are known to alarm on (recorded brittleness, DESIGN §10):
            # replayed and reported, but expected
            kind = "BRITTLE" if prop in meta.get("known_false_alarm", {}) else "SILENT"
            tasks.append((prop, os.path.join(d, "patch.diff"), kind))
    if seeded:
        for d in sorted(glob.glob(os.path.join(V, "seeded", "*"))):
            mf = os.path.join(d, "meta.json")
            if not os.path.exists(mf):
                continue
            meta = json.load(open(mf))
            for prop in meta.get("detected_by", [meta.get("property")]):
                if props and prop not in props:
                    continue
                tasks.append((prop, os.path.join(d, "patch.diff"), None))
    rc = 0
    with cf.ThreadPoolExecutor(max_workers=jobs) as ex:
        futs = [ex.submit(run_one, p, patch, tier, None, k in ("SILENT", "BRITTLE")) for p, patch, k in tasks]
        for f, (_, _, kind) in zip(futs, tasks):
            prop, patch, status, detail = f.result()
            if kind == "BRITTLE":
                status = "KNOWN-BRITTLE" if status == "FALSE-ALARM" else ("SILENT(was-brittle)" if status == "SILENT" else status)
                print(f"{status:28s} {prop} {os.path.relpath(patch, V)}")
                if status == "KNOWN-BRITTLE":
                    print("    " + detail.replace("\n", "\n    "))
                continue
            print(f"{status:28s} {prop} {os.path.relpath(patch, V)}")
            if status not in ("KILLED", "SILENT"):
                rc = 1
                print("    " + detail.replace("\n", "\n    "))
            elif os.environ.get("ZV_SELFTEST_VERBOSE"):
                print("    " + detail.replace("\n", "\n    "))
    print("selftest:", "all mutants killed" if rc == 0 else "SOME MUTANTS NOT KILLED", f"({len(tasks)} mutants)")
    sys.exit(rc)


if __name__ == "__main__":
    main()
