#!/usr/bin/env python3
"""mkmutant.py <Cnn> <name> <path relative to /repo> <old> <new> [count]
Writes zv/mutants/<Cnn>/<name>.patch replacing the (unique unless count given) occurrence
of <old> by <new>. Never modifies /repo."""
import sys, os, difflib
V = os.path.dirname(os.path.dirname(os.path.abspath(__file__)))
prop, name, rel, old, new = sys.argv[1:6]
nth = int(sys.argv[6]) if len(sys.argv) > 6 else None
src = open(os.path.join("/repo", rel)).read()
n = src.count(old)
if n == 0:
    sys.exit(f"pattern not found in {rel}")
if n > 1 and nth is None:
    sys.exit(f"pattern occurs {n} times in {rel}; give an occurrence index (0-based)")
if nth is None:
    out = src.replace(old, new)
else:
    parts = src.split(old)
    out = old.join(parts[:nth + 1]) + new + old.join(parts[nth + 1:])
d = os.path.join(V, "zv", os.environ.get("ZV_MUT_KIND", "mutants"), prop)
os.makedirs(d, exist_ok=True)
diff = difflib.unified_diff(src.splitlines(True), out.splitlines(True), "a/" + rel, "b/" + rel)
open(os.path.join(d, name + ".patch"), "w").write("".join(diff))
print("wrote", os.path.join(d, name + ".patch"))
