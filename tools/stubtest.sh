#!/bin/bash
# stubtest.sh <pkg-pattern...>  — run go build ./... and `go test` for the given packages on a
# scratch copy of /repo's working tree with the pure-Go grocksdb stub (confirmation of fix:
# commits and seeds only; never used by a registered check).
set -u
export GOFLAGS=-mod=mod GOPROXY=off GOSUMDB=off GOTOOLCHAIN=local GOWORK=off
wt=/tmp/stubtest.$$
mkdir -p $wt && rsync -a --exclude .git /repo/ $wt/
[ -d /tmp/grocksdb_stub ] || cp -r /verif/tools/grocksdb_stub /tmp/grocksdb_stub
mod=$wt/code/go/0chain.net
echo 'replace github.com/linxGnu/grocksdb => /tmp/grocksdb_stub' >> $mod/go.mod
cd $mod
go build ./... || { echo "BUILD FAILED"; rm -rf $wt; exit 1; }
rc=0
if [ $# -gt 0 ]; then go test -vet=off -count=1 "$@" 2>&1 | tail -40; rc=${PIPESTATUS[0]}; fi
rm -rf $wt
exit $rc
