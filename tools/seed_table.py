#!/usr/bin/env python3
"""Prints the markdown table 'which check catches which seeded change' from seeded/*/meta.json."""
import json, glob, os
rows=[]
for d in sorted(glob.glob('/verif/seeded/*')):
    mf=os.path.join(d,'meta.json')
    if not os.path.exists(mf): continue
    m=json.load(open(mf)); sid=os.path.basename(d)
    det=m.get('detected_by',[m.get('property')])
    summ=(m.get('summary','').split('. ')[0])[:150].replace('|','/').replace('\n',' ')
    rows.append((sid, m.get('property'), ', '.join(det) if det else '— (not detected: '+m.get('detection_note','')[:90]+')', summ))
print('| seed | property | reported by | change |'); print('|---|---|---|---|')
for r in rows: print('| %s | %s | %s | %s |' % r)
