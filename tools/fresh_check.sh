#!/bin/bash
# fresh_check.sh [tier] — what the harness does: rebuild with MANIFEST.setup_cmd in a scrubbed
# environment, then run every registered command (cwd=/), and report exit codes, VIOLATION
# lines and whether each evidence file was rewritten. Development aid, not a registered check.
tier=${1:-quick}
cd /verif
rm -f bin/zv
stamp=$(mktemp)
run() { env -i PATH="$PATH" HOME="$HOME" CARGO_NET_OFFLINE=true GOPROXY=off PIP_NO_INDEX=1 VERIF_SEED=1 VERIF_TIER=$tier bash -c "$1"; }
setup=$(python3 -c "import json;print(json.load(open('MANIFEST.json'))['setup_cmd'])")
run "$setup" || { echo "SETUP FAILED"; exit 1; }
python3 - "$tier" > /tmp/fresh_cmds.txt <<'PY'
import json,sys
m=json.load(open('/verif/MANIFEST.json'))
for c in m['checks']:
    print(c['property_id']+'\t'+c[sys.argv[1]+'_cmd']+'\t'+c['evidence_file'])
PY
export -f run; export tier
rc=0
while IFS=$'\t' read -r id cmd ev; do
  ( cd / && out=$(env -i PATH="$PATH" HOME="$HOME" CARGO_NET_OFFLINE=true GOPROXY=off PIP_NO_INDEX=1 VERIF_SEED=1 VERIF_TIER=$tier bash -c "$cmd" 2>&1); code=$?
    viol=$(echo "$out" | grep -c '^VIOLATION'); kf=$(echo "$out" | grep -c '^KNOWN-FINDING')
    fresh=no; [ "$ev" -nt "$stamp" ] && fresh=yes
    echo "$id exit=$code violations=$viol known=$kf evidence_rewritten=$fresh" ) &
  while [ $(jobs -r | wc -l) -ge 5 ]; do sleep 1; done
done < /tmp/fresh_cmds.txt
wait
rm -f "$stamp" /tmp/fresh_cmds.txt
