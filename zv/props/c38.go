package props

import (
	"fmt"
	"go/constant"
	"go/token"
	"go/types"
	"sort"
	"strings"

	"golang.org/x/tools/go/ssa"

	"zv/core"
)

func init() { register("C38", "other", c38) }

// phaseConsts returns the non-negative constants of type minersc.Phase by value.
func phaseConsts(p *core.Prog) map[int64]string {
	out := map[int64]string{}
	pt := p.Type(pkgMinerSC, "Phase")
	if pt == nil {
		return out
	}
	scope := pt.Obj().Pkg().Scope()
	for _, n := range scope.Names() {
		c, ok := scope.Lookup(n).(*types.Const)
		if !ok || !types.Identical(c.Type(), pt) {
			continue
		}
		if v, ok := constant.Int64Val(c.Val()); ok && v >= 0 {
			out[v] = n
		}
	}
	return out
}

// C38 The view-change phase machine follows its schedule.
func c38(r *core.Report, p *core.Prog, thorough bool) {
	r.Explain = "Decided (structure of the miner contract's DKG phase machine): the move table and the duration table have an entry for every phase; setPhaseNode changes Phase/StartRound only when view change is on, CurrentRound-StartRound >= PhaseRounds[Phase], the phase's move function returned nil and the phase's own transition function returned nil (the tested error flows from nothing else), by +1 or by wrapping to Start at the last phase, with StartRound = CurrentRound; every other non-fatal failure passes an error-checked RestartDKG, which puts the phase back to Start and re-creates the four DKG lists; the phase node is saved on every success path. contributeMpk / shareSignsOrShares / wait act only in their phase (phase node loaded, error aborting), once per sender, after the size checks and (keys, shares) for members of the DKG miner list; the stored entry is keyed by, and validated as, the transaction sender (the identity field of the decoded object is bound to txn.ClientID after decoding and before validation); the wait quorum counts only DKG members that confirmed; each move function requires a miner / sharder of the previous set. Not decided: timing over rounds, content validity of keys and shares (BLS), node selection (C39)."
	r.Rule("C38.tables", "moveFunctions and PhaseRounds are assigned for every non-negative Phase constant")
	r.Rule("C38.advance", "setPhaseNode: Phase/StartRound are stored only under isViewChange && CurrentRound-StartRound >= PhaseRounds[Phase], move function nil, and phase-function error nil — that error flowing only from the phase function; new Phase is Phase+1 or 0 when Phase >= len(PhaseRounds)-1; StartRound = CurrentRound")
	r.Rule("C38.restart", "a failing move or phase function (other than node-not-found, which fails the call) is followed by an error-checked RestartDKG on every path; RestartDKG stores Phase = Start and re-creates MPKs, shares, DKG miner list and sharder keep list, errors aborting")
	r.Rule("C38.saved", "setPhaseNode inserts the phase node under its key on every success path")
	r.Rule("C38.in-phase", "contributeMpk / shareSignsOrShares / wait: the state write is dominated by Phase == Contribute / Publish / Wait on the node from GetPhaseNode, by not-already-present for the sender, by the size check, and (keys, shares) by membership of the sender in the DKG miner list")
	r.Rule("C38.identity", "the entry is stored under txn.ClientID and the decoded object's identity is bound to txn.ClientID after decoding and before it is validated or used as a key")
	r.Rule("C38.wait-quorum", "adjustViewChange compares with K a counter incremented only for DKG miner list members whose Waited flag is set")
	r.Rule("C38.prev-set", "every move function that gates a phase requires a member of the previous set (hasPrevMiner*/hasPrevShader) on every success path")

	recv := "(*" + pkgMinerSC + ".MinerSmartContract)."
	sp := p.Func(recv + "setPhaseNode")
	restart := p.Func(recv + "RestartDKG")
	if sp == nil || restart == nil {
		r.Unresolved("C38.advance", "setPhaseNode / RestartDKG")
		return
	}
	phases := phaseConsts(p)
	r.Floor("C38.tables", "Phase constants", len(phases), 5)
	// ---- tables
	for _, tab := range []string{"moveFunctions", "PhaseRounds"} {
		seen := map[int64]bool{}
		for _, fn := range p.FuncsIn(pkgMinerSC) {
			if isTooling(p, fn) {
				continue
			}
			for _, b := range fn.Blocks {
				for _, in := range b.Instrs {
					mu, ok := in.(*ssa.MapUpdate)
					if !ok {
						continue
					}
					ld, ok := mu.Map.(*ssa.UnOp)
					if !ok {
						continue
					}
					g, ok := ld.X.(*ssa.Global)
					if !ok || g.Name() != tab {
						continue
					}
					if k, ok := core.ConstInt(mu.Key); ok {
						seen[k] = true
					}
				}
			}
		}
		var vals []int64
		for v := range phases {
			vals = append(vals, v)
		}
		sort.Slice(vals, func(i, j int) bool { return vals[i] < vals[j] })
		for _, v := range vals {
			r.Check(seen[v], "C38.tables", tab+":"+phases[v], "", "an entry for phase "+phases[v]+" (a missing move function is a nil call; a missing duration is 0 rounds)")
		}
	}
	c38SetPhase(r, p, sp, restart, phases)
	c38Restart(r, p, restart)
	c38Handlers(r, p)
	c38WaitQuorum(r, p)
	c38PrevSet(r, p)
	c38FinalSet(r, p)
}

func c38SetPhase(r *core.Report, p *core.Prog, sp, restart *ssa.Function, phases map[int64]string) {
	pn := sp.Params[2]
	var viewChange *ssa.Parameter
	for _, prm := range sp.Params {
		if prm.Name() == "isViewChange" || (prm.Type().String() == "bool") {
			viewChange = prm
		}
	}
	phaseF := p.Field(pkgMinerSC, "PhaseNode", "Phase")
	startF := p.Field(pkgMinerSC, "PhaseNode", "StartRound")
	if phaseF == nil || startF == nil || viewChange == nil {
		r.Unresolved("C38.advance", "PhaseNode.Phase / StartRound / isViewChange")
		return
	}
	isPn := func(v ssa.Value, f string) bool { return isFieldLoadOn(v, pn, f) }
	// move function call and phase function calls
	var moveCall *ssa.Call
	var phaseCalls []*ssa.Call
	for _, b := range sp.Blocks {
		for _, in := range b.Instrs {
			c, ok := in.(*ssa.Call)
			if !ok || c.Call.IsInvoke() || c.Call.StaticCallee() != nil {
				continue
			}
			tab := ""
			v := c.Call.Value
			if e, ok := v.(*ssa.Extract); ok {
				v = e.Tuple
			}
			if lk, ok := v.(*ssa.Lookup); ok && isPn(lk.Index, "Phase") {
				if ld, ok := lk.X.(*ssa.UnOp); ok {
					if g, ok := ld.X.(*ssa.Global); ok {
						tab = g.Name()
					}
				}
			}
			switch tab {
			case "moveFunctions":
				moveCall = c
			case "phaseFuncs":
				phaseCalls = append(phaseCalls, c)
			}
		}
	}
	// the phase function may be run by a helper given pn.Phase: the helper's result must
	// then be nil or the error of phaseFuncs[<that parameter>] and nothing else
	if len(phaseCalls) == 0 {
		for _, b := range sp.Blocks {
			for _, in := range b.Instrs {
				c, ok := in.(*ssa.Call)
				if !ok {
					continue
				}
				h := c.Call.StaticCallee()
				if h == nil || h.Pkg == nil || h.Pkg.Pkg.Path() != pkgMinerSC || h.Blocks == nil {
					continue
				}
				pi := -1
				for i, a := range c.Call.Args {
					if isPn(a, "Phase") {
						pi = i
					}
				}
				if pi < 0 || pi >= len(h.Params) {
					continue
				}
				var inner []*ssa.Call
				for _, hb := range h.Blocks {
					for _, hin := range hb.Instrs {
						hc, ok := hin.(*ssa.Call)
						if !ok || hc.Call.IsInvoke() || hc.Call.StaticCallee() != nil {
							continue
						}
						v := hc.Call.Value
						if e, ok := v.(*ssa.Extract); ok {
							v = e.Tuple
						}
						if lk, ok := v.(*ssa.Lookup); ok && lk.Index == ssa.Value(h.Params[pi]) {
							if ld, ok := lk.X.(*ssa.UnOp); ok {
								if g, ok := ld.X.(*ssa.Global); ok && g.Name() == "phaseFuncs" {
									inner = append(inner, hc)
								}
							}
						}
					}
				}
				if len(inner) == 0 {
					continue
				}
				pure := true
				for _, ret := range core.Returns(h) {
					if ret.Block() == h.Recover {
						continue
					}
					v := core.ResultValue(ret, len(ret.Results)-1)
					isInner := false
					for _, ic := range inner {
						if v == ssa.Value(ic) {
							isInner = true
						}
					}
					if !isInner && !core.IsNilConst(v) {
						pure = false
					}
				}
				if pure {
					phaseCalls = append(phaseCalls, c)
				}
			}
		}
	}
	if !r.Check(moveCall != nil && len(phaseCalls) >= 1, "C38.advance", "setPhaseNode:dispatch-by-current-phase", p.Pos(sp.Pos()), fmt.Sprintf("move function = moveFunctions[pn.Phase] (found %v), phase function = phaseFuncs[pn.Phase] (%d calls)", moveCall != nil, len(phaseCalls))) {
		return
	}
	isPhaseCall := func(v ssa.Value) bool {
		for _, c := range phaseCalls {
			if v == ssa.Value(c) {
				return true
			}
		}
		return false
	}
	// stores to Phase / StartRound
	type advStore struct {
		w    core.FieldWrite
		gblk *ssa.BasicBlock // where the advance guards must hold (in setPhaseNode)
		base ssa.Value       // the phase node in the function that holds the store
	}
	var adv []advStore
	for _, w := range append(core.FieldWrites([]*ssa.Function{sp}, phaseF), core.FieldWrites([]*ssa.Function{sp}, startF)...) {
		adv = append(adv, advStore{w, w.Instr.Block(), ssa.Value(pn)})
	}
	// stores made by a helper that setPhaseNode calls on the phase node
	for _, b := range sp.Blocks {
		for _, in := range b.Instrs {
			c, ok := in.(*ssa.Call)
			if !ok {
				continue
			}
			h := c.Call.StaticCallee()
			if h == nil || h.Pkg == nil || h.Pkg.Pkg.Path() != pkgMinerSC || h.Blocks == nil || h == restart {
				continue
			}
			for i, a := range c.Call.Args {
				if a != ssa.Value(pn) || i >= len(h.Params) {
					continue
				}
				for _, w := range append(core.FieldWrites([]*ssa.Function{h}, phaseF), core.FieldWrites([]*ssa.Function{h}, startF)...) {
					if w.Addr != nil && w.Addr.X == ssa.Value(h.Params[i]) {
						adv = append(adv, advStore{w, b, ssa.Value(h.Params[i])})
					}
				}
			}
		}
	}
	nAdv := 0
	for _, as := range adv {
		w := as.w
		if w.Kind != "store" || w.Addr == nil || w.Addr.X != as.base {
			r.Fail("C38.advance", "setPhaseNode:phase-node-write", posOf(p, w.Instr), "a write to Phase/StartRound that is not a plain store on the phase node argument")
			continue
		}
		nAdv++
		fname := core.FieldOf(w.Addr).Name()
		blk := as.gblk
		vblk := w.Instr.Block()
		isPnV := func(v ssa.Value, f string) bool { return isFieldLoadOn(v, as.base, f) }
		// (1) move condition
		condOK := false
		for _, f := range core.FactsAt(blk) {
			if !f.Taken {
				continue
			}
			ph, ok := f.Cond.(*ssa.Phi)
			if !ok || len(ph.Edges) != 2 {
				continue
			}
			var cmp *ssa.BinOp
			falseEdge := false
			for i, e := range ph.Edges {
				if k, ok := e.(*ssa.Const); ok && k.Value != nil && k.Value.ExactString() == "false" {
					// this edge must come from !isViewChange
					pred := ph.Block().Preds[i]
					if ifi, ok := pred.Instrs[len(pred.Instrs)-1].(*ssa.If); ok && ifi.Cond == ssa.Value(viewChange) && pred.Succs[1] == ph.Block() {
						falseEdge = true
					}
				} else if bo, ok := e.(*ssa.BinOp); ok {
					cmp = bo
				}
			}
			if cmp == nil || !falseEdge || cmp.Op != token.GEQ {
				continue
			}
			sub, ok := cmp.X.(*ssa.BinOp)
			lk, ok2 := cmp.Y.(*ssa.Lookup)
			if !ok || !ok2 || sub.Op != token.SUB || !isPn(sub.X, "CurrentRound") || !isPn(sub.Y, "StartRound") || !isPn(lk.Index, "Phase") {
				continue
			}
			if ld, ok := lk.X.(*ssa.UnOp); ok {
				if g, ok := ld.X.(*ssa.Global); ok && g.Name() == "PhaseRounds" {
					condOK = true
				}
			}
		}
		// (2) move function returned nil
		moveOK := core.KnownNil(core.FactsAt(blk), moveCall) == 1
		// (3) phase error nil, flowing only from the phase function
		phaseOK := false
		why := "no dominating `err == nil` on the phase function's error"
		for _, f := range core.FactsAt(blk) {
			x, isNil, ok := core.NilFact(f)
			if !ok || !isNil || x == ssa.Value(moveCall) {
				continue
			}
			// x: phi over {nil, phase call results}
			okFlow, hasCall := true, false
			seen := map[ssa.Value]bool{}
			var walk func(v ssa.Value)
			walk = func(v ssa.Value) {
				if seen[v] {
					return
				}
				seen[v] = true
				switch y := v.(type) {
				case *ssa.Phi:
					for _, e := range y.Edges {
						walk(e)
					}
				case *ssa.Const:
					if y.Value != nil {
						okFlow = false
					}
				case *ssa.UnOp:
					if al, ok := y.X.(*ssa.Alloc); ok && y.Op == token.MUL {
						for _, s := range core.StoresTo(al) {
							walk(s)
						}
						return
					}
					okFlow = false
				default:
					if isPhaseCall(v) {
						hasCall = true
					} else {
						okFlow = false
						why = "the error tested before advancing also receives " + describe(v) + " (e.g. the restart's own result: a successful restart would then advance the phase)"
					}
				}
			}
			walk(x)
			if okFlow && hasCall {
				phaseOK = true
			}
		}
		r.Check(condOK && moveOK && phaseOK, "C38.advance", fmt.Sprintf("setPhaseNode:%s-store#%d:guards", fname, nAdv), posOf(p, w.Instr),
			fmt.Sprintf("schedule-condition=%v move-function-nil=%v phase-function-nil=%v; %s", condOK, moveOK, phaseOK, why))
		// value shape
		switch fname {
		case "Phase":
			okV := false
			if k, ok := core.ConstInt(w.Val); ok && k == 0 {
				// under Phase >= len(PhaseRounds)-1
				for _, f := range CmpFacts(vblk) {
					if (f.Op == token.GEQ || f.Op == token.EQL) && isPnV(f.X, "Phase") {
						fl, leaves := FlowLoads(f.Y)
						_ = fl
						hasLen, hasTab := false, false
						for _, l := range leaves {
							if c, ok := l.(*ssa.Call); ok && core.CalleeName(c.Common()) == "builtin.len" {
								hasLen = true
							}
							if g, ok := l.(*ssa.Global); ok && g.Name() == "PhaseRounds" {
								hasTab = true
							}
						}
						if bo, ok := unconv(f.Y).(*ssa.BinOp); ok && bo.Op == token.SUB {
							if k, ok := core.ConstInt(bo.Y); ok && k == 1 && hasLen && hasTab {
								okV = true
							}
						}
					}
				}
			} else if bo, ok := w.Val.(*ssa.BinOp); ok && bo.Op == token.ADD && isPnV(bo.X, "Phase") {
				if k, ok := core.ConstInt(bo.Y); ok && k == 1 {
					// under !(Phase >= last)
					for _, f := range CmpFacts(vblk) {
						if f.Op == token.LSS && isPnV(f.X, "Phase") {
							okV = true
						}
					}
				}
			}
			r.Check(okV, "C38.advance", fmt.Sprintf("setPhaseNode:Phase-store#%d:next-phase", nAdv), posOf(p, w.Instr), "the new phase is Phase+1, or Start (0) exactly when Phase is the last phase (len(PhaseRounds)-1)")
		case "StartRound":
			r.Check(isPnV(w.Val, "CurrentRound"), "C38.advance", fmt.Sprintf("setPhaseNode:StartRound-store#%d:current-round", nAdv), posOf(p, w.Instr), "a phase starts at the current round; got "+describe(w.Val))
		}
	}
	r.Floor("C38.advance", "Phase/StartRound stores in setPhaseNode", nAdv, 3)
	// ---- restart on failure
	restarts := findCallsTo(sp, restart)
	isRestart := map[ssa.Instruction]bool{}
	for _, c := range restarts {
		isRestart[c] = true
		r.Check(core.ErrLeadsToFailure(c) && core.Receiver(c.Common()) != nil && c.Call.Args[1] == ssa.Value(pn), "C38.restart", "setPhaseNode:restart-error-checked", p.Pos(c.Pos()), "RestartDKG(pn) error aborts the call")
	}
	checkRestart := func(name string, errv ssa.Value) {
		for _, br := range core.NilBranches(errv) {
			nb := br.If.Block().Succs[br.NonNilSucc]
			path, _, found := core.PathQuery{Fn: sp, Start: br.If,
				Barrier: func(in ssa.Instruction) bool { return isRestart[in] },
				EdgeOK: func(from *ssa.BasicBlock, succ int) bool {
					if from == br.If.Block() && from.Succs[succ] != nb {
						return false
					}
					return core.FeasibleEdge(from, succ)
				},
				Target: func(in ssa.Instruction) bool {
					ret, ok := in.(*ssa.Return)
					return ok && core.ClassifyReturn(ret) != core.ExitFailure
				}}.Find()
			d := ""
			if found {
				d = "failure reaches a success exit without a restart: " + p.PathString(path)
			}
			r.Check(!found, "C38.restart", "setPhaseNode:"+name+"-failure-restarts", p.Pos(br.If.Pos()), "a failed "+name+" either fails the call or restarts the key generation at Start; "+d)
		}
	}
	checkRestart("move-function", moveCall)
	// phase function error: the merged phi tested with != nil
	for _, c := range phaseCalls {
		for _, ref := range *c.Referrers() {
			if ph, ok := ref.(*ssa.Phi); ok {
				checkRestart("phase-function", ph)
			}
		}
	}
	// ---- saved
	var ins *ssa.Call
	for _, c := range methodCalls(sp, "InsertTrieNode") {
		a := core.CallArgs(c.Common())
		if kc, ok := a[0].(*ssa.Call); ok && core.MethodName(kc.Common()) == "GetKey" && core.Receiver(kc.Common()) == ssa.Value(pn) {
			if rt, _ := core.BaseObject(a[1]); rt == ssa.Value(pn) {
				ins = c
			}
		}
	}
	okS := ins != nil
	why := "no InsertTrieNode(pn.GetKey(), pn)"
	if okS {
		okS, why = MustPass(p, sp, ins)
	}
	r.Check(okS, "C38.saved", "setPhaseNode:phase-node-saved", p.Pos(sp.Pos()), "the phase node is written on every success path; "+why)
}

func c38Restart(r *core.Report, p *core.Prog, restart *ssa.Function) {
	pn := restart.Params[1]
	phaseF := p.Field(pkgMinerSC, "PhaseNode", "Phase")
	ws := core.FieldWrites([]*ssa.Function{restart}, phaseF)
	ok := len(ws) == 1
	why := fmt.Sprintf("%d stores to Phase", len(ws))
	if ok {
		k, isK := core.ConstInt(ws[0].Val)
		ok = isK && k == 0 && ws[0].Addr != nil && ws[0].Addr.X == ssa.Value(pn)
		why = "Phase is set to " + describe(ws[0].Val)
		if ok {
			ok, why = MustPass(p, restart, ws[0].Instr)
		}
	}
	r.Check(ok, "C38.restart", "RestartDKG:phase-back-to-start", p.Pos(restart.Pos()), "RestartDKG stores Phase = Start on every success path; "+why)
	for _, name := range []string{"updateMinersMPKs", "updateGroupShareOrSigns", "updateDKGMinersList", "updateShardersKeepList"} {
		cs := findCalls(restart, pkgMinerSC+"."+name)
		okC := len(cs) == 1 && core.ErrLeadsToFailure(cs[0])
		d := fmt.Sprintf("%d calls", len(cs))
		if okC {
			// the value written is freshly created (New*/new), not the loaded list
			okC, d = MustPass(p, restart, cs[0])
			arg := cs[0].Call.Args[1]
			fresh := false
			switch x := arg.(type) {
			case *ssa.Call:
				fresh = strings.HasPrefix(core.MethodName(x.Common()), "New") || strings.Contains(core.CalleeName(x.Common()), ".New")
			case *ssa.Alloc:
				fresh = true
			}
			if !fresh {
				okC, d = false, "the list written is not freshly created: "+describe(arg)
			}
		}
		r.Check(okC, "C38.restart", "RestartDKG:"+name, p.Pos(restart.Pos()), "the list is re-created empty on every success path, error aborting; "+d)
	}
}

// c38Handlers checks contributeMpk, shareSignsOrShares and wait.
func c38Handlers(r *core.Report, p *core.Prog) {
	h := BuildHandlers(p)
	type spec struct {
		api, phase  string
		writer      string // the state-writing helper that records the contribution
		member      bool
		sizeField   string // field of the decoded object whose length is checked
		present     string // map field consulted for "already"
		validateRes bool
	}
	phases := phaseConsts(p)
	phaseVal := func(name string) int64 {
		for v, n := range phases {
			if n == name {
				return v
			}
		}
		return -99
	}
	for _, s := range []spec{
		{"minersc:contributeMpk", "Contribute", "updateMinersMPKs", true, "Mpk", "Mpks", false},
		{"minersc:shareSignsOrShares", "Publish", "updateGroupShareOrSigns", true, "ShareOrSigns", "Shares", true},
		{"minersc:wait", "Wait", "updateDKGMinersList", false, "", "Waited", false},
	} {
		hs := h.Get(s.api)
		if len(hs) != 1 {
			r.Unresolved("C38.in-phase", s.api)
			continue
		}
		fn := hs[0]
		name := fn.Name()
		var txn *ssa.Parameter
		for _, prm := range fn.Params {
			if core.NamedName(derefType(prm.Type())) == "0chain.net/chaincore/transaction.Transaction" {
				txn = prm
			}
		}
		ws := findCalls(fn, pkgMinerSC+"."+s.writer)
		if !r.Check(len(ws) >= 1 && txn != nil, "C38.in-phase", name+":records-contribution", p.Pos(fn.Pos()), fmt.Sprintf("%d calls to %s", len(ws), s.writer)) {
			continue
		}
		isSender := func(v ssa.Value) bool {
			rt, pth := core.BaseObject(v)
			return pth == ".ClientID" && core.ParamOf(rt) == txn
		}
		for i, w := range ws {
			tag := fmt.Sprintf("%s:write#%d", name, i+1)
			// phase
			okPh := false
			for _, f := range CmpFacts(w.Block()) {
				if f.Op != token.EQL {
					continue
				}
				k, isK := core.ConstInt(f.Y)
				rt, pth := core.BaseObject(f.X)
				gc, idx := core.CallOf(canonObj(rt))
				if isK && k == phaseVal(s.phase) && pth == ".Phase" && gc != nil && idx == 0 && strings.HasSuffix(core.CalleeName(gc.Common()), ".GetPhaseNode") && core.ErrLeadsToFailure(gc) {
					okPh = true
				}
			}
			r.Check(okPh, "C38.in-phase", tag+":phase-"+s.phase, p.Pos(w.Pos()), "dominated by GetPhaseNode().Phase == "+s.phase)
			// once per sender: a lookup <..>.present[sender] dominating the write whose
			// "already there" outcome can only fail
			okOnce := false
			for _, b := range fn.Blocks {
				for _, in := range b.Instrs {
					lk, ok := in.(*ssa.Lookup)
					if !ok || !lk.CommaOk || !b.Dominates(w.Block()) {
						continue
					}
					if _, pth := core.BaseObject(lk.X); !strings.HasSuffix(pth, "."+s.present) {
						continue
					}
					if !isSender(lk.Index) && !c38BoundToSender(lk.Index, fn, txn, lk) {
						continue
					}
					if c38RejectsPresent(lk) {
						okOnce = true
					}
				}
			}
			r.Check(okOnce, "C38.in-phase", tag+":once-per-sender", p.Pos(w.Pos()), "dominated by 'no entry of this sender yet' in "+s.present)
			// membership
			if s.member {
				okM := false
				for _, f := range core.FactsAt(w.Block()) {
					cv, taken := stripNot(f.Cond, f.Taken)
					e, ok := cv.(*ssa.Extract)
					if !ok || !taken || e.Index != 1 {
						continue
					}
					lk, ok := e.Tuple.(*ssa.Lookup)
					if !ok || !isSender(lk.Index) {
						continue
					}
					if _, pth := core.BaseObject(lk.X); strings.HasSuffix(pth, ".SimpleNodes") {
						okM = true
					}
				}
				r.Check(okM, "C38.in-phase", tag+":sender-in-dkg-list", p.Pos(w.Pos()), "dominated by DKG-miner-list membership of txn.ClientID (a non-member's keys/shares would count toward K)")
			}
			// size
			if s.sizeField != "" {
				okSz := false
				for _, f := range CmpFacts(w.Block()) {
					lc, ok := f.X.(*ssa.Call)
					if !ok || core.CalleeName(lc.Common()) != "builtin.len" {
						continue
					}
					if _, pth := core.BaseObject(lc.Call.Args[0]); strings.HasSuffix(pth, "."+s.sizeField) {
						// against a parameter of the DKG miner list (T, K, K-1 …)
						other := f.Y
						if bo, ok := other.(*ssa.BinOp); ok {
							other = bo.X
						}
						rt, p2 := core.BaseObject(other)
						gc, idx := core.CallOf(canonObj(rt))
						if (p2 == ".T" || p2 == ".K" || p2 == ".N") && gc != nil && idx == 0 && strings.HasSuffix(core.CalleeName(gc.Common()), ".getDKGMinersList") {
							okSz = true
						}
					}
				}
				r.Check(okSz, "C38.in-phase", tag+":size-check", p.Pos(w.Pos()), "dominated by a comparison of len(<decoded>."+s.sizeField+") with the DKG parameters")
			}
			if s.validateRes {
				okV := false
				for _, f := range core.FactsAt(w.Block()) {
					cv, taken := stripNot(f.Cond, f.Taken)
					if e, ok := cv.(*ssa.Extract); ok && taken {
						if c, ok := e.Tuple.(*ssa.Call); ok && core.MethodName(c.Common()) == "Validate" {
							okV = true
						}
					}
				}
				r.Check(okV, "C38.in-phase", tag+":validated", p.Pos(w.Pos()), "dominated by Validate(...) == true on the decoded shares")
			}
		}
		// identity: every MapUpdate into the present-table is keyed by the sender, and the
		// decoded object's ID is bound after decoding / before validation
		nMU := 0
		for _, b := range fn.Blocks {
			for _, in := range b.Instrs {
				mu, ok := in.(*ssa.MapUpdate)
				if !ok {
					continue
				}
				if _, pth := core.BaseObject(mu.Map); !strings.HasSuffix(pth, "."+s.present) {
					continue
				}
				nMU++
				okK := isSender(mu.Key) || c38BoundToSender(mu.Key, fn, txn, mu)
				r.Check(okK, "C38.identity", fmt.Sprintf("%s:stored-under-sender#%d", name, nMU), posOf(p, mu), "the entry is recorded under txn.ClientID (not under an id the input can choose); key is "+describe(mu.Key))
			}
		}
		r.Floor("C38.identity", name+" stores into "+s.present, nMU, 1)
		// decoded object: ID bound before Validate
		for _, vc := range methodCalls(fn, "Validate") {
			obj := core.Receiver(vc.Common())
			okB := false
			for _, b := range fn.Blocks {
				for _, in := range b.Instrs {
					st, ok := in.(*ssa.Store)
					if !ok {
						continue
					}
					fa, ok := st.Addr.(*ssa.FieldAddr)
					if !ok || fa.X != obj || core.FieldOf(fa) == nil || core.FieldOf(fa).Name() != "ID" || !isSender(st.Val) {
						continue
					}
					if callDominates(st, vc) && c38AfterDecode(fn, obj, st) {
						okB = true
					}
				}
			}
			r.Check(okB, "C38.identity", name+":identity-bound-before-validation", p.Pos(vc.Pos()), "the shares are validated as the sender's (ID = txn.ClientID assigned after decoding and before Validate; Validate picks the sender's public keys by that ID)")
		}
	}
}

// c38RejectsPresent: the outcome "the key is present (and, for a bool-valued table, set)"
// of the comma-ok lookup leads only to failure exits.
func c38RejectsPresent(lk *ssa.Lookup) bool {
	var okV, valV ssa.Value
	for _, ref := range *lk.Referrers() {
		if e, ok := ref.(*ssa.Extract); ok {
			if e.Index == 1 {
				okV = e
			} else {
				valV = e
			}
		}
	}
	if okV == nil {
		return false
	}
	ifOn := func(v ssa.Value) (*ssa.If, int) {
		for _, ref := range *v.Referrers() {
			switch u := ref.(type) {
			case *ssa.If:
				return u, 0
			case *ssa.UnOp:
				if u.Op == token.NOT {
					for _, r2 := range *u.Referrers() {
						if i2, ok := r2.(*ssa.If); ok {
							return i2, 1
						}
					}
				}
			case *ssa.Phi:
				// ok && val  as a phi {false, val}
				for _, r2 := range *u.Referrers() {
					if i2, ok := r2.(*ssa.If); ok {
						return i2, 0
					}
				}
			}
		}
		return nil, 0
	}
	ifi, ts := ifOn(okV)
	if ifi == nil {
		return false
	}
	s := ifi.Block().Succs[ts]
	if failsOnlyBlock(s) {
		return true
	}
	// ok && val: the present branch tests the stored bool
	if valV != nil && len(s.Instrs) > 0 {
		if i2, ok := s.Instrs[len(s.Instrs)-1].(*ssa.If); ok && i2.Cond == valV && failsOnlyBlock(s.Succs[0]) {
			return true
		}
	}
	return false
}

// c38AfterDecode: no Decode call on obj can execute after instruction st.
func c38AfterDecode(fn *ssa.Function, obj ssa.Value, st ssa.Instruction) bool {
	for _, c := range methodCalls(fn, "Decode") {
		if core.Receiver(c.Common()) == obj && (core.Reaches(st, c)) {
			return false
		}
	}
	return true
}

// c38BoundToSender: key is a load of <obj>.ID where obj.ID was assigned txn.ClientID by
// a store that dominates `at` and no Decode of obj can run after that store.
func c38BoundToSender(key ssa.Value, fn *ssa.Function, txn *ssa.Parameter, at ssa.Instruction) bool {
	ld, ok := key.(*ssa.UnOp)
	if !ok || ld.Op != token.MUL {
		return false
	}
	fa, ok := ld.X.(*ssa.FieldAddr)
	if !ok || core.FieldOf(fa) == nil || core.FieldOf(fa).Name() != "ID" {
		return false
	}
	obj := fa.X
	for _, b := range fn.Blocks {
		for _, in := range b.Instrs {
			st, ok := in.(*ssa.Store)
			if !ok {
				continue
			}
			fa2, ok := st.Addr.(*ssa.FieldAddr)
			if !ok || fa2.X != obj || core.FieldOf(fa2) != core.FieldOf(fa) {
				continue
			}
			rt, pth := core.BaseObject(st.Val)
			if pth != ".ClientID" || core.ParamOf(rt) != txn {
				continue
			}
			if callDominates(st, at) && c38AfterDecode(fn, obj, st) {
				return true
			}
		}
	}
	return false
}

func c38WaitQuorum(r *core.Report, p *core.Prog) {
	av := p.Func("(*" + pkgMinerSC + ".MinerSmartContract).adjustViewChange")
	if av == nil {
		r.Unresolved("C38.wait-quorum", "adjustViewChange")
		return
	}
	// comparison  X < dmn.K
	n := 0
	for _, b := range av.Blocks {
		for _, in := range b.Instrs {
			bo, ok := in.(*ssa.BinOp)
			if !ok {
				continue
			}
			x, y := bo.X, bo.Y
			switch bo.Op {
			case token.LSS, token.GEQ:
			case token.GTR, token.LEQ:
				x, y = y, x
			default:
				continue
			}
			if _, pth := core.BaseObject(y); pth != ".K" {
				continue
			}
			n++
			// x must be a counter: phi at the header of a map-range over <dmn>.SimpleNodes, +1 under Waited[k]
			okC := false
			why := "the compared value is " + describe(x)
			var ph *ssa.Phi
			var find func(v ssa.Value, d int)
			find = func(v ssa.Value, d int) {
				if d > 3 || ph != nil {
					return
				}
				switch z := v.(type) {
				case *ssa.Phi:
					for _, e := range z.Edges {
						if bo2, ok := e.(*ssa.BinOp); ok && bo2.Op == token.ADD && (bo2.X == ssa.Value(z) || phiReaches(bo2.X, z)) {
							ph = z
						}
					}
					if ph == nil {
						for _, e := range z.Edges {
							find(e, d+1)
						}
					}
				}
			}
			find(x, 0)
			if ph != nil {
				for _, mr := range mapRanges(av) {
					if !mr.Loop.Body[ph.Block()] && mr.Loop.Header != ph.Block() {
						continue
					}
					if _, pth := core.BaseObject(mr.Range.X); !strings.HasSuffix(pth, ".SimpleNodes") {
						continue
					}
					// the increment block is dominated by Waited[key] == true
					for _, e := range ph.Edges {
						bo2, ok := e.(*ssa.BinOp)
						if !ok || bo2.Op != token.ADD {
							continue
						}
						k, isK := core.ConstInt(bo2.Y)
						if !isK || k != 1 {
							continue
						}
						for _, f := range core.FactsAt(bo2.Block()) {
							cv, taken := stripNot(f.Cond, f.Taken)
							lk, ok := cv.(*ssa.Lookup)
							if !ok || !taken {
								continue
							}
							if _, pth := core.BaseObject(lk.X); strings.HasSuffix(pth, ".Waited") {
								okC = true
							}
						}
						// the increment may sit in the fall-through after `if !Waited[k] {…; continue}`
						if !okC {
							for _, f := range core.FactsAt(bo2.Block()) {
								cv, taken := stripNot(f.Cond, f.Taken)
								if lk, ok := cv.(*ssa.Lookup); ok && taken {
									_ = lk
								}
							}
						}
					}
				}
			}
			r.Check(okC, "C38.wait-quorum", fmt.Sprintf("adjustViewChange:quorum-counter#%d", n), p.Pos(bo.Pos()), "the count compared with K is incremented once per DKG miner list member with Waited set (confirmations by outsiders do not count); "+why)
		}
	}
	r.Floor("C38.wait-quorum", "comparisons with dmn.K in adjustViewChange", n, 1)
}

func phiReaches(v ssa.Value, ph *ssa.Phi) bool {
	seen := map[ssa.Value]bool{}
	var walk func(v ssa.Value, d int) bool
	walk = func(v ssa.Value, d int) bool {
		if v == ssa.Value(ph) {
			return true
		}
		if seen[v] || d > 4 {
			return false
		}
		seen[v] = true
		if p2, ok := v.(*ssa.Phi); ok {
			for _, e := range p2.Edges {
				if walk(e, d+1) {
					return true
				}
			}
		}
		return false
	}
	return walk(v, 0)
}

func c38PrevSet(r *core.Report, p *core.Prog) {
	recv := "(*" + pkgMinerSC + ".MinerSmartContract)."
	for _, s := range []struct {
		fn    string
		needs []string
	}{
		{"moveToContribute", []string{"hasPrevShader", "hasPrevMiner"}},
		{"moveToShareOrPublish", []string{"hasPrevShader", "hasPrevMinerInMPKs"}},
		{"moveToWait", []string{"hasPrevMinerInGSoS"}},
	} {
		fn := p.Func(recv + s.fn)
		if fn == nil {
			r.Unresolved("C38.prev-set", s.fn)
			continue
		}
		exits := core.SuccessExits(fn)
		for _, need := range s.needs {
			ok := len(exits) > 0
			for _, ret := range exits {
				if ret.Block() == fn.Recover {
					continue
				}
				g := false
				for _, f := range core.FactsAt(ret.Block()) {
					cv, taken := stripNot(f.Cond, f.Taken)
					if c, isC := cv.(*ssa.Call); isC && taken && core.MethodName(c.Common()) == need {
						g = true
					}
				}
				if !g {
					ok = false
				}
			}
			r.Check(ok, "C38.prev-set", s.fn+":"+need, p.Pos(fn.Pos()), "the phase is left only if "+need+"(...) holds")
		}
	}
}

// c38FinalSet: the miner list handed to createMagicBlock is the list that was validated
// (min size, previous-set member): nothing is removed from it after the validation.
func c38FinalSet(r *core.Report, p *core.Prog) {
	r.Rule("C38.final-set", "no element is removed from the DKG miner list (delete from / replacement of SimpleNodes) on a path from there to createMagicBlock that does not cross the validating reduce (the call on that list whose call tree requires a previous-set miner)")
	recv := "(*" + pkgMinerSC + ".MinerSmartContract)."
	cmb := p.Func(recv + "createMagicBlock")
	hasPrev := p.Func("(*" + pkgMinerSC + ".GlobalNode).hasPrevDKGMiner")
	sn := p.Field(pkgMinerSC, "DKGMinerNodes", "SimpleNodes")
	if cmb == nil || hasPrev == nil || sn == nil {
		r.Unresolved("C38.final-set", "createMagicBlock / hasPrevDKGMiner / DKGMinerNodes.SimpleNodes")
		return
	}
	n := 0
	for _, fn := range p.FuncsIn(pkgMinerSC) {
		if fn.Blocks == nil || isTooling(p, fn) {
			continue
		}
		for _, cm := range findCallsTo(fn, cmb) {
			var list ssa.Value
			for _, a := range cm.Call.Args {
				if strings.HasSuffix(core.NamedName(a.Type()), ".DKGMinerNodes") {
					list = a
				}
			}
			if list == nil {
				r.Fail("C38.final-set", fn.String()+":list-arg", p.Pos(cm.Pos()), "createMagicBlock is not given a DKG miner list")
				continue
			}
			validating := map[ssa.Instruction]bool{}
			removing := map[ssa.Instruction]string{}
			for _, b := range fn.Blocks {
				for _, in := range b.Instrs {
					switch x := in.(type) {
					case *ssa.Call:
						if core.CalleeName(x.Common()) == "builtin.delete" {
							if f, rv := loadOfAnyField(x.Call.Args[0]); f == sn && canonObj(rv) == canonObj(list) {
								removing[x] = "delete(list.SimpleNodes, …)"
							}
							continue
						}
						cal := x.Common().StaticCallee()
						if cal == nil || cal == cmb {
							continue
						}
						onList := false
						for _, a := range x.Call.Args {
							if canonObj(a) == canonObj(list) {
								onList = true
							}
						}
						if !onList {
							continue
						}
						for _, f := range StaticClosure([]*ssa.Function{cal}, func(f *ssa.Function) bool { return f.Pkg == nil || f.Pkg.Pkg.Path() != pkgMinerSC }) {
							if len(findCallsTo(f, hasPrev)) > 0 {
								validating[x] = true
							}
						}
					case *ssa.Store:
						if fa, ok := x.Addr.(*ssa.FieldAddr); ok && core.FieldOf(fa) == sn && canonObj(fa.X) == canonObj(list) {
							removing[x] = "list.SimpleNodes = …"
						}
					}
				}
			}
			r.Check(len(validating) > 0, "C38.final-set", fn.String()+":validated", p.Pos(cm.Pos()), fmt.Sprintf("%d validating call(s) on the list before createMagicBlock", len(validating)))
			okV, why := true, ""
			{
				path, _, found := core.PathQuery{Fn: fn, Barrier: func(x ssa.Instruction) bool { return validating[x] }, EdgeOK: core.FeasibleEdge,
					Target: func(x ssa.Instruction) bool { return x == ssa.Instruction(cm) }}.Find()
				if found {
					okV, why = false, "createMagicBlock reachable without the validation: "+p.PathString(path)
				}
			}
			r.Check(okV, "C38.final-set", fn.String()+":validation-on-every-path", p.Pos(cm.Pos()), "the list is validated on every path to createMagicBlock "+why)
			// deterministic order
			var rms []ssa.Instruction
			for _, b := range fn.Blocks {
				for _, in := range b.Instrs {
					if _, ok := removing[in]; ok {
						rms = append(rms, in)
					}
				}
			}
			for k, rm := range rms {
				n++
				path, _, found := core.PathQuery{Fn: fn, Start: rm, Barrier: func(x ssa.Instruction) bool { return validating[x] }, EdgeOK: core.FeasibleEdge,
					Target: func(x ssa.Instruction) bool { return x == ssa.Instruction(cm) }}.Find()
				d := removing[rm] + " is followed by the validation on every path to createMagicBlock"
				if found {
					d = removing[rm] + " after the last validation: the magic block is built from a list that was never checked for size and a previous-set miner: " + p.PathString(path)
				}
				r.Check(!found, "C38.final-set", fmt.Sprintf("%s:removal#%d", fn.String(), k+1), p.Pos(rm.Pos()), d)
			}
		}
	}
	r.Floor("C38.final-set", "removals from the DKG miner list next to createMagicBlock", n, 1)
}
