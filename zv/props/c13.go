package props

import (
	"fmt"
	"go/token"
	"sort"
	"strings"

	"golang.org/x/tools/go/ssa"

	"zv/core"
)

func init() { register("C13", "other", c13) }

// allocChange is one store  <blobber>.Allocated = <blobber>.Allocated + x.
type allocChange struct {
	fn   *ssa.Function // enclosing named function
	at   ssa.Instruction
	sign int // +1 increase, -1 decrease, 0 either (signed difference)
	st   *ssa.Store
}

func c13AllocChanges(p *core.Prog, w *pWorld) []allocChange {
	fld := p.Field(pkgStorage, "storageNodeBase", "Allocated")
	if fld == nil {
		return nil
	}
	var out []allocChange
	for _, fn := range w.fns {
		if fn.Pkg.Pkg.Path() != pkgStorage {
			continue
		}
		for _, f := range withClosures(fn) {
			for _, wr := range core.FieldWrites([]*ssa.Function{f}, fld) {
				st, ok := wr.Instr.(*ssa.Store)
				if !ok || wr.Addr == nil || isFresh(wr.Addr) {
					continue
				}
				bo, ok := st.Val.(*ssa.BinOp)
				if !ok || bo.Op != token.ADD {
					continue
				}
				if _, pth := core.BaseObject(bo.X); !strings.HasSuffix(pth, ".Allocated") {
					continue
				}
				sign := 1
				switch y := bo.Y.(type) {
				case *ssa.UnOp:
					if y.Op == token.SUB {
						sign = -1
					}
				case *ssa.BinOp:
					if y.Op == token.SUB {
						if k, isK := core.ConstInt(y.X); isK && k == 0 {
							sign = -1
						}
					}
				}
				// a signed difference (size change on update) can go either way
				if sign == 1 {
					if fs, _ := FlowLoads(bo.Y); len(fs) == 0 {
						if prm := core.ParamOf(canonObj(bo.Y)); prm == nil {
							if _, isCall := canonObj(bo.Y).(*ssa.Call); isCall {
								sign = 0
							}
						}
					}
					if fv, ok := bo.Y.(*ssa.UnOp); ok {
						if _, isFV := fv.X.(*ssa.FreeVar); isFV && strings.Contains(fv.X.Name(), "diff") {
							sign = 0
						}
					}
				}
				// place the event in the named function
				at := ssa.Instruction(st)
				if f != fn {
					for _, b := range fn.Blocks {
						for _, in := range b.Instrs {
							if ci, ok := in.(ssa.CallInstruction); ok {
								for _, a := range ci.Common().Args {
									if mk, ok := a.(*ssa.MakeClosure); ok && mk.Fn == ssa.Value(f) {
										at = in
									}
								}
							}
						}
					}
				}
				out = append(out, allocChange{fn, at, sign, st})
			}
		}
	}
	sort.Slice(out, func(i, j int) bool {
		if out[i].fn.String() != out[j].fn.String() {
			return out[i].fn.String() < out[j].fn.String()
		}
		return out[i].at.Pos() < out[j].at.Pos()
	})
	return out
}

// C13 Blobber capacity and offers track the open allocations.
func c13(r *core.Report, p *core.Prog, thorough bool) {
	r.Explain = "Sums over open allocations are histories and are not decided. Decided — necessary structural conditions: (persist) a blobber node or stake pool that a storage-contract function obtains and changes is saved on every success path; (pairing) in the call tree of every storage handler an increase of a blobber's Allocated comes with addOffer and a decrease with reduceOffer, and where both sit in one function each success path that changes Allocated also changes the offer; (capacity) every increase of Allocated is preceded by a capacity test (a comparison involving the blobber's Capacity, directly or in an error-checked callee); (delta snapshots) where an offer delta is computed from two calls of BlobberAllocation.Offer() the first call comes before any change of the fields Offer() reads; (removal) an entry of alloc.BlobberAllocs is replaced only after the removed blobber's Allocated and offer were reduced; (distinct) a new allocation's blobber list is checked for repeated ids before per-blobber changes. Not decided: amounts."
	r.Rule("C13.persist", "a StorageNode / stakePool obtained and changed in a storage-contract function is saved on every success path after the change")
	r.Rule("C13.pairing", "per handler call tree: Allocated increases ⇔ addOffer present, decreases ⇔ reduceOffer present; within one function every success path through an Allocated change passes an offer change")
	r.Rule("C13.capacity", "every increase of storageNodeBase.Allocated is dominated by a capacity test (comparison reading .Capacity, or an error-checked call whose call tree contains one)")
	r.Rule("C13.offer-delta", "two calls of Offer() on one blobber allocation combined into a delta: no change of Size/Terms of that entry can run before the first call in the same iteration")
	r.Rule("C13.removal", "a store replacing an element of alloc.BlobberAllocs is reached only after the removed blobber's Allocated decrease and reduceOffer")
	r.Rule("C13.distinct", "new_allocation_request rejects a blobber list with a repeated id (map-size vs list-length comparison or a duplicate scan) before offers are added")

	w := buildPersistWorld(p, []string{pkgStorage, pkgSP})
	// ---- persist
	c13Types := map[string]bool{pkgStorage + ".StorageNode": true, pkgStorage + ".stakePool": true}
	nF := 0
	for _, fn := range w.fns {
		if fn.Pkg.Pkg.Path() != pkgStorage || !takesStateCtx(fn) {
			continue
		}
		fs, no, nm := w.check(fn, func(v ssa.Value) bool {
			switch v.(type) {
			case *ssa.Call, *ssa.Extract:
				return isPtrToNamedIn(v.Type(), c13Types)
			}
			return false
		})
		if no == 0 {
			continue
		}
		nF++
		seen := map[string]bool{}
		for _, f := range fs {
			key := fmt.Sprintf("%s:%s", fn.String(), pDescribe(f.obj))
			if seen[key] {
				continue
			}
			seen[key] = true
			r.Fail("C13.persist", key, posOf(p, f.mut.in), fmt.Sprintf("changed (%s) and then a success exit is reachable without saving it: %s", f.mut.why, f.path))
		}
		if len(fs) == 0 {
			r.Pass("C13.persist", fn.String(), p.Pos(fn.Pos()), fmt.Sprintf("%d object(s), %d change(s), saved on every success path", no, nm))
		}
	}
	r.Floor("C13.persist", "functions that obtain and change a blobber node or stake pool", nF, 10)

	changes := c13AllocChanges(p, w)
	r.Floor("C13.pairing", "stores changing storageNodeBase.Allocated", len(changes), 5)
	addO := p.Func("(*" + pkgStorage + ".stakePool).addOffer")
	redO := p.Func("(*" + pkgStorage + ".stakePool).reduceOffer")
	if addO == nil || redO == nil {
		r.Unresolved("C13.pairing", "stakePool.addOffer / reduceOffer")
		return
	}
	// ---- pairing per handler
	h := BuildHandlers(p)
	for _, key := range h.Keys() {
		if !strings.HasPrefix(key, "storagesc:") {
			continue
		}
		cl := StaticClosure(h.Get(key), func(f *ssa.Function) bool { return f.Pkg == nil || f.Pkg.Pkg.Path() != pkgStorage })
		inCl := map[*ssa.Function]bool{}
		for _, f := range cl {
			inCl[core.EnclosingNamed(f)] = true
		}
		inc, dec := 0, 0
		for _, c := range changes {
			if !inCl[c.fn] {
				continue
			}
			if c.sign >= 0 {
				inc++
			}
			if c.sign <= 0 {
				dec++
			}
		}
		if inc == 0 && dec == 0 {
			continue
		}
		nAdd, nRed := 0, 0
		for f := range inCl {
			nAdd += len(findCallsTo(f, addO))
			nRed += len(findCallsTo(f, redO))
		}
		r.Check((inc == 0 || nAdd > 0) && (dec == 0 || nRed > 0), "C13.pairing", "handler:"+key, "", fmt.Sprintf("Allocated increases=%d decreases=%d, addOffer calls=%d reduceOffer calls=%d in the handler's call tree", inc, dec, nAdd, nRed))
	}
	// ---- pairing inside one function
	for i, c := range changes {
		var offers []ssa.Instruction
		for _, oc := range append(findCallsTo(c.fn, addO), findCallsTo(c.fn, redO)...) {
			offers = append(offers, oc)
		}
		if len(offers) == 0 {
			continue // the offer side lives in the caller: covered by the handler rule
		}
		isO := map[ssa.Instruction]bool{}
		loops := core.Loops(c.fn)
		for _, o := range offers {
			isO[o] = true
		}
		// success paths from the change that never touch an offer; a conditional offer
		// change guarded by "delta != 0" is accepted (the offer is a function of size and price)
		path, _, found := core.PathQuery{Fn: c.fn, Start: c.at, Barrier: func(in ssa.Instruction) bool {
			if isO[in] {
				return true
			}
			// the comparison newOffer != oldOffer: equal offers need no change
			if ifi, ok := in.(*ssa.If); ok {
				if bo, ok := ifi.Cond.(*ssa.BinOp); ok && (bo.Op == token.NEQ || bo.Op == token.EQL) {
					if isOfferCall(bo.X) && isOfferCall(bo.Y) {
						return true
					}
				}
			}
			return false
		}, EdgeOK: core.FeasibleEdge,
			Target: func(in ssa.Instruction) bool {
				ret, ok := in.(*ssa.Return)
				if ok && core.ClassifyReturn(ret) != core.ExitFailure && ret.Block() != c.fn.Recover {
					return true
				}
				// next iteration of the per-blobber loop without an offer change
				for _, l := range loops {
					if l.Body[c.at.Block()] && in == l.Header.Instrs[0] {
						return true
					}
				}
				return false
			}}.Find()
		if found {
			// the offer may have been changed before the Allocated change on every path to it
			_, _, before := core.PathQuery{Fn: c.fn, Barrier: func(in ssa.Instruction) bool { return isO[in] }, EdgeOK: core.FeasibleEdge,
				Target: func(in ssa.Instruction) bool { return in == c.at }}.Find()
			if !before {
				found = false
			}
		}
		d := ""
		if found {
			d = "a success path changes Allocated and never the offer: " + p.PathString(path)
		}
		r.Check(!found, "C13.pairing", fmt.Sprintf("function:%s:change#%d", c.fn.String(), i+1), posOf(p, c.at), "Allocated and the stake pool's offers change together; "+d)
	}
	// ---- capacity
	capFn := map[*ssa.Function]int{}
	var readsCapacity func(f *ssa.Function, depth int) bool
	readsCapacity = func(f *ssa.Function, depth int) bool {
		if f == nil || f.Blocks == nil || depth > 4 {
			return false
		}
		if v, ok := capFn[f]; ok {
			return v == 1
		}
		capFn[f] = -1
		res := false
		for _, g := range withClosures(f) {
			for _, b := range g.Blocks {
				for _, in := range b.Instrs {
					if bo, ok := in.(*ssa.BinOp); ok {
						switch bo.Op {
						case token.LSS, token.GTR, token.LEQ, token.GEQ:
							fs, _ := FlowLoads(bo)
							if fs["storageNodeBase.Capacity"] || fs["StorageNodeResponse.Capacity"] {
								res = true
							}
						}
					}
					if ci, ok := in.(ssa.CallInstruction); ok {
						if cal := core.StaticCallee(ci.Common()); cal != nil && cal.Pkg != nil && cal.Pkg.Pkg.Path() == pkgStorage && readsCapacity(cal, depth+1) {
							res = true
						}
					}
				}
			}
		}
		if res {
			capFn[f] = 1
		}
		return res
	}
	nInc := 0
	for i, c := range changes {
		if c.sign < 0 {
			continue
		}
		nInc++
		ok := false
		how := ""
		// (a) a comparison reading Capacity dominates the store itself (inside the closure)
		for _, f := range CmpFacts(c.st.Block()) {
			fx, _ := FlowLoads(f.X)
			fy, _ := FlowLoads(f.Y)
			ordering := f.Op == token.LSS || f.Op == token.GTR || f.Op == token.LEQ || f.Op == token.GEQ
			if ordering && (fx["storageNodeBase.Capacity"] || fy["storageNodeBase.Capacity"]) && (fx["storageNodeBase.Allocated"] || fy["storageNodeBase.Allocated"]) {
				ok = true
				how = "comparison " + describe(f.X) + " " + f.Op.String() + " " + describe(f.Y)
			}
		}
		// (b) an error-checked call whose call tree tests Capacity dominates the change
		if !ok {
			for _, b := range c.fn.Blocks {
				for _, in := range b.Instrs {
					cc, isC := in.(*ssa.Call)
					if !isC || ssa.Instruction(cc) == c.at || !callDominates(cc, c.at) || !core.ErrLeadsToFailure(cc) {
						continue
					}
					if cal := core.StaticCallee(cc.Common()); cal != nil && readsCapacity(cal, 0) {
						// the test must be about the blobber(s) being changed: the call receives them
						var objs []ssa.Value
						if mc, isCall := c.at.(*ssa.Call); isCall && core.Receiver(mc.Common()) != nil {
							objs = w.pRoots(core.Receiver(mc.Common()), c.fn, 0)
						}
						for _, a := range cc.Call.Args {
							for _, ro := range w.pRoots(a, c.fn, 0) {
								if hasRoot(objs, ro) {
									ok = true
									how = "checked call " + cal.Name()
								}
							}
						}
						// or hands them out: the changed blobbers are the call's (validated) result
						if hasRoot(objs, cc) {
							ok = true
						}
						for _, ref := range *cc.Referrers() {
							if ex, isEx := ref.(*ssa.Extract); isEx && hasRoot(objs, ex) {
								ok = true
							}
						}
					}
				}
			}
		}
		r.Check(ok, "C13.capacity", fmt.Sprintf("increase:%s#%d", c.fn.String(), i+1), posOf(p, c.at), "the blobber's free capacity is tested before more of it is allocated; "+how)
	}
	r.Floor("C13.capacity", "increases of Allocated", nInc, 3)

	c13OfferDelta(r, p, w)
	c13Removal(r, p, w, changes, redO)
	c13Distinct(r, p, addO)
	c13SizeAgreement(r, p, w)
}

func isOfferCall(v ssa.Value) bool {
	c, ok := canonObj(v).(*ssa.Call)
	return ok && core.MethodName(c.Common()) == "Offer"
}

// c13OfferDelta: old/new snapshots of Offer().
func c13OfferDelta(r *core.Report, p *core.Prog, w *pWorld) {
	offer := p.Func("(*" + pkgStorage + ".BlobberAllocation).Offer")
	if offer == nil {
		r.Unresolved("C13.offer-delta", "BlobberAllocation.Offer")
		return
	}
	reads := map[string]bool{}
	for k := range HashCoverage(p, offer) {
		if strings.HasPrefix(k, "BlobberAllocation.") {
			reads[strings.TrimPrefix(k, "BlobberAllocation.")] = true
		}
	}
	n := 0
	for _, fn := range w.fns {
		if fn.Pkg.Pkg.Path() != pkgStorage {
			continue
		}
		calls := findCallsTo(fn, offer)
		if len(calls) < 2 {
			continue
		}
		muts, _ := w.events(fn)
		loops := core.Loops(fn)
		for _, k1 := range calls {
			for _, k2 := range calls {
				if k1 == k2 || !callDominates(k1, k2) || canonObj(k1.Call.Args[0]) != canonObj(k2.Call.Args[0]) {
					continue
				}
				// combined into a delta / comparison
				combined := false
				for _, ref := range *k1.Referrers() {
					switch u := ref.(type) {
					case *ssa.BinOp:
						if canonObj(u.X) == ssa.Value(k2) || canonObj(u.Y) == ssa.Value(k2) {
							combined = true
						}
					case *ssa.Call:
						for _, a := range u.Call.Args {
							if canonObj(a) == ssa.Value(k2) {
								combined = true
							}
						}
					}
				}
				if !combined {
					continue
				}
				n++
				recv := canonObj(k1.Call.Args[0])
				bad := ""
				for _, m := range muts {
					touches := false
					for _, fl := range m.fields {
						if reads[fl] || fl == "*" && false {
							touches = true
						}
					}
					if !touches {
						continue
					}
					same := false
					for _, o := range m.objs {
						if o == recv || hasRoot(w.pRoots(recv, fn, 0), o) {
							same = true
						}
					}
					if !same {
						continue
					}
					// can the mutation run before the first snapshot in the same iteration?
					_, _, found := core.PathQuery{Fn: fn, Start: m.in,
						Barrier: func(in ssa.Instruction) bool {
							for _, l := range loops {
								if l.Body[k1.Block()] && in == l.Header.Instrs[0] {
									return true
								}
							}
							return false
						},
						Target: func(in ssa.Instruction) bool { return in == ssa.Instruction(k1) }}.Find()
					if found {
						bad = fmt.Sprintf("%s (%s) can run before the first Offer() snapshot", m.why, p.Pos(m.in.Pos()))
					}
				}
				r.Check(bad == "", "C13.offer-delta", fmt.Sprintf("%s:offer-delta#%d", fn.String(), n), p.Pos(k1.Pos()), "the old offer is taken before the entry's Size/Terms change; "+bad)
			}
		}
	}
	r.Floor("C13.offer-delta", "offer deltas (two Offer() calls on one entry combined)", n, 1)
}

// c13Removal: replacing an element of BlobberAllocs.
func c13Removal(r *core.Report, p *core.Prog, w *pWorld, changes []allocChange, redO *ssa.Function) {
	n := 0
	for _, fn := range w.fns {
		if fn.Pkg.Pkg.Path() != pkgStorage || isTooling(p, fn) || !takesStateCtx(fn) {
			continue
		}
		for _, b := range fn.Blocks {
			for _, in := range b.Instrs {
				st, ok := in.(*ssa.Store)
				if !ok {
					continue
				}
				ia, ok := st.Addr.(*ssa.IndexAddr)
				if !ok {
					continue
				}
				if _, pth := core.BaseObject(ia.X); !strings.HasSuffix(pth, ".BlobberAllocs") {
					continue
				}
				if rt, _ := core.BaseObject(ia.X); core.ParamOf(rt) == nil {
					continue // building a fresh list
				}
				n++
				decs := map[ssa.Instruction]bool{}
				for _, c := range changes {
					if c.fn == fn && c.sign <= 0 {
						decs[c.at] = true
					}
				}
				reds := map[ssa.Instruction]bool{}
				for _, c := range findCallsTo(fn, redO) {
					reds[c] = true
				}
				for _, part := range []struct {
					name string
					set  map[ssa.Instruction]bool
				}{{"allocated-reduced", decs}, {"offer-reduced", reds}} {
					path, _, found := core.PathQuery{Fn: fn, Barrier: func(x ssa.Instruction) bool { return part.set[x] }, EdgeOK: core.FeasibleEdge,
						Target: func(x ssa.Instruction) bool { return x == ssa.Instruction(st) }}.Find()
					d := ""
					if found {
						d = "the entry is replaced on a path that skips it: " + p.PathString(path)
					}
					r.Check(!found, "C13.removal", fmt.Sprintf("%s:replace#%d:%s", fn.String(), n, part.name), posOf(p, st), "the blobber that leaves the allocation gives back its allocated size and its offer first; "+d)
				}
			}
		}
	}
	r.Floor("C13.removal", "stores replacing an element of alloc.BlobberAllocs", n, 1)
}

// c13Distinct: the uniqueness guard of a new allocation's blobber list.
func c13Distinct(r *core.Report, p *core.Prog, addO *ssa.Function) {
	hs := BuildHandlers(p).Get("storagesc:new_allocation_request")
	if len(hs) == 0 {
		r.Unresolved("C13.distinct", "storagesc:new_allocation_request")
		return
	}
	cl := StaticClosure(hs, func(f *ssa.Function) bool { return f.Pkg == nil || f.Pkg.Pkg.Path() != pkgStorage })
	ok := false
	where := ""
	for _, fn := range cl {
		offers := findCallsTo(fn, addO)
		if len(offers) == 0 {
			continue
		}
		where = fn.String()
		for _, oc := range offers {
			for _, f := range CmpFacts(oc.Block()) {
				// len(map) == len(slice)
				lx, okx := f.X.(*ssa.Call)
				ly, oky := f.Y.(*ssa.Call)
				if f.Op != token.EQL || !okx || !oky || core.CalleeName(lx.Common()) != "builtin.len" || core.CalleeName(ly.Common()) != "builtin.len" {
					continue
				}
				tx, ty := lx.Call.Args[0].Type().Underlying().String(), ly.Call.Args[0].Type().Underlying().String()
				if (strings.HasPrefix(tx, "map[") && strings.HasPrefix(ty, "[]")) || (strings.HasPrefix(ty, "map[") && strings.HasPrefix(tx, "[]")) {
					ok = true
				}
			}
			// or an explicit duplicate scan before the offers
			for _, b := range fn.Blocks {
				for _, in := range b.Instrs {
					if lk, isLk := in.(*ssa.Lookup); isLk && lk.CommaOk && b.Dominates(oc.Block()) && c38RejectsPresent(lk) {
						if _, pth := core.BaseObject(lk.Index); strings.HasSuffix(pth, ".ID") || pth == "[*]" {
							ok = true
						}
					}
				}
			}
		}
	}
	r.Check(ok, "C13.distinct", "new_allocation_request:blobber-ids-distinct", "", "before offers are added per blobber, a list with a repeated blobber id is rejected (the same blobber loaded twice passes the capacity test twice and its two copies overwrite each other); offers added in "+where)
}

// c13SizeAgreement: where a function both charges a blobber's Allocated and creates the
// blobber's entry of the allocation, the size charged is the size recorded in the entry.
func c13SizeAgreement(r *core.Report, p *core.Prog, w *pWorld) {
	r.Rule("C13.size-agreement", "in a function that increases a blobber's Allocated and creates its BlobberAllocation, the amount added and the size given to newBlobberAllocation denote the same value (same SSA value through closure bindings, the same getter on the same object, or structurally equal expressions)")
	nba := p.Func(pkgStorage + ".newBlobberAllocation")
	fld := p.Field(pkgStorage, "storageNodeBase", "Allocated")
	if nba == nil || fld == nil {
		r.Unresolved("C13.size-agreement", "newBlobberAllocation / storageNodeBase.Allocated")
		return
	}
	type sized struct {
		v   ssa.Value
		fn  *ssa.Function
		pos token.Pos
	}
	canon := func(v ssa.Value, f *ssa.Function) (ssa.Value, *ssa.Function) {
		for i := 0; i < 4; i++ {
			nv, nf := resolveFreeVar(v, f)
			if cv, ok := nv.(*ssa.Convert); ok {
				nv = cv.X
			}
			if nv == v && nf == f {
				break
			}
			v, f = nv, nf
		}
		return v, f
	}
	same := func(a, b sized) bool {
		av, af := canon(a.v, a.fn)
		bv, bf := canon(b.v, b.fn)
		if av == bv {
			return true
		}
		ca, ok1 := av.(*ssa.Call)
		cb, ok2 := bv.(*ssa.Call)
		if ok1 && ok2 && ca.Common().StaticCallee() != nil && ca.Common().StaticCallee() == cb.Common().StaticCallee() && len(ca.Call.Args) == 1 && len(cb.Call.Args) == 1 {
			ra, _ := canon(ca.Call.Args[0], af)
			rb, _ := canon(cb.Call.Args[0], bf)
			if ra == rb || canonObj(ra) == canonObj(rb) {
				return true
			}
		}
		return af == bf && exprEqual(av, bv, 0)
	}
	n := 0
	for _, fn := range w.fns {
		if fn.Pkg.Pkg.Path() != pkgStorage || isTooling(p, fn) {
			continue
		}
		var incs, sizes []sized
		for _, f := range withClosures(fn) {
			for _, c := range findCallsTo(f, nba) {
				sizes = append(sizes, sized{c.Call.Args[0], f, c.Pos()})
			}
			for _, wr := range core.FieldWrites([]*ssa.Function{f}, fld) {
				st, ok := wr.Instr.(*ssa.Store)
				if !ok || wr.Addr == nil || isFresh(wr.Addr) {
					continue
				}
				bo, ok := st.Val.(*ssa.BinOp)
				if !ok || bo.Op != token.ADD {
					continue
				}
				if _, pth := core.BaseObject(bo.X); !strings.HasSuffix(pth, ".Allocated") {
					continue
				}
				if u, isNeg := bo.Y.(*ssa.UnOp); isNeg && u.Op == token.SUB {
					continue
				}
				incs = append(incs, sized{bo.Y, f, st.Pos()})
			}
		}
		if len(incs) == 0 || len(sizes) == 0 {
			continue
		}
		for i, inc := range incs {
			n++
			ok := false
			for _, s := range sizes {
				if same(inc, s) {
					ok = true
				}
			}
			r.Check(ok, "C13.size-agreement", fmt.Sprintf("%s:charged#%d", fn.String(), i+1), p.Pos(inc.pos), "the amount added to Allocated is the size recorded in the new BlobberAllocation")
		}
		for i, s := range sizes {
			n++
			ok := false
			for _, inc := range incs {
				if same(inc, s) {
					ok = true
				}
			}
			r.Check(ok, "C13.size-agreement", fmt.Sprintf("%s:recorded#%d", fn.String(), i+1), p.Pos(s.pos), "the size recorded in the new BlobberAllocation is the amount added to Allocated")
		}
	}
	r.Floor("C13.size-agreement", "charged/recorded sizes compared", n, 4)
}
