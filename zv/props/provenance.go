package props

import (
	"fmt"
	"go/token"
	"go/types"
	"sort"
	"strings"

	"golang.org/x/tools/go/ssa"

	"zv/core"
)

// CallIndex maps functions to their call sites (static) and method names to invoke
// sites (dynamic through interfaces).
type CallIndex struct {
	static map[*ssa.Function][]core.CallSite
	invoke map[string][]core.CallSite
}

var callIndexCache *CallIndex

func BuildCallIndex(p *core.Prog) *CallIndex {
	if callIndexCache != nil {
		return callIndexCache
	}
	ix := &CallIndex{static: map[*ssa.Function][]core.CallSite{}, invoke: map[string][]core.CallSite{}}
	for _, fn := range p.ModFuncs() {
		for _, cs := range core.CallsIn(fn, false, nil) {
			c := cs.Common()
			if c.IsInvoke() {
				ix.invoke[c.Method.Name()] = append(ix.invoke[c.Method.Name()], cs)
			} else if cal := core.StaticCallee(c); cal != nil {
				ix.static[originFn(cal)] = append(ix.static[originFn(cal)], cs)
			}
		}
	}
	callIndexCache = ix
	return ix
}

func originFn(f *ssa.Function) *ssa.Function {
	if o := f.Origin(); o != nil {
		return o
	}
	return f
}

// CallersOf returns the call sites that may call fn: static calls plus interface
// invokes of a method with the same name whose interface fn's receiver implements.
func (ix *CallIndex) CallersOf(fn *ssa.Function) []core.CallSite {
	out := append([]core.CallSite{}, ix.static[originFn(fn)]...)
	if recv := fn.Signature.Recv(); recv != nil {
		for _, cs := range ix.invoke[fn.Name()] {
			it, ok := cs.Common().Value.Type().Underlying().(*types.Interface)
			if !ok {
				continue
			}
			if types.Implements(recv.Type(), it) || types.Implements(types.NewPointer(recv.Type()), it) {
				out = append(out, cs)
			}
		}
	}
	return out
}

// Origin is a leaf of interprocedural provenance.
type Origin struct {
	Desc string
	V    ssa.Value
	Fn   *ssa.Function
}

// Origins resolves where a value comes from, following parameters up to callers and
// unexported carrier-struct fields back to their stores, to the given depth. Leaves
// that could not be resolved within the depth are reported as "unresolved:…".
func Origins(p *core.Prog, v ssa.Value, depth int) []Origin {
	ix := BuildCallIndex(p)
	var out []Origin
	seen := map[ssa.Value]bool{}
	var walk func(v ssa.Value, d int)
	leaf := func(desc string, v ssa.Value) {
		var fn *ssa.Function
		if in, ok := v.(ssa.Instruction); ok {
			fn = in.Parent()
		} else if prm, ok := v.(*ssa.Parameter); ok {
			fn = prm.Parent()
		}
		out = append(out, Origin{desc, v, fn})
	}
	walk = func(v ssa.Value, d int) {
		if v == nil || seen[v] {
			return
		}
		seen[v] = true
		if d < 0 {
			leaf("unresolved:depth:"+describe(v), v)
			return
		}
		switch x := v.(type) {
		case *ssa.Parameter:
			fn := x.Parent()
			idx := -1
			for i, q := range fn.Params {
				if q == x {
					idx = i
				}
			}
			callers := ix.CallersOf(fn)
			if len(callers) == 0 || idx < 0 {
				leaf("param:"+x.Name()+"@"+fn.Name(), x)
				return
			}
			for _, cs := range callers {
				args := cs.Common().Args
				if cs.Common().IsInvoke() {
					// invoke args exclude the receiver; params include it
					if idx == 0 {
						walk(cs.Common().Value, d-1)
						continue
					}
					if idx-1 < len(args) {
						walk(args[idx-1], d-1)
					}
					continue
				}
				if idx < len(args) {
					walk(args[idx], d-1)
				}
			}
		case *ssa.Phi:
			for _, e := range x.Edges {
				walk(e, d)
			}
		case *ssa.ChangeType:
			walk(x.X, d)
		case *ssa.Convert:
			walk(x.X, d)
		case *ssa.MakeInterface:
			walk(x.X, d)
		case *ssa.UnOp:
			if x.Op != token.MUL {
				walk(x.X, d)
				return
			}
			switch a := x.X.(type) {
			case *ssa.Alloc:
				st := core.StoresTo(a)
				if len(st) == 0 {
					leaf("zero:"+a.Comment, x)
				}
				for _, s := range st {
					walk(s, d)
				}
			case *ssa.FieldAddr:
				fld := core.FieldOf(a)
				if fld != nil && !fld.Exported() && fld.Pkg() != nil && core.IsModule(fld.Pkg().Path()) {
					// in-memory carrier field: follow its stores program-wide
					ws := core.FieldWrites(p.ModFuncs(), fld)
					n := 0
					for _, w := range ws {
						if w.Kind == "store" && !isCodecName(core.EnclosingNamed(w.Fn).String()) {
							n++
							walk(w.Val, d-1)
						}
					}
					if n == 0 {
						leaf("field-never-stored:"+fld.Name(), x)
					}
					return
				}
				leaf(describe(x), x)
			default:
				leaf(describe(x), x)
			}
		case *ssa.Field:
			fld := core.FieldOf(x)
			if fld != nil && !fld.Exported() && fld.Pkg() != nil && core.IsModule(fld.Pkg().Path()) {
				ws := core.FieldWrites(p.ModFuncs(), fld)
				for _, w := range ws {
					if w.Kind == "store" && !isCodecName(core.EnclosingNamed(w.Fn).String()) {
						walk(w.Val, d-1)
					}
				}
				return
			}
			leaf(describe(x), x)
		default:
			leaf(describe(v), v)
		}
	}
	walk(v, depth)
	sort.Slice(out, func(i, j int) bool { return out[i].Desc < out[j].Desc })
	return out
}

// OriginDescs returns the sorted unique descriptions.
func OriginDescs(os []Origin) []string {
	set := map[string]bool{}
	for _, o := range os {
		set[o.Desc] = true
	}
	var out []string
	for k := range set {
		out = append(out, k)
	}
	sort.Strings(out)
	return out
}

// contractAddresses returns the string values of the ADDRESS constants of the contract
// packages (resolved through the type-checker).
func contractAddresses(p *core.Prog) map[string]string {
	out := map[string]string{}
	for _, sc := range contractPkgs {
		if o := p.Object("0chain.net/smartcontract/"+sc, "ADDRESS"); o != nil {
			if c, ok := o.(*types.Const); ok {
				out[strings.Trim(c.Val().ExactString(), "\"")] = sc
			}
		}
		if o := p.Object("0chain.net/smartcontract/"+sc, "Address"); o != nil {
			if c, ok := o.(*types.Const); ok {
				out[strings.Trim(c.Val().ExactString(), "\"")] = sc
			}
		}
	}
	return out
}

// classifyParty classifies one origin of a transfer endpoint.
func classifyParty(p *core.Prog, o Origin, addrs map[string]string) string {
	d := o.Desc
	if c, ok := o.V.(*ssa.Const); ok && c.Value != nil {
		if sc, ok := addrs[strings.Trim(c.Value.ExactString(), "\"")]; ok {
			return "contract:" + sc
		}
		return "const:" + d
	}
	switch {
	case strings.HasPrefix(d, "unresolved:"):
		return d
	case strings.HasSuffix(d, ".ToClientID"):
		return "called-contract"
	case strings.HasSuffix(d, ".ClientID"):
		return "sender"
	case strings.HasSuffix(d, ".SmartContract.ID"), strings.HasSuffix(d, ".ID") && strings.Contains(d, "SmartContract"):
		return "contract:self"
	case strings.HasPrefix(d, "call:GetMinter()"):
		return "contract:minter"
	}
	return "other:" + d
}

func fmtOrigins(os []Origin) string { return fmt.Sprintf("%v", OriginDescs(os)) }
