package props

import (
	"fmt"
	"go/token"
	"go/types"
	"sort"
	"strings"

	"golang.org/x/tools/go/ssa"

	"zv/core"
)

func init() {
	register("C37", "other", c37)
	register("C44", "other", c44)
}

const pkgRound = "0chain.net/chaincore/round"

func fnsOf(p *core.Prog, pkgs ...string) []*ssa.Function {
	var out []*ssa.Function
	for _, pk := range pkgs {
		out = append(out, p.FuncsIn(pk)...)
	}
	return out
}

// sortsParam: fn sorts one of its slice parameters in place (index returned, -1 if none).
func sortsParam(fn *ssa.Function) int {
	if fn == nil || fn.Blocks == nil {
		return -1
	}
	for _, cs := range core.CallsIn(fn, false, func(c *ssa.CallCommon) bool { return strings.HasPrefix(core.CalleeName(c), "sort.") }) {
		for _, a := range cs.Common().Args {
			v := a
			if mi, ok := v.(*ssa.MakeInterface); ok {
				v = mi.X
			}
			if prm := core.ParamOf(v); prm != nil {
				for i, q := range fn.Params {
					if q == prm {
						return i
					}
				}
			}
		}
	}
	return -1
}

// C37 Round state transitions are monotone and never deadlock.
func c37(r *core.Report, p *core.Prog, thorough bool) {
	r.Explain = "Decided: every function of the round package releases on every exit each lock it acquired (a rejected restart included); the phase is never updated by an unsynchronised load-then-store; the restart guard is evaluated in the critical section that performs the reset; the timeout count, the VRF share set and the conditional finalizing reset are updated only behind their monotonicity guards while the round mutex is write-held. Not decided: liveness beyond lock release."
	r.Rule("C37.lockpair", "every exit of every function in chaincore/round holds no lock the function acquired (defer-aware must-hold dataflow; lock wrappers summarised)")
	r.Rule("C37.no-self-deadlock", "no function of chaincore/round calls, while it holds a mutex of its receiver, a method of the same receiver that acquires that mutex again (sync mutexes are not re-entrant: the call never returns and the round stays locked)")
	r.Rule("C37.atomic-phase", "no atomic.Load → branch → atomic.Store on the round phase without a compare-and-swap (a concurrent smaller phase could overwrite a larger one)")
	r.Rule("C37.restart", "Round.Restart: the phase guard (>= Share → error) is read while the round mutex is write-held and dominates the reset")
	r.Rule("C37.monotone", "SetTimeoutCount stores only a larger count; AddVRFShare inserts only below the threshold and only a new party, under the write lock; ResetFinalizingStateIfNotFinalized resets only when not finalized")
	fns := fnsOf(p, pkgRound)
	r.Floor("C37.lockpair", "functions in chaincore/round", len(fns), 100)
	w := BuildLockWorld(p, fns)
	nLock := 0
	for _, fn := range fns {
		for _, cs := range core.CallsIn(fn, false, nil) {
			if _, op := lockOp(cs.Common()); op == "lock" || op == "rlock" {
				nLock++
			}
		}
	}
	r.Floor("C37.lockpair", "lock acquisitions", nLock, 30)
	// re-entrant acquisition
	{
		inSet := map[*ssa.Function]bool{}
		for _, fn := range fns {
			inSet[fn] = true
		}
		var acquires func(h *ssa.Function, suffix string, depth int, seen map[*ssa.Function]bool) bool
		acquires = func(h *ssa.Function, suffix string, depth int, seen map[*ssa.Function]bool) bool {
			if seen[h] || depth > 3 || h.Blocks == nil {
				return false
			}
			seen[h] = true
			hn := recvName(h)
			if hn == "" {
				return false
			}
			for _, cs := range core.CallsIn(h, false, nil) {
				if pth, op := lockOp(cs.Common()); (op == "lock" || op == "rlock") && pth == hn+suffix {
					return true
				}
				if c, ok := cs.Instr.(*ssa.Call); ok {
					if g := c.Call.StaticCallee(); g != nil && inSet[g] && len(c.Call.Args) > 0 && len(h.Params) > 0 && c.Call.Args[0] == ssa.Value(h.Params[0]) {
						if acquires(g, suffix, depth+1, seen) {
							return true
						}
					}
				}
			}
			return false
		}
		nHeldCalls := 0
		for _, fn := range fns {
			li := w.Info[fn]
			rn := recvName(fn)
			if li == nil || rn == "" || len(fn.Params) == 0 {
				continue
			}
			for _, b := range fn.Blocks {
				for _, in := range b.Instrs {
					c, ok := in.(*ssa.Call)
					if !ok {
						continue
					}
					h := c.Call.StaticCallee()
					if h == nil || !inSet[h] || len(c.Call.Args) == 0 || c.Call.Args[0] != ssa.Value(fn.Params[0]) {
						continue
					}
					for pth := range li.AtInstr[c] {
						if !strings.HasPrefix(pth, rn+".") {
							continue
						}
						nHeldCalls++
						if acquires(h, strings.TrimPrefix(pth, rn), 0, map[*ssa.Function]bool{}) {
							r.Fail("C37.no-self-deadlock", fmt.Sprintf("%s->%s:%s", fn.Name(), h.Name(), strings.TrimPrefix(pth, rn)), p.Pos(c.Pos()), "called with "+pth+" held, and the callee locks it again")
						}
					}
				}
			}
		}
		r.Pass("C37.no-self-deadlock", "same-receiver-calls-under-lock", p.Pos(fns[0].Pos()), fmt.Sprintf("%d calls made with a receiver mutex held, none re-acquires it", nHeldCalls))
	}
	leaks := w.Leaks()
	leakFn := map[*ssa.Function]bool{}
	for _, l := range leaks {
		leakFn[l.Fn] = true
		r.Fail("C37.lockpair", "leak:"+core.EnclosingNamed(l.Fn).String()+":"+l.Path, p.Pos(l.Ret.Pos()), "returns with "+l.Path+" still locked: every later operation on the round blocks forever")
	}
	for _, fn := range fns {
		has := false
		for _, cs := range core.CallsIn(fn, false, nil) {
			if _, op := lockOp(cs.Common()); op == "lock" || op == "rlock" {
				has = true
			}
		}
		if has && !leakFn[fn] {
			note := "all exits release"
			if ws := w.Wrappers[fn]; ws != nil && len(ws.acquires) > 0 {
				note = "lock wrapper (returns holding the lock by design); paired release wrapper required"
				paired := false
				for _, other := range fns {
					if ow := w.Wrappers[other]; ow != nil {
						for suf := range ws.acquires {
							if ow.releases[suf] {
								paired = true
							}
						}
					}
				}
				if !paired {
					r.Fail("C37.lockpair", "wrapper-unpaired:"+fn.String(), p.Pos(fn.Pos()), "acquires a lock on every exit and no function releases it")
					continue
				}
			}
			r.Pass("C37.lockpair", "paired:"+fn.String(), p.Pos(fn.Pos()), note)
		}
	}
	// ---- atomic check-then-act
	ctas := w.AtomicCheckThenAct()
	for _, c := range ctas {
		r.Fail("C37.atomic-phase", "check-then-act:"+c.Fn.String(), p.Pos(c.Store.Pos()), "atomic load at "+p.Pos(c.Load.Pos())+" decides an atomic store without compare-and-swap: two concurrent callers can interleave and the smaller value wins")
	}
	if len(ctas) == 0 {
		r.Pass("C37.atomic-phase", "none", "", "no load-then-store on atomics in chaincore/round")
	}
	// ---- restart
	rs := p.Func("(*" + pkgRound + ".Round).Restart")
	if rs == nil {
		r.Unresolved("C37.restart", "Round.Restart")
	} else {
		li := w.Info[rs]
		// the phase read and the reset: in Restart or in helpers of the package it calls
		gsl := LiftCalls(rs, core.NameIs("(*"+pkgRound+".Round).getState"), 1)
		initl := LiftCalls(rs, core.NameIs("(*"+pkgRound+".Round).initialize"), 1)
		if r.Check(len(gsl) == 1 && len(initl) == 1, "C37.restart", "Restart:shape", p.Pos(rs.Pos()), fmt.Sprintf("getState=%d initialize=%d", len(gsl), len(initl))) {
			gs, inits := gsl[0].Site, initl[0].Site
			held := li.AtInstr[gs]
			wr, ok := held["r.mutex"]
			r.Check(ok && wr, "C37.restart", "Restart:guard-under-lock", p.Pos(gs.Pos()), "the phase must be read while r.mutex is write-held (else a notarization can land between the check and the reset)")
			held2 := li.AtInstr[inits]
			wr2, ok2 := held2["r.mutex"]
			r.Check(ok2 && wr2, "C37.restart", "Restart:reset-under-lock", p.Pos(inits.Pos()), "the reset runs under the same lock")
			// no unlock between guard and reset
			between := false
			for _, cs := range core.CallsIn(rs, false, nil) {
				if pth, op := lockOp(cs.Common()); pth == "r.mutex" && (op == "unlock" || op == "lock") && core.Reaches(gs, cs.Instr) && core.Reaches(cs.Instr, inits) {
					between = true
				}
			}
			r.Check(!between, "C37.restart", "Restart:one-critical-section", p.Pos(rs.Pos()), "check and reset in one critical section")
			okGuard := HasCmp(inits.Block(), "getState()", token.LSS, "3")
			if !okGuard && gsl[0].Direct() {
				okGuard = guardLess(inits, gsl[0].Call)
			}
			if !okGuard {
				// the phase test as a boolean helper: its true outcome states getState() < Share
				for _, c := range CmpFacts(inits.Block()) {
					inner, _ := core.Unbind(c.X)
					if gc, _ := core.CallOf(inner); gc != nil && gc == gsl[0].Call && c.Op == token.LSS {
						if k, isK := core.ConstInt(c.Y); isK && k == 3 {
							okGuard = true
						}
					}
				}
			}
			r.Check(okGuard, "C37.restart", "Restart:guard-dominates-reset", p.Pos(inits.Pos()), "the reset is dominated by phase < Share")
		}
	}
	// ---- monotone
	stc := p.Func("(*" + pkgRound + ".timeoutCounter).SetTimeoutCount")
	if stc == nil {
		r.Unresolved("C37.monotone", "SetTimeoutCount")
	} else {
		cf := p.Field(pkgRound, "timeoutCounter", "count")
		ws := core.FieldWrites([]*ssa.Function{stc}, cf)
		ok := len(ws) == 1
		if ok {
			ok = HasCmp(ws[0].Instr.Block(), "count", token.GTR, ".count") && describe(ws[0].Val) == "count"
		}
		r.Check(ok, "C37.monotone", "SetTimeoutCount:only-larger", p.Pos(stc.Pos()), "count stored only when larger than the current one")
	}
	// every store to the timeout count anywhere: an increment, a raise guarded by
	// "current < new", or the clamp to the configured cap
	if cf := p.Field(pkgRound, "timeoutCounter", "count"); cf != nil {
		nW := 0
		for _, wr := range core.FieldWrites(p.ModFuncs(), cf) {
			fn := core.EnclosingNamed(wr.Fn)
			if isTooling(p, fn) || wr.Kind != "store" || wr.Addr == nil || isFresh(wr.Addr) {
				continue
			}
			nW++
			kind := ""
			isCount := func(v ssa.Value) bool {
				ld, ok := v.(*ssa.UnOp)
				if !ok || ld.Op != token.MUL {
					return false
				}
				fa, ok := ld.X.(*ssa.FieldAddr)
				return ok && core.FieldOf(fa) == cf && fa.X == wr.Addr.X
			}
			if bo, ok := wr.Val.(*ssa.BinOp); ok && bo.Op == token.ADD && isCount(bo.X) {
				if k, isK := core.ConstInt(bo.Y); isK && k > 0 {
					kind = "increment"
				}
			}
			if kind == "" {
				for _, f := range CmpFacts(wr.Instr.Block()) {
					x, y, op := f.X, f.Y, f.Op
					if isCount(y) {
						x, y = y, x
						op = map[token.Token]token.Token{token.LSS: token.GTR, token.GTR: token.LSS, token.LEQ: token.GEQ, token.GEQ: token.LEQ, token.EQL: token.EQL, token.NEQ: token.NEQ}[op]
					}
					if !isCount(x) || !(y == wr.Val || core.SameValue(y, wr.Val)) {
						continue
					}
					switch op {
					case token.LSS, token.LEQ:
						kind = "raise guarded by current < new"
					case token.GTR:
						// clamp: accepted only when the bound comes from configuration
						if c, ok := canonObj(wr.Val).(*ssa.Call); ok && strings.Contains(core.CalleeName(c.Common()), "viper") {
							kind = "clamp to the configured cap"
						}
					}
				}
			}
			r.Check(kind != "", "C37.monotone", "timeout-count-store:"+fn.String(), posOf(p, wr.Instr), "the timeout count is only incremented, raised under current < new, or clamped to the configured cap; this store: "+func() string {
				if kind == "" {
					return "unguarded assignment of " + describe(wr.Val)
				}
				return kind
			}())
		}
		r.Floor("C37.monotone", "stores to timeoutCounter.count", nW, 4)
	}
	av := p.Func("(*" + pkgRound + ".Round).AddVRFShare")
	if av == nil {
		r.Unresolved("C37.monotone", "AddVRFShare")
	} else {
		li := w.Info[av]
		n := 0
		for _, b := range av.Blocks {
			for _, in := range b.Instrs {
				mu, ok := in.(*ssa.MapUpdate)
				if !ok || !strings.HasSuffix(describe(mu.Map), ".shares") {
					continue
				}
				n++
				wr, held := li.AtInstr[mu]["r.mutex"]
				r.Check(held && wr, "C37.monotone", "AddVRFShare:insert-under-lock", posOf(p, mu), "share inserted under the write lock")
				r.Check(HasCmp(b, "len()", token.LSS, "threshold"), "C37.monotone", "AddVRFShare:below-threshold", posOf(p, mu), "at most threshold shares")
				// duplicate: dominated by !ok of the lookup on the same key
				dup := false
				for _, f := range core.FactsAt(b) {
					if e, ok := f.Cond.(*ssa.Extract); ok && !f.Taken {
						if lk, ok := e.Tuple.(*ssa.Lookup); ok && strings.HasSuffix(describe(lk.X), ".shares") && describe(lk.Index) == describe(mu.Key) {
							dup = true
						}
					}
				}
				r.Check(dup, "C37.monotone", "AddVRFShare:one-per-party", posOf(p, mu), "a party's share is inserted only when absent")
			}
		}
		r.Check(n == 1, "C37.monotone", "AddVRFShare:single-insert", p.Pos(av.Pos()), fmt.Sprintf("%d insert sites", n))
	}
	rf := p.Func("(*" + pkgRound + ".Round).ResetFinalizingStateIfNotFinalized")
	if rf == nil {
		r.Unresolved("C37.monotone", "ResetFinalizingStateIfNotFinalized")
	} else {
		sp := findCalls(rf, "(*"+pkgRound+".Round).setFinalizingPhase")
		ok := len(sp) == 1 && BoolFact(sp[0].Block(), "isFinalized()", false)
		if ok {
			wr, held := w.Info[rf].AtInstr[sp[0]]["r.mutex"]
			ok = held && wr
		}
		r.Check(ok, "C37.monotone", "ResetFinalizingStateIfNotFinalized:guarded", p.Pos(rf.Pos()), "reset only when not finalized, under the write lock")
	}
}

// guardLess: `in` is dominated by the false edge of (getState() >= K) for the given call.
func guardLess(in ssa.Instruction, gs *ssa.Call) bool {
	for _, f := range core.FactsAt(in.Block()) {
		bo, ok := f.Cond.(*ssa.BinOp)
		if !ok {
			continue
		}
		if bo.X == ssa.Value(gs) && ((bo.Op == token.GEQ && !f.Taken) || (bo.Op == token.LSS && f.Taken)) {
			return true
		}
	}
	return false
}

// C44 Shared protocol structures are free of data races.
func c44(r *core.Report, p *core.Prog, thorough bool) {
	r.Explain = "Decided (lockset discipline, for every schedule): for each struct with a mutex the guarded-by relation is inferred by the consistent-writer criterion (a field is guarded by M iff it has a non-construction write and every such write holds M); every other access to a guarded field must hold M (write mode for stores and in-place mutations such as sort/append/delete/map update, read or write mode for loads), helpers inherit the locks all their callers hold; locals captured by goroutine closures must not be written in one goroutine and accessed in another without a lock/atomic/channel. Not decided: races through aliases that escape the struct (returned internal slices), or on fields nobody ever locks."
	r.Rule("C44.guarded-by", "every access to a field inferred as guarded by mutex M holds M (write mode for stores and in-place mutators)")
	r.Rule("C44.go-capture", "a local captured by reference by a `go` closure is not written in one goroutine and accessed in another without synchronisation")
	// The obligations cover the structures the property names (rounds, blocks,
	// transaction validation: packages round, block, miner). The consistent-writer
	// inference is exact there (confirmed by reading every report). Run over all node
	// packages it also flags start-up-only and statistics fields (node.Node counters,
	// SelfNode, LFU hit counters, direct reads of exported Round.BlockHash in the sharder)
	// where it cannot tell a benign single-threaded phase from a race: in the thorough
	// tier those are inventoried in the evidence, never raised as violations.
	pkgs := []string{pkgRound, pkgBlock, "0chain.net/miner"}
	if thorough {
		var wide []string
		for _, pk := range p.ModPkgs {
			pp := pk.PkgPath
			if (strings.HasPrefix(pp, "0chain.net/chaincore/") || strings.HasPrefix(pp, "0chain.net/miner") || strings.HasPrefix(pp, "0chain.net/sharder") || strings.HasPrefix(pp, "0chain.net/core/")) &&
				!strings.Contains(pp, "/mocks") && p.NodePackages()[pp] {
				wide = append(wide, pp)
			}
		}
		r.Info["inventory_other_packages"] = c44Inventory(p, wide, pkgs)
	}
	fns := fnsOf(p, pkgs...)
	r.Info["packages"] = pkgs
	r.Floor("C44.guarded-by", "functions analysed", len(fns), 500)
	w := BuildLockWorld(p, fns)
	// structs with mutex fields declared in the analysed packages
	type target struct {
		named *types.Named
		st    *types.Struct
	}
	var targets []target
	for _, pp := range pkgs {
		pk := p.Pkgs[pp]
		if pk == nil {
			continue
		}
		names := pk.Types.Scope().Names()
		sort.Strings(names)
		for _, n := range names {
			tn, ok := pk.Types.Scope().Lookup(n).(*types.TypeName)
			if !ok {
				continue
			}
			named, ok := tn.Type().(*types.Named)
			if !ok {
				continue
			}
			st, ok := named.Underlying().(*types.Struct)
			if !ok {
				continue
			}
			hasMu := false
			for i := 0; i < st.NumFields(); i++ {
				t := core.NamedName(st.Field(i).Type())
				if t == "sync.Mutex" || t == "sync.RWMutex" {
					hasMu = true
				}
			}
			if hasMu {
				targets = append(targets, target{named, st})
			}
		}
	}
	r.Floor("C44.guarded-by", "structs with a mutex", len(targets), 5)
	nGuarded := 0
	guardedTable := map[string]string{}
	seenConfirmed := map[string]bool{}
	for _, t := range targets {
		accs := w.fieldAccesses(t.st)
		gb := w.GuardedBy(t.st, accs)
		tname := t.named.Obj().Pkg().Name() + "." + t.named.Obj().Name()
		// confirmed pairs (read and frozen): an added unguarded writer must be reported, not
		// silently drop the field from the inferred table
		for i := 0; i < t.st.NumFields(); i++ {
			f := t.st.Field(i)
			if mu, ok := confirmedGuards[tname+"."+f.Name()]; ok {
				gb[f] = mu
				seenConfirmed[tname+"."+f.Name()] = true
			}
		}
		for f, mu := range gb {
			nGuarded++
			guardedTable[tname+"."+f.Name()] = mu
		}
		for _, a := range accs {
			mu, ok := gb[a.Field]
			if !ok || a.Fresh || isConstructorLike(a.Fn) {
				continue
			}
			need := a.Write
			key := fmt.Sprintf("%s.%s:%s:%s", tname, a.Field.Name(), core.EnclosingNamed(a.Fn).String(), accessKind(a))
			if heldOn(a, mu, need) {
				r.Pass("C44.guarded-by", key, posOf(p, a.Instr), "holds "+mu)
				continue
			}
			why := "reads " + a.Field.Name() + " without " + mu + " (every writer holds it)"
			if a.Mutate {
				why = "mutates " + a.Field.Name() + " in place while holding " + mu + " at most in read mode"
			} else if a.Write {
				why = "writes " + a.Field.Name() + " without " + mu
			}
			r.Fail("C44.guarded-by", key, posOf(p, a.Instr), why)
		}
		// a map/slice value loaded from a guarded field must also be *used* (ranged,
		// indexed, measured) under the lock: copying the header out and iterating after
		// the unlock reads the live structure unsynchronised
		for _, a := range accs {
			mu, ok := gb[a.Field]
			if !ok || a.Write || a.Fresh || isConstructorLike(a.Fn) {
				continue
			}
			ld, isLd := a.Instr.(*ssa.UnOp)
			if !isLd || !heldOn(a, mu, false) {
				continue // an unguarded load is already reported above
			}
			switch ld.Type().Underlying().(type) {
			case *types.Map, *types.Slice:
			default:
				continue
			}
			li := w.Info[a.Fn]
			n := 0
			var walk func(v ssa.Value, d int)
			walk = func(v ssa.Value, d int) {
				if d > 3 {
					return
				}
				for _, ref := range *v.Referrers() {
					var use ssa.Instruction
					switch u := ref.(type) {
					case *ssa.Range:
						use = u
						// the iteration itself happens at the Next instructions
						for _, r2 := range *u.Referrers() {
							if nx, ok := r2.(*ssa.Next); ok {
								if _, held := li.AtInstr[nx][a.Base+"."+mu]; !held {
									n++
									r.Fail("C44.guarded-by", fmt.Sprintf("%s.%s:%s:iterate-after-unlock", tname, a.Field.Name(), core.EnclosingNamed(a.Fn).String()), posOf(p, nx),
										"iterates the map loaded from "+a.Field.Name()+" after "+mu+" was released")
								}
							}
						}
						continue
					case *ssa.Lookup:
						use = u
					case *ssa.IndexAddr:
						use = u
					case *ssa.Phi:
						walk(u, d+1)
						continue
					case *ssa.Store:
						// kept in a local variable: follow its loads
						if al, ok := u.Addr.(*ssa.Alloc); ok && u.Val == v {
							for _, r2 := range *al.Referrers() {
								if l2, ok := r2.(*ssa.UnOp); ok {
									walk(l2, d+1)
								}
							}
						}
						continue
					case *ssa.Call:
						if core.CalleeName(u.Common()) == "builtin.len" {
							use = u
						}
					}
					if use == nil {
						continue
					}
					if _, held := li.AtInstr[use][a.Base+"."+mu]; !held {
						n++
						r.Fail("C44.guarded-by", fmt.Sprintf("%s.%s:%s:use-after-unlock", tname, a.Field.Name(), core.EnclosingNamed(a.Fn).String()), posOf(p, use),
							"uses the value loaded from "+a.Field.Name()+" after "+mu+" was released")
					}
				}
			}
			walk(ld, 0)
		}
		// in-place mutation through a helper that sorts its parameter
		for _, a := range accs {
			mu, ok := gb[a.Field]
			if !ok || a.Write {
				continue
			}
			ld, isLd := a.Instr.(*ssa.UnOp)
			if !isLd {
				continue
			}
			for _, ref := range *ld.Referrers() {
				vals := []ssa.Value{ld}
				if ph, ok := ref.(*ssa.Phi); ok {
					vals = append(vals, ph)
				}
				_ = vals
				ci, ok := ref.(ssa.CallInstruction)
				if !ok {
					continue
				}
				cal := core.StaticCallee(ci.Common())
				idx := sortsParam(cal)
				if idx < 0 || idx >= len(ci.Common().Args) || ci.Common().Args[idx] != ssa.Value(ld) {
					continue
				}
				held := w.Info[a.Fn].AtInstr[ci]
				wr, h := held[a.Base+"."+mu]
				key := fmt.Sprintf("%s.%s:%s:sort-via-%s", tname, a.Field.Name(), core.EnclosingNamed(a.Fn).String(), cal.Name())
				r.Check(h && wr, "C44.guarded-by", key, p.Pos(ci.Pos()), "the shared slice is sorted in place by "+cal.Name()+" while "+mu+" is held at most in read mode")
			}
		}
	}
	r.Info["guarded_fields"] = guardedTable
	for k := range confirmedGuards {
		if !seenConfirmed[k] && (thorough || confirmedInQuick(k)) {
			r.Unresolved("C44.guarded-by", "confirmed guarded field "+k)
		}
	}
	r.Floor("C44.guarded-by", "guarded fields inferred", nGuarded, 6)
	// ---- go capture
	races := w.GoCaptureRaces()
	seen := map[string]bool{}
	for _, rc := range races {
		key := "capture:" + core.EnclosingNamed(rc.Fn).String() + ":" + rc.Var.Comment
		if seen[key] {
			continue
		}
		seen[key] = true
		r.Fail("C44.go-capture", key, posOf(p, rc.Write), "local `"+rc.Var.Comment+"` is written at "+posOf(p, rc.Write)+" and accessed at "+posOf(p, rc.Other)+" from different goroutines with no lock, atomic or channel hand-off")
	}
	nGo := 0
	for _, fn := range fns {
		for _, b := range fn.Blocks {
			for _, in := range b.Instrs {
				if _, ok := in.(*ssa.Go); ok {
					nGo++
				}
			}
		}
	}
	r.Info["go_statements"] = nGo
	r.Floor("C44.go-capture", "go statements analysed", nGo, 10)
	if len(races) == 0 {
		r.Pass("C44.go-capture", "none", "", fmt.Sprintf("%d go statements, no unsynchronised captured variable", nGo))
	}
}

// c44Inventory counts, per struct outside the claimed scope, the accesses the
// consistent-writer inference would question (informational).
func c44Inventory(p *core.Prog, wide, claimed []string) map[string]int {
	isClaimed := map[string]bool{}
	for _, c := range claimed {
		isClaimed[c] = true
	}
	fns := fnsOf(p, wide...)
	w := BuildLockWorld(p, fns)
	out := map[string]int{}
	for _, pp := range wide {
		pk := p.Pkgs[pp]
		if pk == nil || isClaimed[pp] {
			continue
		}
		for _, n := range pk.Types.Scope().Names() {
			tn, ok := pk.Types.Scope().Lookup(n).(*types.TypeName)
			if !ok {
				continue
			}
			named, ok := tn.Type().(*types.Named)
			if !ok {
				continue
			}
			st, ok := named.Underlying().(*types.Struct)
			if !ok {
				continue
			}
			accs := w.fieldAccesses(st)
			gb := w.GuardedBy(st, accs)
			for _, a := range accs {
				mu, ok := gb[a.Field]
				if !ok || a.Fresh || isConstructorLike(a.Fn) {
					continue
				}
				if !heldOn(a, mu, a.Write) {
					out[tn.Pkg().Name()+"."+n+"."+a.Field.Name()]++
				}
			}
		}
	}
	return out
}

func accessKind(a FieldAccess) string {
	switch {
	case a.Mutate:
		return "mutate"
	case a.Write:
		return "write"
	}
	return "read"
}

// confirmedGuards: field → mutex pairs inferred on the reviewed tree and confirmed by
// reading (every non-construction write holds the mutex of the same object). Frozen so
// that a new unguarded access is a finding instead of a silent change of the inference.
var confirmedGuards = map[string]string{
	"block.Block.TxnsMap":               "mutexTxns",
	"block.Block.VerificationTickets":   "ticketsMutex",
	"block.Block.isFinalised":           "ticketsMutex",
	"block.Block.isNotarized":           "ticketsMutex",
	"block.Block.stateStatus":           "stateStatusMutex",
	"block.Block.uniqueBlockExtensions": "uniqueBlockExtMutex",
	"miner.Round.generationCancelf":     "cancelGuard",
	"miner.Round.ownVerificationTicket": "roundGuard",
	"miner.Round.verificationCancelf":   "cancelGuard",
	"miner.Round.verificationTickets":   "roundGuard",
	"miner.Round.vrfShare":              "roundGuard",
	"miner.Round.vrfSharesCache":        "roundGuard",
	"miner.vrfSharesCache.vrfShares":    "mutex",
	"round.Round.BlockHash":             "mutex",
	"round.Round.VRFOutput":             "mutex",
	"round.Round.finalizingState":       "mutex",
	"round.Round.minerPerm":             "mutex",
	"round.Round.notarizedBlocks":       "mutex",
	"round.Round.proposedBlocks":        "mutex",
	"round.Round.shares":                "mutex",
	"round.roundStartingStorage.items":  "mu",
	"round.roundStartingStorage.max":    "mu",
	"round.roundStartingStorage.rounds": "mu",
	"round.timeoutCounter.count":        "mutex",
	"round.timeoutCounter.perm":         "mutex",
	"round.timeoutCounter.prrs":         "mutex",
	"round.timeoutCounter.votes":        "mutex",
}

func confirmedInQuick(k string) bool {
	return strings.HasPrefix(k, "block.") || strings.HasPrefix(k, "round.") || strings.HasPrefix(k, "miner.")
}
