package props

import (
	"fmt"
	"go/token"
	"go/types"
	"sort"
	"strings"

	"golang.org/x/tools/go/ssa"

	"zv/core"
)

func init() { register("C02", "other", c02) }

// rebindInfo describes the chargeable-error re-creation of the transaction context in
// updateState.
type rebindInfo struct {
	emitErr  *ssa.Call
	newCache *ssa.Call
	newMPT   *ssa.Call
	newCtx   *ssa.Call
	origMPT  *ssa.Call
	origCtx  *ssa.Call
	origCach *ssa.Call
}

func findCalls(fn *ssa.Function, name string) []*ssa.Call {
	var out []*ssa.Call
	for _, cs := range core.CallsIn(fn, false, core.NameIs(name)) {
		if c, ok := cs.Instr.(*ssa.Call); ok {
			out = append(out, c)
		}
	}
	return out
}

// commitEffects are the steps of updateState whose result must be part of what is
// committed: they must never run on a context that is later re-created.
func commitEffects(us *ssa.Function) []core.CallSite {
	return core.CallsIn(us, false, func(c *ssa.CallCommon) bool {
		n := core.CalleeName(c)
		return n == "(*"+pkgChain+".Chain).incrementNonce" || n == "(*"+pkgChain+".Chain).transferAmountWithAssert" ||
			n == "(*"+pkgChain+".Chain).emitUserEvent" || isSCtxCall(c, "AddTransfer") || isSCtxCall(c, "EmitError")
	})
}

// C02 A failing contract call only pays its fee and consumes its nonce.
func c02(r *core.Report, p *core.Prog, thorough bool) {
	r.Explain = "Decided: the structure of the rollback (on the chargeable-error edge the cache, the transaction trie and the state context are all re-created before anything that is committed, and nothing meant to be committed runs before a re-creation), EmitError replaces the event list, the deferred cache commit is tied to err==nil and to the current cache variable, no consensus code stores to package-level state, and no error of a state-writing call is dropped in contract code. Not decided: the state diff itself."
	r.Rule("C02.rebind", "on every path from a non-nil contract error to the commit, NewTransactionCache → CreateTxnMPT(bState, newCache) → NewStateContext(b, newMPT, txn) are executed and stored to the variables the commit, the deferred cache commit and GetEvents read; EmitError follows on the new context")
	r.Rule("C02.rebind-order", "no step whose effect must be committed (fee transfer, transfer application, nonce increment, user events, error event) can be followed by a re-creation of the context")
	r.Rule("C02.commit-arg", "MergeMPTChanges commits exactly the trie the live state context wraps: original on success, re-created on chargeable error")
	r.Rule("C02.emit-error", "StateContext.EmitError assigns a fresh event list (does not append to the contract's events)")
	r.Rule("C02.cache-commit", "the deferred txnStateCache.Commit() is control-dependent on err == nil and reads the captured variable (so it commits the re-created cache)")
	r.Rule("C02.globals", "consensus code (call-graph closure of the contract handlers and updateState) does not store to package-level variables other than metrics/logging")
	r.Rule("C02.dropped", "no error of a state-writing call (InsertTrieNode, DeleteTrieNode, AddTransfer, Save, partition mutators) is dropped in contract/consensus code")

	us := p.Func(fnUpdateState)
	if us == nil {
		r.Unresolved("C02.rebind", fnUpdateState)
		return
	}
	const fnNewCache = "github.com/0chain/common/core/statecache.NewTransactionCache"
	const fnCreate = pkgChain + ".CreateTxnMPT"
	const fnNewCtx = "(*" + pkgChain + ".Chain).NewStateContext"
	caches, mpts, ctxs := ctxNodes(us, fnNewCache), ctxNodes(us, fnCreate), ctxNodes(us, fnNewCtx)
	var emit []*ssa.Call
	for _, cs := range core.CallsIn(us, false, func(c *ssa.CallCommon) bool { return isSCtxCall(c, "EmitError") }) {
		emit = append(emit, cs.Instr.(*ssa.Call))
	}
	if !r.Check(len(caches) == 2 && len(mpts) == 2 && len(ctxs) == 2 && len(emit) == 1, "C02.rebind", "updateState:recreation-calls", p.Pos(us.Pos()),
		fmt.Sprintf("NewTransactionCache=%d CreateTxnMPT=%d NewStateContext=%d EmitError=%d (want 2,2,2,1: initial + chargeable-error re-creation, each made directly or through a constructor helper that returns it)", len(caches), len(mpts), len(ctxs), len(emit))) {
		return
	}
	// order by dominance: the original dominates the re-created one
	ord := func(a, b ctxNode) (ctxNode, ctxNode) {
		if b.Block().Dominates(a.Block()) && a.Block() != b.Block() {
			return b, a
		}
		return a, b
	}
	oc, nc := ord(caches[0], caches[1])
	om, nm := ord(mpts[0], mpts[1])
	ox, nx := ord(ctxs[0], ctxs[1])
	em := emit[0]
	// dataflow of the re-creation
	usesVal := func(call *ssa.Call, v ssa.Value) bool {
		for _, a := range call.Call.Args {
			for _, al := range core.ValueAliases(v) {
				if core.SameValue(a, al) {
					return true
				}
			}
			if a == v {
				return true
			}
		}
		return false
	}
	// uses: the constructor call of n takes the value made by m — directly, inside the
	// same helper invocation, or through a parameter of n's helper bound to m's value
	uses := func(n, m ctxNode) bool {
		if n.hcall == nil {
			return usesVal(n.call, m.val)
		}
		if m.hcall == n.hcall {
			return usesVal(n.call, m.call)
		}
		for _, a := range n.call.Call.Args {
			if prm := core.ParamOf(a); prm != nil {
				if act := actualOf(n.hcall, prm); act != nil && usesVal(&ssa.Call{Call: ssa.CallCommon{Args: []ssa.Value{act}}}, m.val) {
					return true
				}
			}
		}
		return false
	}
	// the block-state argument of the trie constructor, seen from updateState
	bStateArg := func(n ctxNode) string {
		a := n.call.Call.Args[0]
		if n.hcall != nil {
			if prm := core.ParamOf(a); prm != nil {
				if act := actualOf(n.hcall, prm); act != nil {
					return core.AccessPath(act)
				}
			}
			return ""
		}
		return core.AccessPath(a)
	}
	r.Check(uses(nm, nc) && bStateArg(nm) == "bState", "C02.rebind", "updateState:new-trie-over-new-cache", p.Pos(nm.Pos()), "the re-created trie must be built from the block state and the re-created cache")
	r.Check(uses(nx, nm), "C02.rebind", "updateState:new-context-over-new-trie", p.Pos(nx.Pos()), "the re-created state context must wrap the re-created trie")
	r.Check(uses(ox, om) && uses(om, oc), "C02.rebind", "updateState:original-chain", p.Pos(ox.Pos()), "original context wraps the original trie over the original cache")
	// EmitError on the new context, after it
	r.Check(usesVal(em, nx.val) && core.Reaches(nx.instr(), em), "C02.rebind", "updateState:emit-on-new-context", p.Pos(em.Pos()), "the error event must be recorded on the re-created context")
	// the variables read by the deferred closure must be re-assigned: stores of the new values to the same Allocs as the originals
	sameVar := func(an, bn ctxNode) bool {
		a, b := an.val, bn.val
		for _, ra := range *a.Referrers() {
			sa, ok := ra.(*ssa.Store)
			if !ok || sa.Val != a {
				continue
			}
			for _, rb := range *b.Referrers() {
				sb, ok := rb.(*ssa.Store)
				if ok && sb.Val == b && sb.Addr == sa.Addr {
					return true
				}
			}
		}
		return false
	}
	r.Check(sameVar(oc, nc), "C02.rebind", "updateState:cache-variable-rebound", p.Pos(nc.Pos()), "the re-created cache must be assigned to the variable the deferred Commit reads (else the failed call's cache is committed)")
	r.Check(sameVar(ox, nx), "C02.rebind", "updateState:context-variable-rebound", p.Pos(nx.Pos()), "the re-created context must be assigned to the variable later steps and GetEvents read")
	// every path from a non-nil contract error to the commit passes EmitError (hence the re-creation that dominates it)
	merges := core.CallsIn(us, false, core.MethodIs("MergeMPTChanges"))
	escs := findCalls(us, "(*"+pkgChain+".Chain).ExecuteSmartContract")
	if r.Check(len(merges) == 1 && len(escs) == 1, "C02.rebind", "updateState:one-exec-one-commit", p.Pos(us.Pos()), fmt.Sprintf("exec=%d commit=%d", len(escs), len(merges))) {
		merge := merges[0].Instr.(*ssa.Call)
		ev := core.ErrResult(escs[0])
		brs := core.NilBranches(ev)
		r.Check(len(brs) >= 1, "C02.rebind", "updateState:contract-error-tested", p.Pos(escs[0].Pos()), fmt.Sprintf("%d nil tests of the contract error", len(brs)))
		for i, br := range brs {
			start := br.If.Block().Succs[br.NonNilSucc]
			path, _, found := core.PathQuery{Fn: us, Start: start.Instrs[0],
				Barrier: func(in ssa.Instruction) bool { return in == ssa.Instruction(em) }, EdgeOK: core.FeasibleEdge,
				Target: func(in ssa.Instruction) bool { return in == ssa.Instruction(merge) }}.Find()
			// Start is "after" the first instr; also check the first instr itself is not the merge
			d := "every path from a failed contract call to the commit re-creates the context"
			if found {
				d = "a failed contract call reaches the commit without the re-creation: " + p.PathString(path)
			}
			r.Check(!found, "C02.rebind", fmt.Sprintf("updateState:error-path-recreates:%d", i), p.Pos(br.If.Pos()), d)
		}
		r.Check(nc.Block().Dominates(em.Block()) && nm.Block().Dominates(em.Block()) && nx.Block().Dominates(em.Block()), "C02.rebind", "updateState:recreation-dominates-emit", p.Pos(em.Pos()), "all three re-creations precede the error event on every path")
		// commit argument: phi over {original trie, re-created trie} only, re-created on edges from the error path
		leaves := map[ssa.Value]bool{}
		var collect func(v ssa.Value, d int)
		collect = func(v ssa.Value, d int) {
			if ph, ok := v.(*ssa.Phi); ok && d < 6 {
				for _, e := range ph.Edges {
					collect(e, d+1)
				}
				return
			}
			leaves[v] = true
		}
		collect(merge.Call.Args[0], 0)
		okLeaves := len(leaves) == 2 && leaves[om.val] && leaves[nm.val]
		r.Check(okLeaves, "C02.commit-arg", "updateState:commit-trie", p.Pos(merge.Pos()), fmt.Sprintf("the committed trie is one of %d values (want exactly the original and the re-created trie)", len(leaves)))
		// on the error path the phi must select the re-created trie: check the phi edges coming from blocks dominated by the re-creation
		badEdge := ""
		var chk func(v ssa.Value, d int)
		chk = func(v ssa.Value, d int) {
			ph, ok := v.(*ssa.Phi)
			if !ok || d > 6 {
				return
			}
			for i, e := range ph.Edges {
				pred := ph.Block().Preds[i]
				if nm.Block().Dominates(pred) && e == om.val {
					badEdge = fmt.Sprintf("phi in b%d takes the ORIGINAL trie on the edge from b%d, which is after the re-creation", ph.Block().Index, pred.Index)
				}
				chk(e, d+1)
			}
		}
		chk(merge.Call.Args[0], 0)
		r.Check(badEdge == "", "C02.commit-arg", "updateState:error-path-commits-new-trie", p.Pos(merge.Pos()), "after the re-creation the committed trie must be the re-created one; "+badEdge)
	}
	// ---- rebind-order
	effs := commitEffects(us)
	for _, e := range effs {
		if e.Instr == ssa.Instruction(em) {
			continue
		}
		for _, rb := range []ctxNode{nc, nm, nx} {
			bad := core.Reaches(e.Instr, rb.instr())
			r.Check(!bad, "C02.rebind-order", "updateState:"+core.MethodName(e.Common())+"-then-"+core.MethodName(rb.call.Common()), p.Pos(e.Pos()),
				"a step whose effect must be committed must not be followed by a re-creation of the context (its effect would be discarded on the chargeable-error path)")
		}
	}
	r.Floor("C02.rebind-order", "commit effects", len(effs), 5)

	// ---- EmitError body
	ee := p.Func("(*" + typeSCtx + ").EmitError")
	evf := p.Field(pkgCState, "StateContext", "events")
	if ee == nil || evf == nil {
		r.Unresolved("C02.emit-error", "StateContext.EmitError/events")
	} else {
		ws := core.FieldWrites([]*ssa.Function{ee}, evf)
		ok := len(ws) == 1 && ws[0].Kind == "store"
		if ok {
			for _, rt := range core.Slice(ws[0].Val) {
				if strings.Contains(rt.Desc, ".events") || strings.Contains(rt.Desc, "builtin.append") {
					ok = false
				}
			}
		}
		r.Check(ok, "C02.emit-error", "EmitError:assigns-fresh-list", p.Pos(ee.Pos()), "the events field must be overwritten with a new one-element list")
	}

	// ---- deferred cache commit
	var deferred *ssa.Function
	for _, a := range us.AnonFuncs {
		if len(core.CallsIn(a, false, core.NameIs("(*github.com/0chain/common/core/statecache.TransactionCache).Commit"))) > 0 {
			deferred = a
		}
	}
	if deferred == nil {
		r.Fail("C02.cache-commit", "updateState:deferred-commit", p.Pos(us.Pos()), "no closure of updateState commits the transaction cache")
	} else {
		cc := core.CallsIn(deferred, false, core.NameIs("(*github.com/0chain/common/core/statecache.TransactionCache).Commit"))[0].Instr.(*ssa.Call)
		recv := cc.Call.Args[0]
		ld, isLoad := recv.(*ssa.UnOp)
		fv := false
		if isLoad && ld.Op == token.MUL {
			_, fv = ld.X.(*ssa.FreeVar)
		}
		r.Check(fv, "C02.cache-commit", "updateState:commit-reads-variable", p.Pos(cc.Pos()), "Commit must be called on the captured variable, not on a copy taken before the re-creation")
		guarded := false
		for _, f := range core.FactsAt(cc.Block()) {
			if x, isNil, ok := core.NilFact(f); ok && isNil {
				if l, ok := x.(*ssa.UnOp); ok {
					if v, ok := l.X.(*ssa.FreeVar); ok && core.IsErrorType(v.Type().(*types.Pointer).Elem()) {
						guarded = true
					}
				}
			}
		}
		r.Check(guarded, "C02.cache-commit", "updateState:commit-only-on-success", p.Pos(cc.Pos()), "cache commit must be dominated by err == nil of the function's named error result")
		// it must be deferred in updateState
		isDef := false
		for _, b := range us.Blocks {
			for _, in := range b.Instrs {
				if d, ok := in.(*ssa.Defer); ok {
					if mc, ok := d.Call.Value.(*ssa.MakeClosure); ok && mc.Fn == ssa.Value(deferred) {
						isDef = true
					}
				}
			}
		}
		r.Check(isDef, "C02.cache-commit", "updateState:commit-is-deferred", p.Pos(deferred.Pos()), "the cache commit runs as a deferred call (after the final err is known)")
	}

	// ---- consensus set
	cons := consensusSet(p, thorough)
	r.Info["consensus_functions"] = len(cons)
	// globals
	nG := 0
	for _, fn := range cons {
		for _, b := range fn.Blocks {
			for _, in := range b.Instrs {
				var g *ssa.Global
				var what string
				switch x := in.(type) {
				case *ssa.Store:
					if gg, ok := x.Addr.(*ssa.Global); ok {
						g, what = gg, "store"
					}
				case *ssa.MapUpdate:
					if l, ok := x.Map.(*ssa.UnOp); ok {
						if gg, ok := l.X.(*ssa.Global); ok {
							g, what = gg, "map-update"
						}
					}
				case *ssa.Call:
					// a mutating method / atomic operation on a package-level object
					name := core.CalleeName(x.Common())
					mut := false
					switch name {
					case "(*sync.Map).Store", "(*sync.Map).Delete", "(*sync.Map).LoadOrStore", "(*sync.Map).LoadAndDelete", "(*sync.Map).Swap", "(*sync.Map).CompareAndSwap", "(*sync.Map).CompareAndDelete":
						mut = true
					}
					if strings.HasPrefix(name, "sync/atomic.Store") || strings.HasPrefix(name, "sync/atomic.Add") || strings.HasPrefix(name, "sync/atomic.Swap") || strings.HasPrefix(name, "sync/atomic.CompareAndSwap") {
						mut = true
					}
					if strings.HasPrefix(name, "(*sync/atomic.") && (strings.HasSuffix(name, ").Store") || strings.HasSuffix(name, ").Add") || strings.HasSuffix(name, ").Swap") || strings.HasSuffix(name, ").CompareAndSwap")) {
						mut = true
					}
					if mut && len(x.Call.Args) > 0 {
						recv := x.Call.Args[0]
						if gg, ok := recv.(*ssa.Global); ok {
							g, what = gg, name
						} else if l, ok := recv.(*ssa.UnOp); ok {
							if gg, ok := l.X.(*ssa.Global); ok {
								g, what = gg, name
							}
						} else if fa, ok := recv.(*ssa.FieldAddr); ok {
							if gg, ok := fa.X.(*ssa.Global); ok {
								g, what = gg, name
							}
						}
					}
				}
				if g == nil {
					continue
				}
				nG++
				key := "global-write:" + core.EnclosingNamed(fn).String() + ":" + g.Name()
				if exemptGlobal(g) {
					r.Pass("C02.globals", key, posOf(p, in), what+" to a metrics/logging/benchmark variable")
					continue
				}
				r.Fail("C02.globals", key, posOf(p, in), what+" to package-level variable "+g.String()+" from consensus code: state outside the trie survives a rollback")
			}
		}
	}
	r.Info["global_writes_in_consensus"] = nG
	// dropped errors
	dropped, total := DroppedStateErrors(cons)
	r.Info["state_write_calls"] = total
	r.Floor("C02.dropped", "state-writing call sites", total, 300)
	seenKey := map[string]int{}
	for _, d := range dropped {
		if strings.HasPrefix(d.What, "currency.") {
			// checked arithmetic belongs to the overflow rules (C05/C09/C10); a dropped
			// arithmetic error yields a zero amount, not a partial state write
			continue
		}
		key := "dropped:" + core.EnclosingNamed(d.Site.Fn).String() + ":" + d.What
		seenKey[key]++
		if why, ok := droppedExempt(d); ok {
			r.Pass("C02.dropped", key, p.Pos(d.Site.Pos()), why)
			continue
		}
		r.Fail("C02.dropped", key, p.Pos(d.Site.Pos()), "error result of "+d.What+" is discarded; a failed write would be reported as success")
	}
	if len(dropped) == 0 {
		r.Pass("C02.dropped", "none", "", fmt.Sprintf("0 of %d state-writing calls drop their error", total))
	}
}

// consensusSet: functions whose effects end up in the block state. Quick: static call
// closure of the handlers + chain execution entry points. Thorough: VTA reachability.
var consCache = map[bool][]*ssa.Function{}

func consensusSet(p *core.Prog, thorough bool) []*ssa.Function {
	if v, ok := consCache[thorough]; ok {
		return v
	}
	var roots []*ssa.Function
	h := BuildHandlers(p)
	for _, k := range h.Keys() {
		roots = append(roots, h[k]...)
	}
	for _, n := range []string{fnUpdateState, "(*" + pkgBlock + ".Block).ComputeState", "(*" + pkgBlock + ".Block).ApplyBlockStateChange"} {
		if f := p.Func(n); f != nil {
			roots = append(roots, f)
		}
	}
	stop := func(f *ssa.Function) bool {
		if f.Pkg == nil {
			return true
		}
		pp := f.Pkg.Pkg.Path()
		return strings.HasPrefix(pp, "0chain.net/smartcontract/dbs") || strings.Contains(pp, "/benchmark") || strings.HasPrefix(pp, "0chain.net/core/logging") ||
			strings.HasPrefix(pp, "0chain.net/chaincore/node") || strings.HasPrefix(pp, "0chain.net/core/memorystore") || strings.HasPrefix(pp, "0chain.net/core/ememorystore")
	}
	var out []*ssa.Function
	if !thorough {
		out = StaticClosure(roots, stop)
	} else {
		reach := p.ReachableFrom(roots...)
		for f := range reach {
			if f.Blocks == nil || f.Pkg == nil || !core.IsModule(f.Pkg.Pkg.Path()) || stop(f) {
				continue
			}
			pp := f.Pkg.Pkg.Path()
			// the dynamic graph reaches the networking/runtime layers through interfaces;
			// keep the contract and execution packages only
			if strings.HasPrefix(pp, "0chain.net/smartcontract/") || pp == pkgChain || pp == pkgCState || pp == pkgBlock || pp == pkgState || strings.HasPrefix(pp, "0chain.net/chaincore/smartcontract") || strings.HasPrefix(pp, "0chain.net/chaincore/tokenpool") {
				out = append(out, f)
			}
		}
		sort.Slice(out, func(i, j int) bool { return out[i].String() < out[j].String() })
	}
	consCache[thorough] = out
	return out
}

func exemptGlobal(g *ssa.Global) bool {
	t := g.Type().(*types.Pointer).Elem()
	ts := t.String()
	return strings.Contains(ts, "go-metrics") || strings.Contains(ts, "zap") || strings.Contains(ts, "prometheus")
}

// droppedExempt: named, reasoned exceptions for dropped-error sites.
func droppedExempt(d DroppedError) (string, bool) {
	return "", false
}

// ctxNode is one creation of a piece of the transaction context (cache, trie or state
// context) as updateState sees it: val is the value updateState receives (the constructor
// call itself, or the result of a constructor helper that returns it), call the constructor
// call, hcall the helper invocation in updateState (nil when direct).
type ctxNode struct {
	val         ssa.Value
	call, hcall *ssa.Call
}

func (n ctxNode) instr() ssa.Instruction { return n.val.(ssa.Instruction) }
func (n ctxNode) Block() *ssa.BasicBlock { return n.instr().Block() }
func (n ctxNode) Pos() token.Pos {
	if n.hcall != nil {
		return n.hcall.Pos()
	}
	return n.call.Pos()
}

// ctxNodes lists the creations by constructor ctor visible in fn: direct calls, and calls of
// a same-package helper every return of which hands back, at a fixed result index, the value
// of its single ctor call.
func ctxNodes(fn *ssa.Function, ctor string) []ctxNode {
	var out []ctxNode
	for _, c := range findCalls(fn, ctor) {
		out = append(out, ctxNode{val: c, call: c})
	}
	for _, cs := range core.CallsIn(fn, false, nil) {
		hc, ok := cs.Instr.(*ssa.Call)
		if !ok {
			continue
		}
		h := core.StaticCallee(hc.Common())
		if h == nil || h.Pkg != fn.Pkg || h.Blocks == nil || h == fn {
			continue
		}
		inner := findCalls(h, ctor)
		if len(inner) != 1 {
			continue
		}
		idx := -1
		for _, ret := range core.Returns(h) {
			found := -1
			for i, rv := range ret.Results {
				if rv == ssa.Value(inner[0]) {
					found = i
				}
			}
			if found < 0 || (idx >= 0 && idx != found) {
				idx = -2
				break
			}
			idx = found
		}
		if idx < 0 {
			continue
		}
		if h.Signature.Results().Len() == 1 {
			out = append(out, ctxNode{val: hc, call: inner[0], hcall: hc})
			continue
		}
		for _, ref := range *hc.Referrers() {
			if ex, ok := ref.(*ssa.Extract); ok && ex.Index == idx {
				out = append(out, ctxNode{val: ex, call: inner[0], hcall: hc})
			}
		}
	}
	return out
}

// actualOf maps a parameter of the helper called by hcall to the actual argument.
func actualOf(hcall *ssa.Call, prm *ssa.Parameter) ssa.Value {
	h := core.StaticCallee(hcall.Common())
	if h == nil {
		return nil
	}
	for i, q := range h.Params {
		if q == prm && i < len(hcall.Call.Args) {
			return hcall.Call.Args[i]
		}
	}
	return nil
}
