package props

import (
	"go/token"
	"go/types"
	"sort"
	"strings"

	"golang.org/x/tools/go/ssa"

	"zv/core"
)

// ---------------------------------------------------------------------------------
// E7: lockset analysis
// ---------------------------------------------------------------------------------

// HeldLock is a mutex known to be held: Path is the access path of the mutex
// ("r.mutex"), Write tells Lock (true) from RLock (false).
type HeldLock struct {
	Path  string
	Write bool
}

type lockState map[string]bool // path -> write mode (true) / read mode (false)

func (s lockState) clone() lockState {
	o := lockState{}
	for k, v := range s {
		o[k] = v
	}
	return o
}

func meet(a, b lockState) lockState {
	if a == nil {
		return b.clone()
	}
	o := lockState{}
	for k, v := range a {
		if w, ok := b[k]; ok {
			o[k] = v && w
		}
	}
	return o
}

func equalState(a, b lockState) bool {
	if len(a) != len(b) {
		return false
	}
	for k, v := range a {
		if w, ok := b[k]; !ok || w != v {
			return false
		}
	}
	return true
}

// lockOp classifies a call as a mutex operation.
func lockOp(c *ssa.CallCommon) (path string, op string) {
	n := core.CalleeName(c)
	switch n {
	case "(*sync.RWMutex).Lock", "(*sync.Mutex).Lock":
		op = "lock"
	case "(*sync.RWMutex).RLock":
		op = "rlock"
	case "(*sync.RWMutex).Unlock", "(*sync.Mutex).Unlock":
		op = "unlock"
	case "(*sync.RWMutex).RUnlock":
		op = "runlock"
	default:
		return "", ""
	}
	if len(c.Args) == 0 {
		return "", ""
	}
	path = core.AccessPath(c.Args[0])
	return path, op
}

// LockInfo is the result of the per-function lock dataflow.
type LockInfo struct {
	Fn      *ssa.Function
	Entry   lockState                     // assumed held on entry (from callers)
	AtInstr map[ssa.Instruction]lockState // must-held set just before the instruction
	Exit    map[*ssa.Return]lockState     // must-held at each return, after removing deferred releases
	Defers  map[string]bool               // paths released by a deferred unlock (any)
}

// wrapperSummary: functions that return holding / having released a lock of their
// receiver ("lock wrappers" such as Block.DoReadLock / DoReadUnlock).
type wrapperSummary struct {
	acquires map[string]bool // field path suffix (".mutex") -> write mode
	releases map[string]bool
}

// analyzeLocks runs the forward must-hold dataflow.
func analyzeLocks(fn *ssa.Function, entry lockState, wrappers map[*ssa.Function]*wrapperSummary) *LockInfo {
	li := &LockInfo{Fn: fn, Entry: entry, AtInstr: map[ssa.Instruction]lockState{}, Exit: map[*ssa.Return]lockState{}, Defers: map[string]bool{}}
	if len(fn.Blocks) == 0 {
		return li
	}
	in := map[*ssa.BasicBlock]lockState{}
	in[fn.Blocks[0]] = entry.clone()
	deferredAt := map[*ssa.BasicBlock]map[string]bool{} // must-deferred releases at block entry
	deferredAt[fn.Blocks[0]] = map[string]bool{}
	work := []*ssa.BasicBlock{fn.Blocks[0]}
	visited := map[*ssa.BasicBlock]bool{}
	for iter := 0; len(work) > 0 && iter < 10000; iter++ {
		b := work[0]
		work = work[1:]
		st := in[b].clone()
		df := map[string]bool{}
		for k := range deferredAt[b] {
			df[k] = true
		}
		for _, ins := range b.Instrs {
			li.AtInstr[ins] = st.clone()
			switch x := ins.(type) {
			case *ssa.Call:
				applyLockCall(x.Common(), st, wrappers)
			case *ssa.Defer:
				if p, op := lockOp(x.Common()); op == "unlock" || op == "runlock" {
					df[p] = true
					li.Defers[p] = true
				} else if cal := core.StaticCallee(x.Common()); cal != nil {
					// deferred closure that unlocks
					for _, cs := range core.CallsIn(cal, false, nil) {
						if p2, op2 := lockOp(cs.Common()); op2 == "unlock" || op2 == "runlock" {
							// path inside the closure is expressed over free variables with the same names
							df[p2] = true
							li.Defers[p2] = true
						}
					}
					if w := wrappers[cal]; w != nil {
						recv := ""
						if r := core.Receiver(x.Common()); r != nil {
							recv = core.AccessPath(r)
						}
						for suf := range w.releases {
							df[recv+suf] = true
							li.Defers[recv+suf] = true
						}
					}
				}
			case *ssa.Return:
				ex := st.clone()
				for p := range df {
					delete(ex, p)
				}
				li.Exit[x] = ex
			}
		}
		visited[b] = true
		for _, s := range b.Succs {
			var ns lockState
			var nd map[string]bool
			if old, ok := in[s]; ok {
				ns = meet(old, st)
				nd = map[string]bool{}
				for k := range deferredAt[s] {
					if df[k] {
						nd[k] = true
					}
				}
				if equalState(ns, old) && len(nd) == len(deferredAt[s]) && visited[s] {
					continue
				}
			} else {
				ns = st.clone()
				nd = df
			}
			in[s] = ns
			deferredAt[s] = nd
			work = append(work, s)
		}
	}
	return li
}

func applyLockCall(c *ssa.CallCommon, st lockState, wrappers map[*ssa.Function]*wrapperSummary) {
	if p, op := lockOp(c); op != "" && p != "" {
		switch op {
		case "lock":
			st[p] = true
		case "rlock":
			if _, ok := st[p]; !ok {
				st[p] = false
			}
		case "unlock", "runlock":
			delete(st, p)
		}
		return
	}
	if cal := core.StaticCallee(c); cal != nil {
		if w := wrappers[cal]; w != nil {
			recv := ""
			if r := core.Receiver(c); r != nil {
				recv = core.AccessPath(r)
			}
			for suf, wr := range w.acquires {
				st[recv+suf] = wr
			}
			for suf := range w.releases {
				delete(st, recv+suf)
			}
		}
	}
}

// recvName returns the receiver parameter's name ("r") or "".
func recvName(fn *ssa.Function) string {
	if fn.Signature.Recv() != nil && len(fn.Params) > 0 {
		return fn.Params[0].Name()
	}
	return ""
}

// LockWorld analyses a set of packages: wrappers, entry locksets from callers, and the
// per-function results.
type LockWorld struct {
	Fns      []*ssa.Function
	Info     map[*ssa.Function]*LockInfo
	Wrappers map[*ssa.Function]*wrapperSummary
}

func BuildLockWorld(p *core.Prog, fns []*ssa.Function) *LockWorld {
	w := &LockWorld{Fns: fns, Info: map[*ssa.Function]*LockInfo{}, Wrappers: map[*ssa.Function]*wrapperSummary{}}
	// 1. wrappers: every exit holds the same receiver lock although the function was entered without it
	for _, fn := range fns {
		rn := recvName(fn)
		if rn == "" || fn.Parent() != nil {
			continue
		}
		li := analyzeLocks(fn, lockState{}, nil)
		var common lockState
		n := 0
		for _, ex := range li.Exit {
			n++
			common = meet(common, ex)
		}
		if n > 0 && len(common) > 0 {
			ws := &wrapperSummary{acquires: map[string]bool{}, releases: map[string]bool{}}
			for pth, wr := range common {
				if strings.HasPrefix(pth, rn+".") {
					ws.acquires[strings.TrimPrefix(pth, rn)] = wr
				}
			}
			if len(ws.acquires) > 0 {
				w.Wrappers[fn] = ws
			}
		}
		// release wrappers: unlock a receiver lock that was never acquired here
		rel := map[string]bool{}
		acq := map[string]bool{}
		for _, cs := range core.CallsIn(fn, false, nil) {
			if pth, op := lockOp(cs.Common()); pth != "" && strings.HasPrefix(pth, rn+".") {
				if op == "lock" || op == "rlock" {
					acq[pth] = true
				} else {
					rel[pth] = true
				}
			}
		}
		for pth := range rel {
			if !acq[pth] {
				ws := w.Wrappers[fn]
				if ws == nil {
					ws = &wrapperSummary{acquires: map[string]bool{}, releases: map[string]bool{}}
					w.Wrappers[fn] = ws
				}
				ws.releases[strings.TrimPrefix(pth, rn)] = true
			}
		}
	}
	// 2. entry locksets: fixpoint over "all callers hold M on the receiver"
	ix := BuildCallIndex(p)
	entry := map[*ssa.Function]lockState{}
	for _, fn := range fns {
		entry[fn] = lockState{}
	}
	inSet := map[*ssa.Function]bool{}
	for _, fn := range fns {
		inSet[fn] = true
	}
	for round := 0; round < 4; round++ {
		for _, fn := range fns {
			w.Info[fn] = analyzeLocks(fn, entry[fn], w.Wrappers)
		}
		changed := false
		for _, fn := range fns {
			rn := recvName(fn)
			if fn.Parent() != nil {
				// a closure handed to a synchronous callee (sort.Slice comparator,
				// WithActivation callback, mustUpdateBase…) runs while its creator holds
				// what it held at the call; free variables keep the creator's names.
				// Closures started with go/defer inherit nothing.
				var acc lockState
				found := false
				par := fn.Parent()
				pli := w.Info[par]
				if pli != nil {
					for _, b := range par.Blocks {
						for _, ins := range b.Instrs {
							mc, ok := ins.(*ssa.MakeClosure)
							if !ok || mc.Fn != ssa.Value(fn) {
								continue
							}
							for _, ref := range *mc.Referrers() {
								var user ssa.Instruction
								switch u := ref.(type) {
								case *ssa.Call:
									user = u
								case *ssa.MakeInterface, *ssa.ChangeType:
									for _, r2 := range *u.(ssa.Value).Referrers() {
										if c2, ok := r2.(*ssa.Call); ok {
											user = c2
										}
									}
								case *ssa.Go, *ssa.Defer:
									found = true
									acc = lockState{}
								}
								if user != nil {
									found = true
									acc = meet(acc, pli.AtInstr[user])
								}
							}
						}
					}
				}
				if !found || acc == nil {
					acc = lockState{}
				}
				if !equalState(acc, entry[fn]) {
					entry[fn] = acc
					changed = true
				}
				continue
			}
			if rn == "" {
				continue
			}
			callers := ix.CallersOf(fn)
			if len(callers) == 0 {
				continue
			}
			// exported methods can be called from anywhere with nothing held unless every
			// module caller holds the lock AND the method is unexported
			if token.IsExported(fn.Name()) {
				continue
			}
			var acc lockState
			ok := true
			for _, cs := range callers {
				if isConstructorLike(cs.Fn) {
					continue // the object is not shared yet while it is being built
				}
				cli := w.Info[cs.Fn]
				if cli == nil || !inSet[cs.Fn] {
					ok = false
					break
				}
				held := cli.AtInstr[cs.Instr]
				recv := core.Receiver(cs.Common())
				if recv == nil {
					ok = false
					break
				}
				rp := core.AccessPath(recv)
				mapped := lockState{}
				for pth, wr := range held {
					if strings.HasPrefix(pth, rp+".") {
						mapped[rn+strings.TrimPrefix(pth, rp)] = wr
					}
				}
				acc = meet(acc, mapped)
			}
			if !ok || acc == nil {
				acc = lockState{}
			}
			if !equalState(acc, entry[fn]) {
				entry[fn] = acc
				changed = true
			}
		}
		if !changed {
			break
		}
	}
	for _, fn := range fns {
		w.Info[fn] = analyzeLocks(fn, entry[fn], w.Wrappers)
	}
	return w
}

// LockLeak: a return reached with a lock still held that this function acquired.
type LockLeak struct {
	Fn   *ssa.Function
	Ret  *ssa.Return
	Path string
}

func (w *LockWorld) Leaks() []LockLeak {
	var out []LockLeak
	for _, fn := range w.Fns {
		if w.Wrappers[fn] != nil && len(w.Wrappers[fn].acquires) > 0 {
			continue
		}
		li := w.Info[fn]
		acquired := map[string]bool{}
		for _, cs := range core.CallsIn(fn, false, nil) {
			if pth, op := lockOp(cs.Common()); op == "lock" || op == "rlock" {
				acquired[pth] = true
			}
		}
		for ret, ex := range li.Exit {
			for pth := range ex {
				if acquired[pth] {
					if _, inherited := li.Entry[pth]; inherited {
						continue
					}
					out = append(out, LockLeak{fn, ret, pth})
				}
			}
		}
	}
	sort.Slice(out, func(i, j int) bool { return out[i].Ret.Pos() < out[j].Ret.Pos() })
	return out
}

// ---------------------------------------------------------------------------------
// guarded-by inference (consistent-writer criterion)
// ---------------------------------------------------------------------------------

// FieldAccess is one access to a struct field with the locks held there.
type FieldAccess struct {
	Fn     *ssa.Function
	Instr  ssa.Instruction
	Field  *types.Var
	Base   string // access path of the struct ("r")
	Write  bool
	Mutate bool // in-place mutation of the field's slice/map (sort, append-assign, delete, map update)
	Held   lockState
	Fresh  bool
}

// fieldAccesses collects the accesses to the fields of struct type T in fns.
func (w *LockWorld) fieldAccesses(T *types.Struct) []FieldAccess {
	own := map[*types.Var]bool{}
	for i := 0; i < T.NumFields(); i++ {
		own[T.Field(i)] = true
	}
	var out []FieldAccess
	for _, fn := range w.Fns {
		li := w.Info[fn]
		for _, b := range fn.Blocks {
			for _, ins := range b.Instrs {
				fa, ok := ins.(*ssa.FieldAddr)
				if !ok {
					continue
				}
				f := core.FieldOf(fa)
				if f == nil || !own[f] {
					continue
				}
				base := core.AccessPath(fa.X)
				fresh := isFresh(fa)
				if c, _ := core.CallOf(fa.X); c != nil {
					// object returned by a constructor in the same function
					if cal := core.StaticCallee(c.Common()); cal != nil && (strings.HasPrefix(cal.Name(), "New") || cal.Name() == "Provider") {
						fresh = true
					}
				}
				for _, ref := range *fa.Referrers() {
					acc := FieldAccess{Fn: fn, Field: f, Base: base, Fresh: fresh}
					switch u := ref.(type) {
					case *ssa.Store:
						if u.Addr != ssa.Value(fa) {
							continue
						}
						acc.Instr, acc.Write = u, true
					case *ssa.UnOp:
						acc.Instr = u
						// in-place mutators of the loaded slice/map
						for _, r2 := range *u.Referrers() {
							switch m := r2.(type) {
							case *ssa.MapUpdate:
								if m.Map == ssa.Value(u) {
									out = append(out, FieldAccess{Fn: fn, Instr: m, Field: f, Base: base, Write: true, Mutate: true, Held: li.AtInstr[m], Fresh: fresh})
								}
							case ssa.CallInstruction:
								n := core.CalleeName(m.Common())
								if strings.HasPrefix(n, "sort.") || n == "builtin.delete" {
									out = append(out, FieldAccess{Fn: fn, Instr: m, Field: f, Base: base, Write: true, Mutate: true, Held: li.AtInstr[m], Fresh: fresh})
								}
							case *ssa.MakeInterface:
								for _, r3 := range *m.Referrers() {
									if ci, ok := r3.(ssa.CallInstruction); ok && strings.HasPrefix(core.CalleeName(ci.Common()), "sort.") {
										out = append(out, FieldAccess{Fn: fn, Instr: ci, Field: f, Base: base, Write: true, Mutate: true, Held: li.AtInstr[ci], Fresh: fresh})
									}
								}
							}
						}
					default:
						continue
					}
					acc.Held = li.AtInstr[acc.Instr]
					out = append(out, acc)
				}
			}
		}
	}
	return out
}

// heldOn reports whether mutex field `mu` of the same base object is held (write mode
// when needWrite).
func heldOn(a FieldAccess, mu string, needWrite bool) bool {
	wr, ok := a.Held[a.Base+"."+mu]
	if !ok {
		return false
	}
	return wr || !needWrite
}

// GuardedBy infers field → mutex for struct T: a field is guarded by mutex field M iff
// it has at least one non-construction write and every non-construction write holds M
// in write mode.
func (w *LockWorld) GuardedBy(T *types.Struct, accs []FieldAccess) map[*types.Var]string {
	var mutexes []string
	for i := 0; i < T.NumFields(); i++ {
		tn := core.NamedName(T.Field(i).Type())
		if tn == "sync.Mutex" || tn == "sync.RWMutex" {
			mutexes = append(mutexes, T.Field(i).Name())
		}
	}
	out := map[*types.Var]string{}
	byField := map[*types.Var][]FieldAccess{}
	for _, a := range accs {
		byField[a.Field] = append(byField[a.Field], a)
	}
	for f, as := range byField {
		for _, mu := range mutexes {
			nw, all := 0, true
			for _, a := range as {
				if !a.Write || a.Fresh || isConstructorLike(a.Fn) {
					continue
				}
				nw++
				if !heldOn(a, mu, true) {
					all = false
				}
			}
			if nw > 0 && all {
				out[f] = mu
			}
		}
	}
	return out
}

func isConstructorLike(fn *ssa.Function) bool {
	n := core.EnclosingNamed(fn).Name()
	return n == "init" || n == "initialize" || n == "Provider" || strings.HasPrefix(n, "New") || n == "Clone" || n == "clone"
}

// ---------------------------------------------------------------------------------
// go-capture: variables shared between a goroutine and its creator without a lock
// ---------------------------------------------------------------------------------

type CaptureRace struct {
	Fn    *ssa.Function
	Var   *ssa.Alloc
	Write ssa.Instruction
	Other ssa.Instruction
}

func isSyncType(t types.Type) bool {
	if pt, ok := t.(*types.Pointer); ok {
		t = pt.Elem()
	}
	tn := core.NamedName(t)
	if strings.HasPrefix(tn, "sync.") || strings.HasPrefix(tn, "sync/atomic.") || strings.HasPrefix(tn, "context.") {
		return true
	}
	if _, ok := t.Underlying().(*types.Chan); ok {
		return true
	}
	return false
}

// GoCaptureRaces finds locals captured by reference by a closure started with `go`
// that are written in one goroutine context and accessed in another with no common
// lock held.
func (w *LockWorld) GoCaptureRaces() []CaptureRace {
	var out []CaptureRace
	for _, fn := range w.Fns {
		for _, b := range fn.Blocks {
			for _, ins := range b.Instrs {
				g, ok := ins.(*ssa.Go)
				if !ok {
					continue
				}
				mc, ok := g.Call.Value.(*ssa.MakeClosure)
				if !ok {
					continue
				}
				cl, _ := mc.Fn.(*ssa.Function)
				if cl == nil {
					continue
				}
				inLoop := len(core.LoopsContaining(fn, b)) > 0
				for i, bind := range mc.Bindings {
					al, ok := bind.(*ssa.Alloc)
					if !ok || i >= len(cl.FreeVars) {
						continue
					}
					if isSyncType(al.Type().(*types.Pointer).Elem()) {
						continue
					}
					fv := cl.FreeVars[i]
					// accesses inside the goroutine
					var gw, gr []ssa.Instruction
					cli := w.Info[cl]
					for _, ref := range *fv.Referrers() {
						switch u := ref.(type) {
						case *ssa.Store:
							if u.Addr == ssa.Value(fv) {
								gw = append(gw, u)
							}
						case *ssa.UnOp:
							gr = append(gr, u)
						}
					}
					// accesses in the parent that can run after the go statement
					var pw, pr []ssa.Instruction
					for _, ref := range *al.Referrers() {
						in2, _ := ref.(ssa.Instruction)
						if in2 == nil {
							continue
						}
						// the access must be reachable from the go statement without
						// re-executing the variable's own allocation (a variable declared in
						// a loop body is a fresh one in every iteration)
						_, _, reach := core.PathQuery{Fn: fn, Start: g, Barrier: func(x ssa.Instruction) bool { return x == ssa.Instruction(al) },
							Target: func(x ssa.Instruction) bool { return x == in2 }}.Find()
						if !reach {
							continue
						}
						switch u := ref.(type) {
						case *ssa.Store:
							if u.Addr == ssa.Value(al) {
								pw = append(pw, u)
							}
						case *ssa.UnOp:
							pr = append(pr, u)
						}
					}
					locked := func(in ssa.Instruction, li *LockInfo) bool {
						return li != nil && len(li.AtInstr[in]) > 0
					}
					pli := w.Info[fn]
					// goroutine write vs parent access
					for _, wi := range gw {
						if locked(wi, cli) {
							continue
						}
						for _, o := range append(append([]ssa.Instruction{}, pr...), pw...) {
							if !locked(o, pli) {
								out = append(out, CaptureRace{fn, al, wi, o})
							}
						}
						// several instances of the same goroutine write/read it concurrently
						if inLoop {
							for _, o := range append(append([]ssa.Instruction{}, gr...), gw...) {
								if o != wi && !locked(o, cli) {
									out = append(out, CaptureRace{fn, al, wi, o})
								}
							}
							if len(gr) == 0 && len(gw) == 1 {
								out = append(out, CaptureRace{fn, al, wi, wi})
							}
						}
					}
					// parent write vs goroutine access
					for _, wi := range pw {
						if locked(wi, pli) {
							continue
						}
						for _, o := range append(append([]ssa.Instruction{}, gr...), gw...) {
							if !locked(o, cli) {
								out = append(out, CaptureRace{fn, al, wi, o})
							}
						}
					}
				}
			}
		}
	}
	return out
}

// ---------------------------------------------------------------------------------
// atomic check-then-act
// ---------------------------------------------------------------------------------

type CheckThenAct struct {
	Fn    *ssa.Function
	Load  *ssa.Call
	Store *ssa.Call
}

// AtomicCheckThenAct finds atomic.Load*(a) … if cond(load) { atomic.Store*(a, v) } in
// one function (not a CompareAndSwap loop).
func (w *LockWorld) AtomicCheckThenAct() []CheckThenAct {
	var out []CheckThenAct
	for _, fn := range w.Fns {
		var loads, stores []*ssa.Call
		// loads may come through a small accessor of the same receiver (getState)
		for _, cs := range core.CallsIn(fn, false, nil) {
			c, ok := cs.Instr.(*ssa.Call)
			if !ok {
				continue
			}
			n := core.CalleeName(c.Common())
			switch {
			case strings.HasPrefix(n, "sync/atomic.Load"):
				loads = append(loads, c)
			case strings.HasPrefix(n, "sync/atomic.Store"):
				stores = append(stores, c)
			default:
				if cal := core.StaticCallee(c.Common()); cal != nil && cal.Blocks != nil && len(cal.Blocks) == 1 {
					for _, cs2 := range core.CallsIn(cal, false, nil) {
						if strings.HasPrefix(core.CalleeName(cs2.Common()), "sync/atomic.Load") {
							loads = append(loads, c)
						}
					}
				}
			}
		}
		for _, st := range stores {
			for _, ld := range loads {
				if !core.Reaches(ld, st) {
					continue
				}
				// the store is control dependent on a condition computed from the load
				dep := false
				for _, f := range core.FactsAt(st.Block()) {
					if dependsOn(f.Cond, map[ssa.Value]bool{ld: true}, 6) {
						dep = true
					}
				}
				if dep {
					out = append(out, CheckThenAct{fn, ld, st})
				}
			}
		}
	}
	return out
}
