package props

import (
	"fmt"
	"go/token"
	"go/types"
	"strings"

	"golang.org/x/tools/go/ssa"

	"zv/core"
)

func init() { register("C23", "other", c23) }

const (
	pkgProvider = "0chain.net/smartcontract/provider"
	pkgSCI      = "0chain.net/chaincore/smartcontractinterface"
)

// c23Effect is a call in Kill/ShutDown that changes state (or lets the caller change it).
type c23Effect struct {
	In   ssa.CallInstruction
	What string
}

// sentinelSwallowed: some first-party function outside the defining package tests an
// error against the sentinel with errors.Is (or ==): its callers may turn the sentinel
// into a successful transaction, so an exit returning it commits.
func sentinelSwallowed(p *core.Prog, g *ssa.Global) (bool, string) {
	for _, fn := range p.ModFuncs() {
		if fn.Pkg == g.Pkg {
			continue
		}
		for _, b := range fn.Blocks {
			for _, in := range b.Instrs {
				switch x := in.(type) {
				case *ssa.Call:
					if core.CalleeName(x.Common()) == "errors.Is" && len(x.Call.Args) == 2 {
						if ld, ok := x.Call.Args[1].(*ssa.UnOp); ok && ld.X == ssa.Value(g) {
							return true, fn.String()
						}
					}
				case *ssa.BinOp:
					if x.Op == token.EQL || x.Op == token.NEQ {
						for _, o := range []ssa.Value{x.X, x.Y} {
							if ld, ok := o.(*ssa.UnOp); ok && ld.X == ssa.Value(g) {
								return true, fn.String()
							}
						}
					}
				}
			}
		}
	}
	return false, ""
}

// C23 Killing or shutting down a provider disables exactly that provider.
func c23(r *core.Report, p *core.Prog, thorough bool) {
	r.Explain = "Decided (structure of provider.Kill and provider.ShutDown, the two shared entry points of all kill/shutdown handlers): the stake pool that providerSpecific(req) returned is the one that is killed and saved, it is saved under the request id / the provider's own id and type (never the caller's id); on every committing exit that follows an effect the owner/delegate authorisation has passed (an exit commits when it returns nil or a sentinel error that a caller converts into success); the authorisation predicate compares the caller with the configured owner (ShutDown: or the pool's delegate wallet) and nothing else; on every success path the provider is marked, the pool is killed exactly once with the configured fraction and saved, with errors aborting; HasBeenKilled is set only by StakePool.Kill, which slashes once. The reward gate (!HasBeenKilled before every reward credit) is decided under C10. Not decided: slashed amounts; the per-contract callbacks beyond their calls into Kill/ShutDown."
	r.Rule("C23.no-reward-after-kill", "every credit to a stake pool's or a delegate pool's Reward in StakePool.DistributeRewards / DistributeRewardsRandN is dominated by !sp.HasBeenKilled (a dead provider's pool is never paid again, whatever its delegates look like)")
	c23NoRewardAfterKill(r, p)
	r.Rule("C23.save-key", "sp.Save in Kill/ShutDown: receiver is the pool returned by providerSpecific(req); type argument is p.Type(); id argument is req.ID or p.Id() of that same provider")
	r.Rule("C23.authorized", "no path entry → effect → committing exit avoids a passed AuthorizeWithOwner; effects: refresh callback, provider mutators, calls on the pool with arguments, non-getter calls on the state context")
	r.Rule("C23.auth-predicate", "the authorisation closure returns clientID == ownerId (ShutDown: || clientID == sp.GetSettings().DelegateWallet); no other operand, no constant true")
	r.Rule("C23.kill-once", "every success exit passes p.Kill()/p.ShutDown(), then exactly one sp.Kill(killSlash param…, p.Id(), p.Type(), balances) and one sp.Save, each error aborting")
	r.Rule("C23.flag", "StakePool.HasBeenKilled is only ever stored as true, by StakePool.Kill on its receiver (which calls SlashFraction exactly once with its own arguments) or behind a passed AuthorizeWithOwner")
	r.Rule("C23.callers", "every kill/shutdown handler passes the transaction's ClientID as caller and the configured OwnerId as owner")

	auth := p.Func(pkgSCI + ".AuthorizeWithOwner")
	if auth == nil {
		r.Unresolved("C23.authorized", "smartcontractinterface.AuthorizeWithOwner")
		return
	}
	mkill := p.Func("0chain.net/smartcontract/minersc.kill") // miners/sharders: marks without slashing; may be absent
	for _, name := range []string{"Kill", "ShutDown"} {
		fn := p.Func(pkgProvider + "." + name)
		if fn == nil || len(fn.Params) != 7 {
			r.Unresolved("C23.save-key", "provider."+name)
			continue
		}
		c23Entry(r, p, fn, auth)
	}
	// ---- flag
	hbk := p.Field(pkgSP, "StakePool", "HasBeenKilled")
	spKill := p.Func("(*" + pkgSP + ".StakePool).Kill")
	slash := p.Func("(*" + pkgSP + ".StakePool).SlashFraction")
	if hbk == nil || spKill == nil || slash == nil {
		r.Unresolved("C23.flag", "StakePool.HasBeenKilled/Kill/SlashFraction")
		return
	}
	nW := 0
	for _, w := range core.FieldWrites(p.ModFuncs(), hbk) {
		if isGenerated(p, w.Fn) || isTooling(p, w.Fn) {
			continue
		}
		nW++
		k, isC := w.Val.(*ssa.Const)
		okW := w.Kind == "store" && isC && k.Value != nil && k.Value.ExactString() == "true"
		why := "the dead flag is only ever set to true (a killed pool never comes back to life)"
		if okW && w.Fn != spKill {
			// a contract that marks the pool itself: only behind a passed owner authorisation
			okW = false
			why = "set outside StakePool.Kill: must be dominated by an error-checked AuthorizeWithOwner"
			for _, a := range findCallsTo(w.Fn, auth) {
				if Before(a, w.Instr) && core.ErrLeadsToFailure(a) {
					okW = true
				}
			}
		} else if okW {
			okW = w.Addr != nil && w.Addr.X == ssa.Value(spKill.Params[0])
		}
		r.Check(okW, "C23.flag", "HasBeenKilled-write:"+w.Fn.String(), p.Pos(w.Instr.Pos()), why)
	}
	r.Floor("C23.flag", "writes of HasBeenKilled", nW, 1)
	if mkill != nil {
		as := findCallsTo(mkill, auth)
		if r.Check(len(as) == 1 && len(mkill.Params) >= 3, "C23.auth-predicate", "minersc.kill:one-authorisation", p.Pos(mkill.Pos()), fmt.Sprintf("%d AuthorizeWithOwner calls", len(as))) {
			c23Predicate(r, p, mkill, as[0], mkill.Params[1], mkill.Params[2], false, func(ssa.Value, int) bool { return false })
		}
	}
	sc := findCallsTo(spKill, slash)
	okS := len(sc) == 1
	if okS {
		a := sc[0].Call.Args
		okS = len(a) == 5 && a[0] == ssa.Value(spKill.Params[0]) && a[1] == ssa.Value(spKill.Params[1]) && a[2] == ssa.Value(spKill.Params[2]) && a[3] == ssa.Value(spKill.Params[3]) && a[4] == ssa.Value(spKill.Params[4])
		if okS {
			mp, _ := MustPass(p, spKill, sc[0])
			okS = mp && !inCycle(sc[0].Block())
		}
	}
	r.Check(okS, "C23.flag", "StakePool.Kill:slashes-once", p.Pos(spKill.Pos()), "exactly one SlashFraction(killSlash, providerId, pType, balances) on the receiver, on every path, outside any loop")
	// ---- callers
	nCallers := 0
	for _, fn := range p.ModFuncs() {
		if isTooling(p, fn) {
			continue
		}
		for _, cs := range core.CallsIn(fn, true, func(c *ssa.CallCommon) bool {
			f := core.StaticCallee(c)
			return f != nil && f.Pkg != nil && f.Signature.Recv() == nil && ((f.Pkg.Pkg.Path() == pkgProvider && (f.Name() == "Kill" || f.Name() == "ShutDown")) || f == mkill)
		}) {
			nCallers++
			a := cs.Common().Args
			d1, d2 := describe(a[1]), describe(a[2])
			okC := strings.HasSuffix(d1, ".ClientID") && strings.HasSuffix(d2, ".OwnerId")
			if okC {
				root, _ := core.BaseObject(a[1])
				prm := core.ParamOf(root)
				okC = prm != nil && core.NamedName(derefType(prm.Type())) == "0chain.net/chaincore/transaction.Transaction"
			}
			r.Check(okC, "C23.callers", "caller:"+cs.Fn.String(), p.Pos(cs.Pos()), fmt.Sprintf("caller=%s owner=%s (want <txn>.ClientID and <config>.OwnerId)", d1, d2))
		}
	}
	r.Floor("C23.callers", "call sites of provider.Kill/ShutDown", nCallers, 4)
}

func derefType(t types.Type) types.Type {
	if pt, ok := t.Underlying().(*types.Pointer); ok {
		return pt.Elem()
	}
	return t
}

func isGenerated(p *core.Prog, fn *ssa.Function) bool {
	pos := p.Pos(fn.Pos())
	return strings.Contains(pos, "_gen.go")
}

func c23Entry(r *core.Report, p *core.Prog, fn, auth *ssa.Function) {
	name := fn.Name()
	clientPrm, ownerPrm, slashPrm, psPrm, balPrm := fn.Params[1], fn.Params[2], fn.Params[3], fn.Params[4], fn.Params[6]
	// providerSpecific call
	var ps *ssa.Call
	nPS := 0
	for _, cs := range core.CallsIn(fn, false, nil) {
		if c, ok := cs.Instr.(*ssa.Call); ok && core.ParamOf(c.Call.Value) == psPrm {
			ps = c
			nPS++
		}
	}
	if !r.Check(nPS == 1, "C23.save-key", name+":one-providerSpecific-call", p.Pos(fn.Pos()), fmt.Sprintf("%d calls of the providerSpecific callback", nPS)) {
		return
	}
	fromPS := func(v ssa.Value, idx int) bool {
		root, path := core.BaseObject(v)
		if path != "" {
			return false
		}
		ex, ok := root.(*ssa.Extract)
		return ok && ex.Tuple == ssa.Value(ps) && ex.Index == idx
	}
	isPCall := func(v ssa.Value, method string) bool {
		inner, bind := core.Unbind(v)
		c, ok := inner.(*ssa.Call)
		if !ok || !c.Call.IsInvoke() || c.Call.Method.Name() != method {
			return false
		}
		recv := c.Call.Value
		if bind != nil {
			recv = core.BindValue(recv, bind)
		}
		return fromPS(recv, 0)
	}
	// req: the argument of providerSpecific
	var reqAlloc *ssa.Alloc
	if ld, ok := ps.Call.Args[0].(*ssa.UnOp); ok {
		reqAlloc, _ = ld.X.(*ssa.Alloc)
	}
	isReqID := func(v ssa.Value) bool {
		if reqAlloc == nil {
			return false
		}
		if _, bind := core.Unbind(v); bind != nil {
			// the request handed to a helper by value: its ID field
			root, path := core.BaseObject(v)
			if ld, ok := root.(*ssa.UnOp); ok && ld.Op == token.MUL {
				root = ld.X
			}
			return path == ".ID" && root == ssa.Value(reqAlloc)
		}
		ld, ok := v.(*ssa.UnOp)
		if !ok {
			return false
		}
		fa, ok := ld.X.(*ssa.FieldAddr)
		return ok && fa.X == ssa.Value(reqAlloc) && core.FieldOf(fa) != nil && core.FieldOf(fa).Name() == "ID"
	}
	// ---- classify calls (those fn makes itself and those made for it by the package's
	// helpers it calls: a lifted call is judged at its site in fn, with its operands bound
	// to fn's values)
	var effects []c23Effect
	var saves, kills, marks []Lifted
	var authCalls []*ssa.Call
	isLeaf := func(cc *ssa.CallCommon) bool {
		h := core.StaticCallee(cc)
		return h == nil || h.Blocks == nil || h.Pkg != fn.Pkg
	}
	for _, l := range LiftCalls(fn, isLeaf, 1) {
		cc := l.Call.Common()
		var val ssa.Value
		if cc.IsInvoke() || core.ParamOf(cc.Value) != nil {
			val = l.bound(cc.Value)
		}
		switch {
		case core.StaticCallee(cc) == auth:
			if l.Direct() {
				authCalls = append(authCalls, l.Call)
			}
		case !cc.IsInvoke() && val != nil && core.ParamOf(val) != nil && core.ParamOf(val) != psPrm:
			effects = append(effects, c23Effect{l.Site.(ssa.CallInstruction), "callback " + core.ParamOf(val).Name()})
		case cc.IsInvoke() && fromPS(val, 0):
			if cc.Signature().Results().Len() == 0 {
				effects = append(effects, c23Effect{l.Site.(ssa.CallInstruction), "provider." + cc.Method.Name()})
				marks = append(marks, l)
			}
		case cc.IsInvoke() && fromPS(val, 1):
			if cc.Signature().Params().Len() > 0 {
				effects = append(effects, c23Effect{l.Site.(ssa.CallInstruction), "pool." + cc.Method.Name()})
			}
			if cc.Method.Name() == "Save" {
				saves = append(saves, l)
			}
			if cc.Method.Name() == "Kill" {
				kills = append(kills, l)
			}
		case cc.IsInvoke() && core.ParamOf(val) == balPrm:
			if !strings.HasPrefix(cc.Method.Name(), "Get") {
				effects = append(effects, c23Effect{l.Site.(ssa.CallInstruction), "balances." + cc.Method.Name()})
			}
		case cc.IsInvoke() && (cc.Method.Name() == "Save" || cc.Method.Name() == "Kill"):
			// a pool that is not the one providerSpecific returned
			effects = append(effects, c23Effect{l.Site.(ssa.CallInstruction), "other-pool." + cc.Method.Name()})
			r.Fail("C23.save-key", fmt.Sprintf("%s:%s-on-foreign-pool", name, cc.Method.Name()), p.Pos(l.Pos()), "the receiver is not the stake pool returned by providerSpecific(req)")
		}
	}
	r.Floor("C23.authorized", name+" effects", len(effects), 4)
	// ---- save-key
	r.Check(len(saves) == 1, "C23.save-key", name+":one-save", p.Pos(fn.Pos()), fmt.Sprintf("%d Save calls on the provider's pool", len(saves)))
	for _, s := range saves {
		a := []ssa.Value{}
		for i := 0; i < s.NArgs(); i++ {
			a = append(a, s.Arg(i))
		}
		okT := len(a) == 3 && isPCall(a[0], "Type")
		okID := len(a) == 3 && (isReqID(a[1]) || isPCall(a[1], "Id"))
		r.Check(okT, "C23.save-key", name+":save-type", p.Pos(s.Pos()), "type argument is p.Type(); got "+describe(a[0]))
		r.Check(okID, "C23.save-key", name+":save-id", p.Pos(s.Pos()), "the pool is saved under req.ID / p.Id(), the id the provider was loaded with; got "+describe(a[1]))
		r.Check(len(a) == 3 && core.ParamOf(a[2]) == balPrm, "C23.save-key", name+":save-ctx", p.Pos(s.Pos()), "saved into the transaction's state context")
	}
	// ---- authorisation
	if !r.Check(len(authCalls) == 1 && core.ErrLeadsToFailure(authCalls[0]), "C23.authorized", name+":one-checked-authorisation", p.Pos(fn.Pos()), fmt.Sprintf("%d AuthorizeWithOwner calls; its error aborts", len(authCalls))) {
		return
	}
	A := authCalls[0]
	isA := func(in ssa.Instruction) bool { return in == ssa.Instruction(A) }
	type exit struct {
		ret  *ssa.Return
		what string
	}
	var exits []exit
	ei := core.ErrIndex(fn)
	for _, ret := range core.Returns(fn) {
		v := ret.Results[ei]
		if core.IsNilConst(v) {
			exits = append(exits, exit{ret, "return nil"})
			continue
		}
		if ld, ok := v.(*ssa.UnOp); ok && ld.Op == token.MUL {
			if g, ok := ld.X.(*ssa.Global); ok {
				if sw, by := sentinelSwallowed(p, g); sw {
					exits = append(exits, exit{ret, "return " + g.Name() + " (turned into success by " + by + ")"})
				}
				continue
			}
		}
		if core.ClassifyReturn(ret) != core.ExitFailure {
			exits = append(exits, exit{ret, "return <possibly nil>"})
		}
	}
	r.Floor("C23.authorized", name+" committing exits", len(exits), 1)
	for i, e := range effects {
		bad := ""
		_, _, pre := core.PathQuery{Fn: fn, Barrier: isA, EdgeOK: core.FeasibleEdge, Target: func(in ssa.Instruction) bool { return in == e.In.(ssa.Instruction) }}.Find()
		if pre {
			for _, x := range exits {
				path, _, post := core.PathQuery{Fn: fn, Start: e.In, Barrier: isA, EdgeOK: core.FeasibleEdge, Target: func(in ssa.Instruction) bool { return in == ssa.Instruction(x.ret) }}.Find()
				if post {
					bad = fmt.Sprintf("reaches `%s` at %s without a passed authorisation: %s", x.what, p.Pos(x.ret.Pos()), p.PathString(path))
					break
				}
			}
		}
		r.Check(bad == "", "C23.authorized", fmt.Sprintf("%s:effect:%s#%d", name, e.What, i), p.Pos(e.In.Pos()), "every committing exit after this effect is behind AuthorizeWithOwner; "+bad)
	}
	// ---- predicate
	c23Predicate(r, p, fn, A, clientPrm, ownerPrm, name == "ShutDown", fromPS)
	// ---- kill-once
	okM := len(marks) == 1
	wantMark := "Kill"
	if name == "ShutDown" {
		wantMark = "ShutDown"
	}
	if okM {
		okM = marks[0].Call.Call.Method.Name() == wantMark
		if okM {
			okM, _ = MustPass(p, fn, marks[0].Site)
			okM = okM && marks[0].MustInHelpers(p)
		}
	}
	r.Check(okM, "C23.kill-once", name+":marks-provider", p.Pos(fn.Pos()), "p."+wantMark+"() on every success path")
	okK := len(kills) == 1
	d := fmt.Sprintf("%d sp.Kill calls", len(kills))
	if okK {
		k := kills[0]
		a := []ssa.Value{}
		for i := 0; i < k.NArgs(); i++ {
			a = append(a, k.Arg(i))
		}
		slashOK := len(a) == 4 && c23RootsInParam(a[0], slashPrm)
		okK = slashOK && isPCall(a[1], "Id") && isPCall(a[2], "Type") && core.ParamOf(a[3]) == balPrm && k.ErrFails() && !inCycle(k.Block()) && !inCycle(k.Call.Block())
		if okK {
			okK, d = MustPass(p, fn, k.Site)
			okK = okK && k.MustInHelpers(p)
		} else {
			d = "arguments must be (killSlash, p.Id(), p.Type(), balances), error checked, outside loops"
		}
		if okK && len(saves) == 1 {
			s := saves[0]
			okS, ds := MustPass(p, fn, s.Site)
			okS = okS && s.MustInHelpers(p)
			before := Before(k.Site, s.Site)
			if k.Site == s.Site {
				before = Before(k.Call, s.Call)
			}
			r.Check(okS && before && s.ErrFails(), "C23.kill-once", name+":saved-after-kill", p.Pos(s.Pos()), "the killed pool is written back on every success path, after the slash, error aborting; "+ds)
		}
	}
	r.Check(okK, "C23.kill-once", name+":pool-killed-once", p.Pos(fn.Pos()), d)
}

// c23RootsInParam: v is the parameter, or arithmetic on the parameter and constants only.
func c23RootsInParam(v ssa.Value, prm *ssa.Parameter) bool {
	switch x := v.(type) {
	case *ssa.Parameter:
		return x == prm
	case *ssa.UnOp:
		return core.ParamOf(x) == prm
	}
	return false
}

// c23Predicate checks the closure handed to AuthorizeWithOwner.
func c23Predicate(r *core.Report, p *core.Prog, fn *ssa.Function, A *ssa.Call, clientPrm, ownerPrm *ssa.Parameter, allowDelegate bool, fromPS func(ssa.Value, int) bool) {
	name := fn.Name()
	mc, ok := A.Call.Args[1].(*ssa.MakeClosure)
	if !ok {
		r.Fail("C23.auth-predicate", name+":closure", p.Pos(A.Pos()), "the predicate is not a function literal")
		return
	}
	cl := mc.Fn.(*ssa.Function)
	// map free variables to the captured values
	capt := map[*ssa.FreeVar]ssa.Value{}
	for i, fv := range cl.FreeVars {
		capt[fv] = mc.Bindings[i]
	}
	// resolve a value inside the closure to a parameter of fn
	outerParam := func(v ssa.Value) *ssa.Parameter {
		ld, ok := v.(*ssa.UnOp)
		if !ok || ld.Op != token.MUL {
			return nil
		}
		fv, ok := ld.X.(*ssa.FreeVar)
		if !ok {
			return nil
		}
		al, ok := capt[fv].(*ssa.Alloc)
		if !ok {
			return nil
		}
		// the captured cell holds exactly the parameter
		var prm *ssa.Parameter
		n := 0
		for _, ref := range *al.Referrers() {
			if st, ok := ref.(*ssa.Store); ok && st.Addr == ssa.Value(al) {
				n++
				prm, _ = st.Val.(*ssa.Parameter)
			}
		}
		if n != 1 {
			return nil
		}
		return prm
	}
	isDelegate := func(v ssa.Value) bool {
		// sp.GetSettings().DelegateWallet on the pool returned by providerSpecific
		var gs *ssa.Call
		switch x := v.(type) {
		case *ssa.Field:
			if fieldName2(x.X.Type(), x.Field) != "DelegateWallet" {
				return false
			}
			gs, _ = x.X.(*ssa.Call)
		case *ssa.UnOp:
			fa, ok := x.X.(*ssa.FieldAddr)
			if !ok || core.FieldOf(fa) == nil || core.FieldOf(fa).Name() != "DelegateWallet" {
				return false
			}
			if al, ok := fa.X.(*ssa.Alloc); ok {
				if sv := singleStoreOf(al); sv != nil {
					gs, _ = sv.(*ssa.Call)
				}
			}
		}
		if gs == nil || !gs.Call.IsInvoke() || gs.Call.Method.Name() != "GetSettings" {
			return false
		}
		// receiver: load of the captured sp cell
		ld, ok := gs.Call.Value.(*ssa.UnOp)
		if !ok {
			return false
		}
		fv, ok := ld.X.(*ssa.FreeVar)
		if !ok {
			return false
		}
		al, ok := capt[fv].(*ssa.Alloc)
		if !ok {
			return false
		}
		sv := singleStoreOf(al)
		return sv != nil && fromPS(sv, 1)
	}
	okCmp := func(v ssa.Value) (bool, string) {
		bo, ok := v.(*ssa.BinOp)
		if !ok || bo.Op != token.EQL {
			return false, "not an == comparison"
		}
		x, y := bo.X, bo.Y
		for k := 0; k < 2; k++ {
			if outerParam(x) == clientPrm {
				if outerParam(y) == ownerPrm {
					return true, "caller == owner"
				}
				if allowDelegate && isDelegate(y) {
					return true, "caller == delegate wallet"
				}
			}
			x, y = y, x
		}
		return false, "operands are not (caller, owner" + map[bool]string{true: " | delegate wallet", false: ""}[allowDelegate] + ")"
	}
	var terms []string
	ok = true
	var eval func(v ssa.Value, from *ssa.BasicBlock, depth int)
	eval = func(v ssa.Value, from *ssa.BasicBlock, depth int) {
		if depth > 4 {
			ok = false
			return
		}
		switch x := v.(type) {
		case *ssa.BinOp:
			g, why := okCmp(x)
			if !g {
				ok = false
			}
			terms = append(terms, why)
		case *ssa.Phi:
			for i, e := range x.Edges {
				eval(e, x.Block().Preds[i], depth+1)
			}
		case *ssa.Const:
			// short-circuit constant: `a || b` yields true on the edge where a held
			good := false
			if x.Value != nil && x.Value.ExactString() == "true" && from != nil && len(from.Instrs) > 0 {
				if ifi, isIf := from.Instrs[len(from.Instrs)-1].(*ssa.If); isIf {
					if g, _ := okCmp(ifi.Cond); g && len(from.Succs) == 2 {
						good = true // the true edge of an accepted comparison
					}
				}
			}
			if x.Value != nil && x.Value.ExactString() == "false" {
				good = true
			}
			if !good {
				ok = false
				terms = append(terms, "constant "+x.Name())
			}
		default:
			ok = false
			terms = append(terms, "unrecognised term "+v.Name())
		}
	}
	nRet := 0
	for _, ret := range core.Returns(cl) {
		nRet++
		eval(ret.Results[0], nil, 0)
	}
	r.Check(ok && nRet > 0 && len(terms) > 0, "C23.auth-predicate", name+":predicate", p.Pos(cl.Pos()), strings.Join(terms, "; "))
}

func fieldName2(t types.Type, idx int) string {
	if pt, ok := t.Underlying().(*types.Pointer); ok {
		t = pt.Elem()
	}
	if st, ok := t.Underlying().(*types.Struct); ok && idx < st.NumFields() {
		return st.Field(idx).Name()
	}
	return ""
}

func c23NoRewardAfterKill(r *core.Report, p *core.Prog) {
	dpReward := p.Field(pkgSP, "DelegatePool", "Reward")
	spReward := p.Field(pkgSP, "StakePool", "Reward")
	if dpReward == nil || spReward == nil {
		r.Unresolved("C23.no-reward-after-kill", "DelegatePool.Reward/StakePool.Reward")
		return
	}
	n := 0
	for _, name := range []string{"DistributeRewards", "DistributeRewardsRandN"} {
		fn := p.Func("(*" + pkgSP + ".StakePool)." + name)
		if fn == nil {
			r.Unresolved("C23.no-reward-after-kill", name)
			continue
		}
		credits := append(CreditsOf(fn, dpReward), CreditsOf(fn, spReward)...)
		// credits made by helpers the distributor calls count at the call site
		var sites []ssa.Instruction
		for _, c := range credits {
			sites = append(sites, c.W.Instr)
		}
		for _, b := range fn.Blocks {
			for _, in := range b.Instrs {
				c, ok := in.(*ssa.Call)
				if !ok {
					continue
				}
				h := c.Call.StaticCallee()
				if h == nil || h.Pkg == nil || h.Pkg.Pkg.Path() != pkgSP || h.Blocks == nil {
					continue
				}
				if len(CreditsOf(h, dpReward))+len(CreditsOf(h, spReward)) > 0 {
					sites = append(sites, c)
				}
			}
		}
		for i, at := range sites {
			n++
			r.Check(BoolFact(at.Block(), ".HasBeenKilled", false), "C23.no-reward-after-kill", fmt.Sprintf("%s:credit#%d", name, i+1), p.Pos(at.Pos()), "reached only with HasBeenKilled == false")
		}
	}
	r.Floor("C23.no-reward-after-kill", "reward credits in the distributors", n, 6)
}
