package props

import (
	"fmt"
	"go/token"
	"strings"

	"golang.org/x/tools/go/ssa"

	"zv/core"
)

func init() { register("C21", "other", c21) }

const pkgMS = "0chain.net/smartcontract/multisigsc"

// C21 Multisig proposals execute once, after enough distinct votes.
func c21(r *core.Report, p *core.Prog, thorough bool) {
	r.Explain = "Decided: the signed transfer is queued only when the wallet is registered, the sender is a registered signer whose vote signature verifies, the vote matches the proposal, the proposal was not executed, the signer has not voted before (loop over recorded signer ids returning on equality), and NumRequired − recorded − 1 <= 0; an expired proposal can only yield an error; after queuing, the executing transaction hash is recorded and the proposal saved on every success path; the queued transfer carries the proposal's transfer, the wallet key and the reconstructed signature, whose validity the chain checks after the contract (C04 validate-order). Not decided: threshold-signature mathematics."
	r.Rule("C21.guards", "multisigsc:vote: AddSignedTransfer dominated by wallet registered, signer registered, isVoteAuthorized, compatible vote, not executed, not a duplicate signer, remaining <= 0")
	r.Rule("C21.expiry", "findOrCreateProposal: when a non-empty proposal is expired every exit fails (after pruning); vote aborts on its error")
	r.Rule("C21.once", "after AddSignedTransfer the proposal's ExecutedInTxnHash is set to the current transaction hash and the proposal is saved on every success path")
	r.Rule("C21.vote-record", "a counted vote appends the signer's threshold id and signature together and saves the proposal")
	r.Rule("C21.transfer", "the queued SignedTransfer is built from the proposal's transfer, the wallet's scheme/public key and the signature reconstructed from the recorded shares; isVoteAuthorized verifies the vote's signature under the signer's registered key")
	h := BuildHandlers(p)
	vs := h.Get("multisigsc:vote")
	if len(vs) != 1 {
		r.Unresolved("C21.guards", "multisigsc:vote")
		return
	}
	vote := vs[0]
	// the execution site: in vote itself, or in the one helper of the package vote hands the
	// execution to (then the guards are judged at that call, the after-execution obligations
	// inside the helper, with its parameters bound to vote's values)
	ls := LiftCalls(vote, func(c *ssa.CallCommon) bool { return isSCtxCall(c, "AddSignedTransfer") }, 1)
	if !r.Check(len(ls) == 1, "C21.guards", "vote:one-execution-site", p.Pos(vote.Pos()), fmt.Sprintf("%d AddSignedTransfer calls (in vote or a helper it calls)", len(ls))) {
		return
	}
	sink := ls[0].Call
	sinkFn := sink.Parent()
	var sinkSite ssa.Instruction = ls[0].Site
	inVote := func(v ssa.Value) ssa.Value { return ls[0].bound(v) }
	b := sinkSite.Block()
	r.Check(BoolFact(b, "isEmpty()", false), "C21.guards", "vote:wallet-registered", p.Pos(sink.Pos()), "an unregistered wallet rejects")
	r.Check(HasCmp(b, "thresholdIdForSigner()", token.NEQ, "\"\""), "C21.guards", "vote:signer-registered", p.Pos(sink.Pos()), "a sender that is not a signer of the wallet rejects")
	r.Check(BoolFact(b, "isVoteAuthorized()", true), "C21.guards", "vote:signature-authorized", p.Pos(sink.Pos()), "the vote signature must verify under the signer's key")
	r.Check(BoolFact(b, "isCompatibleWithProposal()", true), "C21.guards", "vote:compatible", p.Pos(sink.Pos()), "votes for a different transfer reject")
	r.Check(HasCmp(b, ".ExecutedInTxnHash", token.EQL, "\"\""), "C21.guards", "vote:not-executed", p.Pos(sink.Pos()), "an executed proposal is never executed again")
	// remaining
	remOK := false
	for _, c := range CmpFacts(b) {
		if c.Op == token.LEQ && c.YD == "0" {
			ds := strings.Join(core.DeepRoots(c.X), ",")
			if strings.Contains(ds, "NumRequired") && strings.Contains(ds, "SignerSignatures") {
				remOK = true
			}
		}
	}
	r.Check(remOK, "C21.guards", "vote:threshold-reached", p.Pos(sink.Pos()), "NumRequired − len(SignerSignatures) − 1 <= 0 must dominate the execution")
	// duplicate loop
	dupOK := false
	for _, l := range core.Loops(vote) {
		if !l.Header.Dominates(b) {
			continue
		}
		for blk := range l.Body {
			for _, in := range blk.Instrs {
				bo, ok := in.(*ssa.BinOp)
				if !ok || bo.Op != token.EQL {
					continue
				}
				xs, ys := describe(bo.X), describe(bo.Y)
				if (strings.Contains(xs, "SignerThresholdIDs") && strings.Contains(ys, "thresholdIdForSigner")) || (strings.Contains(ys, "SignerThresholdIDs") && strings.Contains(xs, "thresholdIdForSigner")) {
					for _, ref := range *bo.Referrers() {
						if ifi, ok := ref.(*ssa.If); ok {
							ts := ifi.Block().Succs[0]
							if _, isRet := ts.Instrs[len(ts.Instrs)-1].(*ssa.Return); isRet {
								dupOK = true
							}
						}
					}
				}
			}
		}
	}
	if !dupOK {
		// the scan as a boolean helper: `if p.hasVoteFrom(id) { return … }` — the helper's
		// loop compares a recorded id with its parameter and answers true on a match; the
		// execution lies behind its false outcome for the sender's threshold id
		for _, cf := range callFacts(b) {
			h := core.StaticCallee(cf.Call.Common())
			if cf.Taken || h == nil || h.Blocks == nil || h.Pkg != vote.Pkg {
				continue
			}
			argOK := false
			for _, a := range cf.Args {
				if strings.Contains(describe(a), "thresholdIdForSigner") {
					argOK = true
				}
			}
			scan := false
			for _, l := range core.Loops(h) {
				for blk := range l.Body {
					for _, in := range blk.Instrs {
						bo, ok := in.(*ssa.BinOp)
						if !ok || bo.Op != token.EQL {
							continue
						}
						xs, ys := describe(bo.X), describe(bo.Y)
						if !((strings.Contains(xs, "SignerThresholdIDs") && core.ParamOf(bo.Y) != nil) || (strings.Contains(ys, "SignerThresholdIDs") && core.ParamOf(bo.X) != nil)) {
							continue
						}
						for _, ref := range *bo.Referrers() {
							if ifi, ok := ref.(*ssa.If); ok {
								ts := ifi.Block().Succs[0]
								if ret, isRet := ts.Instrs[len(ts.Instrs)-1].(*ssa.Return); isRet && len(ret.Results) == 1 {
									if k, isK := ret.Results[0].(*ssa.Const); isK && k.Value != nil && k.Value.ExactString() == "true" {
										scan = true
									}
								}
							}
						}
					}
				}
			}
			if argOK && scan {
				dupOK = true
			}
		}
	}
	r.Check(dupOK, "C21.guards", "vote:distinct-signers", p.Pos(sink.Pos()), "a signer id already recorded on the proposal returns before the vote is counted")
	// ---- expiry
	fp := p.Func("(" + pkgMS + ".MultiSigSmartContract).findOrCreateProposal")
	if fp == nil {
		r.Unresolved("C21.expiry", "findOrCreateProposal")
	} else {
		fc := findCalls(vote, fp.String())
		r.Check(len(fc) == 1 && core.ErrLeadsToFailure(fc[0]) && Before(fc[0], sinkSite), "C21.expiry", "vote:proposal-lookup", p.Pos(vote.Pos()), "the proposal lookup precedes the execution and its error aborts")
		ex := methodCalls(fp, "isExpired")
		if r.Check(len(ex) == 1, "C21.expiry", "findOrCreateProposal:expiry-test", p.Pos(fp.Pos()), fmt.Sprintf("%d isExpired calls", len(ex))) {
			r.Check(describe(core.CallArgs(ex[0].Common())[0]) == "now", "C21.expiry", "findOrCreateProposal:expiry-now", p.Pos(ex[0].Pos()), "compared with the block time passed in")
			okFail := false
			for _, ref := range *ex[0].Referrers() {
				if ifi, ok := ref.(*ssa.If); ok {
					okFail = core.FailsOnly(ifi.Block().Succs[0], map[*ssa.BasicBlock]bool{})
				}
			}
			r.Check(okFail, "C21.expiry", "findOrCreateProposal:expired-fails", p.Pos(ex[0].Pos()), "once the proposal is found expired every exit must be an error (a late vote must not reach the count)")
		}
		ie := p.Func("(" + pkgMS + ".proposal).isExpired")
		if ie != nil {
			okCmp := false
			for _, blk := range ie.Blocks {
				for _, in := range blk.Instrs {
					if bo, ok := in.(*ssa.BinOp); ok && bo.Op == token.GEQ && describe(bo.X) == "now" && strings.HasSuffix(describe(bo.Y), ".ExpirationDate") {
						okCmp = true
					}
				}
			}
			r.Check(okCmp, "C21.expiry", "isExpired:comparison", p.Pos(ie.Pos()), "now >= ExpirationDate")
		}
	}
	// ---- once
	ef := p.Field(pkgMS, "proposal", "ExecutedInTxnHash")
	if ef == nil {
		r.Unresolved("C21.once", "proposal.ExecutedInTxnHash")
	} else {
		ws := core.FieldWrites([]*ssa.Function{sinkFn}, ef)
		if r.Check(len(ws) == 1 && ws[0].Kind == "store", "C21.once", "vote:marks-executed", p.Pos(vote.Pos()), fmt.Sprintf("%d stores to ExecutedInTxnHash", len(ws))) {
			r.Check(describe(inVote(ws[0].Val)) == "currentTxnHash" && Before(sink, ws[0].Instr), "C21.once", "vote:executed-hash", posOf(p, ws[0].Instr), "set to "+describe(inVote(ws[0].Val))+" after the transfer is queued")
			okm, wm := MustPassFrom(p, sinkFn, sink, ws[0].Instr)
			r.Check(okm, "C21.once", "vote:always-marked", posOf(p, ws[0].Instr), "every success path after queuing the transfer marks the proposal executed; "+wm)
			saved := false
			for _, c := range methodCalls(sinkFn, "putProposal") {
				if core.Reaches(ws[0].Instr, c) {
					ok, w := MustPassFrom(p, sinkFn, ws[0].Instr, c)
					if sinkFn != vote {
						if !ls[0].ErrFails() {
							ok, w = false, w+" (the helper's failure does not fail vote)"
						}
					}
					r.Check(ok && core.ErrLeadsToFailure(c), "C21.once", "vote:executed-saved", p.Pos(c.Pos()), "the executed mark is saved on every success path; "+w)
					saved = true
				}
			}
			r.Check(saved, "C21.once", "vote:executed-save-call", p.Pos(vote.Pos()), "putProposal after marking executed")
		}
	}
	// ---- vote record
	idsF := p.Field(pkgMS, "proposal", "SignerThresholdIDs")
	sigF := p.Field(pkgMS, "proposal", "SignerSignatures")
	if idsF != nil && sigF != nil {
		wi := core.FieldWrites([]*ssa.Function{vote}, idsF)
		wsg := core.FieldWrites([]*ssa.Function{vote}, sigF)
		ok := len(wi) == 1 && len(wsg) == 1 && wi[0].Instr.Block() == wsg[0].Instr.Block()
		r.Check(ok, "C21.vote-record", "vote:id+signature-together", p.Pos(vote.Pos()), fmt.Sprintf("id appends=%d signature appends=%d (must be paired in one block)", len(wi), len(wsg)))
		if ok {
			idRoots := strings.Join(core.RootDescs(core.Slice(wi[0].Val)), ",")
			sgRoots := strings.Join(core.RootDescs(core.Slice(wsg[0].Val)), ",")
			_ = idRoots
			_ = sgRoots
			r.Check(Before(wi[0].Instr, sinkSite), "C21.vote-record", "vote:recorded-before-execution", posOf(p, wi[0].Instr), "the vote is recorded before the threshold test")
			saved := false
			for _, c := range methodCalls(vote, "putProposal") {
				if core.Reaches(wi[0].Instr, c) && core.Reaches(c, sinkSite) {
					saved = core.ErrLeadsToFailure(c)
				}
			}
			r.Check(saved, "C21.vote-record", "vote:recorded-saved", posOf(p, wi[0].Instr), "the proposal with the new vote is saved")
		}
	}
	// ---- transfer
	mk := p.Func("(" + pkgMS + ".Wallet).makeSignedTransferForProposal")
	if mk == nil {
		r.Unresolved("C21.transfer", "makeSignedTransferForProposal")
	} else {
		for _, l := range literalsOfAny(mk) {
			if !strings.HasSuffix(core.NamedName(l.Alloc.Type()), ".SignedTransfer") {
				continue
			}
			r.Check(strings.HasSuffix(describe(l.Fields["Transfer"]), "p.Transfer") && strings.HasSuffix(describe(l.Fields["Sig"]), "p.ClientSignature") && strings.HasSuffix(describe(l.Fields["PublicKey"]), "w.PublicKey"), "C21.transfer", "makeSignedTransferForProposal:fields", posOf(p, l.Alloc),
				fmt.Sprintf("Transfer=%s Sig=%s PublicKey=%s", describe(l.Fields["Transfer"]), describe(l.Fields["Sig"]), describe(l.Fields["PublicKey"])))
		}
	}
	cf := p.Field(pkgMS, "proposal", "ClientSignature")
	if cf != nil {
		ws := core.FieldWrites([]*ssa.Function{sinkFn}, cf)
		okc := len(ws) == 1
		if okc {
			c, i := core.CallOf(ws[0].Val)
			okc = c != nil && i == 0 && core.MethodName(c.Common()) == "constructTransferSignature" && core.ErrLeadsToFailure(c) && Before(ws[0].Instr, sink)
		}
		r.Check(okc, "C21.transfer", "vote:reconstructed-signature", p.Pos(vote.Pos()), "ClientSignature is the reconstructed threshold signature, stored before the transfer is built; reconstruction errors abort")
	}
	ia := p.Func("(" + pkgMS + ".Wallet).isVoteAuthorized")
	if ia == nil {
		r.Unresolved("C21.transfer", "isVoteAuthorized")
	} else {
		vc := methodCalls(ia, "VerifySignature")
		if r.Check(len(vc) == 1, "C21.transfer", "isVoteAuthorized:verifies", p.Pos(ia.Pos()), fmt.Sprintf("%d VerifySignature calls", len(vc))) {
			// result: returns err == nil
			okRet := false
			for _, ref := range *vc[0].Referrers() {
				if bo, ok := ref.(*ssa.BinOp); ok && bo.Op == token.EQL && core.IsNilConst(bo.Y) {
					for _, r2 := range *bo.Referrers() {
						if _, ok := r2.(*ssa.Return); ok {
							okRet = true
						}
						if _, ok := r2.(*ssa.Phi); ok {
							okRet = true
						}
					}
				}
			}
			r.Check(okRet, "C21.transfer", "isVoteAuthorized:result", p.Pos(vc[0].Pos()), "authorised iff verification returned no error")
			mv := methodCalls(ia, "makeSignedTransferForVote")
			r.Check(len(mv) == 1 && strings.Contains(describe(core.CallArgs(mv[0].Common())[0]), "publicKeyForSigner"), "C21.transfer", "isVoteAuthorized:signer-key", p.Pos(ia.Pos()), "verified under the public key registered for the signing client")
		}
	}
}
