package props

import (
	"fmt"
	"go/token"
	"go/types"
	"strings"

	"golang.org/x/tools/go/ssa"

	"zv/core"
)

// Credit is a store  obj.F = AddCoin(obj.F, X)#0  (or obj.F += X / obj.F++).
type Credit struct {
	W     core.FieldWrite
	Added ssa.Value // X; nil for ++ (constant 1)
	Call  *ssa.Call // the AddCoin call, nil for raw arithmetic
	Raw   *ssa.BinOp
}

// CreditsOf finds credits to the given field in fn.
func CreditsOf(fn *ssa.Function, field *types.Var) []Credit {
	var out []Credit
	for _, w := range core.FieldWrites([]*ssa.Function{fn}, field) {
		if w.Kind != "store" {
			continue
		}
		if c, idx := core.CallOf(w.Val); c != nil && idx == 0 && core.CalleeName(c.Common()) == pkgCurr+".AddCoin" {
			// first arg must read the same field
			if _, pth := core.BaseObject(c.Call.Args[0]); strings.HasSuffix(pth, "."+field.Name()) {
				out = append(out, Credit{W: w, Added: c.Call.Args[1], Call: c})
				continue
			}
		}
		if bo, ok := w.Val.(*ssa.BinOp); ok && bo.Op == token.ADD {
			if _, pth := core.BaseObject(bo.X); strings.HasSuffix(pth, "."+field.Name()) {
				out = append(out, Credit{W: w, Added: bo.Y, Raw: bo})
			}
		}
	}
	return out
}

// Debit is a store obj.F = MinusCoin(obj.F, X)#0 (or raw subtraction, or zeroing).
type Debit struct {
	W       core.FieldWrite
	Removed ssa.Value // nil when zeroed
	Call    *ssa.Call
	Raw     *ssa.BinOp
	Zeroed  bool
}

// DebitsOf finds debits of the given field in fn.
func DebitsOf(fn *ssa.Function, field *types.Var) []Debit {
	var out []Debit
	for _, w := range core.FieldWrites([]*ssa.Function{fn}, field) {
		if w.Kind != "store" {
			continue
		}
		if c, idx := core.CallOf(w.Val); c != nil && idx == 0 && core.CalleeName(c.Common()) == pkgCurr+".MinusCoin" {
			if _, pth := core.BaseObject(c.Call.Args[0]); strings.HasSuffix(pth, "."+field.Name()) {
				out = append(out, Debit{W: w, Removed: c.Call.Args[1], Call: c})
				continue
			}
		}
		if bo, ok := w.Val.(*ssa.BinOp); ok && bo.Op == token.SUB {
			if _, pth := core.BaseObject(bo.X); strings.HasSuffix(pth, "."+field.Name()) {
				out = append(out, Debit{W: w, Removed: bo.Y, Raw: bo})
				continue
			}
		}
		if k, ok := core.ConstInt(w.Val); ok && k == 0 {
			out = append(out, Debit{W: w, Zeroed: true})
		}
	}
	return out
}

// MustPass reports whether every path from fn's entry to each of its non-failing exits
// crosses `must`; it returns a witness path otherwise.
func MustPass(p *core.Prog, fn *ssa.Function, must ssa.Instruction) (bool, string) {
	for _, ret := range core.SuccessExits(fn) {
		path, _, found := core.PathQuery{Fn: fn, Barrier: func(in ssa.Instruction) bool { return in == must }, EdgeOK: core.FeasibleEdge,
			Target: func(in ssa.Instruction) bool { return in == ssa.Instruction(ret) }}.Find()
		if found {
			return false, fmt.Sprintf("exit at %s reachable without it: %s", p.Pos(ret.Pos()), p.PathString(path))
		}
	}
	return true, ""
}

// MustPassFrom: every path from `from` to a non-failing exit crosses `must`.
func MustPassFrom(p *core.Prog, fn *ssa.Function, from, must ssa.Instruction) (bool, string) {
	for _, ret := range core.SuccessExits(fn) {
		path, _, found := core.PathQuery{Fn: fn, Start: from, Barrier: func(in ssa.Instruction) bool { return in == must }, EdgeOK: core.FeasibleEdge,
			Target: func(in ssa.Instruction) bool { return in == ssa.Instruction(ret) }}.Find()
		if found {
			return false, fmt.Sprintf("exit at %s reachable without it: %s", p.Pos(ret.Pos()), p.PathString(path))
		}
	}
	return true, ""
}

// Before reports that a precedes b on every path that contains both: a's block
// dominates b's (same block: a earlier) and b cannot reach a again.
func Before(a, b ssa.Instruction) bool {
	if a.Block() == b.Block() {
		return core.Reaches(a, b) && !inCycle(a.Block())
	}
	return a.Block().Dominates(b.Block()) && !core.Reaches(b, a)
}

// Dominated reports whether instruction `in` is dominated by a fact satisfying pred.
func Dominated(in ssa.Instruction, pred func(core.Fact) bool) bool {
	for _, f := range core.FactsAt(in.Block()) {
		if pred(f) {
			return true
		}
	}
	return false
}

// cmpFact decodes a fact whose condition is a comparison: returns the operands'
// descriptions and the operator normalised to "holds when taken".
type CmpFact struct {
	X, Y   ssa.Value
	Op     token.Token // operator that is TRUE at this point (negated when the fact is the false edge)
	XD, YD string
}

func negate(op token.Token) token.Token {
	switch op {
	case token.EQL:
		return token.NEQ
	case token.NEQ:
		return token.EQL
	case token.LSS:
		return token.GEQ
	case token.GEQ:
		return token.LSS
	case token.GTR:
		return token.LEQ
	case token.LEQ:
		return token.GTR
	}
	return op
}

// CmpFacts returns the comparison facts holding at block b.
func CmpFacts(b *ssa.BasicBlock) []CmpFact {
	var out []CmpFact
	for _, f := range core.FactsAt(b) {
		v, taken := core.NormCond(f.Cond, f.Taken)
		inner, bind := core.Unbind(v)
		bo, ok := inner.(*ssa.BinOp)
		if !ok {
			continue
		}
		op := bo.Op
		switch op {
		case token.EQL, token.NEQ, token.LSS, token.GTR, token.LEQ, token.GEQ:
		default:
			continue
		}
		if !taken {
			op = negate(op)
		}
		x, y := bo.X, bo.Y
		if bind != nil {
			x, y = core.BindValue(x, bind), core.BindValue(y, bind)
		}
		out = append(out, CmpFact{x, y, op, describe(x), describe(y)})
	}
	return out
}

// HasCmp reports whether a comparison fact "x op y" (or its mirror) holds at block b,
// matching operands by description suffix.
func HasCmp(b *ssa.BasicBlock, xSuffix string, op token.Token, ySuffix string) bool {
	mirror := map[token.Token]token.Token{token.EQL: token.EQL, token.NEQ: token.NEQ, token.LSS: token.GTR, token.GTR: token.LSS, token.LEQ: token.GEQ, token.GEQ: token.LEQ}
	for _, c := range CmpFacts(b) {
		if strings.HasSuffix(c.XD, xSuffix) && strings.HasSuffix(c.YD, ySuffix) && c.Op == op {
			return true
		}
		if strings.HasSuffix(c.XD, ySuffix) && strings.HasSuffix(c.YD, xSuffix) && c.Op == mirror[op] {
			return true
		}
	}
	return false
}

// BoolFact reports whether a boolean value described by suffix is known true/false at b.
func BoolFact(b *ssa.BasicBlock, suffix string, want bool) bool {
	for _, f := range core.FactsAt(b) {
		v, taken := f.Cond, f.Taken
		for {
			if u, ok := v.(*ssa.UnOp); ok && u.Op == token.NOT {
				v, taken = u.X, !taken
				continue
			}
			break
		}
		if strings.HasSuffix(describe(v), suffix) && taken == want {
			return true
		}
		if c, ok := v.(*ssa.Call); ok && strings.HasSuffix(suffix, "()") && core.MethodName(c.Common())+"()" == suffix && taken == want {
			return true
		}
		// the same fact imported from a guard helper
		if inner, bind := core.Unbind(v); bind != nil {
			nv, nt := core.NormCond(inner, taken)
			if c, ok := nv.(*ssa.Call); ok && strings.HasSuffix(suffix, "()") && core.MethodName(c.Common())+"()" == suffix && nt == want {
				return true
			}
		}
	}
	return false
}

// checkedCallBefore: a call to callee (qualified name) whose error leads to failure
// dominates `in`.
func checkedCallBefore(fn *ssa.Function, callee string, in ssa.Instruction) *ssa.Call {
	for _, c := range findCalls(fn, callee) {
		if c.Block().Dominates(in.Block()) && (c.Block() != in.Block() || core.Reaches(c, in)) && core.ErrLeadsToFailure(c) {
			return c
		}
	}
	return nil
}

// methodCalls returns call instructions (Call only) to methods with the given bare name.
func methodCalls(fn *ssa.Function, name string) []*ssa.Call {
	var out []*ssa.Call
	for _, cs := range core.CallsIn(fn, false, core.MethodIs(name)) {
		if c, ok := cs.Instr.(*ssa.Call); ok {
			out = append(out, c)
		}
	}
	return out
}

// GuardFamily returns fn followed by the same-package functions fn delegates part of its
// verdict to (transitively, to the given depth): a static callee with an error result whose
// non-nil error makes fn fail (core.ErrLeadsToFailure) and whose call dominates every success
// exit of fn that does not itself hand the callee's verdict on. A check moved into such a
// helper is still a check of fn on every accepting path.
func GuardFamily(fn *ssa.Function, depth int) []*ssa.Function {
	out := []*ssa.Function{fn}
	seen := map[*ssa.Function]bool{fn: true}
	var walk func(f *ssa.Function, d int)
	walk = func(f *ssa.Function, d int) {
		if d <= 0 {
			return
		}
		for _, cs := range core.CallsIn(f, false, nil) {
			call, ok := cs.Instr.(*ssa.Call)
			if !ok {
				continue
			}
			h := core.StaticCallee(call.Common())
			if h == nil || seen[h] || h.Pkg != f.Pkg || h.Blocks == nil || core.ErrIndex(h) < 0 {
				continue
			}
			if !core.ErrLeadsToFailure(call) {
				continue
			}
			must := true
			for _, ret := range core.SuccessExits(f) {
				if !call.Block().Dominates(ret.Block()) {
					must = false
				}
			}
			if !must {
				continue
			}
			seen[h] = true
			out = append(out, h)
			walk(h, d-1)
		}
	}
	walk(fn, depth)
	return out
}

// ViaCredit is a credit as fn sees it: made in fn itself, or in a same-package helper fn
// calls (whose failure fails fn) — then Added and Addr are the helper's values bound to the
// arguments of that call (core.Bound), so describe/BaseObject answer in fn's terms.
type ViaCredit struct {
	Credit
	Added, Addr ssa.Value
	Helper      *ssa.Call // nil when direct
	ErrOK       bool      // the checked addition's error fails fn
	Site        ssa.Instruction
}

// CreditsVia lists the credits to field made by fn directly or through one level of
// same-package helpers.
func CreditsVia(fn *ssa.Function, field *types.Var) []ViaCredit {
	var out []ViaCredit
	for _, c := range CreditsOf(fn, field) {
		out = append(out, ViaCredit{Credit: c, Added: c.Added, Addr: c.W.Addr, ErrOK: c.Call != nil && core.ErrLeadsToFailure(c.Call), Site: c.W.Instr})
	}
	for _, cs := range core.CallsIn(fn, false, nil) {
		call, ok := cs.Instr.(*ssa.Call)
		if !ok {
			continue
		}
		h := core.StaticCallee(call.Common())
		if h == nil || h == fn || h.Pkg != fn.Pkg || h.Blocks == nil || len(h.Params) != len(call.Call.Args) {
			continue
		}
		hc := CreditsOf(h, field)
		if len(hc) == 0 {
			continue
		}
		bind := map[*ssa.Parameter]ssa.Value{}
		for i, prm := range h.Params {
			bind[prm] = call.Call.Args[i]
		}
		herr := core.ErrIndex(h) < 0 || core.ErrLeadsToFailure(call)
		for _, c := range hc {
			vc := ViaCredit{Credit: c, Helper: call, Site: call, Addr: core.BindValue(c.W.Addr, bind)}
			if c.Added != nil {
				vc.Added = core.BindValue(c.Added, bind)
			}
			vc.ErrOK = c.Call != nil && core.ErrLeadsToFailure(c.Call) && herr
			out = append(out, vc)
		}
	}
	return out
}

// ---------------------------------------------------------------------------------
// Lifted calls: an effect of fn made directly or inside a same-package helper fn calls.
// ---------------------------------------------------------------------------------

// Lifted is a call as fn sees it. Site is the instruction of fn that performs it (the call
// itself, or the outermost helper call); Call the actual call; Chain the helper calls from
// fn down to Call's function; Arg(i) the i-th argument (receiver first for methods, as in
// ssa.CallCommon.Args; for interface calls the receiver is Recv()) expressed in fn's values.
type Lifted struct {
	Site  ssa.Instruction
	Call  *ssa.Call
	Chain []*ssa.Call
	bind  map[*ssa.Parameter]ssa.Value
}

func (l Lifted) bound(v ssa.Value) ssa.Value {
	if l.bind == nil || v == nil {
		return v
	}
	return core.BindValue(v, l.bind)
}
func (l Lifted) Arg(i int) ssa.Value    { return l.bound(l.Call.Call.Args[i]) }
func (l Lifted) NArgs() int             { return len(l.Call.Call.Args) }
func (l Lifted) Recv() ssa.Value        { return l.bound(core.Receiver(l.Call.Common())) }
func (l Lifted) Direct() bool           { return len(l.Chain) == 0 }
func (l Lifted) Block() *ssa.BasicBlock { return l.Site.Block() }
func (l Lifted) Pos() token.Pos         { return l.Site.Pos() }

// ErrFails: a non-nil error of the call fails fn (through every helper on the way).
func (l Lifted) ErrFails() bool {
	if core.ErrResult(l.Call) != nil && !core.ErrLeadsToFailure(l.Call) {
		return false
	}
	for _, hc := range l.Chain {
		if h := core.StaticCallee(hc.Common()); h != nil && core.ErrIndex(h) >= 0 && !core.ErrLeadsToFailure(hc) {
			return false
		}
	}
	return true
}

// MustInHelpers: inside every helper on the way, the next call down lies on every success
// path (so "Site is passed" implies "Call is executed" unless the helper failed).
func (l Lifted) MustInHelpers(p *core.Prog) bool {
	for i, hc := range l.Chain {
		h := core.StaticCallee(hc.Common())
		var next ssa.Instruction = l.Call
		if i+1 < len(l.Chain) {
			next = l.Chain[i+1]
		}
		if ok, _ := MustPass(p, h, next); !ok {
			return false
		}
	}
	return true
}

// LiftCalls lists the calls matched by match that fn makes directly or through same-package
// helpers (static callees with a body), to the given helper depth.
func LiftCalls(fn *ssa.Function, match func(*ssa.CallCommon) bool, depth int) []Lifted {
	var out []Lifted
	var walk func(f *ssa.Function, chain []*ssa.Call, bind map[*ssa.Parameter]ssa.Value, d int, seen map[*ssa.Function]bool)
	walk = func(f *ssa.Function, chain []*ssa.Call, bind map[*ssa.Parameter]ssa.Value, d int, seen map[*ssa.Function]bool) {
		for _, cs := range core.CallsIn(f, false, nil) {
			call, ok := cs.Instr.(*ssa.Call)
			if !ok {
				continue
			}
			if match(call.Common()) {
				l := Lifted{Call: call, Chain: append([]*ssa.Call{}, chain...), bind: bind, Site: call}
				if len(chain) > 0 {
					l.Site = chain[0]
				}
				out = append(out, l)
				continue
			}
			if d <= 0 {
				continue
			}
			h := core.StaticCallee(call.Common())
			if h == nil || h.Blocks == nil || h.Pkg != fn.Pkg || seen[h] || len(h.Params) != len(call.Call.Args) {
				continue
			}
			nb := map[*ssa.Parameter]ssa.Value{}
			for i, prm := range h.Params {
				a := call.Call.Args[i]
				if bind != nil {
					a = core.BindValue(a, bind)
				}
				nb[prm] = a
			}
			seen[h] = true
			walk(h, append(append([]*ssa.Call{}, chain...), call), nb, d-1, seen)
			delete(seen, h)
		}
	}
	walk(fn, nil, nil, depth, map[*ssa.Function]bool{fn: true})
	return out
}

// CallArgs: the bound arguments without the receiver (as core.CallArgs).
func (l Lifted) CallArgs() []ssa.Value {
	var out []ssa.Value
	for _, a := range core.CallArgs(l.Call.Common()) {
		out = append(out, l.bound(a))
	}
	return out
}

// liftedBefore: a is executed before b on every path (sites in fn, or both inside the same
// helper invocation).
func liftedBefore(a, b Lifted) bool {
	if a.Site == b.Site {
		return Before(a.Call, b.Call)
	}
	return Before(a.Site, b.Site)
}

// SliceB is core.Slice through a helper binding: roots that are parameters of the helper are
// replaced by the roots of the bound arguments.
func SliceB(v ssa.Value) []core.Root {
	inner, bind := core.Unbind(v)
	rs := core.Slice(inner)
	if bind == nil {
		return rs
	}
	var out []core.Root
	for _, rt := range rs {
		if prm, ok := rt.V.(*ssa.Parameter); ok {
			if a, ok := bind[prm]; ok {
				out = append(out, SliceB(a)...)
				continue
			}
		}
		out = append(out, rt)
	}
	return out
}

// ValueLeaves expands v through phis and through calls of same-module helpers with a body
// (each return of the helper contributes its result, bound to the call's arguments) and
// returns the leaf values, expressed in the frame of v's function where possible.
func ValueLeaves(v ssa.Value, depth int) []ssa.Value {
	var out []ssa.Value
	seen := map[ssa.Value]bool{}
	var walk func(v ssa.Value, bind map[*ssa.Parameter]ssa.Value, d int)
	walk = func(v ssa.Value, bind map[*ssa.Parameter]ssa.Value, d int) {
		if inner, b2 := core.Unbind(v); b2 != nil {
			v, bind = inner, b2
		}
		wrap := func(x ssa.Value) ssa.Value {
			if bind != nil {
				return core.BindValue(x, bind)
			}
			return x
		}
		if seen[v] && bind == nil {
			return
		}
		seen[v] = true
		if d > 8 {
			out = append(out, wrap(v))
			return
		}
		switch x := v.(type) {
		case *ssa.Phi:
			for _, e := range x.Edges {
				walk(e, bind, d+1)
			}
			return
		case *ssa.Parameter:
			if a, ok := bind[x]; ok {
				walk(a, nil, d+1)
				return
			}
		case *ssa.Call, *ssa.Extract:
			call, idx := core.CallOf(x)
			if idx < 0 {
				idx = 0
			}
			if call != nil && depth > 0 {
				h := core.StaticCallee(call.Common())
				if h != nil && h.Blocks != nil && h.Pkg != nil && core.IsModule(h.Pkg.Pkg.Path()) && len(h.Params) == len(call.Call.Args) && h != call.Parent() {
					nb := map[*ssa.Parameter]ssa.Value{}
					for i, prm := range h.Params {
						nb[prm] = wrap(call.Call.Args[i])
					}
					depth--
					for _, ret := range core.Returns(h) {
						if ret.Block() == h.Recover || idx >= len(ret.Results) {
							continue
						}
						walk(core.ResultValue(ret, idx), nb, d+1)
					}
					depth++
					return
				}
			}
		}
		out = append(out, wrap(v))
	}
	walk(v, nil, 0)
	return out
}
