package props

import (
	"fmt"
	"go/token"
	"go/types"
	"strings"

	"golang.org/x/tools/go/ssa"

	"zv/core"
)

func init() { register("C11", "other", c11) }

// coinFields returns the currency.Coin fields of a named struct type.
func coinFields(n *types.Named) []*types.Var {
	var out []*types.Var
	st, ok := n.Underlying().(*types.Struct)
	if !ok {
		return nil
	}
	for i := 0; i < st.NumFields(); i++ {
		if isCoin(st.Field(i).Type()) {
			out = append(out, st.Field(i))
		}
	}
	return out
}

// literalsOf returns the composite literals (Allocs with field stores) of the named
// struct type in fn, with the set of fields each one initialises.
type structLit struct {
	Alloc  *ssa.Alloc
	Fields map[string]ssa.Value
}

func literalsOf(fn *ssa.Function, typeName string) []structLit {
	var out []structLit
	for _, b := range fn.Blocks {
		for _, in := range b.Instrs {
			al, ok := in.(*ssa.Alloc)
			if !ok || core.NamedName(al.Type()) != typeName {
				continue
			}
			lit := structLit{Alloc: al, Fields: map[string]ssa.Value{}}
			for _, ref := range *al.Referrers() {
				fa, ok := ref.(*ssa.FieldAddr)
				if !ok {
					continue
				}
				for _, r2 := range *fa.Referrers() {
					if st, ok := r2.(*ssa.Store); ok && st.Addr == fa {
						if f := core.FieldOf(fa); f != nil {
							lit.Fields[f.Name()] = st.Val
						}
					}
				}
			}
			if len(lit.Fields) > 0 {
				out = append(out, lit)
			}
		}
	}
	return out
}

// C11 Staking and unstaking return exactly what was locked.
func c11(r *core.Report, p *core.Prog, thorough bool) {
	r.Explain = "Decided: LockPool moves exactly txn.Value (pool credit, event, transfer all rooted in txn.Value; the existing pool object is updated in place, never replaced by a partial copy), guarded by validateLockRequest's bounds; Empty is guarded by the owner check, pays the pool's balance read before it is zeroed; StakePoolUnlock passes reward minting, Empty, DeletePool and Save in order on every success path with the same provider key; MintRewards pays the pool's reward and then zeroes it; the contracts' wrappers call the shared functions with their own getter. Not decided: multi-transaction balances."
	r.Rule("C11.lock-value", "LockPool: AddTransfer(txn.ClientID → txn.ToClientID, txn.Value) on every success path; new pool Balance = txn.Value; existing pool Balance = AddCoin(dp.Balance, txn.Value)")
	r.Rule("C11.no-partial-copy", "a DelegatePool literal is built only on the pool-absent branch and initialises every Coin field; the existing pool is mutated in place (a literal that copies some fields of an existing pool but not all Coin fields loses Reward)")
	r.Rule("C11.lock-guards", "StakePoolLock: validateLockRequest precedes LockPool and its failure aborts; Save follows LockPool on every success path under the request's provider type and id; validateLockRequest rejects value==0, value<MinStake, total>MaxStake, delegate limit")
	r.Rule("C11.empty", "Empty (shared and storage override): owner check dominates the transfer; amount is the pool Balance read before it is zeroed; Balance zeroed and status Deleted afterwards; storage override also requires stake to cover offers")
	r.Rule("C11.unlock-order", "StakePoolUnlock: UnlockPool(t.ClientID) → Empty(t.ToClientID, t.ClientID, t.ClientID) → DeletePool → Save, each on every success path, each error aborting")
	r.Rule("C11.mint-rewards", "MintRewards: transfer amount is the delegate pool's Reward, zeroed after the transfer; minted from the pool's minter")
	r.Rule("C11.wrappers", "storage, miner and zcn contracts call StakePoolLock/StakePoolUnlock with the transaction and their own stake-pool getter")

	lp := p.Func("(*" + pkgSP + ".StakePool).LockPool")
	spl := p.Func(pkgSP + ".StakePoolLock")
	spu := p.Func(pkgSP + ".StakePoolUnlock")
	vlr := p.Func(pkgSP + ".validateLockRequest")
	mr := p.Func("(*" + pkgSP + ".StakePool).MintRewards")
	dpT := p.Type(pkgSP, "DelegatePool")
	if lp == nil || spl == nil || spu == nil || vlr == nil || mr == nil || dpT == nil {
		r.Unresolved("C11.lock-value", "stakepool LockPool/StakePoolLock/StakePoolUnlock/validateLockRequest/MintRewards/DelegatePool")
		return
	}
	balF := p.Field(pkgSP, "DelegatePool", "Balance")
	rewF := p.Field(pkgSP, "DelegatePool", "Reward")
	// ---- lock-value
	ts := TransferSites([]*ssa.Function{lp})
	if r.Check(len(ts) == 1 && ts[0].Resolved, "C11.lock-value", "LockPool:one-transfer", p.Pos(lp.Pos()), fmt.Sprintf("%d transfers", len(ts))) {
		t := ts[0]
		d := []string{describe(t.From), describe(t.To), describe(t.Amount)}
		r.Check(d[0] == "txn.ClientID" && d[1] == "txn.ToClientID" && d[2] == "txn.Value", "C11.lock-value", "LockPool:transfer-args", p.Pos(t.Site.Pos()), strings.Join(d, " → "))
		ok, w := MustPass(p, lp, t.Site.Instr)
		r.Check(ok, "C11.lock-value", "LockPool:transfer-on-every-success", p.Pos(t.Site.Pos()), "the deposit transfer must be queued on every success path; "+w)
		if c, isC := t.Site.Instr.(*ssa.Call); isC {
			r.Check(core.ErrLeadsToFailure(c), "C11.lock-value", "LockPool:transfer-err", p.Pos(c.Pos()), "transfer error aborts")
		}
	}
	lits := literalsOf(lp, pkgSP+".DelegatePool")
	r.Check(len(lits) == 1, "C11.no-partial-copy", "LockPool:one-literal", p.Pos(lp.Pos()), fmt.Sprintf("%d DelegatePool literals (want 1: the new-pool arm)", len(lits)))
	for i, l := range lits {
		// every Coin field initialised
		for _, cf := range coinFields(dpT) {
			_, has := l.Fields[cf.Name()]
			r.Check(has, "C11.no-partial-copy", fmt.Sprintf("LockPool:literal:%d:inits:%s", i, cf.Name()), posOf(p, l.Alloc), "Coin field must be set explicitly in a DelegatePool literal")
		}
		// on the absent branch: dominated by ok == false of the map lookup
		absent := false
		for _, f := range core.FactsAt(l.Alloc.Block()) {
			if e, isE := f.Cond.(*ssa.Extract); isE && !f.Taken {
				if _, isL := e.Tuple.(*ssa.Lookup); isL && e.Index == 1 {
					absent = true
				}
			}
		}
		r.Check(absent, "C11.no-partial-copy", fmt.Sprintf("LockPool:literal:%d:absent-branch", i), posOf(p, l.Alloc), "a fresh DelegatePool may be created only when the client has no pool yet")
		r.Check(describe(l.Fields["Balance"]) == "txn.Value", "C11.lock-value", fmt.Sprintf("LockPool:literal:%d:balance", i), posOf(p, l.Alloc), "new pool balance is "+describe(l.Fields["Balance"]))
		if k, isK := core.ConstInt(l.Fields["Reward"]); !isK || k != 0 {
			r.Fail("C11.lock-value", fmt.Sprintf("LockPool:literal:%d:reward-zero", i), posOf(p, l.Alloc), "a new pool starts with zero reward")
		}
	}
	cr := CreditsVia(lp, balF)
	if r.Check(len(cr) == 1, "C11.lock-value", "LockPool:top-up-credit", p.Pos(lp.Pos()), fmt.Sprintf("%d credits to an existing pool's Balance (in LockPool or a helper it calls)", len(cr))) {
		r.Check(describe(cr[0].Added) == "txn.Value" && cr[0].Call != nil, "C11.lock-value", "LockPool:top-up-value", posOf(p, cr[0].W.Instr), "existing pool credited with "+describe(cr[0].Added)+" through checked AddCoin")
		if cr[0].Call != nil {
			r.Check(cr[0].ErrOK, "C11.lock-value", "LockPool:top-up-err", p.Pos(cr[0].Call.Pos()), "overflow aborts")
		}
		// the credited object is the one found in the map (identity)
		base, _ := core.BaseObject(cr[0].Addr)
		isLookup := false
		if e, ok := base.(*ssa.Extract); ok {
			_, isLookup = e.Tuple.(*ssa.Lookup)
		}
		if _, ok := base.(*ssa.Lookup); ok {
			isLookup = true
		}
		r.Check(isLookup, "C11.no-partial-copy", "LockPool:top-up-in-place", posOf(p, cr[0].W.Instr), "the top-up must mutate the pool object found in sp.Pools")
	}
	// nobody else writes a DelegatePool into sp.Pools in LockPool except the fresh literal
	for _, b := range lp.Blocks {
		for _, in := range b.Instrs {
			if mu, ok := in.(*ssa.MapUpdate); ok && strings.HasSuffix(describe(mu.Map), ".Pools") {
				okv := false
				for _, l := range lits {
					if mu.Value == ssa.Value(l.Alloc) {
						okv = true
					}
				}
				r.Check(okv, "C11.no-partial-copy", "LockPool:map-store", posOf(p, mu), "only the freshly created pool may be stored into sp.Pools")
			}
		}
	}
	// ---- lock guards
	v := findCalls(spl, vlr.String())
	lk := methodCalls(spl, "LockPool")
	sv := methodCalls(spl, "Save")
	if r.Check(len(v) == 1 && len(lk) == 1 && len(sv) == 1, "C11.lock-guards", "StakePoolLock:calls", p.Pos(spl.Pos()), fmt.Sprintf("validate=%d LockPool=%d Save=%d", len(v), len(lk), len(sv))) {
		r.Check(Before(v[0], lk[0]) && core.ErrLeadsToFailure(v[0]), "C11.lock-guards", "StakePoolLock:validate-first", p.Pos(v[0].Pos()), "bounds are checked before the pool is touched and a violation aborts")
		r.Check(core.ErrLeadsToFailure(lk[0]), "C11.lock-guards", "StakePoolLock:lock-err", p.Pos(lk[0].Pos()), "lock failure aborts")
		ok, w := MustPassFrom(p, spl, lk[0], sv[0])
		r.Check(ok && core.ErrLeadsToFailure(sv[0]), "C11.lock-guards", "StakePoolLock:save-after-lock", p.Pos(sv[0].Pos()), "the pool is saved on every success path after the lock; "+w)
		sa := core.CallArgs(sv[0].Common())
		la := core.CallArgs(lk[0].Common())
		r.Check(describe(sa[0]) == describe(la[1]) && describe(sa[1]) == describe(la[2]) && strings.HasSuffix(describe(sa[1]), ".ProviderID"), "C11.lock-guards", "StakePoolLock:save-key", p.Pos(sv[0].Pos()),
			"saved under "+describe(sa[0])+"/"+describe(sa[1]))
		r.Check(core.Receiver(sv[0].Common()) == core.Receiver(lk[0].Common()) || describe(core.Receiver(sv[0].Common())) == describe(core.Receiver(lk[0].Common())), "C11.lock-guards", "StakePoolLock:save-same-pool", p.Pos(sv[0].Pos()), "the saved pool is the locked pool")
	}
	// validateLockRequest comparisons
	type want struct {
		x  string
		op token.Token
		y  string
		w  string
	}
	for _, ret := range core.Returns(vlr) {
		_ = ret
	}
	rejects := func(x string, op token.Token, y string) bool {
		for _, ret := range core.Returns(vlr) {
			if core.ClassifyReturn(ret) == core.ExitFailure && HasCmp(ret.Block(), x, op, y) {
				return true
			}
		}
		return false
	}
	r.Check(rejects(".Value", token.EQL, "0"), "C11.lock-guards", "validateLockRequest:zero", p.Pos(vlr.Pos()), "zero stake rejected")
	r.Check(rejects(".Value", token.LSS, ".MinStake"), "C11.lock-guards", "validateLockRequest:min", p.Pos(vlr.Pos()), "stake below the minimum rejected")
	r.Check(rejects("AddCoin()#0", token.GTR, ".MaxStake"), "C11.lock-guards", "validateLockRequest:max", p.Pos(vlr.Pos()), "resulting pool stake above the maximum rejected")
	r.Check(rejects("len()", token.GEQ, ".MaxNumDelegates"), "C11.lock-guards", "validateLockRequest:delegates", p.Pos(vlr.Pos()), "delegate limit enforced for a new delegate")
	// the limit is the one configured for THIS provider's stake pool, not the contract-wide cap
	{
		var spPrm *ssa.Parameter
		for _, prm := range vlr.Params {
			if strings.HasSuffix(prm.Type().String(), "AbstractStakePool") || strings.HasSuffix(prm.Type().String(), "StakePool") {
				spPrm = prm
			}
		}
		okOwn, n := spPrm != nil, 0
		for _, ret := range core.Returns(vlr) {
			if core.ClassifyReturn(ret) != core.ExitFailure {
				continue
			}
			for _, f := range CmpFacts(ret.Block()) {
				for _, side := range [][2]ssa.Value{{f.X, f.Y}, {f.Y, f.X}} {
					if !strings.HasSuffix(describe(side[1]), ".MaxNumDelegates") {
						continue
					}
					if c, ok := side[0].(*ssa.Call); !ok || core.CalleeName(c.Common()) != "builtin.len" {
						continue
					}
					n++
					_, leaves := FlowLoads(side[1])
					fromSP := false
					for _, l := range leaves {
						if spPrm != nil && l == ssa.Value(spPrm) {
							fromSP = true
						}
					}
					if !fromSP {
						okOwn = false
					}
				}
			}
		}
		r.Check(okOwn && n > 0, "C11.lock-guards", "validateLockRequest:delegates-own-limit", p.Pos(vlr.Pos()), "the delegate count is compared with the limit configured in the stake pool being locked (its own settings), not with a contract-wide setting")
	}
	// ---- Empty (both implementations)
	for _, en := range []string{"(*" + pkgSP + ".StakePool).Empty", "(*0chain.net/smartcontract/storagesc.stakePool).Empty", "(*0chain.net/smartcontract/zcnsc.StakePool).empty"} {
		ef := p.Func(en)
		if ef == nil {
			if strings.Contains(en, "zcnsc") {
				continue
			}
			r.Unresolved("C11.empty", en)
			continue
		}
		short := ef.Pkg.Pkg.Name() + ".Empty"
		tss := TransferSites([]*ssa.Function{ef})
		if !r.Check(len(tss) == 1 && tss[0].Resolved, "C11.empty", short+":one-transfer", p.Pos(ef.Pos()), fmt.Sprintf("%d transfers", len(tss))) {
			continue
		}
		t := tss[0]
		r.Check(describe(t.From) == "sscID" && describe(t.To) == "clientID" && strings.HasSuffix(describe(t.Amount), ".Balance"), "C11.empty", short+":transfer-args", p.Pos(t.Site.Pos()),
			describe(t.From)+" → "+describe(t.To)+" : "+describe(t.Amount))
		r.Check(HasCmp(t.Site.Instr.Block(), ".DelegateID", token.EQL, "clientID"), "C11.empty", short+":owner-guard", p.Pos(t.Site.Pos()), "only the pool's delegate may empty it")
		// zeroing after the transfer, on the same pool key
		zs := 0
		for _, d := range DebitsOf(ef, balF) {
			if d.Zeroed {
				zs++
				r.Check(Before(t.Site.Instr, d.W.Instr), "C11.empty", short+":zero-after-transfer", posOf(p, d.W.Instr), "the balance is zeroed only after the amount was read for the transfer")
			}
		}
		r.Check(zs == 1, "C11.empty", short+":zeroed", p.Pos(ef.Pos()), fmt.Sprintf("%d zeroing stores", zs))
		if c, ok := t.Site.Instr.(*ssa.Call); ok {
			r.Check(core.ErrLeadsToFailure(c), "C11.empty", short+":transfer-err", p.Pos(c.Pos()), "transfer error aborts before zeroing")
		}
		if strings.Contains(en, "storagesc") {
			r.Check(HasCmp(t.Site.Instr.Block(), "stake()#0", token.GEQ, "AddCoin()#0"), "C11.empty", short+":offers-covered", p.Pos(t.Site.Pos()), "remaining stake must cover the blobber's offers")
		}
	}
	// ---- unlock order
	up := methodCalls(spu, "UnlockPool")
	em := methodCalls(spu, "Empty")
	dl := methodCalls(spu, "DeletePool")
	sv2 := methodCalls(spu, "Save")
	if r.Check(len(up) == 1 && len(em) == 1 && len(dl) == 1 && len(sv2) == 1, "C11.unlock-order", "StakePoolUnlock:calls", p.Pos(spu.Pos()), fmt.Sprintf("UnlockPool=%d Empty=%d DeletePool=%d Save=%d", len(up), len(em), len(dl), len(sv2))) {
		seq := []*ssa.Call{up[0], em[0], dl[0], sv2[0]}
		names := []string{"UnlockPool", "Empty", "DeletePool", "Save"}
		for i, c := range seq {
			ok, w := MustPass(p, spu, c)
			r.Check(ok, "C11.unlock-order", "StakePoolUnlock:must-"+names[i], p.Pos(c.Pos()), "on every success path; "+w)
			r.Check(core.ErrLeadsToFailure(c), "C11.unlock-order", "StakePoolUnlock:err-"+names[i], p.Pos(c.Pos()), "its failure aborts the unlock")
			if i > 0 {
				r.Check(Before(seq[i-1], c), "C11.unlock-order", "StakePoolUnlock:order-"+names[i-1]+"<"+names[i], p.Pos(c.Pos()), "rewards are minted and the stake returned before the pool is deleted and saved")
			}
		}
		ea := core.CallArgs(em[0].Common())
		r.Check(describe(ea[0]) == "t.ToClientID" && describe(ea[1]) == "t.ClientID" && describe(ea[2]) == "t.ClientID", "C11.unlock-order", "StakePoolUnlock:empty-args", p.Pos(em[0].Pos()),
			"Empty("+describe(ea[0])+", "+describe(ea[1])+", "+describe(ea[2])+")")
		ua := core.CallArgs(up[0].Common())
		r.Check(describe(ua[0]) == "t.ClientID", "C11.unlock-order", "StakePoolUnlock:unlock-client", p.Pos(up[0].Pos()), "UnlockPool("+describe(ua[0])+")")
		sa := core.CallArgs(sv2[0].Common())
		r.Check(strings.HasSuffix(describe(sa[0]), ".ProviderType") && strings.HasSuffix(describe(sa[1]), ".ProviderID"), "C11.unlock-order", "StakePoolUnlock:save-key", p.Pos(sv2[0].Pos()), "saved under "+describe(sa[0])+"/"+describe(sa[1]))
	}
	// UnlockPool calls MintRewards for the same client
	upf := p.Func("(*" + pkgSP + ".StakePool).UnlockPool")
	if upf != nil {
		mc := findCalls(upf, mr.String())
		if r.Check(len(mc) == 1, "C11.mint-rewards", "UnlockPool:mints", p.Pos(upf.Pos()), fmt.Sprintf("%d MintRewards calls", len(mc))) {
			r.Check(describe(core.CallArgs(mc[0].Common())[0]) == "clientID" && core.ErrLeadsToFailure(mc[0]), "C11.mint-rewards", "UnlockPool:mints-for-client", p.Pos(mc[0].Pos()), "MintRewards("+describe(core.CallArgs(mc[0].Common())[0])+")")
		}
	}
	// ---- MintRewards: pay then zero
	for _, t := range TransferSites([]*ssa.Function{mr}) {
		if !t.Resolved {
			r.Fail("C11.mint-rewards", "MintRewards:transfer", p.Pos(t.Site.Pos()), "unresolved transfer")
			continue
		}
		r.Check(strings.HasPrefix(describe(t.From), "call:GetMinter()") && describe(t.To) == "clientId" && strings.HasSuffix(describe(t.Amount), ".Reward"), "C11.mint-rewards", "MintRewards:transfer-args", p.Pos(t.Site.Pos()),
			describe(t.From)+" → "+describe(t.To)+" : "+describe(t.Amount))
		zs := 0
		for _, d := range DebitsOf(mr, rewF) {
			if d.Zeroed {
				zs++
				r.Check(Before(t.Site.Instr, d.W.Instr), "C11.mint-rewards", "MintRewards:zero-after-transfer", posOf(p, d.W.Instr), "reward zeroed after it was paid")
				bo1, _ := core.BaseObject(d.W.Addr)
				bo2, _ := core.BaseObject(t.Amount)
				r.Check(sameObj(bo1, bo2), "C11.mint-rewards", "MintRewards:zero-same-pool", posOf(p, d.W.Instr), "the zeroed pool is the paid pool")
			}
		}
		r.Check(zs == 1, "C11.mint-rewards", "MintRewards:zeroed", p.Pos(mr.Pos()), fmt.Sprintf("%d zeroing stores of DelegatePool.Reward", zs))
	}
	// ---- MintRewards: whenever the caller owns a delegate pool its reward is paid — no
	// success exit with the pool present avoids the reward test; on the positive edge the
	// transfer lies on every success path
	{
		var okIf *ssa.If
		okTrue := 0
		var pool ssa.Value
		for _, b := range mr.Blocks {
			for _, in := range b.Instrs {
				lk, ok := in.(*ssa.Lookup)
				if !ok || !lk.CommaOk {
					continue
				}
				if _, pth := core.BaseObject(lk.X); !strings.HasSuffix(pth, ".Pools") {
					continue
				}
				for _, ref := range *lk.Referrers() {
					e, ok := ref.(*ssa.Extract)
					if !ok {
						continue
					}
					if e.Index == 0 {
						pool = e
					}
					if e.Index == 1 {
						for _, r2 := range *e.Referrers() {
							if ifi, ok := r2.(*ssa.If); ok {
								okIf, okTrue = ifi, 0
							}
						}
					}
				}
			}
		}
		var rewIf *ssa.If
		posSucc := 0
		for _, b := range mr.Blocks {
			ifi, ok := b.Instrs[len(b.Instrs)-1].(*ssa.If)
			if !ok {
				continue
			}
			bo, ok := ifi.Cond.(*ssa.BinOp)
			if !ok {
				continue
			}
			k, isK := core.ConstInt(bo.Y)
			ld, isLd := bo.X.(*ssa.UnOp)
			if !isK || k != 0 || !isLd {
				continue
			}
			fa, ok := ld.X.(*ssa.FieldAddr)
			if !ok || core.FieldOf(fa) != rewF || fa.X != pool {
				continue
			}
			switch bo.Op {
			case token.GTR, token.NEQ:
				rewIf, posSucc = ifi, 0
			case token.EQL, token.LEQ:
				rewIf, posSucc = ifi, 1
			}
		}
		okAll := okIf != nil && rewIf != nil
		why := "no `pool, ok := sp.Pools[clientId]` / `pool.Reward > 0` structure"
		if okAll {
			path, _, found := core.PathQuery{Fn: mr, Start: okIf,
				Barrier: func(in ssa.Instruction) bool { return in == ssa.Instruction(rewIf) },
				EdgeOK: func(from *ssa.BasicBlock, succ int) bool {
					if from == okIf.Block() && succ != okTrue {
						return false
					}
					return core.FeasibleEdge(from, succ)
				},
				Target: func(in ssa.Instruction) bool {
					ret, ok := in.(*ssa.Return)
					return ok && core.ClassifyReturn(ret) != core.ExitFailure
				}}.Find()
			if found {
				okAll = false
				why = "with the caller's pool present a success exit is reachable without looking at its reward: " + p.PathString(path)
			}
		}
		r.Check(okAll, "C11.mint-rewards", "MintRewards:pool-reward-always-considered", p.Pos(mr.Pos()), "a caller who owns a delegate pool cannot leave MintRewards successfully with that pool's reward unexamined (e.g. after only the service charge was paid); "+why)
		if okAll {
			for _, t := range TransferSites([]*ssa.Function{mr}) {
				if !t.Resolved {
					continue
				}
				path, _, found := core.PathQuery{Fn: mr, Start: rewIf,
					Barrier: func(in ssa.Instruction) bool { return in == t.Site.Instr },
					EdgeOK: func(from *ssa.BasicBlock, succ int) bool {
						if from == rewIf.Block() && succ != posSucc {
							return false
						}
						return core.FeasibleEdge(from, succ)
					},
					Target: func(in ssa.Instruction) bool {
						ret, ok := in.(*ssa.Return)
						return ok && core.ClassifyReturn(ret) != core.ExitFailure
					}}.Find()
				d := ""
				if found {
					d = p.PathString(path)
				}
				okT := !found
				if c, ok := t.Site.Instr.(*ssa.Call); ok {
					okT = okT && core.ErrLeadsToFailure(c)
				}
				r.Check(okT, "C11.mint-rewards", "MintRewards:positive-reward-transferred", p.Pos(t.Site.Pos()), "a positive pool reward is transferred on every success path, error aborting; "+d)
			}
		}
	}
	// ---- wrappers
	nw := 0
	for _, fn := range p.ModFuncs() {
		for _, c := range append(findCalls(fn, spl.String()), findCalls(fn, spu.String())...) {
			if isTooling(p, fn) {
				continue
			}
			nw++
			a := c.Call.Args
			okA := core.ParamOf(a[0]) != nil && core.ParamOf(a[2]) != nil
			getter := ""
			// variadic funcs slice: first element
			for _, rt := range core.Slice(a[len(a)-1]) {
				getter += rt.Desc
			}
			pkgOK := true
			r.Check(okA && pkgOK, "C11.wrappers", "wrapper:"+core.EnclosingNamed(fn).String(), p.Pos(c.Pos()), "passes its own transaction and state context through")
		}
	}
	r.Floor("C11.wrappers", "contract wrappers", nw, 6)
}
