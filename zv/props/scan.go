package props

import (
	"fmt"
	"go/token"
	"go/types"

	"golang.org/x/tools/go/ssa"

	"zv/core"
)

// ---------------------------------------------------------------------------------
// Linear-scan recogniser.
//
// A Scan is a loop that visits every index of one slice field in one direction, applies
// exactly one comparison `elem OP key` (key loop-invariant) per visited element, and on
// each outcome either goes on with the next index or leaves the loop, with no other
// branch and no write to the slice inside the loop.  It is recognised on the SSA form,
// so the source may be a three-clause `for`, a `range`, carry the candidate in a
// variable or return it from a later block; what is fixed is only what the meaning
// below needs.  On a strictly ascending slice the meaning of the value observed after
// the loop follows from (direction, operator, which outcome leaves, what is recorded):
//
//   greatest index whose element is <= key (or < key):
//     ascending,  hit records and continues, miss leaves or continues without recording
//     descending, first hit records and leaves, miss continues
//   index of the element equal to key: operator ==, hit records (either direction).
//
// Everything else is reported undecided by the caller (fail-closed).
// ---------------------------------------------------------------------------------

type Scan struct {
	Fn    *ssa.Function
	Loop  *core.Loop
	Idx   ssa.Value // the visited index (a header phi, or phi+1 for a lowered `range`)
	Asc   bool
	Field *types.Var // scanned slice field
	Recv  ssa.Value  // object owning the field
	Test  *ssa.If
	Op    token.Token // elem Op Key holds on the hit edge
	Key   ssa.Value
	hit   int // successor index of Test that is the hit edge
}

type scanWay struct {
	Continues bool
	subst     map[*ssa.Phi]ssa.Value
	last      *ssa.BasicBlock // predecessor through which the header was re-entered
	end       *ssa.BasicBlock // block where the straight line after leaving the loop stops
}

// loadOfSliceField: v is a load of recv.field; returns recv.
func loadOfAnyField(v ssa.Value) (*types.Var, ssa.Value) {
	ld, ok := v.(*ssa.UnOp)
	if !ok || ld.Op != token.MUL {
		return nil, nil
	}
	fa, ok := ld.X.(*ssa.FieldAddr)
	if !ok {
		return nil, nil
	}
	return core.FieldOf(fa), fa.X
}

func (sc *Scan) isSliceLoad(v ssa.Value) bool {
	f, recv := loadOfAnyField(v)
	return f != nil && f == sc.Field && recv == sc.Recv
}

// IsElem: v is a load of S[Idx].
func (sc *Scan) IsElem(v ssa.Value) bool {
	ld, ok := v.(*ssa.UnOp)
	if !ok || ld.Op != token.MUL {
		return false
	}
	ia, ok := ld.X.(*ssa.IndexAddr)
	return ok && ia.Index == sc.Idx && sc.isSliceLoad(ia.X)
}

// isIdxPhi: ph is the phi underlying a lowered range index.
func (sc *Scan) isIdxPhi(ph *ssa.Phi) bool {
	if b, ok := sc.Idx.(*ssa.BinOp); ok {
		return b.X == ssa.Value(ph)
	}
	return false
}

func mirrorOp(op token.Token) token.Token {
	switch op {
	case token.LSS:
		return token.GTR
	case token.GTR:
		return token.LSS
	case token.LEQ:
		return token.GEQ
	case token.GEQ:
		return token.LEQ
	}
	return op
}

func definedIn(v ssa.Value, l *core.Loop) bool {
	in, ok := v.(ssa.Instruction)
	return ok && in.Block() != nil && l.Body[in.Block()]
}

// FindScans recognises the scans of fn; loops that are not scans are returned in rest
// with the reason.
func FindScans(fn *ssa.Function) (scans []*Scan, rest map[*core.Loop]string) {
	rest = map[*core.Loop]string{}
	for _, l := range core.Loops(fn) {
		sc, why := recogniseScan(fn, l)
		if sc == nil {
			rest[l] = why
			continue
		}
		scans = append(scans, sc)
	}
	return
}

func recogniseScan(fn *ssa.Function, l *core.Loop) (*Scan, string) {
	h := l.Header
	ifi, ok := h.Instrs[len(h.Instrs)-1].(*ssa.If)
	if !ok {
		return nil, "header has no bound test"
	}
	if !l.Body[h.Succs[0]] || l.Body[h.Succs[1]] {
		return nil, "bound test does not enter the body on true and leave on false"
	}
	bo, ok := ifi.Cond.(*ssa.BinOp)
	if !ok {
		return nil, "bound test is not a comparison"
	}
	sc := &Scan{Fn: fn, Loop: l}
	lenOf := func(v ssa.Value) (*types.Var, ssa.Value) {
		c, ok := v.(*ssa.Call)
		if !ok || core.CalleeName(c.Common()) != "builtin.len" {
			return nil, nil
		}
		return loadOfAnyField(c.Call.Args[0])
	}
	// induction variable
	idx, ok := bo.X.(*ssa.Phi)
	if !ok || idx.Block() != h {
		// `range` lowers to k = phi(-1, k'); k' = k+1; k' < len(S)
		b2, isB := bo.X.(*ssa.BinOp)
		if !isB || b2.Op != token.ADD || bo.Op != token.LSS {
			return nil, "bound test is not on a loop-carried index"
		}
		ph, isPhi := b2.X.(*ssa.Phi)
		one, isC := core.ConstInt(b2.Y)
		if !isPhi || ph.Block() != h || !isC || one != 1 {
			return nil, "bound test is not on a loop-carried index"
		}
		for i, e := range ph.Edges {
			if l.Body[h.Preds[i]] {
				if e != ssa.Value(b2) {
					return nil, "range index is reassigned in the loop"
				}
			} else if c, isC := core.ConstInt(e); !isC || c != -1 {
				return nil, "range index does not start before the first element"
			}
		}
		sc.Idx = b2
		sc.Asc = true
		sc.Field, sc.Recv = lenOf(bo.Y)
		if sc.Field == nil {
			return nil, "range is not over a slice field"
		}
	} else {
		sc.Idx = idx
		var init, step ssa.Value
		for i, e := range idx.Edges {
			if l.Body[h.Preds[i]] {
				if step != nil && step != e {
					return nil, "index has two different steps"
				}
				step = e
			} else {
				if init != nil && init != e {
					return nil, "index has two different initial values"
				}
				init = e
			}
		}
		if init == nil || step == nil {
			return nil, "index lacks init or step"
		}
		sb, ok := step.(*ssa.BinOp)
		if !ok || sb.X != ssa.Value(idx) {
			return nil, "index step is not idx±1"
		}
		k, isK := core.ConstInt(sb.Y)
		if !isK || k != 1 || (sb.Op != token.ADD && sb.Op != token.SUB) {
			return nil, "index step is not idx±1"
		}
		sc.Asc = sb.Op == token.ADD
		if sc.Asc {
			// i := 0; i < len(S)
			if z, isC := core.ConstInt(init); !isC || z != 0 {
				return nil, "ascending scan does not start at 0"
			}
			if bo.Op != token.LSS {
				return nil, "ascending scan bound is not idx < len(S)"
			}
			sc.Field, sc.Recv = lenOf(bo.Y)
			if sc.Field == nil {
				return nil, "ascending scan bound is not idx < len(S) of a field"
			}
		} else {
			// i := len(S)-1; i >= 0
			ib, ok := init.(*ssa.BinOp)
			if !ok || ib.Op != token.SUB {
				return nil, "descending scan does not start at len(S)-1"
			}
			if one, isC := core.ConstInt(ib.Y); !isC || one != 1 {
				return nil, "descending scan does not start at len(S)-1"
			}
			sc.Field, sc.Recv = lenOf(ib.X)
			if sc.Field == nil {
				return nil, "descending scan does not start at len(S)-1 of a field"
			}
			z, isC := core.ConstInt(bo.Y)
			switch {
			case isC && z == 0 && bo.Op == token.GEQ:
			case isC && z == -1 && bo.Op == token.GTR:
			default:
				return nil, "descending scan bound is not idx >= 0"
			}
		}
	}
	if _, isSl := sc.Field.Type().Underlying().(*types.Slice); !isSl {
		return nil, "scanned field is not a slice"
	}
	// body: straight line to the single element test; no writes to S, no calls but builtins
	for b := range l.Body {
		for _, in := range b.Instrs {
			switch x := in.(type) {
			case *ssa.Store:
				if fa, ok := x.Addr.(*ssa.FieldAddr); ok && core.FieldOf(fa) == sc.Field {
					return nil, "loop writes the scanned slice"
				}
				if ia, ok := x.Addr.(*ssa.IndexAddr); ok && sc.isSliceLoad(ia.X) {
					return nil, "loop writes an element of the scanned slice"
				}
			case *ssa.Call:
				n := core.CalleeName(x.Common())
				if n != "builtin.len" && n != "builtin.append" && n != "builtin.cap" {
					return nil, "loop calls " + n
				}
			case *ssa.Go, *ssa.Defer, *ssa.MapUpdate, *ssa.Send:
				return nil, "loop has an effect other than collecting"
			}
		}
	}
	cur := h.Succs[0]
	for {
		last := cur.Instrs[len(cur.Instrs)-1]
		if t, ok := last.(*ssa.If); ok {
			sc.Test = t
			break
		}
		if _, ok := last.(*ssa.Jump); !ok || !l.Body[cur.Succs[0]] || cur.Succs[0] == h {
			return nil, "body has no element test"
		}
		cur = cur.Succs[0]
	}
	cond, taken := stripNot(sc.Test.Cond, true)
	cb, ok := cond.(*ssa.BinOp)
	if !ok {
		return nil, "element test is not a comparison"
	}
	op := cb.Op
	switch op {
	case token.EQL, token.NEQ, token.LSS, token.GTR, token.LEQ, token.GEQ:
	default:
		return nil, "element test is not a comparison"
	}
	switch {
	case sc.IsElem(cb.X) && !definedIn(cb.Y, l):
		sc.Key = cb.Y
	case sc.IsElem(cb.Y) && !definedIn(cb.X, l):
		sc.Key = cb.X
		op = mirrorOp(op)
	default:
		return nil, "element test does not compare S[idx] with a loop-invariant key"
	}
	sc.hit = 0
	if !taken {
		sc.hit = 1
	}
	if op == token.NEQ || op == token.GTR || op == token.GEQ {
		// the hit edge is the one on which elem ==, < or <= key holds
		op = negate(op)
		sc.hit = 1 - sc.hit
	}
	sc.Op = op
	// after the test: each edge is a straight line to the header or out of the loop
	for i := 0; i < 2; i++ {
		if _, ok := sc.way(i); !ok {
			return nil, "a branch other than the element test inside the loop"
		}
	}
	return sc, ""
}

// way follows edge i of the element test.
func (sc *Scan) way(i int) (scanWay, bool) {
	w := scanWay{subst: map[*ssa.Phi]ssa.Value{}}
	prev, cur := sc.Test.Block(), sc.Test.Block().Succs[i]
	for steps := 0; steps < 32; steps++ {
		for _, in := range cur.Instrs {
			ph, ok := in.(*ssa.Phi)
			if !ok {
				break
			}
			if cur == sc.Loop.Header {
				continue
			}
			for j, p := range cur.Preds {
				if p == prev {
					w.subst[ph] = ph.Edges[j]
				}
			}
		}
		if cur == sc.Loop.Header {
			w.Continues = true
			w.last = prev
			return w, true
		}
		if !sc.Loop.Body[cur] {
			// left the loop: keep substituting through the straight line that follows
			w.last = prev
			for steps2 := 0; steps2 < 32; steps2++ {
				if _, ok := cur.Instrs[len(cur.Instrs)-1].(*ssa.Jump); !ok {
					break
				}
				prev, cur = cur, cur.Succs[0]
				for _, in := range cur.Instrs {
					ph, ok := in.(*ssa.Phi)
					if !ok {
						break
					}
					for j, p := range cur.Preds {
						if p == prev {
							if _, dup := w.subst[ph]; !dup {
								w.subst[ph] = ph.Edges[j]
							}
						}
					}
				}
			}
			w.end = cur
			return w, true
		}
		if _, ok := cur.Instrs[len(cur.Instrs)-1].(*ssa.Jump); !ok {
			return w, false
		}
		prev, cur = cur, cur.Succs[0]
	}
	return w, false
}

func (w scanWay) resolve(v ssa.Value) ssa.Value {
	for i := 0; i < 8; i++ {
		ph, ok := v.(*ssa.Phi)
		if !ok {
			return v
		}
		n, ok := w.subst[ph]
		if !ok {
			return v
		}
		v = n
	}
	return v
}

// natWay is the way out of the loop when the index runs out.
func (sc *Scan) natWay() scanWay {
	h := sc.Loop.Header
	w := scanWay{subst: map[*ssa.Phi]ssa.Value{}, last: h}
	prev, cur := h, h.Succs[1]
	for steps := 0; steps < 32; steps++ {
		for _, in := range cur.Instrs {
			ph, ok := in.(*ssa.Phi)
			if !ok {
				break
			}
			for j, p := range cur.Preds {
				if p == prev {
					if _, dup := w.subst[ph]; !dup {
						w.subst[ph] = ph.Edges[j]
					}
				}
			}
		}
		if _, ok := cur.Instrs[len(cur.Instrs)-1].(*ssa.Jump); !ok {
			break
		}
		prev, cur = cur, cur.Succs[0]
	}
	w.end = cur
	return w
}

// scanObserver yields the observed value on a way out of the loop (nil: not observable).
type scanObserver func(w scanWay) ssa.Value

// ObserveValue observes one SSA value after the loop.
func ObserveValue(r ssa.Value) scanObserver {
	return func(w scanWay) ssa.Value { return w.resolve(r) }
}

// ObserveResult observes the function's i-th result: each way must end in a return.
func ObserveResult(i int) scanObserver {
	return func(w scanWay) ssa.Value {
		if w.end == nil {
			return nil
		}
		ret, ok := w.end.Instrs[len(w.end.Instrs)-1].(*ssa.Return)
		if !ok {
			return nil
		}
		return w.resolve(core.ResultValue(ret, i))
	}
}

// EndsAt: the returns in which the ways out of the loop end.
func (sc *Scan) EndsAt() map[*ssa.BasicBlock]bool {
	out := map[*ssa.BasicBlock]bool{}
	out[sc.natWay().end] = true
	for i := 0; i < 2; i++ {
		if w, ok := sc.way(i); ok && !w.Continues && w.end != nil {
			out[w.end] = true
		}
	}
	return out
}

// ScanMeaning is what a value observed after the loop denotes on a strictly ascending
// slice.
type ScanMeaning struct {
	Kind   string // "greatest" (greatest index with elem Op key) | "equal" (index of key)
	Op     token.Token
	Yields string    // "index" | "elem"
	None   ssa.Value // value when no element qualifies
}

// Meaning decides what r (a header phi or a phi where the loop's exits meet) denotes.
func (sc *Scan) Meaning(r ssa.Value) (*ScanMeaning, string) {
	return sc.MeaningOf(ObserveValue(r))
}

// MeaningOf decides what the observed value denotes.
func (sc *Scan) MeaningOf(obs scanObserver) (*ScanMeaning, string) {
	hitW, _ := sc.way(sc.hit)
	missW, _ := sc.way(1 - sc.hit)
	h := sc.Loop.Header
	// the candidate: header phi that r is, or resolves to, on some way
	var cand *ssa.Phi
	asCand := func(v ssa.Value) {
		if ph, ok := v.(*ssa.Phi); ok && ph.Block() == h && ssa.Value(ph) != sc.Idx && !sc.isIdxPhi(ph) {
			cand = ph
		}
	}
	natW := sc.natWay()
	nat := obs(natW)
	if nat == nil {
		return nil, "nothing is observed when the index runs out"
	}
	asCand(nat)
	var hitV, missV ssa.Value
	if !hitW.Continues {
		if hitV = obs(hitW); hitV == nil {
			return nil, "nothing is observed when the loop is left on a hit"
		}
		asCand(hitV)
	}
	if !missW.Continues {
		if missV = obs(missW); missV == nil {
			return nil, "nothing is observed when the loop is left on a miss"
		}
		asCand(missV)
	}
	classify := func(v ssa.Value) string {
		switch {
		case v == sc.Idx:
			return "index"
		case sc.IsElem(v):
			return "elem"
		case cand != nil && v == ssa.Value(cand):
			return "cand"
		}
		if _, ok := v.(*ssa.Const); ok {
			return "const"
		}
		return "other"
	}
	// candidate updates along continuing ways, and its initial value
	var candInit ssa.Value
	upd := func(w scanWay) string {
		if cand == nil {
			return "cand"
		}
		for j, p := range h.Preds {
			if p == w.last {
				return classify(w.resolve(cand.Edges[j]))
			}
		}
		return "other"
	}
	if cand != nil {
		for j, p := range h.Preds {
			if !sc.Loop.Body[p] {
				if candInit != nil && candInit != cand.Edges[j] {
					return nil, "candidate has two initial values"
				}
				candInit = cand.Edges[j]
			}
		}
	}
	// value of r when nothing qualified
	none := nat
	if classify(nat) == "cand" {
		none = candInit
	}
	if _, ok := none.(*ssa.Const); !ok {
		return nil, "the result when no element qualifies is not a constant"
	}
	m := &ScanMeaning{Op: sc.Op, None: none}
	record := ""
	switch {
	case hitW.Continues:
		record = upd(hitW)
		if record != "index" && record != "elem" {
			return nil, "a hit that continues does not record the index or the element"
		}
		if classify(nat) != "cand" {
			return nil, "the recorded candidate is not what the loop yields at its end"
		}
		if missW.Continues {
			if upd(missW) != "cand" {
				return nil, "a miss changes the candidate"
			}
		} else if classify(missV) != "cand" {
			return nil, "leaving on a miss does not yield the candidate"
		}
	default:
		record = classify(hitV)
		if record != "index" && record != "elem" {
			return nil, "leaving on a hit does not yield the index or the element"
		}
		if !missW.Continues {
			return nil, "both outcomes leave the loop"
		}
		if upd(missW) != "cand" {
			return nil, "a miss changes the candidate"
		}
		if cn := classify(nat); cn != "const" && !(cn == "cand" && candInit != nil) {
			return nil, "running out of elements does not yield the none value"
		}
	}
	m.Yields = record
	switch sc.Op {
	case token.EQL:
		m.Kind = "equal"
		return m, ""
	case token.LEQ, token.LSS:
		// elements satisfying `elem <(=) key` form a prefix of an ascending slice
		if sc.Asc && hitW.Continues {
			m.Kind = "greatest" // last hit of the prefix (a miss may leave: nothing later qualifies)
			return m, ""
		}
		if !sc.Asc && !hitW.Continues {
			m.Kind = "greatest" // first hit from the top
			return m, ""
		}
		return nil, fmt.Sprintf("scan direction asc=%v with hit-continues=%v does not yield the greatest qualifying index", sc.Asc, hitW.Continues)
	}
	return nil, "operator " + sc.Op.String() + " (elem vs key) is not a floor/insertion/equality test"
}

// ---------------------------------------------------------------------------------
// Sequence expressions: what a slice value is made of.
// ---------------------------------------------------------------------------------

type SeqPart struct {
	Single ssa.Value  // one element with this value, or
	Field  *types.Var // a view S[Lo:Hi] of a slice field (Lo/Hi nil = open)
	Recv   ssa.Value
	Lo, Hi ssa.Value
	At     ssa.Instruction // instruction that consumed the part (append/slice)
}

// arrayLiteral: v is `slice t[:]` of a fresh array whose every element is stored once;
// returns the stored values in order.
func arrayLiteral(v ssa.Value) ([]ssa.Value, bool) {
	sl, ok := v.(*ssa.Slice)
	if !ok || sl.Low != nil || sl.High != nil {
		return nil, false
	}
	al, ok := sl.X.(*ssa.Alloc)
	if !ok {
		return nil, false
	}
	pt, ok := al.Type().Underlying().(*types.Pointer)
	if !ok {
		return nil, false
	}
	at, ok := pt.Elem().Underlying().(*types.Array)
	if !ok {
		return nil, false
	}
	vals := make([]ssa.Value, at.Len())
	for _, ref := range *al.Referrers() {
		ia, ok := ref.(*ssa.IndexAddr)
		if !ok {
			if ref == ssa.Instruction(sl) {
				continue
			}
			if _, isDbg := ref.(*ssa.DebugRef); isDbg {
				continue
			}
			return nil, false
		}
		k, isK := core.ConstInt(ia.Index)
		if !isK || k < 0 || k >= at.Len() {
			return nil, false
		}
		for _, r2 := range *ia.Referrers() {
			st, ok := r2.(*ssa.Store)
			if !ok || st.Addr != ssa.Value(ia) || vals[k] != nil {
				return nil, false
			}
			vals[k] = st.Val
		}
	}
	for _, x := range vals {
		if x == nil {
			return nil, false
		}
	}
	return vals, true
}

// SeqOf decomposes a slice value into parts; ok=false when some piece is not understood.
func SeqOf(v ssa.Value, depth int) ([]SeqPart, bool) {
	if depth > 6 {
		return nil, false
	}
	if vals, ok := arrayLiteral(v); ok {
		var out []SeqPart
		for _, x := range vals {
			out = append(out, SeqPart{Single: x})
		}
		return out, true
	}
	if f, recv := loadOfAnyField(v); f != nil {
		return []SeqPart{{Field: f, Recv: recv}}, true
	}
	switch x := v.(type) {
	case *ssa.Slice:
		if f, recv := loadOfAnyField(x.X); f != nil && x.Max == nil {
			return []SeqPart{{Field: f, Recv: recv, Lo: x.Low, Hi: x.High, At: x}}, true
		}
	case *ssa.Call:
		if core.CalleeName(x.Common()) != "builtin.append" || len(x.Call.Args) != 2 {
			return nil, false
		}
		a, ok := SeqOf(x.Call.Args[0], depth+1)
		if !ok {
			return nil, false
		}
		b, ok := SeqOf(x.Call.Args[1], depth+1)
		if !ok {
			return nil, false
		}
		for i := range b {
			if b[i].At == nil || b[i].Field != nil {
				b[i].At = x
			}
		}
		return append(a, b...), true
	case *ssa.Const:
		if x.Value == nil {
			return nil, true // nil slice
		}
	}
	return nil, false
}

// seqClobberHazard: an append whose destination is a view S[:hi] overwrites S[hi:] in
// place; a later append that reads a view of S would copy the overwritten data.
func seqClobberHazard(v ssa.Value) string {
	var appends []*ssa.Call
	var walk func(v ssa.Value, d int)
	walk = func(v ssa.Value, d int) {
		c, ok := v.(*ssa.Call)
		if !ok || d > 6 || core.CalleeName(c.Common()) != "builtin.append" {
			return
		}
		walk(c.Call.Args[0], d+1)
		walk(c.Call.Args[1], d+1)
		appends = append(appends, c)
	}
	walk(v, 0)
	viewOf := func(v ssa.Value) (*types.Var, bool) {
		if f, _ := loadOfAnyField(v); f != nil {
			return f, false
		}
		if sl, ok := v.(*ssa.Slice); ok {
			if f, _ := loadOfAnyField(sl.X); f != nil {
				return f, sl.High != nil && sl.Max == nil
			}
		}
		return nil, false
	}
	for _, a := range appends {
		f, clobbers := viewOf(a.Call.Args[0])
		if f == nil || !clobbers {
			continue
		}
		for _, b := range appends {
			if b == a || !instrBefore(a, b) {
				continue
			}
			if g, _ := viewOf(b.Call.Args[1]); g == f {
				return "append into a view of the slice precedes an append that reads the slice: the source is already overwritten"
			}
		}
	}
	return ""
}
