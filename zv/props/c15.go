package props

import (
	"fmt"
	"go/token"
	"sort"
	"strings"

	"golang.org/x/tools/go/ssa"

	"zv/core"
)

func init() { register("C15", "other", c15) }

// plainBoolRejects: the single bool result of call is branched on and its false edge
// leads only to failure exits (for functions returning bool: to `return false`).
func plainBoolRejects(call *ssa.Call, falseMeansReject func(b *ssa.BasicBlock) bool) bool {
	found := false
	for _, a := range core.ValueAliases(call) {
		for _, r2 := range *a.Referrers() {
			var ifi *ssa.If
			falseIdx := 1
			switch u := r2.(type) {
			case *ssa.If:
				ifi = u
			case *ssa.UnOp:
				if u.Op != token.NOT {
					continue
				}
				for _, r3 := range *u.Referrers() {
					if i3, ok := r3.(*ssa.If); ok {
						ifi, falseIdx = i3, 0
					}
				}
			}
			if ifi == nil {
				continue
			}
			if !falseMeansReject(ifi.Block().Succs[falseIdx]) {
				return false
			}
			found = true
		}
	}
	return found
}

// errEdgesAll: the call's error is tested and every non-nil edge satisfies pred.
func errEdgesAll(call *ssa.Call, pred func(*ssa.BasicBlock) bool) bool {
	ev := core.ErrResult(call)
	if ev == nil {
		return false
	}
	brs := core.NilBranches(ev)
	if len(brs) == 0 {
		return false
	}
	for _, br := range brs {
		if !pred(br.If.Block().Succs[br.NonNilSucc]) {
			return false
		}
	}
	return true
}

func failsOnlyBlock(b *ssa.BasicBlock) bool { return core.FailsOnly(b, map[*ssa.BasicBlock]bool{}) }

// returnsOnlyFalse: every path from b ends in `return false` (bool function).
func returnsOnlyFalse(b *ssa.BasicBlock) bool {
	seen := map[*ssa.BasicBlock]bool{}
	var walk func(b *ssa.BasicBlock) bool
	walk = func(b *ssa.BasicBlock) bool {
		if seen[b] {
			return true
		}
		seen[b] = true
		if len(b.Succs) == 0 {
			if core.BlockPanics(b) {
				return true
			}
			ret, ok := b.Instrs[len(b.Instrs)-1].(*ssa.Return)
			if !ok || len(ret.Results) == 0 {
				return false
			}
			k, ok := core.ResultValue(ret, 0).(*ssa.Const)
			return ok && k.Value != nil && k.Value.ExactString() == "false"
		}
		for _, s := range b.Succs {
			if !walk(s) {
				return false
			}
		}
		return true
	}
	return walk(b)
}

// C15 Read markers charge each read exactly once.
func c15(r *core.Report, p *core.Prog, thorough bool) {
	r.Explain = "Decided (structure of storagesc:read_redeem): the payment (readPool.moveToBlobber) is reached only after (a) the marker's public key was bound to its client id (VerifyClientID: hash(key) == ClientID, error aborting), (b) ReadMarker.Verify passed against the marker last stored under the key hash(blobber+client+allocation) of this very request — same client, same blobber, counter not lower, and a signature by the marker's own key over allocation, blobber, client, counter and timestamp — (c) the allocation named by the marker was loaded, the marker's timestamp lies inside its window and the blobber belongs to it; the charged amount is computed from (marker counter − last stored counter, 0 when none) and the read price of that blobber's terms; the pool debited is the read pool of the marker's client, debited by exactly the amount credited as reward, never below zero; read pool, stake pool and the marker itself (under the same key it was looked up with) are saved on every success path, errors aborting, so a replay meets its own counter. Not decided: price arithmetic (float), sums over histories."
	r.Rule("C15.key-binding", "payment is preceded by an error-checked VerifyClientID on the request's marker; VerifyClientID succeeds only when Hash(Serialize(key parsed from rm.ClientPublicKey)) == rm.ClientID")
	r.Rule("C15.verify", "payment is preceded by an error-checked rm.Verify(prev) where prev is the ReadMarker of the object loaded from the request's own GetKey; a load error other than 'value not present' aborts")
	r.Rule("C15.monotone", "Verify: with a previous marker, success requires same ClientID, same BlobberID and !(rm.ReadCounter < prev.ReadCounter); a positive counter is required")
	r.Rule("C15.signature", "Verify succeeds only when VerifySignature(rm.ClientPublicKey) is true; VerifySignature returns true only when SetPublicKey(key) succeeded and scheme.Verify(rm.Signature, Hash(GetHashData())) returned (true, nil); GetHashData flows from AllocationID, BlobberID, ClientID, ReadCounter, Timestamp")
	r.Rule("C15.delta", "the amount passed to moveToBlobber derives from (request counter − last stored counter | 0) and the ReadPrice of the allocation's entry whose BlobberID equals the marker's")
	r.Rule("C15.window", "payment is dominated by marker.Timestamp >= alloc.StartTime and <= alloc.Expiration for the allocation loaded by the marker's AllocationID, and by blobber membership")
	r.Rule("C15.pools", "the read pool is the one of the marker's client; read pool, stake pool and the marker (same key as the lookup) are saved on every success path after the payment, errors aborting; nothing rewrites the marker's counter")
	r.Rule("C15.mover", "moveToBlobber: the only store to rp.Balance is balance − value under !(value > balance); exactly value is distributed as reward, error aborting")
	r.Rule("C15.key", "ReadConnection.GetKey flows from BlobberID, ClientID and AllocationID of the marker")

	recv := "(*" + pkgStorage + ".StorageSmartContract)."
	hs := BuildHandlers(p).Get("storagesc:read_redeem")
	if len(hs) != 1 {
		r.Unresolved("C15.verify", "storagesc:read_redeem handler")
		return
	}
	h := hs[0]
	_ = recv
	rmT := "(*" + pkgStorage + ".ReadMarker)."
	verify := p.Func(rmT + "Verify")
	verifySig := p.Func(rmT + "VerifySignature")
	verifyCID := p.Func(rmT + "VerifyClientID")
	hashData := p.Func(rmT + "GetHashData")
	getKey := p.Func("(*" + pkgStorage + ".ReadConnection).GetKey")
	mover := p.Func("(*" + pkgStorage + ".readPool).moveToBlobber")
	if verify == nil || verifySig == nil || verifyCID == nil || hashData == nil || getKey == nil || mover == nil {
		r.Unresolved("C15.verify", "ReadMarker.Verify/VerifySignature/VerifyClientID/GetHashData, ReadConnection.GetKey, readPool.moveToBlobber")
		return
	}
	// ---- the payment
	pays := findCallsTo(h, mover)
	var callers int
	for _, fn := range p.ModFuncs() {
		if isTooling(p, fn) {
			continue
		}
		callers += len(findCallsTo(fn, mover))
	}
	if !r.Check(len(pays) == 1 && callers == 1, "C15.mover", "moveToBlobber:single-call-site", p.Pos(h.Pos()), fmt.Sprintf("%d call(s) in the handler, %d in the module (want 1/1)", len(pays), callers)) {
		return
	}
	pay := pays[0]
	// the request object: root of the receiver of the dominating Verify call / GetKey
	// found as the root object whose .ReadMarker is passed around.
	var reqRoot ssa.Value
	{
		rt, path := core.BaseObject(pay.Call.Args[1]) // allocID argument
		if path == ".ReadMarker.AllocationID" {
			reqRoot = rt
		}
	}
	if reqRoot == nil {
		// fall back: the object decoded from input
		for _, c := range callsByMethod(h, "Decode", "ReadConnection") {
			reqRoot, _ = core.BaseObject(core.Receiver(c.Common()))
		}
	}
	if reqRoot == nil {
		r.Unresolved("C15.verify", "request ReadConnection object in the handler")
		return
	}
	isReq := func(v ssa.Value, path string) bool { return isLoadOf(v, reqRoot, path) }

	// ---- key binding
	cidCall := EstablishedBefore(pay, func(c *ssa.Call) bool {
		if c.Common().StaticCallee() != verifyCID {
			return false
		}
		// receiver must be the request's marker when evaluated in the handler; inside a
		// wrapper the receiver is the wrapper's own marker (checked by type).
		if c.Parent() == h {
			return isReq(core.Receiver(c.Common()), ".ReadMarker")
		}
		return true
	}, 2)
	r.Check(cidCall != nil, "C15.key-binding", "read_redeem:VerifyClientID-before-payment", p.Pos(pay.Pos()), "every path to the payment passes an error-checked VerifyClientID of the request's marker (unconditionally — also when a previous marker exists)")
	c15ClientID(r, p, verifyCID)

	// ---- verify against the stored marker
	var vCall *ssa.Call
	for _, c := range findCallsTo(h, verify) {
		if callDominates(c, pay) && core.ErrLeadsToFailure(c) && isReq(core.Receiver(c.Common()), ".ReadMarker") {
			vCall = c
		}
	}
	if r.Check(vCall != nil, "C15.verify", "read_redeem:Verify-before-payment", p.Pos(pay.Pos()), "every path to the payment passes an error-checked Verify of the request's marker") {
		prevRoot, prevPath := core.BaseObject(core.CallArgs(vCall.Common())[0])
		okPrev := false
		var load *ssa.Call
		if prevPath == ".ReadMarker" {
			for _, c := range methodCalls(h, "GetTrieNode") {
				args := core.CallArgs(c.Common())
				if len(args) != 2 {
					continue
				}
				if rt, pth := core.BaseObject(args[1]); rt == prevRoot && pth == "" {
					if kc, ok := args[0].(*ssa.Call); ok && kc.Common().StaticCallee() == getKey {
						if krt, kp := core.BaseObject(core.Receiver(kc.Common())); krt == reqRoot && kp == "" && callDominates(c, vCall) {
							okPrev, load = true, c
						}
					}
				}
			}
		}
		r.Check(okPrev, "C15.verify", "read_redeem:previous-marker-from-own-key", p.Pos(vCall.Pos()), "the marker compared against is the one stored under GetKey of this request (blobber+client+allocation); got "+describe(core.CallArgs(vCall.Common())[0]))
		if load != nil {
			ok, why := errToleratedOnly(p, load, func(g *ssa.Global) bool { return g.Name() == "ErrValueNotPresent" })
			r.Check(ok, "C15.verify", "read_redeem:lookup-error-aborts", p.Pos(load.Pos()), "a failed lookup of the last marker (other than 'not present') must abort — otherwise the counter restarts from 0 and old reads are charged again; "+why)
			c15Delta(r, p, h, pay, reqRoot, prevRoot, load)
		}
	}
	c15Verify(r, p, verify, verifySig, hashData)

	// ---- window and membership
	c15Window(r, p, h, pay, reqRoot)

	// ---- pools and record
	c15Pools(r, p, h, pay, reqRoot, getKey)

	// ---- mover
	c15Mover(r, p, mover)

	// ---- key coverage
	kf := ResultFlowFields(getKey, 0)
	for _, f := range []string{"ReadMarker.BlobberID", "ReadMarker.ClientID", "ReadMarker.AllocationID"} {
		r.Check(kf[f], "C15.key", "GetKey:"+f, p.Pos(getKey.Pos()), "the counter key must separate (blobber, client, allocation) triples; fields flowing into the key: "+fmtList(sortedKeys(kf)))
	}
}

func sortedKeys(m map[string]bool) []string {
	var out []string
	for k := range m {
		out = append(out, k)
	}
	sort.Strings(out)
	return out
}

// c15ClientID: VerifyClientID's success exits are dominated by Hash(Serialize(pub)) ==
// rm.ClientID with pub parsed (error-checked) from rm.ClientPublicKey.
func c15ClientID(r *core.Report, p *core.Prog, fn *ssa.Function) {
	rm := fn.Params[0]
	exits := core.SuccessExits(fn)
	ok := len(exits) > 0
	why := ""
	for _, ret := range exits {
		good := false
		for _, f := range CmpFacts(ret.Block()) {
			if f.Op != token.EQL {
				continue
			}
			x, y := f.X, f.Y
			if isLoadOf(x, rm, ".ClientID") {
				x, y = y, x
			}
			if !isLoadOf(y, rm, ".ClientID") {
				continue
			}
			// x = Hash(Serialize(pub)) ; pub deserialised from rm.ClientPublicKey
			_, leaves := FlowLoads(x)
			hasHash, hasSer := false, false
			var pub ssa.Value
			for _, l := range leaves {
				if c, ok := l.(*ssa.Call); ok {
					switch {
					case core.CalleeName(c.Common()) == "0chain.net/core/encryption.Hash":
						hasHash = true
					case core.MethodName(c.Common()) == "Serialize":
						hasSer = true
						pub = core.Receiver(c.Common())
					}
				}
			}
			if !hasHash || !hasSer || pub == nil {
				continue
			}
			for _, c := range methodCalls(fn, "DeserializeHexStr") {
				if core.Receiver(c.Common()) == pub && core.ErrLeadsToFailure(c) && callDominates(c, ret) && isLoadOf(core.CallArgs(c.Common())[0], rm, ".ClientPublicKey") {
					good = true
				}
			}
		}
		if !good {
			ok = false
			why = "success exit at " + p.Pos(ret.Pos()) + " not dominated by Hash(Serialize(key from rm.ClientPublicKey)) == rm.ClientID"
		}
	}
	r.Check(ok, "C15.key-binding", "VerifyClientID:hash-of-key-equals-client", p.Pos(fn.Pos()), "the marker's public key is the key of the client whose pool is charged; "+why)
}

// c15Verify: structure of ReadMarker.Verify, VerifySignature and GetHashData.
func c15Verify(r *core.Report, p *core.Prog, verify, verifySig, hashData *ssa.Function) {
	rm, prev := verify.Params[0], verify.Params[1]
	// --- monotone: find the prev != nil test
	var nilIf *ssa.If
	nonNilSucc := 0
	for _, b := range verify.Blocks {
		ifi, ok := b.Instrs[len(b.Instrs)-1].(*ssa.If)
		if !ok {
			continue
		}
		cv, pol := stripNot(ifi.Cond, true)
		bo, ok := cv.(*ssa.BinOp)
		if !ok || (bo.Op != token.NEQ && bo.Op != token.EQL) {
			continue
		}
		if (bo.X == ssa.Value(prev) && core.IsNilConst(bo.Y)) || (bo.Y == ssa.Value(prev) && core.IsNilConst(bo.X)) {
			nilIf = ifi
			if (bo.Op == token.NEQ) == pol {
				nonNilSucc = 0
			} else {
				nonNilSucc = 1
			}
		}
	}
	if !r.Check(nilIf != nil, "C15.monotone", "Verify:previous-marker-branch", p.Pos(verify.Pos()), "Verify distinguishes 'no previous marker' by prev == nil") {
		return
	}
	type need struct {
		name, path string
		bad        []token.Token // comparison (rm.path OP prev.path) under which success is forbidden
	}
	needs := []need{
		{"same-client", ".ClientID", []token.Token{token.NEQ}},
		{"same-blobber", ".BlobberID", []token.Token{token.NEQ}},
		{"counter-not-lower", ".ReadCounter", []token.Token{token.LSS}},
	}
	mirror := map[token.Token]token.Token{token.EQL: token.EQL, token.NEQ: token.NEQ, token.LSS: token.GTR, token.GTR: token.LSS, token.LEQ: token.GEQ, token.GEQ: token.LEQ}
	for _, nd := range needs {
		// Ifs comparing rm.path with prev.path; on each, the edge(s) on which "bad" may
		// hold must fail; and no path prev!=nil → success avoids all such Ifs.
		tests := map[ssa.Instruction]bool{}
		allFail := true
		for _, b := range verify.Blocks {
			ifi, ok := b.Instrs[len(b.Instrs)-1].(*ssa.If)
			if !ok {
				continue
			}
			cv, pol := stripNot(ifi.Cond, true)
			bo, ok := cv.(*ssa.BinOp)
			if !ok {
				continue
			}
			op := bo.Op
			switch {
			case isLoadOf(bo.X, rm, nd.path) && isLoadOf(bo.Y, prev, nd.path):
			case isLoadOf(bo.Y, rm, nd.path) && isLoadOf(bo.X, prev, nd.path):
				op = mirror[op]
			default:
				continue
			}
			// op is "rm.f OP prev.f" true on edge pol?0:1
			for succ := 0; succ < 2; succ++ {
				holds := op
				if (succ == 0) != pol {
					holds = negate(op)
				}
				// does `holds` permit the bad relation?
				permits := false
				for _, bad := range nd.bad {
					if relPermits(holds, bad) {
						permits = true
					}
				}
				if permits && !failsOnlyBlock(ifi.Block().Succs[succ]) {
					allFail = false
				}
			}
			tests[ifi] = true
		}
		okN := len(tests) > 0 && allFail
		why := ""
		if okN {
			path, _, found := core.PathQuery{Fn: verify, Start: nilIf,
				Barrier: func(in ssa.Instruction) bool { return tests[in] },
				EdgeOK: func(from *ssa.BasicBlock, succ int) bool {
					if from == nilIf.Block() && succ != nonNilSucc {
						return false
					}
					return core.FeasibleEdge(from, succ)
				},
				Target: func(in ssa.Instruction) bool {
					ret, ok := in.(*ssa.Return)
					return ok && core.ClassifyReturn(ret) != core.ExitFailure
				}}.Find()
			if found {
				okN = false
				why = "success reachable with a previous marker without the test: " + p.PathString(path)
			}
		} else if len(tests) == 0 {
			why = "no comparison of rm" + nd.path + " with prev" + nd.path
		} else {
			why = "an edge on which the forbidden relation may hold does not fail"
		}
		r.Check(okN, "C15.monotone", "Verify:"+nd.name, p.Pos(verify.Pos()), "with a previous marker, success requires "+nd.name+"; "+why)
	}
	// positive counter
	okPos := false
	for _, ret := range core.SuccessExits(verify) {
		okPos = false
		for _, f := range CmpFacts(ret.Block()) {
			if isLoadOf(f.X, rm, ".ReadCounter") {
				if k, ok := core.ConstInt(f.Y); ok && ((f.Op == token.GTR && k >= 0) || (f.Op == token.GEQ && k >= 1)) {
					okPos = true
				}
			}
		}
		if !okPos {
			break
		}
	}
	r.Check(okPos, "C15.monotone", "Verify:positive-counter", p.Pos(verify.Pos()), "a marker with a non-positive counter is rejected (first redemption cannot yield a negative delta)")

	// --- signature
	okSig := len(core.SuccessExits(verify)) > 0
	for _, ret := range core.SuccessExits(verify) {
		good := false
		for _, f := range core.FactsAt(ret.Block()) {
			cv, taken := stripNot(f.Cond, f.Taken)
			if c, ok := cv.(*ssa.Call); ok && taken && c.Common().StaticCallee() == verifySig &&
				core.Receiver(c.Common()) == ssa.Value(rm) && isLoadOf(core.CallArgs(c.Common())[0], rm, ".ClientPublicKey") {
				good = true
			}
		}
		if !good {
			okSig = false
		}
	}
	r.Check(okSig, "C15.signature", "Verify:signature-on-every-success", p.Pos(verify.Pos()), "every success exit of Verify is dominated by VerifySignature(rm.ClientPublicKey) == true")
	// VerifySignature body
	vrm, key := verifySig.Params[0], verifySig.Params[1]
	okBody := false
	why := "no `return true`"
	// every way the function can yield true: a `return true`, or a returned value that is the
	// verification's own boolean (directly, or as the right operand of a short-circuit whose
	// other edges are the constant false); each is judged under the facts that hold there
	type trueCase struct {
		facts  []core.Fact
		viaVal *ssa.Call // non-nil: the value returned IS the ok of this Verify call
		pos    token.Pos
	}
	var cases []trueCase
	okBody = true
	var addValue func(v ssa.Value, facts []core.Fact, pos token.Pos, depth int)
	addValue = func(v ssa.Value, facts []core.Fact, pos token.Pos, depth int) {
		if k, isK := v.(*ssa.Const); isK && k.Value != nil {
			if k.Value.ExactString() == "true" {
				cases = append(cases, trueCase{facts, nil, pos})
			}
			return
		}
		if e, ok := v.(*ssa.Extract); ok && e.Index == 0 {
			if c, ok := e.Tuple.(*ssa.Call); ok && core.MethodName(c.Common()) == "Verify" {
				cases = append(cases, trueCase{facts, c, pos})
				return
			}
		}
		if ph, ok := v.(*ssa.Phi); ok && depth < 3 {
			for i, e := range ph.Edges {
				pred := ph.Block().Preds[i]
				addValue(e, append(core.FactsAt(pred), factsOfEdge(pred, ph.Block())...), pos, depth+1)
			}
			return
		}
		okBody, why = false, "returns a value that is neither a constant nor the verification's result at "+p.Pos(pos)
	}
	for _, ret := range core.Returns(verifySig) {
		addValue(core.ResultValue(ret, 0), core.FactsAt(ret.Block()), ret.Pos(), 0)
	}
	if okBody && len(cases) == 0 {
		okBody, why = false, "no way to return true"
	}
	for _, tc := range cases {
		if !okBody {
			break
		}
		// return true: needs facts
		var vcall *ssa.Call
		okTrue, errNil, keySet := false, false, false
		if tc.viaVal != nil {
			vcall, okTrue = tc.viaVal, true
		}
		for _, f := range tc.facts {
			cv, taken := stripNot(f.Cond, f.Taken)
			if e, ok := cv.(*ssa.Extract); ok && taken && e.Index == 0 {
				if c, ok := e.Tuple.(*ssa.Call); ok && core.MethodName(c.Common()) == "Verify" {
					vcall, okTrue = c, true
				}
			}
		}
		if vcall != nil {
			for _, f := range tc.facts {
				if x, isNil, ok := core.NilFact(f); ok && isNil {
					if e, ok := x.(*ssa.Extract); ok && e.Tuple == ssa.Value(vcall) && e.Index == 1 {
						errNil = true
					}
				}
			}
			args := core.CallArgs(vcall.Common())
			sigOK := len(args) == 2 && isLoadOf(args[0], vrm, ".Signature")
			hashOK := false
			if len(args) == 2 {
				_, leaves := FlowLoads(args[1])
				hasHash, hasData := false, false
				for _, l := range leaves {
					if c, ok := l.(*ssa.Call); ok {
						if core.CalleeName(c.Common()) == "0chain.net/core/encryption.Hash" {
							hasHash = true
						}
						if c.Common().StaticCallee() == hashData && core.Receiver(c.Common()) == ssa.Value(vrm) {
							hasData = true
						}
					}
				}
				hashOK = hasHash && hasData
			}
			for _, c := range methodCalls(verifySig, "SetPublicKey") {
				if core.Receiver(c.Common()) == core.Receiver(vcall.Common()) && errEdgesAll(c, returnsOnlyFalse) && callDominates(c, vcall) && core.CallArgs(c.Common())[0] == ssa.Value(key) {
					keySet = true
				}
			}
			okBody = okTrue && errNil && sigOK && hashOK && keySet
			why = fmt.Sprintf("verify-true=%v err-nil=%v signature-arg=%v hash-of-GetHashData=%v key-set=%v", okTrue, errNil, sigOK, hashOK, keySet)
		} else {
			okBody, why = false, "`return true` not dominated by scheme.Verify(...) == true"
		}
		if !okBody {
			break
		}
	}
	r.Check(okBody, "C15.signature", "VerifySignature:true-only-when-verified", p.Pos(verifySig.Pos()), why)
	hf := ResultFlowFields(hashData, 0)
	for _, f := range []string{"AllocationID", "BlobberID", "ClientID", "ReadCounter", "Timestamp"} {
		r.Check(hf["ReadMarker."+f], "C15.signature", "GetHashData:"+f, p.Pos(hashData.Pos()), "the signed string must flow from rm."+f+" (otherwise a signature can be replayed with a different "+f+"); flows from: "+fmtList(sortedKeys(hf)))
	}
}

// relPermits: relation `holds` (known true) is compatible with relation `bad` being true.
func relPermits(holds, bad token.Token) bool {
	// represent each relation as subset of {<,=,>}
	set := func(op token.Token) int {
		switch op {
		case token.LSS:
			return 1
		case token.EQL:
			return 2
		case token.GTR:
			return 4
		case token.LEQ:
			return 3
		case token.GEQ:
			return 6
		case token.NEQ:
			return 5
		}
		return 7
	}
	return set(holds)&set(bad) != 0
}

// c15Delta: the amount paid derives from (req counter − last counter|0) × ReadPrice of
// the matching blobber entry.
func c15Delta(r *core.Report, p *core.Prog, h *ssa.Function, pay *ssa.Call, reqRoot, prevRoot ssa.Value, load *ssa.Call) {
	val := pay.Call.Args[4]
	// find SUB in the backward slice of val
	var subX, subY ssa.Value
	var subPos token.Pos
	seen := map[ssa.Value]bool{}
	var price []ssa.Value
	var walk func(v ssa.Value)
	walk = func(v ssa.Value) {
		if v == nil || seen[v] {
			return
		}
		seen[v] = true
		switch x := v.(type) {
		case *ssa.BinOp:
			if x.Op == token.SUB && isLoadOf(x.X, reqRoot, ".ReadMarker.ReadCounter") {
				subX, subY, subPos = x.X, x.Y, x.Pos()
				return
			}
			walk(x.X)
			walk(x.Y)
		case *ssa.Convert:
			walk(x.X)
		case *ssa.ChangeType:
			walk(x.X)
		case *ssa.Phi:
			for _, e := range x.Edges {
				walk(e)
			}
		case *ssa.Call:
			// a helper of the contract that computes the charge from (price, counter, last):
			// the difference of two of its parameters, mapped back to the arguments
			if cal := x.Call.StaticCallee(); cal != nil && cal.Pkg != nil && cal.Pkg.Pkg.Path() == pkgStorage && cal.Blocks != nil && subX == nil {
				for _, hb := range cal.Blocks {
					for _, hin := range hb.Instrs {
						bo, ok := hin.(*ssa.BinOp)
						if !ok || bo.Op != token.SUB {
							continue
						}
						pi, pj := core.ParamOf(unconv(bo.X)), core.ParamOf(unconv(bo.Y))
						if pi == nil || pj == nil || unconv(bo.X) != ssa.Value(pi) || unconv(bo.Y) != ssa.Value(pj) {
							continue
						}
						ii, jj := -1, -1
						for k, prm := range cal.Params {
							if prm == pi {
								ii = k
							}
							if prm == pj {
								jj = k
							}
						}
						if ii >= 0 && jj >= 0 && ii < len(x.Call.Args) && jj < len(x.Call.Args) && isLoadOf(x.Call.Args[ii], reqRoot, ".ReadMarker.ReadCounter") {
							subX, subY, subPos = x.Call.Args[ii], x.Call.Args[jj], x.Pos()
						}
					}
				}
			}
			for _, a := range x.Call.Args {
				walk(a)
			}
		case *ssa.Extract:
			walk(x.Tuple)
		case *ssa.UnOp:
			if x.Op == token.MUL {
				if al, ok := x.X.(*ssa.Alloc); ok {
					for _, s := range core.StoresTo(al) {
						walk(s)
					}
					return
				}
				if fa, ok := x.X.(*ssa.FieldAddr); ok && core.FieldOf(fa) != nil && core.FieldOf(fa).Name() == "ReadPrice" {
					price = append(price, x)
				}
				return
			}
			walk(x.X)
		}
	}
	walk(val)
	if !r.Check(subX != nil, "C15.delta", "read_redeem:amount-from-counter-delta", p.Pos(pay.Pos()), "the paid amount derives from <request>.ReadMarker.ReadCounter − <last counter>; slice of the amount: "+describe(val)) {
		return
	}
	// the subtrahend: phi/alloc of {0, prev.ReadMarker.ReadCounter}; the stored-counter
	// edge must be the err == nil edge of the lookup; 0 only on the not-present edge.
	okSubtr, hasPrev := true, false
	var vals []ssa.Value
	var collect func(v ssa.Value, d int)
	collect = func(v ssa.Value, d int) {
		if d > 4 {
			vals = append(vals, v)
			return
		}
		switch x := v.(type) {
		case *ssa.Phi:
			for _, e := range x.Edges {
				collect(e, d+1)
			}
		case *ssa.UnOp:
			if al, ok := x.X.(*ssa.Alloc); ok && x.Op == token.MUL {
				ss := core.StoresTo(al)
				if len(ss) == 0 {
					vals = append(vals, v)
				}
				for _, s := range ss {
					collect(s, d+1)
				}
				return
			}
			vals = append(vals, v)
		default:
			vals = append(vals, v)
		}
	}
	collect(subY, 0)
	for _, v := range vals {
		if k, ok := core.ConstInt(v); ok && k == 0 {
			continue
		}
		if isLoadOf(v, prevRoot, ".ReadMarker.ReadCounter") {
			hasPrev = true
			continue
		}
		okSubtr = false
	}
	r.Check(okSubtr && hasPrev, "C15.delta", "read_redeem:subtrahend-is-last-stored-counter", p.Pos(subPos), "what is subtracted is the counter of the marker loaded from this request's key (0 only when none is stored); got "+describe(subY))
	// on the edge where the lookup succeeded (err == nil) the subtrahend must be the stored counter, not 0
	if ph, ok := subY.(*ssa.Phi); ok {
		ev := core.ErrResult(load)
		okEdge := true
		for i, e := range ph.Edges {
			if k, isK := core.ConstInt(e); isK && k == 0 {
				// predecessor must be dominated by err != nil
				pred := ph.Block().Preds[i]
				if core.KnownNil(append(core.FactsAt(pred), factsOfEdge(pred, ph.Block())...), ev) != -1 {
					okEdge = false
				}
			}
		}
		r.Check(okEdge, "C15.delta", "read_redeem:zero-only-when-not-present", p.Pos(subPos), "the delta starts from 0 only on the lookup's error edge (no marker stored); with a stored marker it starts from its counter")
	}
	// price: ReadPrice of the entry matched by BlobberID
	okPrice := false
	why := "no ReadPrice load in the amount"
	for _, pl := range price {
		base, _ := core.BaseObject(pl)
		// base: phi{nil, elem}
		var elems []ssa.Value
		if fc, ok := base.(*ssa.Call); ok {
			if okF, d := c15FinderByBlobberID(fc, reqRoot); okF {
				okPrice = true
				continue
			} else if d != "" {
				why = d
			}
		}
		if ph, ok := base.(*ssa.Phi); ok {
			for _, e := range ph.Edges {
				if !core.IsNilConst(e) {
					elems = append(elems, e)
				}
			}
		} else {
			elems = []ssa.Value{base}
		}
		good := len(elems) > 0
		for _, e := range elems {
			in, ok := e.(ssa.Instruction)
			if !ok {
				good = false
				continue
			}
			// where the element is selected (edge into the phi): find a block dominated by BlobberID == marker.BlobberID
			matched := false
			for _, b := range h.Blocks {
				if !in.Block().Dominates(b) {
					continue
				}
				for _, f := range CmpFacts(b) {
					if f.Op != token.EQL {
						continue
					}
					x, y := f.X, f.Y
					if isLoadOf(x, reqRoot, ".ReadMarker.BlobberID") {
						x, y = y, x
					}
					if !isLoadOf(y, reqRoot, ".ReadMarker.BlobberID") {
						continue
					}
					if isFieldLoadOn(x, e, "BlobberID") {
						// and this block feeds the phi
						if ph, ok := base.(*ssa.Phi); ok {
							for i, pe := range ph.Edges {
								if pe == e && (ph.Block().Preds[i] == b || b.Dominates(ph.Block().Preds[i])) {
									matched = true
								}
							}
						} else {
							matched = true
						}
					}
				}
			}
			if !matched {
				good = false
				why = "the blobber entry whose ReadPrice is charged is not selected by BlobberID == marker.BlobberID"
			}
		}
		if good {
			okPrice = true
		}
	}
	r.Check(okPrice, "C15.delta", "read_redeem:price-of-the-markers-blobber", p.Pos(pay.Pos()), "the price charged is Terms.ReadPrice of the allocation entry of the marker's blobber; "+why)
}

// isFieldLoadOn: v is a direct load of obj.<field> (no deeper path resolution).
func isFieldLoadOn(v, obj ssa.Value, field string) bool {
	ld, ok := v.(*ssa.UnOp)
	if !ok || ld.Op != token.MUL {
		return false
	}
	fa, ok := ld.X.(*ssa.FieldAddr)
	return ok && fa.X == obj && core.FieldOf(fa) != nil && core.FieldOf(fa).Name() == field
}

// factsOfEdge: the fact established by the branch at the end of `from` when going to `to`.
func factsOfEdge(from, to *ssa.BasicBlock) []core.Fact {
	if len(from.Instrs) == 0 {
		return nil
	}
	ifi, ok := from.Instrs[len(from.Instrs)-1].(*ssa.If)
	if !ok || from.Succs[0] == from.Succs[1] {
		return nil
	}
	if from.Succs[0] == to {
		return []core.Fact{{Cond: ifi.Cond, Taken: true, If: ifi}}
	}
	if from.Succs[1] == to {
		return []core.Fact{{Cond: ifi.Cond, Taken: false, If: ifi}}
	}
	return nil
}

func c15Window(r *core.Report, p *core.Prog, h *ssa.Function, pay *ssa.Call, reqRoot ssa.Value) {
	// allocation loaded by the marker's id
	var ga *ssa.Call
	for _, c := range callsByMethod(h, "getAllocation", "") {
		if callDominates(c, pay) && core.ErrLeadsToFailure(c) && isLoadOf(core.CallArgs(c.Common())[0], reqRoot, ".ReadMarker.AllocationID") {
			ga = c
		}
	}
	if !r.Check(ga != nil, "C15.window", "read_redeem:allocation-of-marker", p.Pos(pay.Pos()), "the allocation is loaded (error aborting) by the marker's AllocationID before the payment") {
		return
	}
	isAllocField := func(v ssa.Value, f string) bool {
		rt, pth := core.BaseObject(v)
		if pth != "."+f {
			return false
		}
		// rt = mustBase() of ga#0
		mb, ok := canonObj(rt).(*ssa.Call)
		if !ok || core.MethodName(mb.Common()) != "mustBase" {
			return false
		}
		r0, _ := core.BaseObject(core.Receiver(mb.Common()))
		c, idx := core.CallOf(r0)
		return c == ga && idx == 0
	}
	lo, hi := false, false
	for _, f := range CmpFacts(pay.Block()) {
		x, y, op := f.X, f.Y, f.Op
		if isLoadOf(y, reqRoot, ".ReadMarker.Timestamp") {
			x, y = y, x
			op = map[token.Token]token.Token{token.EQL: token.EQL, token.NEQ: token.NEQ, token.LSS: token.GTR, token.GTR: token.LSS, token.LEQ: token.GEQ, token.GEQ: token.LEQ}[op]
		}
		if !isLoadOf(x, reqRoot, ".ReadMarker.Timestamp") {
			continue
		}
		if (op == token.GEQ || op == token.GTR) && isAllocField(y, "StartTime") {
			lo = true
		}
		if (op == token.LEQ || op == token.LSS) && isAllocField(y, "Expiration") {
			hi = true
		}
	}
	r.Check(lo, "C15.window", "read_redeem:not-before-start", p.Pos(pay.Pos()), "marker.Timestamp >= alloc.StartTime holds at the payment")
	r.Check(hi, "C15.window", "read_redeem:not-after-expiration", p.Pos(pay.Pos()), "marker.Timestamp <= alloc.Expiration holds at the payment")
	// membership: the details entry is non-nil at the payment
	mem := false
	for _, f := range core.FactsAt(pay.Block()) {
		if x, isNil, ok := core.NilFact(f); ok && !isNil {
			if strings.HasSuffix(x.Type().String(), "BlobberAllocation") {
				mem = true
			}
		}
	}
	r.Check(mem, "C15.window", "read_redeem:blobber-belongs-to-allocation", p.Pos(pay.Pos()), "the payment is dominated by 'an entry of the allocation matches the marker's blobber' (details != nil)")
}

func c15Pools(r *core.Report, p *core.Prog, h *ssa.Function, pay *ssa.Call, reqRoot ssa.Value, getKey *ssa.Function) {
	// read pool: receiver of the payment = getReadPool(marker.ClientID) or a fresh pool
	rp := pay.Call.Args[0]
	var srcs []ssa.Value
	if ph, ok := rp.(*ssa.Phi); ok {
		srcs = ph.Edges
	} else {
		srcs = []ssa.Value{rp}
	}
	okRP := len(srcs) > 0
	for _, s := range srcs {
		if c, idx := core.CallOf(s); c != nil && idx == 0 && core.MethodName(c.Common()) == "getReadPool" {
			if !isLoadOf(core.CallArgs(c.Common())[0], reqRoot, ".ReadMarker.ClientID") {
				okRP = false
			}
			continue
		}
		if al, ok := s.(*ssa.Alloc); ok && strings.HasSuffix(al.Type().String(), "readPool") {
			continue // new(readPool): empty pool, payment of a positive amount then fails in the mover
		}
		okRP = false
	}
	r.Check(okRP, "C15.pools", "read_redeem:pool-of-markers-client", p.Pos(pay.Pos()), "the pool debited is getReadPool(marker.ClientID) (or a new empty pool); got "+describe(rp))
	// saves after payment
	type sv struct {
		name string
		pred func(c *ssa.Call) bool
	}
	spArg := pay.Call.Args[3]
	saves := []sv{
		{"read-pool-saved", func(c *ssa.Call) bool {
			if core.MethodName(c.Common()) != "save" || !strings.HasSuffix(core.RecvTypeName(c.Common()), "readPool") {
				return false
			}
			a := core.CallArgs(c.Common())
			return core.Receiver(c.Common()) == rp && len(a) == 3 && isLoadOf(a[1], reqRoot, ".ReadMarker.ClientID")
		}},
		{"stake-pool-saved", func(c *ssa.Call) bool {
			if core.MethodName(c.Common()) != "Save" {
				return false
			}
			a := core.CallArgs(c.Common())
			return core.Receiver(c.Common()) == spArg && len(a) == 3 && isLoadOf(a[1], reqRoot, ".ReadMarker.BlobberID")
		}},
		{"marker-stored-under-lookup-key", func(c *ssa.Call) bool {
			if core.MethodName(c.Common()) != "InsertTrieNode" {
				return false
			}
			a := core.CallArgs(c.Common())
			if len(a) != 2 {
				return false
			}
			kc, ok := a[0].(*ssa.Call)
			if !ok || kc.Common().StaticCallee() != getKey {
				return false
			}
			krt, kp := core.BaseObject(core.Receiver(kc.Common()))
			vrt, vp := core.BaseObject(a[1])
			return krt == reqRoot && kp == "" && vrt == reqRoot && vp == ""
		}},
	}
	for _, s := range saves {
		var hit *ssa.Call
		for _, b := range h.Blocks {
			for _, in := range b.Instrs {
				if c, ok := in.(*ssa.Call); ok && s.pred(c) && core.Reaches(pay, c) {
					hit = c
				}
			}
		}
		ok := hit != nil
		why := "no such save after the payment"
		if ok {
			ok, why = MustPassFrom(p, h, pay, hit)
			ok = ok && core.ErrLeadsToFailure(hit)
		}
		r.Check(ok, "C15.pools", "read_redeem:"+s.name, p.Pos(pay.Pos()), "saved on every success path after the payment, error aborting; "+why)
	}
	// stake pool loaded for the marker's blobber
	okSP := false
	if c, idx := core.CallOf(spArg); c != nil && idx == 0 && core.MethodName(c.Common()) == "getStakePool" {
		a := core.CallArgs(c.Common())
		okSP = len(a) >= 2 && isLoadOf(a[1], reqRoot, ".ReadMarker.BlobberID") && core.ErrLeadsToFailure(c)
	}
	r.Check(okSP, "C15.pools", "read_redeem:stake-pool-of-markers-blobber", p.Pos(pay.Pos()), "the reward goes to the stake pool of marker.BlobberID; got "+describe(spArg))
	// nothing rewrites the counter / identity fields of the request's marker in the handler
	n := 0
	for _, fn := range StaticClosure([]*ssa.Function{h}, func(f *ssa.Function) bool { return f != h && f.Parent() != h }) {
		for _, b := range fn.Blocks {
			for _, in := range b.Instrs {
				st, ok := in.(*ssa.Store)
				if !ok {
					continue
				}
				fa, ok := st.Addr.(*ssa.FieldAddr)
				if !ok || core.FieldOf(fa) == nil {
					continue
				}
				if ownerName(fa.X.Type()) != "ReadMarker" {
					continue
				}
				switch core.FieldOf(fa).Name() {
				case "ReadCounter", "ClientID", "BlobberID", "AllocationID":
					n++
					r.Fail("C15.pools", "read_redeem:marker-field-rewritten:"+core.FieldOf(fa).Name(), p.Pos(st.Pos()), "the handler rewrites an identity/counter field of the marker it stores")
				}
			}
		}
	}
	r.Check(n == 0, "C15.pools", "read_redeem:marker-identity-untouched", p.Pos(h.Pos()), "counter and identity fields of the stored marker are exactly those verified")
}

func c15Mover(r *core.Report, p *core.Prog, mover *ssa.Function) {
	rp, value := mover.Params[0], mover.Params[4]
	bal := p.Field(pkgStorage, "readPool", "Balance")
	if bal == nil {
		r.Unresolved("C15.mover", "readPool.Balance")
		return
	}
	ws := core.FieldWrites([]*ssa.Function{mover}, bal)
	okStore := len(ws) == 1 && ws[0].Kind == "store"
	why := fmt.Sprintf("%d writes to Balance", len(ws))
	if okStore {
		w := ws[0]
		okStore = false
		switch x := w.Val.(type) {
		case *ssa.BinOp:
			if x.Op == token.SUB && isLoadOf(x.X, rp, ".Balance") && x.Y == ssa.Value(value) {
				// guard: !(value > balance) i.e. value <= balance at the store
				for _, f := range CmpFacts(w.Instr.Block()) {
					if f.X == ssa.Value(value) && isLoadOf(f.Y, rp, ".Balance") && (f.Op == token.LEQ || f.Op == token.LSS || f.Op == token.EQL) {
						okStore = true
					}
					if f.Y == ssa.Value(value) && isLoadOf(f.X, rp, ".Balance") && (f.Op == token.GEQ || f.Op == token.GTR || f.Op == token.EQL) {
						okStore = true
					}
				}
				why = "balance − value stored without a dominating value <= balance"
			}
		default:
			if c, idx := core.CallOf(w.Val); c != nil && idx == 0 && core.CalleeName(c.Common()) == pkgCurr+".MinusCoin" &&
				isLoadOf(c.Call.Args[0], rp, ".Balance") && c.Call.Args[1] == ssa.Value(value) && core.ErrLeadsToFailure(c) {
				okStore = true
			}
			why = "stored value is not balance − value"
		}
		if okStore {
			okStore, why = MustPass(p, mover, w.Instr)
		}
	}
	r.Check(okStore, "C15.mover", "moveToBlobber:debit-exactly-value-guarded", p.Pos(mover.Pos()), "rp.Balance = rp.Balance − value on every success path, never below zero; "+why)
	// reward = value
	var dr *ssa.Call
	for _, c := range methodCalls(mover, "DistributeRewards") {
		dr = c
	}
	okDR := dr != nil
	why = "no DistributeRewards call"
	if okDR {
		a := core.CallArgs(dr.Common())
		okDR = len(a) > 0 && a[0] == ssa.Value(value) && core.ErrLeadsToFailure(dr)
		why = "credited amount " + describe(a[0])
		if okDR {
			okDR, why = MustPass(p, mover, dr)
		}
		okDR = okDR && len(methodCalls(mover, "DistributeRewards")) == 1
	}
	r.Check(okDR, "C15.mover", "moveToBlobber:reward-equals-debit", p.Pos(mover.Pos()), "exactly `value` is distributed to the blobber's stake pool once, error aborting; "+why)
}

// c15FinderByBlobberID: fc is `find(list, id)` — a helper of the contract every non-nil
// result of which is an element of its slice parameter whose BlobberID equals its string
// parameter — called with the marker's BlobberID.
func c15FinderByBlobberID(fc *ssa.Call, reqRoot ssa.Value) (bool, string) {
	h := fc.Call.StaticCallee()
	if h == nil || h.Pkg == nil || h.Pkg.Pkg.Path() != pkgStorage || h.Blocks == nil {
		return false, ""
	}
	idArg := -1
	for i, a := range fc.Call.Args {
		if isLoadOf(a, reqRoot, ".ReadMarker.BlobberID") {
			idArg = i
		}
	}
	if idArg < 0 || idArg >= len(h.Params) {
		return false, "the entry finder is not given the marker's BlobberID"
	}
	n := 0
	for _, ret := range core.Returns(h) {
		v := core.ResultValue(ret, 0)
		if core.IsNilConst(v) {
			continue
		}
		n++
		matched := false
		for _, f := range CmpFacts(ret.Block()) {
			if f.Op != token.EQL {
				continue
			}
			x, y := f.X, f.Y
			if x == ssa.Value(h.Params[idArg]) {
				x, y = y, x
			}
			if y != ssa.Value(h.Params[idArg]) {
				continue
			}
			if isFieldLoadOn(x, v, "BlobberID") || isFieldLoadOn(x, canonObj(v), "BlobberID") {
				matched = true
			}
			// range variable kept in a cell
			if ld, ok := x.(*ssa.UnOp); ok {
				if fa, ok := ld.X.(*ssa.FieldAddr); ok && core.FieldOf(fa) != nil && core.FieldOf(fa).Name() == "BlobberID" && canonObj(fa.X) == canonObj(v) {
					matched = true
				}
			}
		}
		if !matched {
			return false, "the entry finder can return an entry whose BlobberID was not compared with the requested id"
		}
	}
	return n > 0, ""
}
