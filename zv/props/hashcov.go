package props

import (
	"go/types"
	"reflect"
	"strings"

	"golang.org/x/tools/go/ssa"

	"zv/core"
)

// HashCoverage computes the set of struct fields ("Type.Field") whose values can
// influence the result of a hash-data function: fields loaded in the function or in the
// first-party functions it calls (transitively, static callees only), plus — for
// json.Marshal(x)/msgp of a struct — every field the encoder visits (exported, tag not
// "-").
func HashCoverage(p *core.Prog, fn *ssa.Function) map[string]bool {
	out := map[string]bool{}
	seen := map[*ssa.Function]bool{}
	var walk func(f *ssa.Function, depth int)
	walk = func(f *ssa.Function, depth int) {
		if f == nil || seen[f] || f.Blocks == nil || depth > 6 {
			return
		}
		seen[f] = true
		for _, b := range f.Blocks {
			for _, in := range b.Instrs {
				switch x := in.(type) {
				case *ssa.FieldAddr:
					if fl := core.FieldOf(x); fl != nil {
						out[ownerName(x.X.Type())+"."+fl.Name()] = true
					}
				case *ssa.Field:
					if fl := core.FieldOf(x); fl != nil {
						out[ownerName(x.X.Type())+"."+fl.Name()] = true
					}
				case ssa.CallInstruction:
					c := x.Common()
					name := core.CalleeName(c)
					if name == "encoding/json.Marshal" && len(c.Args) == 1 {
						addJSONFields(out, c.Args[0])
						continue
					}
					if cal := core.StaticCallee(c); cal != nil && cal.Pkg != nil && core.IsFirstParty(cal.Pkg.Pkg.Path()) {
						walk(cal, depth+1)
					}
				}
			}
		}
		for _, a := range f.AnonFuncs {
			walk(a, depth+1)
		}
	}
	walk(fn, 0)
	return out
}

func ownerName(t types.Type) string {
	if pt, ok := t.Underlying().(*types.Pointer); ok {
		t = pt.Elem()
	}
	n := core.NamedName(t)
	if i := strings.LastIndex(n, "."); i >= 0 {
		return n[i+1:]
	}
	return n
}

// addJSONFields adds every json-visible field of the struct type behind v.
func addJSONFields(out map[string]bool, v ssa.Value) {
	if mi, ok := v.(*ssa.MakeInterface); ok {
		v = mi.X
	}
	t := v.Type()
	if pt, ok := t.Underlying().(*types.Pointer); ok {
		t = pt.Elem()
	}
	addJSONFieldsOfType(out, t, 0)
}

func addJSONFieldsOfType(out map[string]bool, t types.Type, depth int) {
	st, ok := t.Underlying().(*types.Struct)
	if !ok || depth > 4 {
		return
	}
	owner := ownerName(t)
	for i := 0; i < st.NumFields(); i++ {
		f := st.Field(i)
		tag := reflect.StructTag(st.Tag(i)).Get("json")
		if tag == "-" {
			continue
		}
		if f.Embedded() {
			addJSONFieldsOfType(out, f.Type(), depth+1)
			continue
		}
		if !f.Exported() {
			continue
		}
		out[owner+"."+f.Name()] = true
	}
}
