package props

import (
	"fmt"
	"go/token"
	"go/types"
	"sort"
	"strings"

	"golang.org/x/tools/go/ssa"

	"zv/core"
)

func init() { register("C48", "other", c48) }

const pkgStringMap = "0chain.net/core/config"

// validateMethod returns the `validate`/`Validate` method (func() error) of the pointer
// type of v, if any.
func validateMethod(p *core.Prog, t types.Type) *types.Func {
	ms := p.SSA.MethodSets.MethodSet(t)
	for i := 0; i < ms.Len(); i++ {
		f, ok := ms.At(i).Obj().(*types.Func)
		if !ok || (f.Name() != "validate" && f.Name() != "Validate") {
			continue
		}
		sig := f.Type().(*types.Signature)
		if sig.Params().Len() == 0 && sig.Results().Len() == 1 && core.IsErrorType(sig.Results().At(0).Type()) {
			return f
		}
	}
	return nil
}

func unbox(v ssa.Value) ssa.Value {
	for {
		switch x := v.(type) {
		case *ssa.MakeInterface:
			v = x.X
		case *ssa.ChangeInterface:
			v = x.X
		case *ssa.ChangeType:
			v = x.X
		default:
			return v
		}
	}
}

// sameObject: two values denote the same object (same SSA value, or loads of the same
// variable / captured variable with no intervening knowledge needed: same access path
// rooted in a parameter, free variable or single-store local).
func sameObject(a, b ssa.Value) bool {
	a, b = unbox(a), unbox(b)
	if a == b {
		return true
	}
	la, ok1 := a.(*ssa.UnOp)
	lb, ok2 := b.(*ssa.UnOp)
	if ok1 && ok2 && la.Op == token.MUL && lb.Op == token.MUL && la.X == lb.X {
		switch la.X.(type) {
		case *ssa.FreeVar, *ssa.Alloc:
			return true
		}
	}
	return false
}

// C48 Governance settings change only by the owner and stay valid.
func c48(r *core.Report, p *core.Prog, thorough bool) {
	r.Explain = "Decided (structure of every settings handler = contract function that takes the transaction and the state context and decodes its input into a StringMap): an error-checked AuthorizeWithOwner whose predicate compares the transaction's ClientID with a value that does not come from the transaction precedes the decoding of the input and every state write; whenever the object that is saved has a validate()/Validate() error method, an error-checked call of it on that same object precedes the save in the function that saves; minersc GlobalSettings.update stores exactly the string it parsed, only for keys found in the setting table and marked Mutable; storagesc commit_settings_changes takes nothing from its caller; every GlobalSetting constant has a name and a type/mutability entry. Deterministic rejection text and ordering are decided under C06; that a rejected change leaves state untouched follows from C02. Not decided: the validity ranges themselves, nor Chain.updateConfig's reading side."
	r.Rule("C48.owner-first", "in every settings handler one AuthorizeWithOwner call, error aborting, dominates the StringMap decode of the input and every call that (transitively) writes state")
	r.Rule("C48.owner-predicate", "the authorisation closure returns an == comparison between <txn>.ClientID and a value not rooted in the transaction or the input")
	r.Rule("C48.validated-before-save", "a saved object whose type has validate()/Validate() error is validated (error aborting) before the save, in the saving function, after the last update of it")
	r.Rule("C48.stored-is-parsed", "GlobalSettings.update: the value stored in Fields[key] is the very value given to StringToInterface (error aborting), under found && info.Mutable for that key")
	r.Rule("C48.commit-takes-nothing", "storagesc commitSettingChanges does not use its transaction or input parameters")
	r.Rule("C48.tables", "every GlobalSetting constant below NumOfGlobalSettings has an entry in GlobalSettingName, and every name has an entry in GlobalSettingInfo")

	auth := p.Func(pkgSCI + ".AuthorizeWithOwner")
	decode := p.Func("(*" + pkgStringMap + ".StringMap).Decode")
	if auth == nil || decode == nil {
		r.Unresolved("C48.owner-first", "AuthorizeWithOwner / StringMap.Decode")
		return
	}
	// ---- discover handlers
	var handlers []*ssa.Function
	for _, fn := range p.ModFuncs() {
		if fn.Parent() != nil || isTooling(p, fn) || !takesStateCtx(fn) || fn.Pkg == nil || !strings.HasPrefix(fn.Pkg.Pkg.Path(), "0chain.net/smartcontract/") {
			continue
		}
		hasTxn := false
		for _, prm := range fn.Params {
			if core.NamedName(derefType(prm.Type())) == "0chain.net/chaincore/transaction.Transaction" {
				hasTxn = true
			}
		}
		if !hasTxn {
			continue
		}
		for _, c := range findCallsTo(fn, decode) {
			if prm := core.ParamOf(c.Call.Args[1]); prm != nil {
				handlers = append(handlers, fn)
				break
			}
		}
	}
	sort.Slice(handlers, func(i, j int) bool { return handlers[i].String() < handlers[j].String() })
	r.Floor("C48.owner-first", "settings handlers (txn + state context + StringMap decode of the input)", len(handlers), 6)
	for _, h := range handlers {
		c48Handler(r, p, h, auth, decode)
	}
	// ---- GlobalSettings.update
	c48Globals(r, p)
	// ---- commit takes nothing
	if cm := p.Func("(*0chain.net/smartcontract/storagesc.StorageSmartContract).commitSettingChanges"); cm != nil {
		used := []string{}
		for _, prm := range cm.Params {
			tn := core.NamedName(derefType(prm.Type()))
			if tn == "0chain.net/chaincore/transaction.Transaction" || types.Identical(prm.Type(), types.NewSlice(types.Typ[types.Byte])) {
				n := 0
				for _, ref := range *prm.Referrers() {
					if _, ok := ref.(*ssa.DebugRef); !ok {
						n++
					}
				}
				if n > 0 {
					used = append(used, prm.Name())
				}
			}
		}
		r.Check(len(used) == 0, "C48.commit-takes-nothing", "storagesc.commitSettingChanges:params", p.Pos(cm.Pos()), "the commit applies only the owner's stored pending changes; caller-controlled parameters in use: "+fmtList(used))
		c48Saves(r, p, cm)
	} else {
		r.Unresolved("C48.commit-takes-nothing", "storagesc.commitSettingChanges")
	}
	// ---- tables
	c48Tables(r, p)
}

// writesState: the call (transitively, through static callees and closures) writes state.
func c48WritesState(cs core.CallSite) bool {
	if _, ok := isStateWrite(cs.Common()); ok && !strings.HasPrefix(func() string { s, _ := isStateWrite(cs.Common()); return s }(), "currency.") {
		return true
	}
	var roots []*ssa.Function
	if f := core.StaticCallee(cs.Common()); f != nil && f.Pkg != nil && core.IsModule(f.Pkg.Pkg.Path()) {
		roots = append(roots, f)
	}
	for _, a := range cs.Common().Args {
		if mc, ok := a.(*ssa.MakeClosure); ok {
			roots = append(roots, mc.Fn.(*ssa.Function))
		}
	}
	for _, g := range StaticClosure(roots, nil) {
		for _, c2 := range core.CallsIn(g, false, nil) {
			if w, ok := isStateWrite(c2.Common()); ok && !strings.HasPrefix(w, "currency.") {
				return true
			}
		}
	}
	return false
}

func c48Handler(r *core.Report, p *core.Prog, h, auth, decode *ssa.Function) {
	name := h.String()
	as := findCallsTo(h, auth)
	if !r.Check(len(as) == 1 && core.ErrLeadsToFailure(as[0]), "C48.owner-first", name+":one-checked-authorisation", p.Pos(h.Pos()), fmt.Sprintf("%d AuthorizeWithOwner calls in the handler; its error aborts", len(as))) {
		return
	}
	A := as[0]
	for _, d := range findCallsTo(h, decode) {
		r.Check(Before(A, d), "C48.owner-first", name+":authorised-before-decode", p.Pos(d.Pos()), "nothing of the caller's input is processed before the owner check")
	}
	nW := 0
	for _, cs := range core.CallsIn(h, false, nil) {
		if cs.Instr == ssa.CallInstruction(A) || !c48WritesState(cs) {
			continue
		}
		nW++
		r.Check(Before(A, cs.Instr), "C48.owner-first", fmt.Sprintf("%s:write:%s#%d", name, core.CalleeName(cs.Common())+core.MethodName(cs.Common()), nW), p.Pos(cs.Pos()), "state write must come after the owner check")
	}
	r.Floor("C48.owner-first", name+" state-writing calls", nW, 1)
	// predicate
	mc, ok := A.Call.Args[1].(*ssa.MakeClosure)
	if !ok {
		r.Fail("C48.owner-predicate", name+":predicate", p.Pos(A.Pos()), "the predicate is not a function literal")
	} else {
		cl := mc.Fn.(*ssa.Function)
		okP, why := true, ""
		nRet := 0
		for _, ret := range core.Returns(cl) {
			nRet++
			bo, isB := ret.Results[0].(*ssa.BinOp)
			if !isB || bo.Op != token.EQL {
				okP, why = false, "the result is not a single == comparison"
				continue
			}
			isCaller := func(v ssa.Value) bool {
				root, path := core.BaseObject(v)
				if path != ".ClientID" {
					return false
				}
				return c48IsTxn(root, mc, cl)
			}
			fromCaller := func(v ssa.Value) bool {
				for _, d := range core.DeepRoots(v) {
					if strings.Contains(d, "ClientID") || strings.Contains(d, "input") || strings.Contains(d, "ToClientID") {
						return true
					}
				}
				root, _ := core.BaseObject(v)
				return c48IsTxn(root, mc, cl)
			}
			x, y := bo.X, bo.Y
			if isCaller(y) {
				x, y = y, x
			}
			if !isCaller(x) {
				okP, why = false, "neither operand is <txn>.ClientID"
			} else if fromCaller(y) {
				okP, why = false, "the owner operand is taken from the transaction itself: "+describe(y)
			} else if _, isC := y.(*ssa.Const); isC {
				okP, why = false, "the owner operand is a constant"
			} else {
				why = describe(x) + " == " + describe(y)
			}
		}
		r.Check(okP && nRet == 1, "C48.owner-predicate", name+":predicate", p.Pos(cl.Pos()), why)
	}
	c48Saves(r, p, h)
}

// c48IsTxn: root (inside closure cl created by mc) is the handler's transaction.
func c48IsTxn(root ssa.Value, mc *ssa.MakeClosure, cl *ssa.Function) bool {
	isTxnT := func(t types.Type) bool {
		return core.NamedName(derefType(t)) == "0chain.net/chaincore/transaction.Transaction"
	}
	switch x := root.(type) {
	case *ssa.FreeVar:
		return isTxnT(x.Type()) || isTxnT(derefType(x.Type()))
	case *ssa.Parameter:
		return isTxnT(x.Type())
	case *ssa.UnOp:
		if fv, ok := x.X.(*ssa.FreeVar); ok {
			return isTxnT(derefType(fv.Type()))
		}
	}
	return false
}

// c48Saves applies validated-before-save in fn and in the closures it creates.
func c48Saves(r *core.Report, p *core.Prog, top *ssa.Function) {
	fns := []*ssa.Function{top}
	fns = append(fns, top.AnonFuncs...)
	nSaves := 0
	for _, fn := range fns {
		for _, cs := range core.CallsIn(fn, false, nil) {
			w, ok := isStateWrite(cs.Common())
			direct := ok && !strings.HasPrefix(w, "currency.")
			if !direct {
				// helper that saves: static callee reaching a state write
				f := core.StaticCallee(cs.Common())
				if f == nil || f.Pkg == nil || !core.IsModule(f.Pkg.Pkg.Path()) || !strings.Contains(strings.ToLower(f.Name()), "save") {
					continue
				}
			}
			// candidate objects: receiver and arguments with a validate method
			var cands []ssa.Value
			if cs.Common().IsInvoke() {
				cands = append(cands, cs.Common().Args...)
			} else {
				cands = append(cands, cs.Common().Args...)
			}
			for _, a := range cands {
				o := unbox(a)
				if _, isPtr := o.Type().Underlying().(*types.Pointer); !isPtr {
					continue
				}
				vm := validateMethod(p, o.Type())
				if vm == nil {
					continue
				}
				nSaves++
				okV := false
				for _, c2 := range core.CallsIn(fn, false, nil) {
					call, isCall := c2.Instr.(*ssa.Call)
					if !isCall {
						continue
					}
					f := core.StaticCallee(c2.Common())
					if f == nil || f.Object() != types.Object(vm) {
						continue
					}
					if sameObject(call.Call.Args[0], o) && Before(call, cs.Instr) && core.ErrLeadsToFailure(call) {
						okV = true
					}
				}
				// no mutation of the object by an update call between validate and save is
				// checked by requiring validate after every call named update*/set* on it
				if okV {
					for _, c2 := range core.CallsIn(fn, false, nil) {
						f := core.StaticCallee(c2.Common())
						if f == nil || f.Signature.Recv() == nil || len(c2.Common().Args) == 0 || !sameObject(c2.Common().Args[0], o) {
							continue
						}
						ln := strings.ToLower(f.Name())
						if !(strings.HasPrefix(ln, "update") || strings.HasPrefix(ln, "set")) {
							continue
						}
						if !Before(c2.Instr, cs.Instr) {
							continue
						}
						// the validate must come after this update
						after := false
						for _, c3 := range core.CallsIn(fn, false, nil) {
							if f3 := core.StaticCallee(c3.Common()); f3 != nil && f3.Object() == types.Object(vm) && sameObject(c3.Common().Args[0], o) && Before(c2.Instr, c3.Instr) && Before(c3.Instr, cs.Instr) {
								after = true
							}
						}
						if !after {
							okV = false
						}
					}
				}
				r.Check(okV, "C48.validated-before-save", fmt.Sprintf("%s:save:%s", fn.String(), core.NamedName(derefType(o.Type()))), p.Pos(cs.Pos()), "the saved "+core.NamedName(derefType(o.Type()))+" has "+vm.Name()+"(): an error-checked call of it on the same object must precede the save and follow the update")
			}
		}
	}
	if nSaves == 0 {
		r.Pass("C48.validated-before-save", top.String()+":no-validatable-object-saved", p.Pos(top.Pos()), "no saved object of this handler has a validate method (value checks are in its update function)")
	}
}

// domBefore: a is executed before b on every path to b (a dominates b); valid inside a
// loop body for values of the same iteration.
func domBefore(a, b ssa.Instruction) bool {
	if a.Block() == b.Block() {
		for _, in := range a.Block().Instrs {
			if in == a {
				return true
			}
			if in == b {
				return false
			}
		}
	}
	return a.Block().Dominates(b.Block())
}

// c48InfoField: v reads field `name` of the entry `table[key]` (comma-ok lookup), either
// directly or through the local the entry was copied to; returns the lookup.
func c48InfoField(v ssa.Value) (*ssa.Lookup, string) {
	var entry ssa.Value
	name := ""
	switch x := v.(type) {
	case *ssa.Field:
		entry, name = x.X, fieldName2(x.X.Type(), x.Field)
	case *ssa.UnOp:
		fa, ok := x.X.(*ssa.FieldAddr)
		if !ok || x.Op != token.MUL {
			return nil, ""
		}
		al, ok := fa.X.(*ssa.Alloc)
		if !ok {
			return nil, ""
		}
		entry, name = singleStoreOf(al), fieldName2(fa.X.Type(), fa.Field)
	}
	ex, ok := entry.(*ssa.Extract)
	if !ok || ex.Index != 0 {
		return nil, ""
	}
	lk, _ := ex.Tuple.(*ssa.Lookup)
	return lk, name
}

func c48Globals(r *core.Report, p *core.Prog) {
	up := p.Func("(*0chain.net/smartcontract/minersc.GlobalSettings).update")
	if up == nil {
		r.Unresolved("C48.stored-is-parsed", "minersc GlobalSettings.update")
		return
	}
	n := 0
	for _, b := range up.Blocks {
		for _, in := range b.Instrs {
			mu, ok := in.(*ssa.MapUpdate)
			if !ok {
				continue
			}
			n++
			okParse := false
			var parseKeyInfo ssa.Value
			// the parse: in update itself or in a per-key guard helper whose failure fails update
			for _, l := range LiftCalls(up, core.NameIs(pkgStringMap+".StringToInterface"), 1) {
				if l.Arg(0) == mu.Value && domBefore(l.Site, mu) && l.ErrFails() {
					okParse = true
					parseKeyInfo = l.Call.Call.Args[1]
				}
			}
			// keyIs: the value (possibly a helper's, bound to the call's arguments) is the stored key
			keyIs := func(v ssa.Value, bind map[*ssa.Parameter]ssa.Value) bool {
				if bind != nil {
					v = core.BindValue(v, bind)
				}
				return v == mu.Key
			}
			r.Check(okParse, "C48.stored-is-parsed", "GlobalSettings.update:store-value", p.Pos(mu.Pos()), "Fields[key] receives the same value StringToInterface accepted (a parsed copy and a raw store differ for padded input)")
			// found && Mutable for the same key
			okFound, okMut := false, false
			var infoOfKey ssa.Value
			for _, f := range core.FactsAt(mu.Block()) {
				v, taken := f.Cond, f.Taken
				for {
					if u, ok := v.(*ssa.UnOp); ok && u.Op == token.NOT {
						v, taken = u.X, !taken
						continue
					}
					break
				}
				v, bind := core.Unbind(v)
				if bind != nil {
					v, taken = core.NormCond(v, taken)
				}
				if !taken {
					continue
				}
				switch x := v.(type) {
				case *ssa.Extract: // found of `info, found := table[key]`
					if lk, ok := x.Tuple.(*ssa.Lookup); ok && x.Index == 1 && lk.CommaOk && keyIs(lk.Index, bind) && strings.HasSuffix(describe(lk.X), "GlobalSettingInfo") {
						okFound = true
						infoOfKey = lk
					}
				default:
					if lk, nm := c48InfoField(v); lk != nil && nm == "Mutable" && keyIs(lk.Index, bind) {
						okMut = true
					}
				}
			}
			r.Check(okFound, "C48.stored-is-parsed", "GlobalSettings.update:key-in-table", p.Pos(mu.Pos()), "the key is found in GlobalSettingInfo")
			r.Check(okMut, "C48.stored-is-parsed", "GlobalSettings.update:mutable", p.Pos(mu.Pos()), "info.Mutable holds for the key's own table entry")
			// the parse type is the entry's SettingType
			okType := false
			if parseKeyInfo != nil {
				if lk, nm := c48InfoField(parseKeyInfo); lk != nil && nm == "SettingType" && ssa.Value(lk) == infoOfKey {
					okType = true
				}
			}
			r.Check(okType, "C48.stored-is-parsed", "GlobalSettings.update:parsed-as-declared-type", p.Pos(mu.Pos()), "parsed with the SettingType of the key's own entry")
		}
	}
	r.Floor("C48.stored-is-parsed", "map stores in GlobalSettings.update", n, 1)
}

func c48Tables(r *core.Report, p *core.Prog) {
	num, _ := p.Object(pkgStringMap, "NumOfGlobalSettings").(*types.Const)
	if num == nil {
		r.Unresolved("C48.tables", "NumOfGlobalSettings")
		return
	}
	pkg := num.Pkg()
	byVal := map[int64]*types.Const{}
	var consts []*types.Const
	for _, n := range pkg.Scope().Names() {
		c, ok := pkg.Scope().Lookup(n).(*types.Const)
		if ok && c != num && types.Identical(c.Type(), num.Type()) {
			consts = append(consts, c)
			if v, ok := constInt64(c); ok {
				byVal[v] = c
			}
		}
	}
	// the tables are filled by index/map stores in the package's initialisers
	isGlobal := func(v ssa.Value, name string) bool {
		ld, ok := v.(*ssa.UnOp)
		if !ok {
			return false
		}
		g, ok := ld.X.(*ssa.Global)
		return ok && g.Name() == name && g.Pkg.Pkg == pkg
	}
	nameIdx := func(v ssa.Value) (int64, bool) { // v = GlobalSettingName[const]
		ld, ok := v.(*ssa.UnOp)
		if !ok {
			return 0, false
		}
		ia, ok := ld.X.(*ssa.IndexAddr)
		if !ok || !isGlobal(ia.X, "GlobalSettingName") {
			return 0, false
		}
		return core.ConstInt(ia.Index)
	}
	named, typed := map[int64]bool{}, map[int64]bool{}
	for _, fn := range p.FuncsIn(pkgStringMap) {
		for _, b := range fn.Blocks {
			for _, in := range b.Instrs {
				switch x := in.(type) {
				case *ssa.Store:
					if ia, ok := x.Addr.(*ssa.IndexAddr); ok && isGlobal(ia.X, "GlobalSettingName") {
						if i, ok := core.ConstInt(ia.Index); ok {
							if s, isS := core.ConstString(x.Val); isS && s != "" {
								named[i] = true
							}
						}
					}
				case *ssa.MapUpdate:
					if i, ok := nameIdx(x.Key); ok {
						// the map may still be a local being built before it is stored in the global
						typed[i] = true
					}
				}
			}
		}
	}
	for _, c := range consts {
		v, _ := constInt64(c)
		r.Check(named[v], "C48.tables", "GlobalSettingName:"+c.Name(), p.Pos(c.Pos()), "every setting constant has a name (a nameless setting reads the empty viper key)")
		r.Check(typed[v], "C48.tables", "GlobalSettingInfo:"+c.Name(), p.Pos(c.Pos()), "every setting has a type/mutability entry (update_globals would reject or mis-parse it)")
	}
	r.Floor("C48.tables", "GlobalSetting constants", len(consts), 20)
}

func constInt64(c *types.Const) (int64, bool) {
	v := c.Val()
	if v == nil {
		return 0, false
	}
	s := v.ExactString()
	var n int64
	if _, err := fmt.Sscan(s, &n); err != nil {
		return 0, false
	}
	return n, true
}
