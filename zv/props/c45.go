package props

import (
	"fmt"
	"go/token"
	"go/types"
	"strings"

	"golang.org/x/tools/go/ssa"

	"zv/core"
)

func init() { register("C45", "other", c45) }

// C45 An honest generator's block passes honest verification (agreement clauses).
func c45(r *core.Report, p *core.Prog, thorough bool) {
	c45Cost(r, p)
	c45Batches(r, p)
	r.Explain = "Decided (agreement between the generator's admission and the verifier's checks, structure only): the verifier rejects a transaction whose creation time is outside WithinTime(block creation date, txn creation date, TXN_TIME_TOLERANCE) (ValidateWrtTimeForBlock, called from ValidateTransactions with b.CreationDate); the generator's validateTransaction leaves every exit that is not the ErrNotTimeTolerant sentinel only behind the very same predicate with the same tolerance constant and the generated block's creation date, and the packing closure appends to b.Txns only where that result is known not to be ErrNotTimeTolerant / PastTransaction / FutureTransaction; the nonce window the generator admits (txn.Nonce - state.Nonce neither > 1 nor < 1, or Nonce == 1 for an unknown client) is the one execution requires; a transaction is appended only after mc.UpdateState — the function the verifier's ComputeState also applies — returned no error, once per key (txnMap test before, txnMap set with the append). Not decided: equality of the resulting state roots (C06 and run time), the block-cost bound, built-in transactions."
	r.Rule("C45.time-verifier", "ValidateWrtTimeForBlock: success exits dominated by WithinTime(ts, t.CreationDate, TXN_TIME_TOLERANCE); ValidateTransactions passes b.CreationDate as ts")
	r.Rule("C45.time-generator", "validateTransaction: every exit is dominated by WithinTime(b.CreationDate, txn.CreationDate, TXN_TIME_TOLERANCE) == true or returns the ErrNotTimeTolerant sentinel")
	r.Rule("C45.nonce-generator", "validateTransaction: a nil-error exit is dominated by !(txn.Nonce-state.Nonce > 1) and !(… < 1), or (client unknown) by !(txn.Nonce > 1) and !(txn.Nonce < 1)")
	r.Rule("C45.pack", "txn processor: b.Txns = append(b.Txns, txn) is dominated by err(validateTransaction) ∉ {ErrNotTimeTolerant, PastTransaction, FutureTransaction}, by UpdateState(…, txn, …) err == nil, by the txnMap miss for txn.GetKey(), and the same path records the key in txnMap")

	within := "0chain.net/core/common.WithinTime"
	vt := p.Func("(*" + pkgMiner + ".Chain).validateTransaction")
	vw := p.Func("(*" + pkgTxn + ".Transaction).ValidateWrtTimeForBlock")
	proc := p.Func(pkgMiner + ".txnProcessorHandlerFunc")
	if vt == nil || vw == nil || proc == nil || len(proc.AnonFuncs) == 0 {
		r.Unresolved("C45.time-generator", "miner validateTransaction / txnProcessorHandlerFunc / Transaction.ValidateWrtTimeForBlock")
		return
	}
	tolObj, _ := p.Object(pkgTxn, "TXN_TIME_TOLERANCE").(*types.Var)
	if tolObj == nil {
		r.Unresolved("C45.time-verifier", "transaction.TXN_TIME_TOLERANCE")
		return
	}
	isTol := func(v ssa.Value) bool { // a load of the package variable
		ld, ok := v.(*ssa.UnOp)
		if !ok || ld.Op != token.MUL {
			return false
		}
		g, ok := ld.X.(*ssa.Global)
		return ok && g.Object() == types.Object(tolObj)
	}
	fieldOfParam := func(v ssa.Value, prm *ssa.Parameter, field string) bool {
		root, path := core.BaseObject(v)
		return core.ParamOf(root) == prm && prm != nil && (path == "."+field || strings.HasSuffix(path, "."+field))
	}
	// ---- verifier
	var wv *ssa.Call
	for _, c := range findCalls(vw, within) {
		a := c.Call.Args
		if core.ParamOf(unconv(a[0])) == vw.Params[2] && fieldOfParam(unconv(a[1]), vw.Params[0], "CreationDate") && isTol(a[2]) {
			wv = c
		}
	}
	if r.Check(wv != nil, "C45.time-verifier", "ValidateWrtTimeForBlock:within-time", p.Pos(vw.Pos()), "WithinTime(ts, t.CreationDate, TXN_TIME_TOLERANCE)") {
		n := 0
		for _, ret := range core.SuccessExits(vw) {
			n++
			ok := false
			for _, c := range boolCallFacts(ret.Block(), within, true) {
				if c.Call == wv {
					ok = true
				}
			}
			r.Check(ok, "C45.time-verifier", fmt.Sprintf("ValidateWrtTimeForBlock:success@b%d", ret.Block().Index), p.Pos(ret.Pos()), "the verifier accepts only inside the tolerance")
		}
		r.Floor("C45.time-verifier", "success exits of ValidateWrtTimeForBlock", n, 1)
	}
	nSites := 0
	for _, fn := range p.FuncsIn(pkgMiner) {
		for _, cs := range core.CallsIn(fn, true, func(c *ssa.CallCommon) bool { return core.StaticCallee(c) == vw }) {
			nSites++
			d := describe(cs.Common().Args[2])
			r.Check(strings.HasSuffix(d, "b.CreationDate") || strings.HasSuffix(d, ".CreationDate") && strings.Contains(d, "b."), "C45.time-verifier", "verifier-call:"+cs.Fn.String(), p.Pos(cs.Pos()), "the reference time is the block's creation date; got "+d)
		}
	}
	r.Floor("C45.time-verifier", "ValidateWrtTimeForBlock call sites in miner", nSites, 1)
	// ---- generator: time
	bPrm, txnPrm := vt.Params[1], vt.Params[3]
	var wg *ssa.Call
	for _, c := range findCalls(vt, within) {
		a := c.Call.Args
		if fieldOfParam(unconv(a[0]), bPrm, "CreationDate") && fieldOfParam(unconv(a[1]), txnPrm, "CreationDate") && isTol(a[2]) {
			wg = c
		}
	}
	if !r.Check(wg != nil, "C45.time-generator", "validateTransaction:within-time", p.Pos(vt.Pos()), "WithinTime(b.CreationDate, txn.CreationDate, TXN_TIME_TOLERANCE) — the verifier's predicate, constant and argument order") {
		return
	}
	sentinel := func(v ssa.Value, name string) bool {
		v = unbox(v)
		ld, ok := v.(*ssa.UnOp)
		if !ok || ld.Op != token.MUL {
			return false
		}
		g, ok := ld.X.(*ssa.Global)
		return ok && g.Name() == name && g.Pkg.Pkg.Path() == pkgMiner
	}
	ei := core.ErrIndex(vt)
	for _, ret := range core.Returns(vt) {
		inTol := false
		for _, c := range boolCallFacts(ret.Block(), within, true) {
			if c.Call == wg {
				inTol = true
			}
		}
		isNT := sentinel(ret.Results[ei], "ErrNotTimeTolerant")
		r.Check(inTol || isNT, "C45.time-generator", fmt.Sprintf("validateTransaction:exit@b%d", ret.Block().Index), p.Pos(ret.Pos()), "an exit outside the tolerance must be the ErrNotTimeTolerant sentinel (the packing closure skips exactly that); every other exit lies behind the time check")
		if !core.IsNilConst(ret.Results[ei]) {
			continue
		}
		// nonce window on nil-error exits
		gt, lt := false, false
		for _, f := range CmpFacts(ret.Block()) {
			isDelta := func(v ssa.Value) bool {
				if fieldOfParam(v, txnPrm, "Nonce") {
					return true // unknown client: compared with the constant 1
				}
				bo, ok := v.(*ssa.BinOp)
				if !ok || bo.Op != token.SUB || !fieldOfParam(bo.X, txnPrm, "Nonce") {
					return false
				}
				_, pth := core.BaseObject(bo.Y)
				return pth == ".Nonce"
			}
			one, isC := core.ConstInt(f.Y)
			if !isC || one != 1 || !isDelta(f.X) {
				continue
			}
			if f.Op == token.LEQ { // !(x > 1)
				gt = true
			}
			if f.Op == token.GEQ { // !(x < 1)
				lt = true
			}
			if f.Op == token.EQL {
				gt, lt = true, true
			}
		}
		r.Check(gt && lt, "C45.nonce-generator", fmt.Sprintf("validateTransaction:accept@b%d", ret.Block().Index), p.Pos(ret.Pos()), "accepted only when the nonce is exactly the next one (neither > 1 nor < 1 ahead)")
	}
	// ---- packing closure
	var cl *ssa.Function
	for _, a := range proc.AnonFuncs {
		if len(findCallsTo(a, vt)) > 0 {
			cl = a
		}
	}
	if cl == nil {
		r.Unresolved("C45.pack", "the closure of txnProcessorHandlerFunc calling validateTransaction")
		return
	}
	vcall := findCallsTo(cl, vt)[0]
	var verr ssa.Value
	for _, ref := range *vcall.Referrers() {
		if ex, ok := ref.(*ssa.Extract); ok && ex.Index == 1 {
			verr = ex
		}
	}
	txnsF := p.Field(pkgBlock, "UnverifiedBlockBody", "Txns")
	if txnsF == nil {
		txnsF = p.Field(pkgBlock, "Block", "Txns")
	}
	nApp := 0
	for _, w := range core.FieldWrites([]*ssa.Function{cl}, txnsF) {
		st, ok := w.Instr.(*ssa.Store)
		if !ok {
			continue
		}
		ac, ok := st.Val.(*ssa.Call)
		if !ok || core.CalleeName(ac.Common()) != "builtin.append" {
			r.Fail("C45.pack", "b.Txns-write:not-append", p.Pos(st.Pos()), "b.Txns is replaced, not appended to")
			continue
		}
		nApp++
		el := appendElems(ac)
		key := fmt.Sprintf("pack#%d", nApp)
		blk := st.Block()
		// (a) verdict of validateTransaction
		for _, name := range []string{"ErrNotTimeTolerant", "PastTransaction", "FutureTransaction"} {
			ok := false
			for _, f := range CmpFacts(blk) {
				if f.Op == token.NEQ && ((f.X == verr && sentinel(f.Y, name)) || (f.Y == verr && sentinel(f.X, name))) {
					ok = true
				}
			}
			r.Check(ok && verr != nil, "C45.pack", key+":not-"+name, p.Pos(st.Pos()), "a transaction validateTransaction answered "+name+" for is never packed")
		}
		// (b) executed successfully with the shared state transition
		okU := false
		for _, c := range methodCalls(cl, "UpdateState") {
			args := core.CallArgs(c.Common())
			hasTxn := false
			for _, a := range args {
				if len(el) == 1 && a == el[0] {
					hasTxn = true
				}
			}
			if ev := core.ErrResult(c); hasTxn && ev != nil && Before(c, st) && core.KnownNil(core.FactsAt(blk), ev) == 1 {
				okU = true
			}
		}
		r.Check(okU, "C45.pack", key+":executed", p.Pos(st.Pos()), "appended only after UpdateState on that transaction returned no error")
		// (c) once per key
		okMiss, okSet := false, false
		for _, f := range core.FactsAt(blk) {
			if ex, ok := f.Cond.(*ssa.Extract); ok && !f.Taken && ex.Index == 1 {
				if lk, ok := ex.Tuple.(*ssa.Lookup); ok && lk.CommaOk && strings.HasSuffix(describe(lk.X), "txnMap") {
					okMiss = true
				}
			}
		}
		for _, in := range blk.Instrs {
			if mu, ok := in.(*ssa.MapUpdate); ok && strings.HasSuffix(describe(mu.Map), "txnMap") {
				okSet = true
			}
		}
		r.Check(okMiss && okSet, "C45.pack", key+":once-per-key", p.Pos(st.Pos()), "txnMap miss dominates and the key is recorded with the append")
	}
	r.Floor("C45.pack", "appends to b.Txns in the packing closure", nApp, 1)
}

func unconv(v ssa.Value) ssa.Value {
	for {
		switch x := v.(type) {
		case *ssa.Convert:
			v = x.X
		case *ssa.ChangeType:
			v = x.X
		default:
			return v
		}
	}
}

// c45Cost: the generator admits a transaction only while the accumulated cost plus that
// transaction's own estimated cost stays below the limit the verifier enforces.
// objKey canonicalises a pointer value: loads of closure variables and of single-store
// locals denote the variable.
func objKey(v ssa.Value) ssa.Value {
	if ld, ok := v.(*ssa.UnOp); ok && ld.Op == token.MUL {
		if fv, ok := ld.X.(*ssa.FreeVar); ok {
			return fv
		}
	}
	return canonObj(v)
}

func c45Cost(r *core.Report, p *core.Prog) {
	r.Rule("C45.cost", "every generator call of the transaction processor is dominated by iter.cost + c < MaxBlockCost() with c the estimated cost of that very transaction, and iter.cost grows by the same c; the verifier rejects only cost > MaxBlockCost()")
	n := 0
	for _, fn := range p.FuncsIn(pkgMiner) {
		if isTooling(p, fn) || fn.Blocks == nil {
			continue
		}
		for _, b := range fn.Blocks {
			for _, in := range b.Instrs {
				c, ok := in.(*ssa.Call)
				if !ok || c.Call.IsInvoke() || c.Call.StaticCallee() != nil {
					continue
				}
				a := c.Call.Args
				if len(a) < 4 || core.NamedName(derefType(a[2].Type())) != pkgTxn+".Transaction" || core.NamedName(derefType(a[3].Type())) != pkgMiner+".TxnIterInfo" {
					continue
				}
				n++
				txn, iter := a[2], a[3]
				// the dominating bound
				var cost ssa.Value
				for _, f := range CmpFacts(c.Block()) {
					if f.Op != token.LSS {
						continue
					}
					sum, ok := f.X.(*ssa.BinOp)
					if !ok || sum.Op != token.ADD {
						continue
					}
					mc, ok := f.Y.(*ssa.Call)
					if !ok || core.MethodName(mc.Common()) != "MaxBlockCost" {
						continue
					}
					x, y := sum.X, sum.Y
					if rt, pth := core.BaseObject(y); pth == ".cost" && objKey(rt) == objKey(iter) {
						x, y = y, x
					}
					if rt, pth := core.BaseObject(x); pth == ".cost" && (objKey(rt) == objKey(iter) || rt == iter) {
						cost = y
					}
				}
				okBound := cost != nil
				why := "no dominating `iter.cost + c < MaxBlockCost()` on the iterator passed to the processor"
				if okBound {
					ec, idx := core.CallOf(canonObj(cost))
					okBound = ec != nil && idx == 0 && strings.Contains(core.MethodName(ec.Common()), "EstimateTransactionCost")
					why = "the cost in the bound is " + describe(cost)
					if okBound {
						ea := core.CallArgs(ec.Common())
						same := false
						for _, x := range ea {
							if canonObj(x) == canonObj(txn) {
								same = true
							}
						}
						okBound = same
						why = "the bound uses the estimate of another transaction"
					}
				}
				r.Check(okBound, "C45.cost", fmt.Sprintf("%s:processor-call#%d:own-cost-bound", fn.String(), n), p.Pos(c.Pos()), "the transaction is admitted under accumulated cost + its own estimated cost < limit; "+why)
				// accumulation by the same cost
				if okBound {
					okAcc := false
					for _, b2 := range fn.Blocks {
						for _, in2 := range b2.Instrs {
							st, ok := in2.(*ssa.Store)
							if !ok || !core.Reaches(c, st) {
								continue
							}
							if rt, pth := core.BaseObject(st.Addr); pth == ".cost" && (objKey(rt) == objKey(iter) || rt == iter) {
								if bo, ok := st.Val.(*ssa.BinOp); ok && bo.Op == token.ADD && (canonObj(bo.Y) == canonObj(cost) || canonObj(bo.X) == canonObj(cost)) {
									okAcc = true
								}
							}
						}
					}
					r.Check(okAcc, "C45.cost", fmt.Sprintf("%s:processor-call#%d:accumulates-own-cost", fn.String(), n), p.Pos(c.Pos()), "after a successful admission the accumulated cost grows by the same estimate")
				}
			}
		}
	}
	r.Floor("C45.cost", "generator calls of the transaction processor", n, 2)
	// verifier side: ValidateBlockCost rejects only on cost > Max
	vb := p.Func("(*" + pkgMiner + ".Chain).VerifyBlock")
	if vb == nil {
		r.Unresolved("C45.cost", "miner.(*Chain).VerifyBlock")
		return
	}
	okV := false
	for _, b := range vb.Blocks {
		ifi, ok := b.Instrs[len(b.Instrs)-1].(*ssa.If)
		if !ok {
			continue
		}
		bo, ok := ifi.Cond.(*ssa.BinOp)
		if !ok || bo.Op != token.GTR {
			continue
		}
		if mc, ok := bo.Y.(*ssa.Call); ok && core.MethodName(mc.Common()) == "MaxBlockCost" && failsOnlyBlock(b.Succs[0]) {
			okV = true
		}
	}
	r.Check(okV, "C45.cost", "VerifyBlock:rejects-only-above-limit", p.Pos(vb.Pos()), "the verifier's bound (cost > limit rejects) is implied by the generator's (sum < limit admits)")
}

// c45Batches: the verifier's batched validation waits for exactly as many results as it
// starts workers. The launching loop steps `start` from 0 by the batch size S while
// start < L and starts one worker per iteration, i.e. ceil(L/S) workers; the collector's
// bound must be that number in a recognised form: q = L/S with +1 exactly under q*S < L
// (or L%S != 0), (L+S-1)/S, or a counter incremented once per launch.
func c45Batches(r *core.Report, p *core.Prog) {
	const rule = "C45.batches-awaited"
	r.Rule(rule, "ValidateTransactions: the collector loop awaits N results where N is the ceiling of len(b.Txns)/batch size — the number of workers the launching loop (start += batch size while start < len(b.Txns)) starts; an honest block whose size is a multiple of the batch size must not wait for a worker that was never started")
	vt := p.Func("(*" + pkgMiner + ".Chain).ValidateTransactions")
	if vt == nil {
		r.Unresolved(rule, "ValidateTransactions")
		return
	}
	var F *ssa.Function
	var goIn *ssa.Go
	fns := append([]*ssa.Function{vt}, vt.AnonFuncs...)
	for _, f := range fns {
		for _, b := range f.Blocks {
			for _, in := range b.Instrs {
				if g, ok := in.(*ssa.Go); ok && len(core.LoopsContaining(f, b)) > 0 {
					F, goIn = f, g
				}
			}
		}
	}
	if F == nil {
		r.Fail(rule, "ValidateTransactions:launch-loop", p.Pos(vt.Pos()), "no loop starting validation workers found (shape not recognised)")
		return
	}
	launch := core.LoopsContaining(F, goIn.Block())[0]
	hdrCond := func(l *core.Loop) *ssa.BinOp {
		ifi, ok := l.Header.Instrs[len(l.Header.Instrs)-1].(*ssa.If)
		if !ok {
			return nil
		}
		bo, _ := ifi.Cond.(*ssa.BinOp)
		return bo
	}
	step := func(l *core.Loop, ph *ssa.Phi) ssa.Value {
		for i, e := range ph.Edges {
			if l.Body[l.Header.Preds[i]] {
				if bo, ok := e.(*ssa.BinOp); ok && bo.Op == token.ADD && bo.X == ssa.Value(ph) {
					return bo.Y
				}
			}
		}
		return nil
	}
	lc := hdrCond(launch)
	var L, S ssa.Value
	if lc != nil && lc.Op == token.LSS {
		if ph, ok := lc.X.(*ssa.Phi); ok && ph.Block() == launch.Header {
			L, S = lc.Y, step(launch, ph)
		}
	}
	if !r.Check(L != nil && S != nil, rule, "ValidateTransactions:launch-loop", p.Pos(goIn.Pos()), "workers are started by `for start := 0; start < L; start += S`") {
		return
	}
	same := func(a, b ssa.Value) bool {
		if cv, ok := a.(*ssa.Convert); ok {
			a = cv.X
		}
		if cv, ok := b.(*ssa.Convert); ok {
			b = cv.X
		}
		return a == b || (describe(a) != "" && describe(a) == describe(b))
	}
	// collector: the loop with a select/receive, bounded by count < N, count++
	var N ssa.Value
	for _, l := range core.Loops(F) {
		if l == launch {
			continue
		}
		hasRecv := false
		for b := range l.Body {
			for _, in := range b.Instrs {
				switch x := in.(type) {
				case *ssa.Select:
					hasRecv = true
				case *ssa.UnOp:
					if x.Op == token.ARROW {
						hasRecv = true
					}
				}
			}
		}
		c := hdrCond(l)
		if !hasRecv || c == nil || c.Op != token.LSS {
			continue
		}
		if ph, ok := c.X.(*ssa.Phi); ok && ph.Block() == l.Header {
			if k, isK := core.ConstInt(step(l, ph)); isK && k == 1 {
				N = c.Y
			}
		}
	}
	if !r.Check(N != nil, rule, "ValidateTransactions:collector-loop", p.Pos(F.Pos()), "results are awaited by `for count := 0; count < N; count++ { select … }`") {
		return
	}
	isQuot := func(v ssa.Value) bool {
		bo, ok := v.(*ssa.BinOp)
		return ok && bo.Op == token.QUO && same(bo.X, L) && same(bo.Y, S)
	}
	ok, why := false, "N = "+describe(N)+" is not a recognised ceiling of L/S"
	switch x := N.(type) {
	case *ssa.Phi:
		// (a) counter of launches
		if x.Block() == launch.Header {
			if k, isK := core.ConstInt(step(launch, x)); isK && k == 1 {
				ok = true
			}
		}
		// (b) q, or q+1 under q*S < L / L%S != 0
		if !ok && len(x.Edges) == 2 {
			var q, q1 ssa.Value
			var q1pred *ssa.BasicBlock
			for i, e := range x.Edges {
				if isQuot(e) {
					q = e
				} else if bo, isB := e.(*ssa.BinOp); isB && bo.Op == token.ADD && isQuot(bo.X) {
					if k, isK := core.ConstInt(bo.Y); isK && k == 1 {
						q1, q1pred = e, x.Block().Preds[i]
					}
				}
			}
			if q != nil && q1 != nil {
				for _, f := range CmpFacts(q1pred) {
					if m, isM := f.X.(*ssa.BinOp); isM && m.Op == token.MUL && f.Op == token.LSS && same(f.Y, L) &&
						((isQuot(m.X) && same(m.Y, S)) || (isQuot(m.Y) && same(m.X, S))) {
						ok = true
					}
					if m, isM := f.X.(*ssa.BinOp); isM && m.Op == token.REM && same(m.X, L) && same(m.Y, S) {
						if k, isK := core.ConstInt(f.Y); isK && k == 0 && (f.Op == token.NEQ || f.Op == token.GTR) {
							ok = true
						}
					}
				}
				if !ok {
					why = "the extra worker is not counted exactly when a remainder batch exists (q*S < L)"
				}
			}
		}
	case *ssa.BinOp:
		// (c) (L + S - 1) / S
		if x.Op == token.QUO && same(x.Y, S) {
			if sub, isS := x.X.(*ssa.BinOp); isS && sub.Op == token.SUB {
				if k, isK := core.ConstInt(sub.Y); isK && k == 1 {
					if add, isA := sub.X.(*ssa.BinOp); isA && add.Op == token.ADD && ((same(add.X, L) && same(add.Y, S)) || (same(add.X, S) && same(add.Y, L))) {
						ok = true
					}
				}
			}
		}
	}
	r.Check(ok, rule, "ValidateTransactions:awaits-ceil(len/batch)", p.Pos(goIn.Pos()), "the number of awaited results equals the number of started workers; "+why)
}
