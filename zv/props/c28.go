package props

import (
	"fmt"
	"go/token"
	"go/types"
	"strings"

	"golang.org/x/tools/go/ssa"

	"zv/core"
)

func init() { register("C28", "other", c28) }

// CallFact is a dominating fact "call returned Taken"; Args are the call's arguments as the
// block's function sees them (bound through the helper's parameters when the fact was
// imported from a guard helper).
type CallFact struct {
	Call  *ssa.Call
	Args  []ssa.Value
	Taken bool
}

// callFacts lists the call-valued facts at b (negations folded, helper bindings resolved).
func callFacts(b *ssa.BasicBlock) []CallFact {
	var out []CallFact
	for _, f := range core.FactsAt(b) {
		v, taken := core.NormCond(f.Cond, f.Taken)
		inner, bind := core.Unbind(v)
		for {
			if u, ok := inner.(*ssa.UnOp); ok && u.Op == token.NOT {
				inner, taken = u.X, !taken
				continue
			}
			break
		}
		c, ok := inner.(*ssa.Call)
		if !ok {
			continue
		}
		cf := CallFact{Call: c, Taken: taken}
		for _, a := range c.Call.Args {
			if bind != nil {
				a = core.BindValue(a, bind)
			}
			cf.Args = append(cf.Args, a)
		}
		out = append(out, cf)
	}
	return out
}

// boolCallFacts: the dominating facts at b stating that a call to `callee` (qualified name)
// returned `want`.
func boolCallFacts(b *ssa.BasicBlock, callee string, want bool) []CallFact {
	var out []CallFact
	for _, cf := range callFacts(b) {
		if cf.Taken == want && core.CalleeName(cf.Call.Common()) == callee {
			out = append(out, cf)
		}
	}
	return out
}

// c28Path renders v as root.field with embedded-struct hops removed (b.HashIDField.Hash → b.Hash).
func c28Path(v ssa.Value) string {
	d := describe(v)
	parts := strings.Split(d, ".")
	if len(parts) <= 2 {
		return d
	}
	return parts[0] + "." + parts[len(parts)-1]
}

// c28Strip removes value-preserving conversions.
func c28Strip(v ssa.Value) ssa.Value {
	for {
		switch x := v.(type) {
		case *ssa.ChangeType:
			v = x.X
		case *ssa.Convert:
			v = x.X
		default:
			return v
		}
	}
}

func c28HasEq(b *ssa.BasicBlock, x, y string) bool {
	for _, c := range CmpFacts(b) {
		if c.Op == token.EQL && ((c28Path(c.X) == x && c28Path(c.Y) == y) || (c28Path(c.X) == y && c28Path(c.Y) == x)) {
			return true
		}
	}
	return false
}

// C28 Synced state changes reproduce the computed state.
func c28(r *core.Report, p *core.Prog, thorough bool) {
	r.Explain = "Decided (structure of the acceptance path): a block becomes StateSynched only inside ApplyBlockStateChange; there the installation of the merged trie (setClientState) and the status change are each dominated by the block-hash equality, the declared-state-hash equality, the unconditional node-count equality, the success of MergeDB on the very trie that is installed (fed with the change set's own node db, root and dead nodes) and the final comparison of that trie's root with the block's declared state hash, all under stateMutex; nothing else in the function writes the block's state fields, so every rejecting exit leaves the block untouched. Not decided: that the merged nodes equal what execution would have produced (MergeDB / partial-state internals in 0chain/common are trusted), nor the vacuity of the root comparison when the working trie is created at the new root."
	r.Rule("C28.synched-only-here", "SetStateStatus(StateSynched) is called only from Block.ApplyBlockStateChange")
	r.Rule("C28.guards", "in ApplyBlockStateChange every setClientState / SetStateStatus(StateSynched) is dominated by: b.Hash == bsc.Block; bytes.Equal(b.ClientStateHash, bsc.Hash); len(bsc.Nodes) == b.StateChangesCount (unconditional); MergeDB(...) error-free on the installed trie; bytes.Equal(b.ClientStateHash, <installed trie>.GetRoot()) evaluated after the merge")
	r.Rule("C28.merge-args", "MergeDB receives bsc.GetNodeDB(), bsc.GetRoot().GetHashBytes() and bsc.GetDeadNodes() of the same change set")
	r.Rule("C28.untouched", "no other instruction or callee of ApplyBlockStateChange writes Block.ClientState, ClientStateHash or stateStatus; both installs happen together")
	r.Rule("C28.node-set-validated", "PartialState.ComputeProperties (run on every decoded change set) succeeds only after: db size == number of received nodes; ComputeRoot() on the db built from them returned without error (it rejects node sets with members unreachable from the root); the computed root's hash equals the claimed Hash; the installed mndb/root are that db and that root")
	c28NodeSet(r, p)
	r.Rule("C28.locked", "ApplyBlockStateChange holds b.stateMutex (Lock; defer Unlock) before anything else")
	fn := p.Func("(*" + pkgBlock + ".Block).ApplyBlockStateChange")
	setCS := p.Func("(*" + pkgBlock + ".Block).setClientState")
	setSS := p.Func("(*" + pkgBlock + ".Block).SetStateStatus")
	synched, _ := p.Object(pkgBlock, "StateSynched").(*types.Const)
	if fn == nil || setCS == nil || setSS == nil || synched == nil {
		r.Unresolved("C28.guards", "Block.ApplyBlockStateChange/setClientState/SetStateStatus/StateSynched")
		return
	}
	synchedVal := synched.Val().ExactString()
	isSynchedCall := func(c *ssa.CallCommon) bool {
		if core.StaticCallee(c) != setSS || len(c.Args) < 2 {
			return false
		}
		k, ok := c.Args[1].(*ssa.Const)
		return ok && k.Value != nil && k.Value.ExactString() == synchedVal
	}
	// ---- synched-only-here
	n, nProp := 0, 0
	for _, f := range p.ModFuncs() {
		if isTooling(p, f) {
			continue
		}
		for _, cs := range core.CallsIn(f, true, func(c *ssa.CallCommon) bool { return core.StaticCallee(c) == setSS }) {
			c := cs.Common()
			if _, ok := c.Args[1].(*ssa.Const); ok {
				if !isSynchedCall(c) {
					continue
				}
				n++
				r.Check(cs.Fn == fn, "C28.synched-only-here", "SetStateStatus(StateSynched):"+cs.Fn.String(), p.Pos(cs.Pos()), "a block is marked synced outside the checked path")
			} else {
				nProp++ // copies a status another block already holds (addBlock, GetBlockStateChange): not an origin of StateSynched
			}
		}
	}
	r.Floor("C28.synched-only-here", fmt.Sprintf("SetStateStatus(StateSynched) sites (%d further sites copy a non-constant status and are not origins)", nProp), n, 1)
	// ---- locked
	okLock := false
	if len(fn.Blocks) > 0 {
		stage := 0
		for _, in := range fn.Blocks[0].Instrs {
			switch x := in.(type) {
			case *ssa.Call:
				if stage == 0 && strings.HasSuffix(core.CalleeName(x.Common()), "Mutex).Lock") && strings.HasSuffix(describe(x.Call.Args[0]), "b.stateMutex") {
					stage = 1
					continue
				}
				if stage < 2 {
					stage = -1
				}
			case *ssa.Defer:
				if stage == 1 && strings.HasSuffix(core.CalleeName(x.Common()), "Mutex).Unlock") && strings.HasSuffix(describe(x.Call.Args[0]), "b.stateMutex") {
					stage = 2
					okLock = true
				}
			}
			if stage == -1 {
				break
			}
		}
	}
	r.Check(okLock, "C28.locked", "ApplyBlockStateChange:stateMutex", p.Pos(fn.Pos()), "b.stateMutex.Lock(); defer b.stateMutex.Unlock() precede every other call")
	// ---- install sites
	var installs []*ssa.Call
	var trie ssa.Value
	nCS, nSS := 0, 0
	for _, b := range fn.Blocks {
		for _, in := range b.Instrs {
			c, ok := in.(*ssa.Call)
			if !ok {
				continue
			}
			switch {
			case core.StaticCallee(c.Common()) == setCS:
				nCS++
				installs = append(installs, c)
				if trie == nil {
					trie = c.Call.Args[1]
				} else if trie != c.Call.Args[1] {
					r.Fail("C28.guards", "setClientState:second-trie", p.Pos(c.Pos()), "two different tries are installed")
				}
			case isSynchedCall(c.Common()):
				nSS++
				installs = append(installs, c)
			}
		}
	}
	if !r.Check(nCS == 1 && nSS == 1, "C28.guards", "ApplyBlockStateChange:install-sites", p.Pos(fn.Pos()), fmt.Sprintf("%d setClientState and %d SetStateStatus(StateSynched) calls (want 1 and 1)", nCS, nSS)) {
		return
	}
	// the merge on the installed trie
	var merge *ssa.Call
	for _, c := range methodCalls(fn, "MergeDB") {
		if core.Receiver(c.Common()) == trie {
			if merge != nil {
				merge = nil
				break
			}
			merge = c
		}
	}
	if !r.Check(merge != nil, "C28.guards", "ApplyBlockStateChange:merge-on-installed-trie", p.Pos(fn.Pos()), "exactly one MergeDB call whose receiver is the trie passed to setClientState") {
		return
	}
	bsc := fn.Params[1]
	isBscCall := func(v ssa.Value, method string) bool {
		c, ok := v.(*ssa.Call)
		if !ok || core.MethodName(c.Common()) != method || core.Receiver(c.Common()) == nil {
			return false
		}
		root, _ := core.BaseObject(core.Receiver(c.Common()))
		return root == ssa.Value(bsc)
	}
	args := core.CallArgs(merge.Common())
	okArgs := len(args) == 3 && isBscCall(args[0], "GetNodeDB") && isBscCall(args[2], "GetDeadNodes")
	if okArgs {
		okArgs = false
		if hb, ok := c28Strip(args[1]).(*ssa.Call); ok && core.MethodName(hb.Common()) == "GetHashBytes" {
			okArgs = isBscCall(core.Receiver(hb.Common()), "GetRoot")
		}
	}
	r.Check(okArgs, "C28.merge-args", "MergeDB:args", p.Pos(merge.Pos()), "MergeDB(bsc.GetNodeDB(), bsc.GetRoot().GetHashBytes(), bsc.GetDeadNodes())")
	for _, ins := range installs {
		name := core.StaticCallee(ins.Common()).Name()
		blk := ins.Block()
		key := func(g string) string { return name + ":guard:" + g }
		// (a) block hash
		r.Check(c28HasEq(blk, "b.Hash", "bsc.Block"), "C28.guards", key("block-hash"), p.Pos(ins.Pos()), "b.Hash == bsc.Block must hold")
		// (b) declared state hash and (e) final root
		okDecl, okRoot := false, false
		for _, eq := range boolCallFacts(blk, "bytes.Equal", true) {
			a0, a1 := eq.Args[0], eq.Args[1]
			for k := 0; k < 2; k++ {
				if c28Path(a0) == "b.ClientStateHash" {
					if c28Path(a1) == "bsc.Hash" {
						okDecl = true
					}
					if gr, ok := c28Strip(a1).(*ssa.Call); ok && core.MethodName(gr.Common()) == "GetRoot" && core.Receiver(gr.Common()) == trie && Before(merge, gr) {
						okRoot = true
					}
				}
				a0, a1 = a1, a0
			}
		}
		r.Check(okDecl, "C28.guards", key("declared-state-hash"), p.Pos(ins.Pos()), "bytes.Equal(b.ClientStateHash, bsc.Hash) must hold")
		r.Check(okRoot, "C28.guards", key("merged-root"), p.Pos(ins.Pos()), "bytes.Equal(b.ClientStateHash, trie.GetRoot()) on the installed trie, evaluated after MergeDB, must hold")
		// (c) node count, unconditional
		okCnt := false
		for _, f := range CmpFacts(blk) {
			if f.Op != token.EQL {
				continue
			}
			x, y := f.X, f.Y
			for k := 0; k < 2; k++ {
				if lc, ok := x.(*ssa.Call); ok && core.CalleeName(lc.Common()) == "builtin.len" && c28Path(lc.Call.Args[0]) == "bsc.Nodes" && c28Path(y) == "b.StateChangesCount" {
					okCnt = true
				}
				x, y = y, x
			}
		}
		r.Check(okCnt, "C28.guards", key("node-count"), p.Pos(ins.Pos()), "len(bsc.Nodes) == b.StateChangesCount must hold on every path to the install (a count check under another condition does not dominate)")
		// (d) merge success
		r.Check(Before(merge, ins) && core.ErrLeadsToFailure(merge), "C28.guards", key("merge-ok"), p.Pos(ins.Pos()), "MergeDB precedes and its error aborts")
	}
	// both installs together: the status change is reached from the trie install on every path and vice versa
	r.Check(installs[0].Block() == installs[1].Block() || (Before(installs[0], installs[1]) && func() bool { ok, _ := MustPassFrom(p, fn, installs[0], installs[1]); return ok }()), "C28.untouched", "installs-together", p.Pos(installs[0].Pos()), "the trie and the synced status are installed on the same paths")
	// ---- untouched: writers of the state fields
	var fields []*types.Var
	for _, fnm := range []string{"ClientState", "ClientStateHash", "stateStatus"} {
		if f := p.Field(pkgBlock, "Block", fnm); f != nil {
			fields = append(fields, f)
		} else if f := p.Field(pkgBlock, "UnverifiedBlockBody", fnm); f != nil {
			fields = append(fields, f)
		} else {
			r.Unresolved("C28.untouched", "Block."+fnm)
			return
		}
	}
	writers := map[*ssa.Function]bool{}
	for _, f := range fields {
		for _, w := range core.FieldWrites(p.ModFuncs(), f) {
			writers[w.Fn] = true
			if w.Fn == fn {
				r.Fail("C28.untouched", "direct-write:"+f.Name(), p.Pos(w.Instr.Pos()), "ApplyBlockStateChange writes the field itself, outside the guarded install")
			}
		}
	}
	nCalls := 0
	for _, cs := range core.CallsIn(fn, true, nil) {
		callee := core.StaticCallee(cs.Common())
		if callee == nil || callee.Pkg == nil || !core.IsModule(callee.Pkg.Pkg.Path()) {
			continue
		}
		nCalls++
		isInstall := false
		for _, ins := range installs {
			if ssa.Instruction(ins) == cs.Instr.(ssa.Instruction) {
				isInstall = true
			}
		}
		if isInstall {
			continue
		}
		reach := StaticClosure([]*ssa.Function{callee}, nil)
		var hit *ssa.Function
		for _, g := range reach {
			if writers[g] {
				hit = g
				break
			}
		}
		if hit != nil {
			r.Fail("C28.untouched", "callee-writes-state:"+callee.String(), p.Pos(cs.Pos()), "reaches "+hit.String()+", which writes the block's state fields outside the guarded install")
		}
	}
	r.Pass("C28.untouched", "ApplyBlockStateChange:other-callees", p.Pos(fn.Pos()), fmt.Sprintf("%d first-party callees besides the two installs; none reaches a writer of ClientState/ClientStateHash/stateStatus (%d writer functions in the module)", nCalls-2, len(writers)))
	r.Floor("C28.untouched", "writer functions of the state fields", len(writers), 2)
}

func c28NodeSet(r *core.Report, p *core.Prog) {
	fn := p.Func("(*" + pkgState + ".PartialState).ComputeProperties")
	if fn == nil {
		r.Unresolved("C28.node-set-validated", "PartialState.ComputeProperties")
		return
	}
	var cr []*ssa.Call
	for _, b := range fn.Blocks {
		for _, in := range b.Instrs {
			if c, ok := in.(*ssa.Call); ok && core.MethodName(c.Common()) == "ComputeRoot" {
				cr = append(cr, c)
			}
		}
	}
	if !r.Check(len(cr) == 1, "C28.node-set-validated", "ComputeProperties:computes-root", p.Pos(fn.Pos()), fmt.Sprintf("%d ComputeRoot calls (looking the claimed hash up in the db does not validate the rest of the node set)", len(cr))) {
		return
	}
	c := cr[0]
	r.Check(core.ErrLeadsToFailure(c), "C28.node-set-validated", "ComputeProperties:root-error-rejects", p.Pos(c.Pos()), "a node set that does not form one tree is rejected")
	// the db is the one built from the received nodes
	db := core.Receiver(c.Common())
	fromNodes := false
	if e, ok := db.(*ssa.Extract); ok {
		if bc, ok := e.Tuple.(*ssa.Call); ok && bc.Call.StaticCallee() != nil && len(bc.Call.Args) > 0 && bc.Call.Args[0] == ssa.Value(fn.Params[0]) {
			fromNodes = true
		}
	}
	r.Check(fromNodes, "C28.node-set-validated", "ComputeProperties:db-from-received-nodes", p.Pos(c.Pos()), "the root is computed on the db built by the change set's own newNodeDB()")
	exits := core.SuccessExits(fn)
	okAll := len(exits) > 0
	why := ""
	for _, ret := range exits {
		size, hash := false, false
		for _, f := range core.FactsAt(ret.Block()) {
			cv, taken := stripNot(f.Cond, f.Taken)
			if bo, ok := cv.(*ssa.BinOp); ok {
				eq := (bo.Op == token.EQL && taken) || (bo.Op == token.NEQ && !taken)
				_, lx := FlowLoads(bo.X)
				_, ly := FlowLoads(bo.Y)
				hasSize, hasLen := false, false
				for _, l := range append(lx, ly...) {
					if cc, ok := l.(*ssa.Call); ok {
						if core.MethodName(cc.Common()) == "Size" {
							hasSize = true
						}
						if core.CalleeName(cc.Common()) == "builtin.len" {
							hasLen = true
						}
					}
				}
				fs1, _ := FlowLoads(bo.X)
				fs2, _ := FlowLoads(bo.Y)
				nodesRead := fs1["PartialState.Nodes"] || fs2["PartialState.Nodes"]
				if eq && hasSize && hasLen && nodesRead {
					size = true
				}
			}
			if cc, ok := cv.(*ssa.Call); ok && taken && core.CalleeName(cc.Common()) == "bytes.Equal" {
				a0, _ := FlowLoads(cc.Call.Args[0])
				a1, _ := FlowLoads(cc.Call.Args[1])
				_, l0 := FlowLoads(cc.Call.Args[0])
				_, l1 := FlowLoads(cc.Call.Args[1])
				fromRoot := false
				for _, l := range append(l0, l1...) {
					if l == ssa.Value(c) {
						fromRoot = true
					}
				}
				if fromRoot && (a0["PartialState.Hash"] || a1["PartialState.Hash"]) {
					hash = true
				}
			}
		}
		if !size || !hash {
			okAll = false
			why = fmt.Sprintf("success exit at %s: size-check=%v root-hash-check=%v", p.Pos(ret.Pos()), size, hash)
		}
	}
	r.Check(okAll, "C28.node-set-validated", "ComputeProperties:success-needs-size-and-root-hash", p.Pos(fn.Pos()), "every success exit follows db size == len(Nodes) and bytes.Equal(computed root hash, claimed Hash); "+why)
}
