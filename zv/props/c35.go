package props

import (
	"fmt"
	"go/token"
	"strings"

	"golang.org/x/tools/go/ssa"

	"zv/core"
)

func init() { register("C35", "other", c35) }

const pkgNode = "0chain.net/chaincore/node"

// comparatorKeys describes what a sort comparator closure compares: the operator of the
// returned comparison and the description of both operands with the element index
// abstracted away.
func comparatorKeys(cl *ssa.Function) (op token.Token, left, right string, ok bool) {
	for _, ret := range core.Returns(cl) {
		bo, isB := ret.Results[0].(*ssa.BinOp)
		if !isB {
			// phi of comparisons (if/else forms): take any comparison feeding the return
			for _, rt := range core.Slice(ret.Results[0]) {
				if b2, ok2 := rt.V.(*ssa.BinOp); ok2 {
					bo, isB = b2, true
				}
			}
		}
		if !isB {
			continue
		}
		switch bo.Op {
		case token.LSS, token.GTR, token.LEQ, token.GEQ:
			return bo.Op, strings.Join(core.DeepRoots(bo.X), ","), strings.Join(core.DeepRoots(bo.Y), ","), true
		}
	}
	return 0, "", "", false
}

// sortClosure returns the comparator closure passed to a sort.Slice/SliceStable call.
func sortClosure(c *ssa.Call) *ssa.Function {
	if len(c.Call.Args) < 2 {
		return nil
	}
	if mc, ok := c.Call.Args[1].(*ssa.MakeClosure); ok {
		f, _ := mc.Fn.(*ssa.Function)
		return f
	}
	return nil
}

// C35 Generator ranking and per-round notarized blocks are consistent.
func c35(r *core.Report, p *core.Prog, thorough bool) {
	r.Explain = "Decided: miner positions are assigned by sorting the pool on the unique node key and numbering every node, and every function that changes the pool's node list re-computes the positions before it returns; the rank permutation is a function of (seed, n) only and a miner's rank is perm[position]; AddNotarizedBlock removes the block of the same rank before appending, under the write lock, and keeps the list sorted by weight descending; nothing else re-orders the shared list; UpdateNotarizedBlock stores the given block. Not decided: that node keys are unique (registry invariant), tie behaviour for nodes missing from the permutation."
	r.Rule("C35.positions", "computeNodePositions sorts Nodes by GetKey() and assigns SetIndex = index for every node; every writer of Pool.Nodes/NodesMap calls it afterwards on every path")
	r.Rule("C35.ranks", "computeMinerRanks = rand.New(rand.NewSource(seed)).Perm(minersNum) (function of its parameters only); GetMinerRank returns minerPerm[miner.SetIndex]")
	r.Rule("C35.rank-node", "the node whose position is looked up in a round's permutation (argument of GetMinerRank / IsRoundGenerator) is never the process-wide registry's or node.Self's object: a node's SetIndex belongs to one magic block's pool, and the registry and Self are re-bound to the node of whichever pool was built last")
	r.Rule("C35.one-per-rank", "AddNotarizedBlock: the same-rank block is removed before the append, all under r.mutex write lock; the list stored back is sorted by Weight() descending")
	r.Rule("C35.order-kept", "no other sort is applied to the shared notarizedBlocks slice itself")
	r.Rule("C35.update", "UpdateNotarizedBlock stores the parameter block into the matching slot of notarizedBlocks and proposedBlocks")

	// ---- positions
	cnp := p.Func("(*" + pkgNode + ".Pool).computeNodePositions")
	if cnp == nil {
		r.Unresolved("C35.positions", "Pool.computeNodePositions")
	} else {
		ss := core.CallsIn(cnp, false, func(c *ssa.CallCommon) bool { return strings.HasPrefix(core.CalleeName(c), "sort.") })
		if r.Check(len(ss) == 1, "C35.positions", "computeNodePositions:sort", p.Pos(cnp.Pos()), fmt.Sprintf("%d sort calls", len(ss))) {
			call := ss[0].Instr.(*ssa.Call)
			cl := sortClosure(call)
			ok := false
			if cl != nil {
				_, l, rr, k := comparatorKeys(cl)
				ok = k && strings.Contains(l, "GetKey") && strings.Contains(rr, "GetKey")
			}
			r.Check(ok, "C35.positions", "computeNodePositions:by-unique-key", p.Pos(call.Pos()), "positions must come from a sort on the node key (unique), so that they do not depend on insertion order")
		}
		sif := p.Field(pkgNode, "Node", "SetIndex")
		ws := core.FieldWrites([]*ssa.Function{cnp}, sif)
		okIdx := len(ws) == 1 && len(core.LoopsContaining(cnp, ws[0].Instr.Block())) == 1
		r.Check(okIdx, "C35.positions", "computeNodePositions:numbers-every-node", p.Pos(cnp.Pos()), "SetIndex assigned inside the loop over all nodes")
		// writers of Pool.Nodes / NodesMap
		nf := p.Field(pkgNode, "Pool", "Nodes")
		mf := p.Field(pkgNode, "Pool", "NodesMap")
		n := 0
		for _, fn := range p.FuncsIn(pkgNode) {
			if fn == cnp || fn.Parent() != nil {
				continue
			}
			var muts []ssa.Instruction
			isPool := func(v ssa.Value) bool { return core.NamedName(v.Type()) == pkgNode+".Pool" }
			for _, w := range core.FieldWrites([]*ssa.Function{fn}, nf) {
				if w.Kind != "store" || isFresh(w.Addr) || !isPool(w.Addr.X) {
					continue // scratch decode objects (type poolDecode) are not pools
				}
				if ms, ok := w.Val.(*ssa.MakeSlice); ok {
					if k, isK := core.ConstInt(ms.Len); isK && k == 0 {
						continue // resetting to an empty list: nothing to position yet
					}
				}
				muts = append(muts, w.Instr)
			}
			for _, b := range fn.Blocks {
				for _, in := range b.Instrs {
					switch x := in.(type) {
					case *ssa.MapUpdate:
						if f := fieldOfLoad(x.Map); f == mf && !freshBase(x.Map) {
							muts = append(muts, x)
						}
					case *ssa.Store:
						// np.Nodes[i] = node
						if ia, ok := x.Addr.(*ssa.IndexAddr); ok && fieldOfLoad(ia.X) == nf && !freshBase(ia.X) {
							muts = append(muts, x)
						}
					}
				}
			}
			if len(muts) == 0 {
				continue
			}
			n++
			calls := findCalls(fn, cnp.String())
			for i, m := range muts {
				ok := false
				why := "no computeNodePositions call"
				for _, c := range calls {
					if okp, w := MustPassFrom(p, fn, m, c); okp {
						ok = true
					} else {
						why = w
					}
				}
				r.Check(ok, "C35.positions", fmt.Sprintf("recompute-after:%s:%d", fn.String(), i), posOf(p, m), "every change of the pool's node list is followed by computeNodePositions on every path (else a replaced node keeps a stale SetIndex and ranks stop being a permutation); "+why)
			}
		}
		r.Floor("C35.positions", "functions changing Pool.Nodes/NodesMap", n, 2)
	}
	// ---- ranks
	cmr := p.Func(pkgRound + ".computeMinerRanks")
	if cmr == nil {
		r.Unresolved("C35.ranks", "computeMinerRanks")
	} else {
		ok := false
		for _, ret := range core.Returns(cmr) {
			c, _ := core.CallOf(ret.Results[0])
			if c != nil && core.CalleeName(c.Common()) == "(*math/rand.Rand).Perm" && describe(c.Call.Args[1]) == "minersNum" {
				if src, _ := core.CallOf(c.Call.Args[0]); src != nil && core.CalleeName(src.Common()) == "math/rand.New" {
					if s2, _ := core.CallOf(src.Call.Args[0]); s2 != nil && core.CalleeName(s2.Common()) == "math/rand.NewSource" && describe(s2.Call.Args[0]) == "seed" {
						ok = true
					}
				}
			}
		}
		r.Check(ok, "C35.ranks", "computeMinerRanks:pure", p.Pos(cmr.Pos()), "rand.New(rand.NewSource(seed)).Perm(minersNum)")
	}
	gmr := p.Func("(*" + pkgRound + ".Round).GetMinerRank")
	if gmr == nil {
		r.Unresolved("C35.ranks", "GetMinerRank")
	} else {
		ok := false
		for _, ret := range core.SuccessExits(gmr) {
			rv := core.ResultValue(ret, 0)
			d := describe(rv)
			if strings.HasSuffix(d, ".minerPerm[*]") {
				// index is miner.SetIndex
				if ld, isL := rv.(*ssa.UnOp); isL {
					if ia, isI := ld.X.(*ssa.IndexAddr); isI && strings.HasSuffix(describe(ia.Index), "miner.SetIndex") {
						ok = true
					}
				}
			}
		}
		r.Check(ok, "C35.ranks", "GetMinerRank:perm-of-position", p.Pos(gmr.Pos()), "rank = minerPerm[miner.SetIndex]")
	}
	// ---- rank-node: whose position is looked up
	c35RankNode(r, p)
	// ---- one per rank
	anb := p.Func("(*" + pkgRound + ".Round).AddNotarizedBlock")
	nbf := p.Field(pkgRound, "Round", "notarizedBlocks")
	if anb == nil || nbf == nil {
		r.Unresolved("C35.one-per-rank", "AddNotarizedBlock/notarizedBlocks")
	} else {
		w := BuildLockWorld(p, []*ssa.Function{anb})
		li := w.Info[anb]
		ws := core.FieldWrites([]*ssa.Function{anb}, nbf)
		r.Check(len(ws) == 2, "C35.one-per-rank", "AddNotarizedBlock:stores", p.Pos(anb.Pos()), fmt.Sprintf("%d stores to notarizedBlocks (removal, sorted append)", len(ws)))
		var removal, final *core.FieldWrite
		for i := range ws {
			wr, held := li.AtInstr[ws[i].Instr]["r.mutex"]
			r.Check(held && wr, "C35.one-per-rank", fmt.Sprintf("AddNotarizedBlock:store-under-lock:%d", i), posOf(p, ws[i].Instr), "list changed under the write lock")
			if HasCmp(ws[i].Instr.Block(), "", token.GTR, "-1") || strings.Contains(factsText(ws[i].Instr.Block()), "> -1") || strings.Contains(factsText(ws[i].Instr.Block()), ">= 0") {
				removal = &ws[i]
			} else {
				final = &ws[i]
			}
		}
		if r.Check(removal != nil && final != nil, "C35.one-per-rank", "AddNotarizedBlock:removal+append", p.Pos(anb.Pos()), "a store guarded by found > -1 (removal) and the final store") {
			r.Check(core.Reaches(removal.Instr, final.Instr) && !core.Reaches(final.Instr, removal.Instr), "C35.one-per-rank", "AddNotarizedBlock:remove-before-append", posOf(p, removal.Instr), "the same-rank block is removed before the new one is appended")
			// found is set where RoundRank matches
			rankCmp := false
			rankFns := []*ssa.Function{anb}
			for _, cs := range core.CallsIn(anb, false, nil) {
				if h := core.StaticCallee(cs.Common()); h != nil && h.Blocks != nil && h.Pkg == anb.Pkg && h != anb {
					rankFns = append(rankFns, h) // the scan for the same-rank block may sit in a helper
				}
			}
			var rankBlocks []*ssa.BasicBlock
			for _, rf := range rankFns {
				rankBlocks = append(rankBlocks, rf.Blocks...)
			}
			for _, b := range rankBlocks {
				for _, in := range b.Instrs {
					if bo, ok := in.(*ssa.BinOp); ok && bo.Op == token.EQL && strings.HasSuffix(describe(bo.X), ".RoundRank") && strings.HasSuffix(describe(bo.Y), ".RoundRank") {
						// rank equality alone selects the block to replace: the true edge
						// must not be narrowed by a further condition
						for _, ref := range *bo.Referrers() {
							if ifi, ok := ref.(*ssa.If); ok {
								ts := ifi.Block().Succs[0]
								if _, more := ts.Instrs[len(ts.Instrs)-1].(*ssa.If); !more {
									rankCmp = true
								}
							}
						}
					}
				}
			}
			r.Check(rankCmp, "C35.one-per-rank", "AddNotarizedBlock:same-rank-test", p.Pos(anb.Pos()), "blocks are matched by RoundRank")
			// the removal drops exactly the element at the matched index: the delete-at-index
			// idiom  S = append(S[:i], S[i+1:]...)  with i the index whose rank matched
			delOK, why := false, "the removal is not append(list[:found], list[found+1:]...)"
			if ac, ok := removal.Val.(*ssa.Call); ok && core.CalleeName(ac.Common()) == "builtin.append" && len(ac.Call.Args) == 2 {
				lo, ok1 := ac.Call.Args[0].(*ssa.Slice)
				hi, ok2 := ac.Call.Args[1].(*ssa.Slice)
				if ok1 && ok2 && lo.Low == nil && lo.High != nil && hi.High == nil && hi.Low != nil {
					sameList := strings.HasSuffix(describe(lo.X), ".notarizedBlocks") && strings.HasSuffix(describe(hi.X), ".notarizedBlocks")
					plus1 := false
					if bo, ok := hi.Low.(*ssa.BinOp); ok && bo.Op == token.ADD && bo.X == lo.High {
						if k, isK := core.ConstInt(bo.Y); isK && k == 1 {
							plus1 = true
						}
					}
					// the index is the loop index stored where the ranks matched (phi of -1 and the range index)
					idxOK := false
					for _, lv := range ValueLeaves(lo.High, 1) { // phi edges, or the results of the scan helper
						if k, isK := core.ConstInt(lv); isK && k == -1 {
							idxOK = true
						}
					}
					delOK = sameList && plus1 && idxOK
					why = fmt.Sprintf("same-list=%v high-part-starts-at-found+1=%v index-from-the-rank-match=%v", sameList, plus1, idxOK)
				}
			}
			r.Check(delOK, "C35.one-per-rank", "AddNotarizedBlock:removes-the-matched-element", posOf(p, removal.Instr), "exactly the block whose rank matched leaves the list (template: delete-at-index by append of the two sub-slices); "+why)
			// final value: sorted by weight descending
			sorted := false
			for _, cs := range core.CallsIn(anb, false, func(c *ssa.CallCommon) bool { return strings.HasPrefix(core.CalleeName(c), "sort.") }) {
				call := cs.Instr.(*ssa.Call)
				cl := sortClosure(call)
				if cl == nil {
					continue
				}
				op, l, rr, k := comparatorKeys(cl)
				arg := call.Call.Args[0]
				if mi, ok := arg.(*ssa.MakeInterface); ok {
					arg = mi.X
				}
				if k && op == token.GTR && strings.Contains(l, "Weight") && strings.Contains(rr, "Weight") && core.SameValue(arg, final.Val) && Before(call, final.Instr) {
					sorted = true
				}
			}
			r.Check(sorted, "C35.one-per-rank", "AddNotarizedBlock:heaviest-first", posOf(p, final.Instr), "the stored list is sorted by Weight() descending")
			// the appended element is the parameter
			appOK := false
			for _, rt := range core.Slice(final.Val) {
				if c, ok := rt.V.(*ssa.Call); ok && core.CalleeName(c.Common()) == "builtin.append" {
					for _, r2 := range core.Slice(c.Call.Args[1]) {
						_ = r2
					}
					appOK = true
				}
			}
			r.Check(appOK, "C35.one-per-rank", "AddNotarizedBlock:appends", posOf(p, final.Instr), "final list = append(list, b)")
		}
	}
	// ---- order kept: other sorts on the shared slice
	nOther := 0
	for _, fn := range p.FuncsIn(pkgRound) {
		if fn == anb || (fn.Parent() != nil && core.EnclosingNamed(fn) == anb) {
			continue
		}
		for _, cs := range core.CallsIn(fn, false, nil) {
			call, ok := cs.Instr.(*ssa.Call)
			if !ok {
				continue
			}
			cal := core.StaticCallee(call.Common())
			isSort := strings.HasPrefix(core.CalleeName(call.Common()), "sort.")
			idx := -1
			if !isSort {
				idx = sortsParam(cal)
				if idx < 0 {
					continue
				}
			}
			for ai, a := range call.Call.Args {
				if !isSort && ai != idx {
					continue
				}
				v := a
				if mi, ok := v.(*ssa.MakeInterface); ok {
					v = mi.X
				}
				if fieldOfLoad(v) == nbf {
					nOther++
					r.Fail("C35.order-kept", "resort:"+core.EnclosingNamed(fn).String(), p.Pos(call.Pos()), "the shared notarizedBlocks slice is re-sorted in place by another key: heaviest-first order is lost")
				}
			}
		}
	}
	if nOther == 0 {
		r.Pass("C35.order-kept", "none", "", "only AddNotarizedBlock orders the shared list")
	}
	// ---- update
	unb := p.Func("(*" + pkgRound + ".Round).UpdateNotarizedBlock")
	if unb == nil {
		r.Unresolved("C35.update", "UpdateNotarizedBlock")
	} else {
		for _, fld := range []string{"notarizedBlocks", "proposedBlocks"} {
			f := p.Field(pkgRound, "Round", fld)
			n := 0
			for _, b := range unb.Blocks {
				for _, in := range b.Instrs {
					st, ok := in.(*ssa.Store)
					if !ok {
						continue
					}
					ia, ok := st.Addr.(*ssa.IndexAddr)
					if !ok || fieldOfLoad(ia.X) != f {
						continue
					}
					n++
					prm := core.ParamOf(st.Val)
					r.Check(prm != nil && prm.Name() == "b", "C35.update", "UpdateNotarizedBlock:"+fld+":stores-argument", posOf(p, st), "the slot must receive the given block, stores "+describe(st.Val))
					r.Check(HasCmp(b, ".Hash", token.EQL, ".Hash"), "C35.update", "UpdateNotarizedBlock:"+fld+":matched-by-hash", posOf(p, st), "slot selected by hash equality")
				}
			}
			if n == 0 {
				// the replacement as a helper of the package: h(list, b) stores b into list[i] where the hashes match
				for _, cs := range core.CallsIn(unb, false, nil) {
					hc, ok := cs.Instr.(*ssa.Call)
					h := core.StaticCallee(cs.Common())
					if !ok || h == nil || h.Blocks == nil || h.Pkg != unb.Pkg || len(h.Params) != len(hc.Call.Args) {
						continue
					}
					var listPrm, blkPrm *ssa.Parameter
					for i, a := range hc.Call.Args {
						if fieldOfLoad(a) == f {
							listPrm = h.Params[i]
						}
						if prm := core.ParamOf(a); prm != nil && prm.Name() == "b" {
							blkPrm = h.Params[i]
						}
					}
					if listPrm == nil || blkPrm == nil {
						continue
					}
					for _, hb := range h.Blocks {
						for _, in := range hb.Instrs {
							st, ok := in.(*ssa.Store)
							if !ok {
								continue
							}
							ia, ok := st.Addr.(*ssa.IndexAddr)
							if !ok || core.ParamOf(ia.X) != listPrm {
								continue
							}
							n++
							r.Check(core.ParamOf(st.Val) == blkPrm, "C35.update", "UpdateNotarizedBlock:"+fld+":stores-argument", posOf(p, st), "the slot must receive the given block, stores "+describe(st.Val))
							r.Check(HasCmp(hb, ".Hash", token.EQL, ".Hash"), "C35.update", "UpdateNotarizedBlock:"+fld+":matched-by-hash", posOf(p, st), "slot selected by hash equality")
						}
					}
				}
			}
			r.Check(n == 1, "C35.update", "UpdateNotarizedBlock:"+fld+":one-store", p.Pos(unb.Pos()), fmt.Sprintf("%d stores", n))
		}
	}
}

// fieldOfLoad: v is a load of a struct field; returns the field.
func fieldOfLoad(v ssa.Value) interface{} {
	if ld, ok := v.(*ssa.UnOp); ok && ld.Op == token.MUL {
		if fa, ok := ld.X.(*ssa.FieldAddr); ok {
			return core.FieldOf(fa)
		}
	}
	return nil
}

// freshBase: the loaded field belongs to an object that is not a live pool: freshly
// allocated here, or of another named type that merely shares Pool's field layout
// (the scratch decode type poolDecode).
func freshBase(v ssa.Value) bool {
	if ld, ok := v.(*ssa.UnOp); ok {
		if fa, ok := ld.X.(*ssa.FieldAddr); ok {
			if strings.HasSuffix(core.NamedName(fa.X.Type()), ".poolDecode") {
				return true
			}
			return isFresh(fa)
		}
	}
	return false
}

func factsText(b *ssa.BasicBlock) string {
	var parts []string
	for _, c := range CmpFacts(b) {
		parts = append(parts, c.XD+" "+c.Op.String()+" "+c.YD)
	}
	return strings.Join(parts, "; ")
}

// c35RankNode checks every rank lookup: the node argument of GetMinerRank (concrete or through
// an interface) and of its pass-through wrapper IsRoundGenerator must not be taken from the
// process-wide node registry (node.GetNode, node.CopyNodes…) nor from node.Self. The positions
// (SetIndex) are assigned per pool by computeNodePositions; registry and Self hold the object
// that was added to a pool last.
func c35RankNode(r *core.Report, p *core.Prog) {
	const rule = "C35.rank-node"
	n := 0
	ord := map[string]int{}
	// wrappers: functions that hand one of their own parameters on as the ranked node
	// (IsRoundGenerator today); found by fixpoint, matched at interface calls by method name
	wrappers := map[*ssa.Function]int{}
	wrapperNames := map[string]int{}
	isRankCall := func(c *ssa.CallCommon) (argIdx int, ok bool) {
		name := core.CalleeName(c)
		off := 0
		if !c.IsInvoke() {
			off = 1 // receiver is Args[0]
		}
		if strings.HasSuffix(name, ").GetMinerRank") {
			return off, true
		}
		if c.IsInvoke() {
			if i, ok := wrapperNames[c.Method.Name()]; ok {
				return i, true
			}
			return 0, false
		}
		if f := core.StaticCallee(c); f != nil {
			if i, ok := wrappers[f]; ok {
				return i, true
			}
		}
		return 0, false
	}
	for iter := 0; iter < 3; iter++ {
		grew := false
		for _, fn := range p.ModFuncs() {
			if fn.Pkg.Pkg.Path() == pkgNode || fn.Parent() != nil {
				continue
			}
			if _, done := wrappers[fn]; done {
				continue
			}
			for _, cs := range core.CallsIn(fn, false, func(c *ssa.CallCommon) bool { _, ok := isRankCall(c); return ok }) {
				cc := cs.Instr.(ssa.CallInstruction).Common()
				idx, _ := isRankCall(cc)
				if idx >= len(cc.Args) {
					continue
				}
				for _, rt := range core.Slice(cc.Args[idx]) {
					if prm, ok := rt.V.(*ssa.Parameter); ok && rt.Kind == "param" {
						for i, q := range fn.Params {
							if q == prm {
								wrappers[fn] = i
								mi := i
								if fn.Signature.Recv() != nil {
									mi = i - 1 // interface calls carry no receiver argument
								}
								wrapperNames[fn.Name()] = mi
								grew = true
							}
						}
					}
				}
			}
		}
		if !grew {
			break
		}
	}
	r.Info["rank_wrappers"] = len(wrappers)
	for _, fn := range p.ModFuncs() {
		if fn.Pkg.Pkg.Path() == pkgNode {
			continue
		}
		for _, cs := range core.CallsIn(fn, false, func(c *ssa.CallCommon) bool { _, ok := isRankCall(c); return ok }) {
			cc := cs.Instr.(ssa.CallInstruction).Common()
			idx, _ := isRankCall(cc)
			if idx >= len(cc.Args) {
				continue
			}
			n++
			bad := ""
			for _, rt := range core.Slice(cc.Args[idx]) {
				switch rt.Kind {
				case "call":
					var call *ssa.Call
					switch x := rt.V.(type) {
					case *ssa.Call:
						call = x
					case *ssa.Extract:
						call, _ = x.Tuple.(*ssa.Call)
					}
					if call == nil {
						continue
					}
					cn := core.CalleeName(call.Common())
					if strings.HasPrefix(cn, pkgNode+".") { // package-level function of node: the registry
						bad = "registry lookup " + cn
					}
					if strings.HasPrefix(cn, "(*"+pkgNode+".SelfNode).") {
						bad = "node.Self via " + cn
					}
				case "global", "fieldload":
					if strings.Contains(rt.Desc, "Self") && strings.Contains(describe(rt.V), "Self") && core.NamedName(derefType(rt.V.Type())) == pkgNode+".Node" {
						bad = "node.Self's embedded node"
					}
				}
			}
			cn := core.CalleeName(cc)
			key := fmt.Sprintf("%s:%s", core.EnclosingNamed(fn).String(), cn[strings.LastIndex(cn, ".")+1:])
			ord[key]++
			key = fmt.Sprintf("%s#%d", key, ord[key])
			r.Check(bad == "", rule, key, p.Pos(cs.Instr.Pos()), "the ranked node must come from the round's own miner pool; found "+bad)
		}
	}
	r.Floor(rule, "rank lookups (GetMinerRank / IsRoundGenerator call sites)", n, 6)
}
