package props

import (
	"fmt"
	"go/constant"
	"go/token"
	"strings"

	"golang.org/x/tools/go/ssa"

	"zv/core"
)

func init() {
	register("C32", "other", c32)
	register("C33", "other", c33)
}

const pkgMiner = "0chain.net/miner"

// boolErrDiscipline checks a (bool, error) verifier: every return with a constant false
// carries a non-nil error, and every return with a nil error carries true.
func boolErrDiscipline(fn *ssa.Function) (ok bool, why string) {
	for _, ret := range core.Returns(fn) {
		bv := core.ResultValue(ret, 0)
		kind := core.ClassifyReturn(ret)
		c, isC := bv.(*ssa.Const)
		if isC && c.Value != nil && c.Value.Kind() == constant.Bool {
			val := constant.BoolVal(c.Value)
			if !val && kind != core.ExitFailure {
				return false, "returns (false, nil-able error)"
			}
			if val && kind == core.ExitFailure {
				return false, "returns (true, non-nil error)"
			}
			continue
		}
		// non-constant bool: must not be returned with a nil error unless provably true
		if kind != core.ExitFailure {
			return false, "returns a computed bool with a possibly nil error"
		}
	}
	return true, ""
}

// C32 Batched signature checks agree with individual checks (no-skip clause).
func c32(r *core.Report, p *core.Prog, thorough bool) {
	c32FreshPairing(r, p)
	r.Explain = "Decided (no-skip clause): the aggregate verifier reports failure only with a non-nil error, so callers that look at the error alone cannot accept a failed aggregate; per-transaction signature checks are skipped only when an aggregate scheme exists and then every accepting path aggregates each transaction's own signature over its own hash and passes the aggregate verification; ticket verification aggregates every ticket of a verifier resolved in the round's miner pool and signals success only after the aggregate verified. Not decided: that an aggregate accepts exactly when all individual signatures are valid (pairing algebra)."
	r.Rule("C32.all-batches", "BLS0ChainAggregateSignatureScheme.Verify folds every batch: element 0 of AGt and ASigs seeds the accumulators and one loop from 1 bounded by len(AGt) (or len(ASigs)) multiplies in AGt[i] and adds ASigs[i] on every iteration; a bound recomputed from Total/BatchSize would drop a trailing partial batch")
	c32AllBatches(r, p)
	r.Rule("C32.result", "every AggregateSignatureScheme.Verify implementation returns false only together with a non-nil error; callers test the error")
	r.Rule("C32.txns", "ValidateTransactions: ValidateWrtTimeForBlock(…, !aggregate); when aggregate, each transaction to verify is aggregated with (its scheme, its signature, its hash) and every accepting exit passes Verify()")
	r.Rule("C32.tickets", "VerifyTickets: each ticket's verifier is looked up in the round's miners (unknown → error), aggregated with (its scheme, ticket signature, block hash); success is signalled only after Verify() returned no error")
	// ---- implementations
	n := 0
	for _, fn := range p.FuncsIn("0chain.net/core/encryption") {
		if fn.Name() != "Verify" || fn.Signature.Recv() == nil || fn.Signature.Params().Len() != 0 || fn.Signature.Results().Len() != 2 {
			continue
		}
		if !strings.Contains(fn.Signature.Recv().Type().String(), "Aggregate") {
			continue
		}
		n++
		ok, why := boolErrDiscipline(fn)
		r.Check(ok, "C32.result", "impl:"+fn.String(), p.Pos(fn.Pos()), "callers discard the bool and test only the error: a `false, nil` result would be accepted; "+why)
		for _, ret := range core.Returns(fn) {
			if c, isC := core.ResultValue(ret, 0).(*ssa.Const); isC && c.Value != nil && c.Value.Kind() == constant.Bool && constant.BoolVal(c.Value) {
				r.Check(BoolFact(ret.Block(), "IsEqual()", true), "C32.result", fmt.Sprintf("impl-true-after-pairing-check:%s@b%d", fn.String(), ret.Block().Index), p.Pos(ret.Pos()), "`true` only on the edge where the pairing of the summed signature equals the product of the per-signer pairings")
			}
		}
	}
	r.Floor("C32.result", "aggregate Verify implementations", n, 1)
	// ---- callers
	isAggVerify := func(c *ssa.CallCommon) bool {
		return core.MethodName(c) == "Verify" && len(core.CallArgs(c)) == 0 && strings.Contains(core.RecvTypeName(c), "AggregateSignatureScheme")
	}
	nCallers := 0
	for _, fn := range p.ModFuncs() {
		if isTooling(p, fn) {
			continue
		}
		for _, cs := range core.CallsIn(fn, false, isAggVerify) {
			nCallers++
			call, ok := cs.Instr.(*ssa.Call)
			if !ok {
				r.Fail("C32.result", "caller:"+fn.String(), p.Pos(cs.Pos()), "aggregate Verify in go/defer: result unobservable")
				continue
			}
			ev := core.ErrResult(call)
			tested := ev != nil && len(core.NilBranches(ev)) > 0
			r.Check(tested, "C32.result", "caller-tests-error:"+core.EnclosingNamed(fn).String(), p.Pos(cs.Pos()), "the aggregate verification error must be tested")
		}
	}
	r.Floor("C32.result", "aggregate Verify call sites", nCallers, 2)
	// ---- ValidateTransactions
	vt := p.Func("(*" + pkgMiner + ".Chain).ValidateTransactions$1")
	if vt == nil {
		r.Unresolved("C32.txns", "miner.ValidateTransactions closure")
	} else {
		// the worker closure
		var worker *ssa.Function
		for _, a := range vt.AnonFuncs {
			if len(core.CallsIn(a, false, core.MethodIs("ValidateWrtTimeForBlock"))) > 0 {
				worker = a
			}
		}
		if r.Check(worker != nil, "C32.txns", "ValidateTransactions:worker", p.Pos(vt.Pos()), "per-batch worker closure") {
			vw := methodCalls(worker, "ValidateWrtTimeForBlock")
			if r.Check(len(vw) == 1, "C32.txns", "worker:validates-each", p.Pos(worker.Pos()), fmt.Sprintf("%d ValidateWrtTimeForBlock calls", len(vw))) {
				flag := core.CallArgs(vw[0].Common())[2]
				neg, isNeg := flag.(*ssa.UnOp)
				r.Check(isNeg && neg.Op == token.NOT && localVarName(neg.X) == "aggregate", "C32.txns", "worker:skip-only-when-aggregate", p.Pos(vw[0].Pos()), "validateSignature = !aggregate")
				r.Check(core.ErrLeadsToFailure(vw[0]) || errCancels(vw[0]), "C32.txns", "worker:validate-err", p.Pos(vw[0].Pos()), "a failing transaction fails the batch")
			}
			ag := methodCalls(worker, "Aggregate")
			if r.Check(len(ag) == 1, "C32.txns", "worker:aggregates", p.Pos(worker.Pos()), fmt.Sprintf("%d Aggregate calls", len(ag))) {
				a := core.CallArgs(ag[0].Common())
				sObj, sPath := core.BaseObject(a[2])
				hObj, hPath := core.BaseObject(a[3])
				r.Check(strings.HasSuffix(sPath, ".Signature") && strings.HasSuffix(hPath, ".Hash") && strings.TrimSuffix(sPath, ".Signature") == strings.TrimSuffix(hPath, ".HashIDField.Hash") && sameObj(sObj, hObj), "C32.txns", "worker:own-signature-own-hash", p.Pos(ag[0].Pos()), "Aggregate(scheme, idx, txn.Signature, txn.Hash) of the same transaction: "+sPath+" / "+hPath)
				sc, _ := core.CallOf(a[0])
				r.Check(sc != nil && core.MethodName(sc.Common()) == "GetSignatureScheme", "C32.txns", "worker:own-scheme", p.Pos(ag[0].Pos()), "scheme obtained from the transaction itself")
				r.Check(len(core.LoopsContaining(worker, ag[0].Block())) >= 1, "C32.txns", "worker:aggregates-all", p.Pos(ag[0].Pos()), "inside the loop over the transactions that need verification")
			}
		}
		av := core.CallsIn(vt, false, isAggVerify)
		if r.Check(len(av) == 1, "C32.txns", "ValidateTransactions:aggregate-verify", p.Pos(vt.Pos()), fmt.Sprintf("%d aggregate Verify calls", len(av))) {
			call := av[0].Instr.(*ssa.Call)
			r.Check(core.ErrLeadsToFailure(call), "C32.txns", "ValidateTransactions:verify-err", p.Pos(call.Pos()), "aggregate failure rejects the block")
			for _, ret := range core.SuccessExits(vt) {
				if isEmptyBlockExit(ret) || core.ClassifyReturn(ret) != core.ExitSuccess {
					continue
				}
				path, _, found := core.PathQuery{Fn: vt, Barrier: func(in ssa.Instruction) bool { return in == ssa.Instruction(call) },
					EdgeOK: func(from *ssa.BasicBlock, i int) bool {
						if ifi, ok := from.Instrs[len(from.Instrs)-1].(*ssa.If); ok && localVarName(ifi.Cond) == "aggregate" && i == 1 {
							return false // sanctioned skip: no aggregate scheme, signatures were verified one by one
						}
						return core.FeasibleEdge(from, i)
					},
					Target: func(in ssa.Instruction) bool { return in == ssa.Instruction(ret) }}.Find()
				d := "accepting exit passes the aggregate verification whenever signatures were batched"
				if found {
					d = "accepting exit reachable without aggregate verification although per-transaction checks were skipped: " + p.PathString(path)
				}
				r.Check(!found, "C32.txns", fmt.Sprintf("ValidateTransactions:must-verify@b%d", ret.Block().Index), p.Pos(ret.Pos()), d)
			}
		}
	}
	// ---- VerifyTickets
	var vtk *ssa.Function
	for _, fn := range p.FuncsIn(pkgChain) {
		if strings.HasPrefix(fn.String(), "(*"+pkgChain+".Chain).VerifyTickets$1$") && len(core.CallsIn(fn, false, isAggVerify)) > 0 {
			vtk = fn
		}
	}
	if vtk == nil {
		r.Unresolved("C32.tickets", "VerifyTickets worker closure")
		return
	}
	ag := methodCalls(vtk, "Aggregate")
	if r.Check(len(ag) == 1, "C32.tickets", "VerifyTickets:aggregates", p.Pos(vtk.Pos()), fmt.Sprintf("%d Aggregate calls", len(ag))) {
		a := core.CallArgs(ag[0].Common())
		_, sPath := core.BaseObject(a[2])
		r.Check(strings.HasSuffix(sPath, ".Signature") && strings.Contains(describe(a[3]), "blockHash") && strings.HasSuffix(describe(a[0]), ".SigScheme"), "C32.tickets", "VerifyTickets:args", p.Pos(ag[0].Pos()),
			"Aggregate("+describe(a[0])+", i, "+describe(a[2])+", "+describe(a[3])+")")
		gn := methodCalls(vtk, "GetNode")
		okV := len(gn) == 1 && strings.HasSuffix(describe(core.CallArgs(gn[0].Common())[0]), ".VerifierID") && strings.Contains(describe(core.Receiver(gn[0].Common())), "GetMiners")
		r.Check(okV, "C32.tickets", "VerifyTickets:verifier-from-round-miners", p.Pos(vtk.Pos()), "verifier resolved by id in the round's miner pool")
		r.Check(okV && HasCmp(ag[0].Block(), "GetNode()", token.NEQ, "nil"), "C32.tickets", "VerifyTickets:unknown-verifier-rejected", p.Pos(ag[0].Pos()), "a ticket of an unknown node is an error")
		r.Check(len(core.LoopsContaining(vtk, ag[0].Block())) >= 1, "C32.tickets", "VerifyTickets:aggregates-all", p.Pos(ag[0].Pos()), "inside the loop over all tickets")
	}
	av := core.CallsIn(vtk, false, isAggVerify)
	if r.Check(len(av) == 1, "C32.tickets", "VerifyTickets:aggregate-verify", p.Pos(vtk.Pos()), fmt.Sprintf("%d calls", len(av))) {
		call := av[0].Instr.(*ssa.Call)
		// close(doneC) only after Verify with err == nil
		for _, cs := range core.CallsIn(vtk, false, core.NameIs("builtin.close")) {
			okc := Before(call, cs.Instr)
			ev := core.ErrResult(call)
			nilKnown := ev != nil && core.KnownNil(core.FactsAt(cs.Instr.Block()), ev) == 1
			r.Check(okc && nilKnown, "C32.tickets", "VerifyTickets:done-after-verify", p.Pos(cs.Pos()), "success is signalled only on the err == nil edge of the aggregate verification")
		}
	}
}

// errCancels: the non-nil edge of the call's error sets a cancel flag and returns
// (worker goroutines report failure through a flag/channel instead of an error result).
func errCancels(call *ssa.Call) bool {
	ev := core.ErrResult(call)
	if ev == nil {
		return false
	}
	for _, br := range core.NilBranches(ev) {
		b := br.If.Block().Succs[br.NonNilSucc]
		// the block (or its straight-line successors) must end in a return without
		// reaching the `result = true` store
		seen := map[*ssa.BasicBlock]bool{}
		ok := true
		var walk func(x *ssa.BasicBlock)
		walk = func(x *ssa.BasicBlock) {
			if seen[x] {
				return
			}
			seen[x] = true
			for _, in := range x.Instrs {
				if st, isSt := in.(*ssa.Store); isSt {
					if c, isC := st.Val.(*ssa.Const); isC && c.Value != nil && c.Value.Kind() == constant.Bool && constant.BoolVal(c.Value) {
						if al, isAl := st.Addr.(*ssa.Alloc); isAl && al.Comment == "result" {
							ok = false
						}
					}
				}
			}
			for _, s := range x.Succs {
				walk(s)
			}
		}
		walk(b)
		if !ok {
			return false
		}
	}
	return len(core.NilBranches(ev)) > 0
}

// isEmptyBlockExit: `if len(b.Txns) == 0 { return nil }` — nothing to verify.
func isEmptyBlockExit(ret *ssa.Return) bool {
	for _, c := range CmpFacts(ret.Block()) {
		if c.Op == token.EQL && c.YD == "0" && strings.Contains(c.XD, "len") {
			return true
		}
	}
	return false
}

// C33 All miners derive the same round random seed (admission clauses).
func c33(r *core.Report, p *core.Prog, thorough bool) {
	r.Explain = "Decided (admission clauses): a VRF share enters a round only after verifyVRFShare returned true for that very share (regular and cached path); verifyVRFShare returns true only after the share decoded and the DKG verified it for the sender's id; the seed is computed only when at least threshold shares are present and only from a successfully recovered group signature; share and signer-id vectors are built pairwise in one loop iteration. The recovery being independent of which threshold subset is used is a mathematical fact (assumed). Not decided: uniqueness of the recovered group signature."
	r.Rule("C33.admission", "every call of Round.AddVRFShare in the miner is dominated by verifyVRFShare(round, share, …) == true on the same share")
	r.Rule("C33.verify", "verifyVRFShare: `return true` is dominated by a successful SetHexString and dkg.VerifySignature(share, msg, ComputeIDdkg(sender id)) == true")
	r.Rule("C33.verify-key", "the DKG method verifyVRFShare relies on (DKG.VerifySignature) answers with sig.Verify(gmpk[id], msg) unchanged for every id: the key is the public key share derived from the published mpks, never a locally held one")
	r.Rule("C33.threshold", "ThresholdNumBLSSigReceived: the group signature is recovered only when len(shares) >= threshold, and the beacon output is the hash of the recovered signature")
	r.Rule("C33.pairing", "getVRFShareInfo appends the share and the signer's BLS id of the same share in the same loop iteration")
	vf := p.Func(pkgMiner + ".verifyVRFShare")
	if vf == nil {
		r.Unresolved("C33.admission", "verifyVRFShare")
		return
	}
	c33RestartClears(r, p)
	n := 0
	for _, fn := range p.FuncsIn(pkgMiner) {
		for _, cs := range core.CallsIn(fn, false, func(c *ssa.CallCommon) bool {
			return core.MethodName(c) == "AddVRFShare" && len(core.CallArgs(c)) == 2
		}) {
			n++
			share := core.CallArgs(cs.Common())[0]
			ok := false
			for _, f := range core.FactsAt(cs.Instr.Block()) {
				v, taken := f.Cond, f.Taken
				for {
					if u, isU := v.(*ssa.UnOp); isU && u.Op == token.NOT {
						v, taken = u.X, !taken
						continue
					}
					break
				}
				if c, isC := v.(*ssa.Call); isC && c.Common().StaticCallee() == vf && taken && core.SameValue(c.Call.Args[1], share) {
					ok = true
				}
			}
			r.Check(ok, "C33.admission", "AddVRFShare-site:"+core.EnclosingNamed(fn).String(), p.Pos(cs.Pos()), "the share must have passed verifyVRFShare on every path to this insertion")
		}
	}
	r.Floor("C33.admission", "AddVRFShare call sites", n, 2)
	// ---- verify
	vs := methodCalls(vf, "VerifySignature")
	sh := methodCalls(vf, "SetHexString")
	if r.Check(len(vs) == 1 && len(sh) == 1, "C33.verify", "verifyVRFShare:calls", p.Pos(vf.Pos()), fmt.Sprintf("VerifySignature=%d SetHexString=%d", len(vs), len(sh))) {
		for _, ret := range core.Returns(vf) {
			c, isC := ret.Results[0].(*ssa.Const)
			if !isC || c.Value == nil || !constant.BoolVal(c.Value) {
				continue
			}
			okV := false
			for _, f := range core.FactsAt(ret.Block()) {
				if f.Cond == ssa.Value(vs[0]) && f.Taken {
					okV = true
				}
				if u, isU := f.Cond.(*ssa.UnOp); isU && u.X == ssa.Value(vs[0]) && !f.Taken {
					okV = true
				}
			}
			okH := core.KnownNil(core.FactsAt(ret.Block()), ssa.Value(sh[0])) == 1
			r.Check(okV && okH, "C33.verify", fmt.Sprintf("verifyVRFShare:true-needs-verification@b%d", ret.Block().Index), p.Pos(ret.Pos()), "true only after decode succeeded and the DKG verified the share")
		}
		a := core.CallArgs(vs[0].Common())
		idv, _ := core.BaseObject(a[2])
		idc, _ := core.CallOf(idv)
		r.Check(describe(a[1]) == "blsMsg" && idc != nil && strings.HasSuffix(core.CalleeName(idc.Common()), ".ComputeIDdkg") && strings.Contains(describe(idc.Call.Args[0]), "GetParty"), "C33.verify", "verifyVRFShare:args", p.Pos(vs[0].Pos()), "verified for the round message under the sender's id: "+describe(a[1])+" / "+describe(a[2]))
	}
	if dv := p.Func("(*" + pkgTBLS + ".DKG).VerifySignature"); dv != nil {
		okK, d := c34VerifySignatureShape(dv)
		r.Check(okK, "C33.verify-key", "DKG.VerifySignature", p.Pos(dv.Pos()), "a share counts only if it verifies against the sender's public key share gmpk[id]; "+d)
	} else {
		r.Unresolved("C33.verify-key", "DKG.VerifySignature")
	}
	// ---- threshold
	th := p.Func("(*" + pkgMiner + ".Chain).ThresholdNumBLSSigReceived")
	if th == nil {
		r.Unresolved("C33.threshold", "ThresholdNumBLSSigReceived")
	} else {
		cg := methodCalls(th, "CalBlsGpSign")
		if r.Check(len(cg) == 1, "C33.threshold", "ThresholdNumBLSSigReceived:recovery", p.Pos(th.Pos()), fmt.Sprintf("%d CalBlsGpSign calls", len(cg))) {
			enough := false
			for _, c := range CmpFacts(cg[0].Block()) {
				prm := core.ParamOf(c.Y)
				if c.Op == token.GEQ && strings.HasSuffix(c.XD, "len()") && prm != nil && prm.Name() == "blsThreshold" {
					if lc, _ := core.CallOf(c.X); lc != nil && len(lc.Call.Args) == 1 {
						if gs, _ := core.CallOf(lc.Call.Args[0]); gs != nil && core.MethodName(gs.Common()) == "GetVRFShares" {
							enough = true
						}
					}
				}
			}
			r.Check(enough, "C33.threshold", "ThresholdNumBLSSigReceived:enough-shares", p.Pos(cg[0].Pos()), "recovery dominated by len(shares) >= threshold")
		}
		for _, c := range methodCalls(th, "computeRBO") {
			if len(cg) == 1 && core.Reaches(cg[0], c) {
				arg := core.CallArgs(c.Common())[2]
				ok := false
				for _, d := range core.DeepRoots(arg) {
					if strings.Contains(d, "encryption.Hash") {
						ok = true
					}
				}
				r.Check(ok, "C33.threshold", "ThresholdNumBLSSigReceived:seed-from-group-signature", p.Pos(c.Pos()), "the beacon output is the hash of the recovered group signature")
			}
		}
	}
	// ---- pairing
	gi := p.Func(pkgMiner + ".getVRFShareInfo")
	if gi == nil {
		r.Unresolved("C33.pairing", "getVRFShareInfo")
	} else {
		var apps []*ssa.Call
		for _, cs := range core.CallsIn(gi, false, core.NameIs("builtin.append")) {
			apps = append(apps, cs.Instr.(*ssa.Call))
		}
		ok := len(apps) == 2 && apps[0].Block() == apps[1].Block() && len(core.LoopsContaining(gi, apps[0].Block())) == 1
		dbg := ""
		if ok {
			e0, e1 := appendElems(apps[0]), appendElems(apps[1])
			ok = len(e0) == 1 && len(e1) == 1
			if ok {
				o0, p0 := core.BaseObject(e0[0])
				idc, _ := core.CallOf(e1[0])
				dbg = p0
				ok = p0 == ".Share" && idc != nil && strings.HasSuffix(core.CalleeName(idc.Common()), ".ComputeBlsID")
				if ok {
					o1, p1 := core.BaseObject(idc.Call.Args[0])
					dbg += " / ComputeBlsID(" + p1 + ")"
					gp, _ := core.CallOf(o1)
					ok = strings.HasSuffix(p1, ".ID") && gp != nil && core.MethodName(gp.Common()) == "GetParty" && core.SameValue(core.Receiver(gp.Common()), o0)
				}
			}
		}
		r.Check(ok, "C33.pairing", "getVRFShareInfo:pairwise", p.Pos(gi.Pos()), fmt.Sprintf("share and signer id appended together per share (%d appends: %s)", len(apps), dbg))
	}
}

// errLeadsToFalse: for a bool-returning function: on the error's non-nil edge every
// return yields constant false.
func errLeadsToFalse(call *ssa.Call) bool {
	ev := core.ErrResult(call)
	if ev == nil {
		return false
	}
	brs := core.NilBranches(ev)
	if len(brs) == 0 {
		return false
	}
	for _, br := range brs {
		start := br.If.Block().Succs[br.NonNilSucc]
		seen := map[*ssa.BasicBlock]bool{}
		ok := true
		var walk func(b *ssa.BasicBlock)
		walk = func(b *ssa.BasicBlock) {
			if seen[b] || !ok {
				return
			}
			seen[b] = true
			if ret, isR := b.Instrs[len(b.Instrs)-1].(*ssa.Return); isR {
				v := core.ResultValue(ret, 0)
				c, isC := v.(*ssa.Const)
				if !isC || c.Value == nil || c.Value.Kind() != constant.Bool || constant.BoolVal(c.Value) {
					ok = false
				}
				return
			}
			for _, s := range b.Succs {
				walk(s)
			}
		}
		walk(start)
		if !ok {
			return false
		}
	}
	return true
}

// localVarName: the source name of the local variable (possibly captured by a closure) v loads.
func localVarName(v ssa.Value) string {
	ld, ok := v.(*ssa.UnOp)
	if !ok || ld.Op != token.MUL {
		return ""
	}
	switch x := ld.X.(type) {
	case *ssa.Alloc:
		return x.Comment
	case *ssa.FreeVar:
		return x.Name()
	}
	return ""
}

// appendElems: the element values of `append(s, e1, e2…)` (stores into the varargs array).
func appendElems(call *ssa.Call) []ssa.Value {
	if len(call.Call.Args) != 2 {
		return nil
	}
	sl, ok := call.Call.Args[1].(*ssa.Slice)
	if !ok {
		return nil
	}
	al, ok := sl.X.(*ssa.Alloc)
	if !ok {
		return nil
	}
	var out []ssa.Value
	for _, ref := range *al.Referrers() {
		ia, ok := ref.(*ssa.IndexAddr)
		if !ok {
			continue
		}
		for _, r2 := range *ia.Referrers() {
			if st, ok := r2.(*ssa.Store); ok && st.Addr == ia {
				out = append(out, st.Val)
			}
		}
	}
	return out
}

// c33RestartClears: shares are valid for one (round, timeout count) message only; an
// accepted Round.Restart — after which the timeout count is incremented — must drop
// every share collected so far, unconditionally.
func c33RestartClears(r *core.Report, p *core.Prog) {
	r.Rule("C33.restart-clears", "every accepting exit of Round.Restart is preceded by a store of a fresh map to Round.shares (directly or in a callee all of whose exits perform it)")
	restart := p.Func("(*" + pkgRound + ".Round).Restart")
	sf := p.Field(pkgRound, "Round", "shares")
	if restart == nil || sf == nil {
		r.Unresolved("C33.restart-clears", "Round.Restart / Round.shares")
		return
	}
	var resets func(fn *ssa.Function, depth int) map[ssa.Instruction]bool
	resets = func(fn *ssa.Function, depth int) map[ssa.Instruction]bool {
		out := map[ssa.Instruction]bool{}
		if fn == nil || fn.Blocks == nil || depth > 3 {
			return out
		}
		for _, wr := range core.FieldWrites([]*ssa.Function{fn}, sf) {
			if _, isMk := wr.Val.(*ssa.MakeMap); isMk && wr.Kind == "store" {
				out[wr.Instr] = true
			}
		}
		for _, b := range fn.Blocks {
			for _, in := range b.Instrs {
				c, ok := in.(*ssa.Call)
				if !ok {
					continue
				}
				cal := core.StaticCallee(c.Common())
				if cal == nil || cal.Pkg == nil || cal.Pkg.Pkg.Path() != pkgRound || cal == fn {
					continue
				}
				inner := resets(cal, depth+1)
				if len(inner) == 0 {
					continue
				}
				// the callee must perform the reset on all of its exits
				all := true
				for _, ret := range core.Returns(cal) {
					if ret.Block() == cal.Recover {
						continue
					}
					_, _, found := core.PathQuery{Fn: cal, Barrier: func(x ssa.Instruction) bool { return inner[x] }, EdgeOK: core.FeasibleEdge,
						Target: func(x ssa.Instruction) bool { return x == ssa.Instruction(ret) }}.Find()
					if found {
						all = false
					}
				}
				if all {
					out[c] = true
				}
			}
		}
		return out
	}
	rs := resets(restart, 0)
	ok := len(rs) > 0
	why := "no reset of the share map reachable from Restart"
	if ok {
		for _, ret := range core.SuccessExits(restart) {
			if ret.Block() == restart.Recover {
				continue
			}
			path, _, found := core.PathQuery{Fn: restart, Barrier: func(x ssa.Instruction) bool { return rs[x] }, EdgeOK: core.FeasibleEdge,
				Target: func(x ssa.Instruction) bool { return x == ssa.Instruction(ret) }}.Find()
			if found {
				ok = false
				why = "an accepted restart can keep the old shares: " + p.PathString(path)
			}
		}
	}
	r.Check(ok, "C33.restart-clears", "Restart:shares-dropped", p.Pos(restart.Pos()), "shares verified for the old timeout count never count toward the threshold of the new one; "+why)
}

// c32FreshPairing: the aggregate scheme multiplies further pairings *into* the GT that
// PairMessageHash returned (it becomes a batch accumulator). That is sound only if every
// call returns a value of its own: the result must be allocated in the call and must not
// be kept anywhere (a memoised GT would be corrupted by the first aggregate verification).
func c32FreshPairing(r *core.Report, p *core.Prog) {
	r.Rule("C32.fresh-pairing", "BLS0ChainScheme.PairMessageHash returns a GT allocated in that call and stores it nowhere else; the aggregate accumulates in place into such values")
	pm := p.Func("(*0chain.net/core/encryption.BLS0ChainScheme).PairMessageHash")
	if pm == nil {
		r.Unresolved("C32.fresh-pairing", "BLS0ChainScheme.PairMessageHash")
		return
	}
	ok := true
	why := ""
	n := 0
	for _, ret := range core.Returns(pm) {
		v := core.ResultValue(ret, 0)
		if core.IsNilConst(v) {
			continue
		}
		n++
		al, isAl := canonObj(v).(*ssa.Alloc)
		if !isAl {
			// phi of allocs
			ok = false
			why = "the returned GT is " + describe(v) + ", not a value allocated in this call"
			continue
		}
		for _, ref := range *al.Referrers() {
			switch x := ref.(type) {
			case *ssa.Store:
				if x.Val == ssa.Value(al) {
					if _, local := x.Addr.(*ssa.Alloc); !local {
						ok = false
						why = "the returned GT is also stored at " + p.Pos(x.Pos())
					}
				}
			case *ssa.MakeInterface:
				// boxed and handed to something that may keep it (atomic.Value.Store, sync.Map, …)
				for _, r2 := range *x.Referrers() {
					if ci, isCall := r2.(ssa.CallInstruction); isCall {
						m := core.MethodName(ci.Common())
						if m == "Store" || m == "LoadOrStore" || m == "Set" || m == "Add" || m == "Put" {
							ok = false
							why = "the returned GT is kept by " + m + " at " + p.Pos(ci.Pos())
						}
					}
				}
			case *ssa.MapUpdate:
				ok = false
				why = "the returned GT is put into a map"
			}
		}
	}
	r.Check(ok && n > 0, "C32.fresh-pairing", "PairMessageHash:fresh-result", p.Pos(pm.Pos()), "each call yields its own GT (the aggregate mutates it in place); "+why)
}

// c32AllBatches: the final check of the aggregate covers every batch the constructor made.
func c32AllBatches(r *core.Report, p *core.Prog) {
	fn := p.Func("(" + pkgEnc + ".BLS0ChainAggregateSignatureScheme).Verify")
	if fn == nil {
		fn = p.Func("(*" + pkgEnc + ".BLS0ChainAggregateSignatureScheme).Verify")
	}
	if fn == nil {
		r.Unresolved("C32.all-batches", "BLS0ChainAggregateSignatureScheme.Verify")
		return
	}
	isBatchSlice := func(v ssa.Value) string {
		switch x := v.(type) {
		case *ssa.UnOp:
			if fa, ok := x.X.(*ssa.FieldAddr); ok && core.FieldOf(fa) != nil {
				return core.FieldOf(fa).Name()
			}
		case *ssa.Field:
			if f := core.FieldOf(x); f != nil {
				return f.Name()
			}
		}
		return ""
	}
	loops := core.Loops(fn)
	if !r.Check(len(loops) == 1, "C32.all-batches", "Verify:one-fold-loop", p.Pos(fn.Pos()), fmt.Sprintf("%d loops", len(loops))) {
		return
	}
	l := loops[0]
	h := l.Header
	ifi, ok := h.Instrs[len(h.Instrs)-1].(*ssa.If)
	okBound, d := false, "the loop has no recognisable bound"
	var idx ssa.Value
	if ok {
		if bo, isB := ifi.Cond.(*ssa.BinOp); isB && bo.Op == token.LSS {
			idx = bo.X
			if lc, isC := bo.Y.(*ssa.Call); isC && core.CalleeName(lc.Common()) == "builtin.len" {
				n := isBatchSlice(lc.Call.Args[0])
				okBound = n == "AGt" || n == "ASigs"
				d = "bound len(" + n + ")"
			} else {
				d = "the bound is " + describe(bo.Y) + ", not the number of batches that were allocated"
			}
		}
	}
	r.Check(okBound, "C32.all-batches", "Verify:bound-is-batch-count", p.Pos(fn.Pos()), d)
	// start: 0 or 1 (with element 0 seeding)
	startOK := false
	if ph, isPhi := idx.(*ssa.Phi); isPhi {
		for j, pr := range h.Preds {
			if l.Body[pr] {
				continue
			}
			if k, isK := core.ConstInt(ph.Edges[j]); isK && (k == 0 || k == 1) {
				startOK = true
			}
		}
	} else if idx != nil && c24IsRangeIndex(idx, l) {
		startOK = true
	}
	r.Check(startOK, "C32.all-batches", "Verify:starts-at-first-unfolded", p.Pos(fn.Pos()), "the fold starts at index 0, or at 1 with element 0 as the seed")
	// both folds on every iteration with the loop index
	for _, want := range []struct{ callee, field string }{{"bls.GTMul", "AGt"}, {"bls.Sign).Add", "ASigs"}} {
		var fold *ssa.Call
		for b := range l.Body {
			for _, in := range b.Instrs {
				c, ok := in.(*ssa.Call)
				if !ok || !strings.HasSuffix(core.CalleeName(c.Common()), want.callee) {
					continue
				}
				for _, a := range c.Call.Args {
					if ld, ok := a.(*ssa.UnOp); ok {
						if ia, ok := ld.X.(*ssa.IndexAddr); ok && ia.Index == idx && isBatchSlice(ia.X) == want.field {
							fold = c
						}
					}
				}
			}
		}
		okF := fold != nil
		if okF {
			_, _, found := core.PathQuery{Fn: fn, Start: h.Succs[0].Instrs[0], Barrier: func(x ssa.Instruction) bool { return x == ssa.Instruction(fold) }, EdgeOK: core.FeasibleEdge,
				Target: func(x ssa.Instruction) bool { return x == h.Instrs[0] }}.Find()
			okF = !found
		}
		r.Check(okF, "C32.all-batches", "Verify:folds-"+want.field, p.Pos(fn.Pos()), want.field+"[i] is folded into the accumulator on every iteration")
	}
}
