package props

import (
	"fmt"
	"go/token"
	"strings"

	"golang.org/x/tools/go/ssa"

	"zv/core"
)

func init() { register("C34", "other", c34) }

const pkgTBLS = "0chain.net/chaincore/threshold/bls"
const libBLS = "github.com/herumi/bls-go-binary/bls"

// c34Sources: labelled backward may-dependence of v inside fn:
//
//	param:<name>   field:<name>   rangekey:<src>   rangeval:<src>   call:<callee>
type c34Src map[string]bool

func (s c34Src) has(prefix string) bool {
	for k := range s {
		if k == prefix || strings.HasPrefix(k, prefix) {
			return true
		}
	}
	return false
}

func (s c34Src) list() []string { return sortedKeys(map[string]bool(s)) }

// rangeOf: the "@bN" tags of the labels with the given prefix (which range statement a
// key or value comes from).
func (s c34Src) rangeOf(prefix string) map[string]bool {
	out := map[string]bool{}
	for k := range s {
		if strings.HasPrefix(k, prefix) {
			if i := strings.LastIndex(k, "@"); i >= 0 {
				out[k[i:]] = true
			}
		}
	}
	return out
}

func c34Sources(v ssa.Value) c34Src {
	out := c34Src{}
	seen := map[ssa.Value]bool{}
	var walk func(v ssa.Value)
	walkAlloc := func(a *ssa.Alloc) {
		for _, ref := range *a.Referrers() {
			switch x := ref.(type) {
			case *ssa.Store:
				if x.Addr == ssa.Value(a) {
					walk(x.Val)
				}
			case *ssa.IndexAddr:
				for _, r2 := range *x.Referrers() {
					if s, ok := r2.(*ssa.Store); ok && s.Addr == ssa.Value(x) {
						walk(s.Val)
					}
				}
			case *ssa.FieldAddr:
				for _, r2 := range *x.Referrers() {
					if s, ok := r2.(*ssa.Store); ok && s.Addr == ssa.Value(x) {
						walk(s.Val)
					}
				}
			case *ssa.Call:
				// object filled through its address: the library's convention is that the
				// output is operand 0 (receiver or first argument); an address passed in
				// any other position is only read
				if len(x.Call.Args) > 0 && x.Call.Args[0] == ssa.Value(a) {
					for _, arg := range x.Call.Args[1:] {
						walk(arg)
					}
					out["call:"+core.CalleeName(x.Common())] = true
				}
			}
		}
	}
	srcName := func(v ssa.Value) string {
		if prm, ok := v.(*ssa.Parameter); ok {
			return prm.Name()
		}
		if f, _ := loadOfAnyField(v); f != nil {
			return f.Name()
		}
		return describe(v)
	}
	walk = func(v ssa.Value) {
		if v == nil || seen[v] {
			return
		}
		seen[v] = true
		switch x := v.(type) {
		case *ssa.Parameter:
			out["param:"+x.Name()] = true
		case *ssa.Const, *ssa.Global, *ssa.Function, *ssa.Builtin, *ssa.FreeVar:
		case *ssa.Phi:
			for _, e := range x.Edges {
				walk(e)
			}
		case *ssa.BinOp:
			walk(x.X)
			walk(x.Y)
		case *ssa.UnOp:
			if x.Op == token.MUL {
				switch a := x.X.(type) {
				case *ssa.Alloc:
					walkAlloc(a)
					return
				case *ssa.FieldAddr:
					if f := core.FieldOf(a); f != nil {
						out["field:"+f.Name()] = true
					}
					walk(a.X)
					return
				case *ssa.IndexAddr:
					walk(a.X)
					walk(a.Index)
					return
				}
			}
			walk(x.X)
		case *ssa.Field:
			if f := core.FieldOf(x); f != nil {
				out["field:"+f.Name()] = true
			}
			walk(x.X)
		case *ssa.FieldAddr:
			if f := core.FieldOf(x); f != nil {
				out["field:"+f.Name()] = true
			}
			walk(x.X)
		case *ssa.IndexAddr:
			walk(x.X)
			walk(x.Index)
		case *ssa.Convert:
			walk(x.X)
		case *ssa.ChangeType:
			walk(x.X)
		case *ssa.MakeInterface:
			walk(x.X)
		case *ssa.TypeAssert:
			walk(x.X)
		case *ssa.Slice:
			walk(x.X)
		case *ssa.Lookup:
			walk(x.X)
			walk(x.Index)
		case *ssa.Index:
			walk(x.X)
		case *ssa.Extract:
			if nx, ok := x.Tuple.(*ssa.Next); ok {
				if rg, ok := nx.Iter.(*ssa.Range); ok {
					switch x.Index {
					case 1:
						out[fmt.Sprintf("rangekey:%s@b%d", srcName(rg.X), rg.Block().Index)] = true
					case 2:
						out[fmt.Sprintf("rangeval:%s@b%d", srcName(rg.X), rg.Block().Index)] = true
					}
					return
				}
			}
			walk(x.Tuple)
		case *ssa.Call:
			out["call:"+core.CalleeName(x.Common())] = true
			for _, a := range x.Call.Args {
				walk(a)
			}
			if x.Call.IsInvoke() {
				walk(x.Call.Value)
			}
		case *ssa.Alloc:
			walkAlloc(x)
		}
	}
	walk(v)
	return out
}

func c34Calls(fn *ssa.Function, calleeSuffix string) []*ssa.Call {
	var out []*ssa.Call
	if fn == nil {
		return nil
	}
	for _, b := range fn.Blocks {
		for _, in := range b.Instrs {
			if c, ok := in.(*ssa.Call); ok && strings.HasSuffix(core.CalleeName(c.Common()), calleeSuffix) {
				out = append(out, c)
			}
		}
	}
	return out
}

// C34 Threshold key generation and signing — wiring of the library primitives.
func c34(r *core.Report, p *core.Prog, thorough bool) {
	r.Explain = "Polynomial secret sharing and the BLS pairing algebra of herumi/bls are assumed, not decided. Decided — the wiring around the library primitives, each a necessary condition of the statement: a share for party j is the evaluation (SecretKey.Set) of the dealer's own master secret polynomial at j's id, stored under and returned for that id; ValidateShare compares the public key of the received share with the evaluation (PublicKey.Set) of the sender's published polynomial at the receiver's id and fails when the evaluation fails; the group secret share is the sum over all received shares and the public share is derived from it; the group public key of party k is the sum over all published polynomials evaluated at k and is stored under k; VerifySignature checks the signature against the group public key of the given id and the given message; Sign signs with the aggregated secret share; RecoverGroupSig / Reconstruct pass signature shares and ids to Sign.Recover in that order, and Reconstruction.Add records id and signature together; threshold client shares are evaluations of the polynomial derived from the original key at distinct ids 1..n; the last split key is primary minus the sum of all generated keys; ShareOrSigns.Validate validates a share against the SENDER's polynomial at the RECEIVER's id and a signature with the receiver's registered public key, rejecting on every failure."
	r.Rule("C34.share", "ComputeDKGKeyShare: SecretKey.Set(dkg.msk, forID); the evaluated key is stored in sij[forID] and returned; an error returns no key")
	r.Rule("C34.validate", "ValidateShare: PublicKey.Set(jpk, id) and IsEqual with sij.GetPublicKey(); a failing Set yields false; DKG.ValidateShare passes its own ID")
	r.Rule("C34.aggregate", "AggregateSecretKeyShares adds every received share into Si and derives Pi from Si; AggregatePublicKeyShares evaluates every published polynomial at the outer key k, adds them and stores the sum under k")
	r.Rule("C34.sign-verify", "Sign = Si.Sign(msg); VerifySignature = sig.Verify(gmpk[id], msg) returned unchanged")
	r.Rule("C34.recover", "Sign.Recover receives (signature shares, ids) in that order from the matching parameters/fields; Reconstruction.Add appends id and signature on the same paths")
	r.Rule("C34.client-shares", "BLS0GenerateThresholdKeyShares: polynomial from the original private key; share i = SecretKey.Set(polynomial, id i) with id set from the loop counter; the share's id and keys come from that evaluation; GenerateSplitKeys: last = FrSub(primary, aggregate of every generated key)")
	r.Rule("C34.sos", "ShareOrSigns.Validate: a share is validated by ValidateShare(mpk of sos.ID, share, ComputeIDdkg(entry key)); a signature by Verify under publicKeys[entry key]; every failure returns (nil,false)")

	F := func(n string) *ssa.Function { return p.Func(n) }
	dkgM := func(n string) *ssa.Function { return F("(*" + pkgTBLS + ".DKG)." + n) }

	// ---- share
	if fn := dkgM("ComputeDKGKeyShare"); fn != nil {
		sets := c34Calls(fn, "bls.SecretKey).Set")
		if r.Check(len(sets) == 1, "C34.share", "ComputeDKGKeyShare:evaluation", p.Pos(fn.Pos()), fmt.Sprintf("%d SecretKey.Set calls", len(sets))) {
			c := sets[0]
			poly, pt := c34Sources(c.Call.Args[1]), c34Sources(c.Call.Args[2])
			r.Check(poly.has("field:msk") && !poly.has("param:forID"), "C34.share", "ComputeDKGKeyShare:polynomial", p.Pos(c.Pos()), fmt.Sprintf("the dealer's own master secret key %v", poly.list()))
			r.Check(pt.has("param:forID"), "C34.share", "ComputeDKGKeyShare:point", p.Pos(c.Pos()), fmt.Sprintf("evaluated at the recipient's id %v", pt.list()))
			r.Check(core.ErrLeadsToFailure(c), "C34.share", "ComputeDKGKeyShare:error", p.Pos(c.Pos()), "a failed evaluation yields no share")
			key := c.Call.Args[0]
			// stored under forID and returned
			stored := false
			for _, b := range fn.Blocks {
				for _, in := range b.Instrs {
					if mu, ok := in.(*ssa.MapUpdate); ok {
						if f, _ := loadOfAnyField(mu.Map); f != nil && f.Name() == "sij" {
							ks, vs := c34Sources(mu.Key), c34Sources(mu.Value)
							if ks.has("param:forID") && isLoadOfAlloc(mu.Value, key) {
								stored = true
							}
							_ = vs
						}
					}
				}
			}
			r.Check(stored, "C34.share", "ComputeDKGKeyShare:stored", p.Pos(fn.Pos()), "sij[forID] = the evaluated key")
			okRet := true
			n := 0
			for _, ret := range core.SuccessExits(fn) {
				n++
				if !isLoadOfAlloc(core.ResultValue(ret, 0), key) {
					okRet = false
				}
			}
			r.Check(okRet && n > 0, "C34.share", "ComputeDKGKeyShare:returned", p.Pos(fn.Pos()), "the evaluated key is what is returned")
		}
	} else {
		r.Unresolved("C34.share", "DKG.ComputeDKGKeyShare")
	}

	// ---- validate
	if fn := F(pkgTBLS + ".ValidateShare"); fn != nil {
		sets := c34Calls(fn, "bls.PublicKey).Set")
		eqs := c34Calls(fn, "bls.PublicKey).IsEqual")
		if r.Check(len(sets) == 1 && len(eqs) == 1, "C34.validate", "ValidateShare:shape", p.Pos(fn.Pos()), fmt.Sprintf("%d PublicKey.Set / %d IsEqual", len(sets), len(eqs))) {
			set, eq := sets[0], eqs[0]
			poly, pt := c34Sources(set.Call.Args[1]), c34Sources(set.Call.Args[2])
			r.Check(poly.has("param:jpk") && !poly.has("param:sij"), "C34.validate", "ValidateShare:polynomial", p.Pos(set.Pos()), fmt.Sprintf("the sender's published polynomial %v", poly.list()))
			r.Check(pt.has("param:id") && !pt.has("param:sij"), "C34.validate", "ValidateShare:point", p.Pos(set.Pos()), fmt.Sprintf("evaluated at the receiver's id %v", pt.list()))
			// the two sides of the comparison: the evaluation and the share's public key
			a, b := eq.Call.Args[0], eq.Call.Args[1]
			isEval := func(v ssa.Value) bool { return v == set.Call.Args[0] }
			isSharePK := func(v ssa.Value) bool {
				s := c34Sources(v)
				return s.has("call:(*"+libBLS+".SecretKey).GetPublicKey") && s.has("param:sij") && !s.has("param:jpk")
			}
			r.Check((isEval(a) && isSharePK(b)) || (isEval(b) && isSharePK(a)), "C34.validate", "ValidateShare:comparison", p.Pos(eq.Pos()), "IsEqual(evaluation of the polynomial, public key of the share)")
			// results
			for _, ret := range core.Returns(fn) {
				v := core.ResultValue(ret, 0)
				k := fmt.Sprintf("ValidateShare:return@b%d", ret.Block().Index)
				if v == ssa.Value(eq) {
					r.Pass("C34.validate", k, p.Pos(ret.Pos()), "the comparison's result")
					continue
				}
				c, ok := v.(*ssa.Const)
				r.Check(ok && c.Value != nil && c.Value.String() == "false", "C34.validate", k, p.Pos(ret.Pos()), "any other return is false")
			}
			// a failing Set cannot reach the comparison
			okErr := false
			for _, f := range core.FactsAt(eq.Block()) {
				if x, isNil, ok := core.NilFact(f); ok && x == ssa.Value(set) && isNil {
					okErr = true
				}
			}
			r.Check(okErr, "C34.validate", "ValidateShare:evaluation-error", p.Pos(set.Pos()), "the comparison runs only after a successful evaluation")
		}
	} else {
		r.Unresolved("C34.validate", "ValidateShare")
	}
	if fn := dkgM("ValidateShare"); fn != nil {
		cs := findCallsTo(fn, F(pkgTBLS+".ValidateShare"))
		okD := len(cs) == 1
		if okD {
			c := cs[0]
			idS := c34Sources(c.Call.Args[2])
			okD = c.Call.Args[0] == ssa.Value(fn.Params[1]) && c.Call.Args[1] == ssa.Value(fn.Params[2]) && idS.has("field:ID")
			for _, ret := range core.Returns(fn) {
				if core.ResultValue(ret, 0) != ssa.Value(c) {
					okD = false
				}
			}
		}
		r.Check(okD, "C34.validate", "DKG.ValidateShare:delegates", p.Pos(fn.Pos()), "ValidateShare(jpk, sij, dkg.ID) returned unchanged")
	} else {
		r.Unresolved("C34.validate", "DKG.ValidateShare")
	}

	// ---- aggregate
	c34Aggregate(r, p, dkgM("AggregateSecretKeyShares"), dkgM("AggregatePublicKeyShares"))

	// ---- sign / verify
	if fn := dkgM("Sign"); fn != nil {
		cs := c34Calls(fn, "bls.SecretKey).Sign")
		okS := len(cs) == 1
		if okS {
			k, m := c34Sources(cs[0].Call.Args[0]), c34Sources(cs[0].Call.Args[1])
			okS = k.has("field:Si") && m.has("param:msg")
			for _, ret := range core.Returns(fn) {
				if core.ResultValue(ret, 0) != ssa.Value(cs[0]) {
					okS = false
				}
			}
		}
		r.Check(okS, "C34.sign-verify", "DKG.Sign", p.Pos(fn.Pos()), "returns dkg.Si.Sign(msg)")
	} else {
		r.Unresolved("C34.sign-verify", "DKG.Sign")
	}
	if fn := dkgM("VerifySignature"); fn != nil {
		okV, d := c34VerifySignatureShape(fn)
		r.Check(okV, "C34.sign-verify", "DKG.VerifySignature", p.Pos(fn.Pos()), "returns sig.Verify(&gmpk[id], msg) unchanged; "+d)
	} else {
		r.Unresolved("C34.sign-verify", "DKG.VerifySignature")
	}

	// ---- recover
	if fn := dkgM("RecoverGroupSig"); fn != nil {
		c34Recover(r, p, fn, "param:shares", "param:from")
	} else {
		r.Unresolved("C34.recover", "DKG.RecoverGroupSig")
	}
	if fn := F("(" + pkgEnc + ".BLS0ChainReconstruction).Reconstruct"); fn != nil {
		c34Recover(r, p, fn, "field:sigs", "field:ids")
	} else {
		r.Unresolved("C34.recover", "BLS0ChainReconstruction.Reconstruct")
	}
	if fn := F("(*" + pkgEnc + ".BLS0ChainReconstruction).Add"); fn != nil {
		var idSt, sigSt *ssa.Store
		for _, b := range fn.Blocks {
			for _, in := range b.Instrs {
				if st, ok := in.(*ssa.Store); ok {
					if fa, ok := st.Addr.(*ssa.FieldAddr); ok && core.FieldOf(fa) != nil {
						switch core.FieldOf(fa).Name() {
						case "ids":
							idSt = st
						case "sigs":
							sigSt = st
						}
					}
				}
			}
		}
		okA := idSt != nil && sigSt != nil
		d := "both appended"
		if okA {
			ok1, w1 := MustPass(p, fn, idSt)
			ok2, w2 := MustPass(p, fn, sigSt)
			okA = ok1 && ok2
			d = w1 + w2
			is, ss := c34Sources(idSt.Val), c34Sources(sigSt.Val)
			if !(is.has("field:id") && is.has("param:tss") && ss.has("param:signature")) {
				okA = false
				d = fmt.Sprintf("id from %v, signature from %v", is.list(), ss.list())
			}
		}
		r.Check(okA, "C34.recover", "Reconstruction.Add:pairs", p.Pos(fn.Pos()), "the signer's id and the parsed signature are appended on every success path "+d)
	} else {
		r.Unresolved("C34.recover", "BLS0ChainReconstruction.Add")
	}

	// ---- received shares
	if fn := dkgM("AddSecretShare"); fn != nil {
		r.Rule("C34.add-share", "AddSecretShare stores the decoded share under the given id on every success path; the only success path without the store is the one on which the share already stored is known equal")
		var upd *ssa.MapUpdate
		for _, b := range fn.Blocks {
			for _, in := range b.Instrs {
				if mu, ok := in.(*ssa.MapUpdate); ok {
					if f, _ := loadOfAnyField(mu.Map); f != nil && f.Name() == "receivedSecretShares" {
						upd = mu
					}
				}
			}
		}
		if r.Check(upd != nil, "C34.add-share", "AddSecretShare:store", p.Pos(fn.Pos()), "receivedSecretShares[id] = share") {
			ks, vs := c34Sources(upd.Key), c34Sources(upd.Value)
			r.Check(ks.has("param:id") && vs.has("param:share"), "C34.add-share", "AddSecretShare:operands", p.Pos(upd.Pos()), fmt.Sprintf("key %v value %v", ks.list(), vs.list()))
			bad := ""
			for _, ret := range core.SuccessExits(fn) {
				if ret.Block() == fn.Recover {
					continue
				}
				path, _, found := core.PathQuery{Fn: fn, Barrier: func(x ssa.Instruction) bool { return x == ssa.Instruction(upd) },
					EdgeOK: func(from *ssa.BasicBlock, i int) bool {
						if !core.FeasibleEdge(from, i) {
							return false
						}
						if ifi, ok := from.Instrs[len(from.Instrs)-1].(*ssa.If); ok {
							cv, taken := stripNot(ifi.Cond, i == 0)
							if c, ok := cv.(*ssa.Call); ok && taken && strings.HasSuffix(core.CalleeName(c.Common()), "bls.SecretKey).IsEqual") {
								return false // the identical share is already there
							}
						}
						return true
					},
					Target: func(x ssa.Instruction) bool { return x == ssa.Instruction(ret) }}.Find()
				if found {
					bad = p.PathString(path)
				}
			}
			r.Check(bad == "", "C34.add-share", "AddSecretShare:stored-on-success", p.Pos(upd.Pos()), "no success exit leaves a different (or no) share in place: "+bad)
		}
	} else {
		r.Unresolved("C34.add-share", "DKG.AddSecretShare")
	}

	// ---- client shares
	c34ClientShares(r, p)

	// ---- sos
	c34SOS(r, p)
}

// isLoadOfAlloc: v is `*a` (or a itself).
func isLoadOfAlloc(v ssa.Value, a ssa.Value) bool {
	if v == a {
		return true
	}
	ld, ok := v.(*ssa.UnOp)
	return ok && ld.Op == token.MUL && ld.X == a
}

func c34Recover(r *core.Report, p *core.Prog, fn *ssa.Function, sigSrc, idSrc string) {
	cs := c34Calls(fn, "bls.Sign).Recover")
	name := fn.Name()
	if !r.Check(len(cs) == 1, "C34.recover", name+":recover-call", p.Pos(fn.Pos()), fmt.Sprintf("%d Sign.Recover calls", len(cs))) {
		return
	}
	c := cs[0]
	sv, iv := c34Sources(c.Call.Args[1]), c34Sources(c.Call.Args[2])
	r.Check(sv.has(sigSrc) && !sv.has(idSrc) && iv.has(idSrc) && !iv.has(sigSrc), "C34.recover", name+":operands", p.Pos(c.Pos()), fmt.Sprintf("Recover(signature shares %v, ids %v)", sv.list(), iv.list()))
	r.Check(core.ErrLeadsToFailure(c), "C34.recover", name+":error", p.Pos(c.Pos()), "a failed recovery is reported")
	n := 0
	for _, ret := range core.SuccessExits(fn) {
		if ret.Block() == fn.Recover {
			continue
		}
		n++
		s := c34Sources(core.ResultValue(ret, 0))
		r.Check(s.has("call:(*"+libBLS+".Sign).Recover"), "C34.recover", fmt.Sprintf("%s:result@b%d", name, ret.Block().Index), p.Pos(ret.Pos()), "the result is the recovered signature")
	}
	r.Floor("C34.recover", name+" success exits", n, 1)
}

func c34Aggregate(r *core.Report, p *core.Prog, sec, pub *ssa.Function) {
	if sec == nil || pub == nil {
		r.Unresolved("C34.aggregate", "AggregateSecretKeyShares / AggregatePublicKeyShares")
		return
	}
	// secret: one map range over receivedSecretShares; Add in every iteration; Si = sum; Pi = Si.GetPublicKey() after
	{
		adds := c34Calls(sec, "bls.SecretKey).Add")
		okA := len(adds) == 1
		d := ""
		var siStore, piStore *ssa.Store
		for _, b := range sec.Blocks {
			for _, in := range b.Instrs {
				if st, ok := in.(*ssa.Store); ok {
					if fa, ok := st.Addr.(*ssa.FieldAddr); ok && core.FieldOf(fa) != nil && fa.X == ssa.Value(sec.Params[0]) {
						switch core.FieldOf(fa).Name() {
						case "Si":
							siStore = st
						case "Pi":
							piStore = st
						}
					}
				}
			}
		}
		if okA {
			a := adds[0]
			acc, el := a.Call.Args[0], c34Sources(a.Call.Args[1])
			okA = el.has("rangeval:receivedSecretShares")
			d = fmt.Sprintf("adds %v", el.list())
			// in a loop, unconditionally
			ls := core.LoopsContaining(sec, a.Block())
			if len(ls) == 0 {
				okA, d = false, "the addition is not in a loop"
			} else {
				l := ls[len(ls)-1]
				// every iteration passes the Add: no path body-entry -> header avoiding it
				_, _, found := core.PathQuery{Fn: sec, Start: l.Header.Succs[0].Instrs[0], Barrier: func(x ssa.Instruction) bool { return x == ssa.Instruction(a) }, EdgeOK: core.FeasibleEdge,
					Target: func(x ssa.Instruction) bool { return x == l.Header.Instrs[0] }}.Find()
				if found || l.Header.Succs[0] == a.Block() && false {
					okA, d = false, "an iteration can skip the addition"
				}
			}
			okA = okA && siStore != nil && isLoadOfAlloc(siStore.Val, acc)
			if siStore == nil || !isLoadOfAlloc(siStore.Val, acc) {
				d += "; Si is not the accumulated sum"
			}
		}
		r.Check(okA, "C34.aggregate", "AggregateSecretKeyShares:sum", p.Pos(sec.Pos()), "Si = sum of every received share; "+d)
		okP := piStore != nil && siStore != nil
		if okP {
			s := c34Sources(piStore.Val)
			okP = s.has("call:(*"+libBLS+".SecretKey).GetPublicKey") && s.has("field:Si") && Before(siStore, piStore)
		}
		r.Check(okP, "C34.aggregate", "AggregateSecretKeyShares:public-share", p.Pos(sec.Pos()), "Pi = Si.GetPublicKey() computed after Si is stored")
	}
	// public
	{
		sets := c34Calls(pub, "bls.PublicKey).Set")
		adds := c34Calls(pub, "bls.PublicKey).Add")
		if !r.Check(len(sets) == 1 && len(adds) == 1, "C34.aggregate", "AggregatePublicKeyShares:shape", p.Pos(pub.Pos()), fmt.Sprintf("%d PublicKey.Set / %d Add", len(sets), len(adds))) {
			return
		}
		set, add := sets[0], adds[0]
		poly, pt := c34Sources(set.Call.Args[1]), c34Sources(set.Call.Args[2])
		r.Check(poly.has("rangeval:mpks") && !poly.has("rangekey:mpks"), "C34.aggregate", "AggregatePublicKeyShares:polynomial", p.Pos(set.Pos()), fmt.Sprintf("every party's published polynomial %v", poly.list()))
		r.Check(pt.has("rangekey:mpks") && !pt.has("rangeval:mpks"), "C34.aggregate", "AggregatePublicKeyShares:point", p.Pos(set.Pos()), fmt.Sprintf("evaluated at the party the key is for %v", pt.list()))
		r.Check(core.ErrLeadsToFailure(set), "C34.aggregate", "AggregatePublicKeyShares:error", p.Pos(set.Pos()), "a failed evaluation aborts")
		// the point is the OUTER loop's key: the Set sits in an inner loop nested in the loop whose key it uses
		inner := core.LoopsContaining(pub, set.Block())
		nested := len(inner) >= 2
		r.Check(nested, "C34.aggregate", "AggregatePublicKeyShares:nested", p.Pos(set.Pos()), "for every party k: for every published polynomial: evaluate at k")
		// the point comes from a different (the outer) range statement than the polynomial
		pr, vr := pt.rangeOf("rangekey:mpks"), poly.rangeOf("rangeval:mpks")
		distinct := len(pr) == 1 && len(vr) == 1
		for k := range pr {
			if vr[k] {
				distinct = false
			}
		}
		r.Check(distinct, "C34.aggregate", "AggregatePublicKeyShares:point-is-outer-key", p.Pos(set.Pos()), fmt.Sprintf("the evaluation point is the key of the outer range %v, the polynomial the value of the inner one %v", sortedKeys(pr), sortedKeys(vr)))
		// Add(acc, evaluated) in the inner loop on every iteration after a successful Set
		okAdd := add.Call.Args[1] == set.Call.Args[0]
		if okAdd && len(inner) > 0 {
			l := inner[len(inner)-1]
			for _, x := range inner {
				if len(x.Body) < len(l.Body) {
					l = x
				}
			}
			_, _, found := core.PathQuery{Fn: pub, Start: set, Barrier: func(x ssa.Instruction) bool { return x == ssa.Instruction(add) }, EdgeOK: core.FeasibleEdge,
				Target: func(x ssa.Instruction) bool { return x == l.Header.Instrs[0] }}.Find()
			okAdd = !found
		}
		r.Check(okAdd, "C34.aggregate", "AggregatePublicKeyShares:sum", p.Pos(add.Pos()), "every evaluated key is added to the party's sum")
		// stored under the outer key
		stored := false
		for _, b := range pub.Blocks {
			for _, in := range b.Instrs {
				if mu, ok := in.(*ssa.MapUpdate); ok {
					if f, _ := loadOfAnyField(mu.Map); f != nil && f.Name() == "gmpk" {
						ks := c34Sources(mu.Key)
						same := false
						for k := range ks.rangeOf("rangekey:mpks") {
							if pt.rangeOf("rangekey:mpks")[k] {
								same = true
							}
						}
						if same && isLoadOfAlloc(mu.Value, add.Call.Args[0]) {
							stored = true
						}
					}
				}
			}
		}
		r.Check(stored, "C34.aggregate", "AggregatePublicKeyShares:stored", p.Pos(pub.Pos()), "gmpk[k] = the sum for k")
	}
}

func c34ClientShares(r *core.Report, p *core.Prog) {
	gen := p.Func(pkgEnc + ".BLS0GenerateThresholdKeyShares")
	if gen == nil {
		r.Unresolved("C34.client-shares", "BLS0GenerateThresholdKeyShares")
	} else {
		msk := c34Calls(gen, "bls.SecretKey).GetMasterSecretKey")
		sets := c34Calls(gen, "bls.SecretKey).Set")
		if r.Check(len(msk) == 1 && len(sets) == 1, "C34.client-shares", "threshold:shape", p.Pos(gen.Pos()), fmt.Sprintf("%d GetMasterSecretKey / %d Set", len(msk), len(sets))) {
			m, set := msk[0], sets[0]
			os := c34Sources(m.Call.Args[0])
			r.Check(os.has("field:privateKey") && os.has("param:originalKey"), "C34.client-shares", "threshold:polynomial-from-original", p.Pos(m.Pos()), fmt.Sprintf("the polynomial's constant term is the original key %v", os.list()))
			ts := c34Sources(m.Call.Args[1])
			r.Check(ts.has("param:t") && !ts.has("param:n"), "C34.client-shares", "threshold:degree", p.Pos(m.Pos()), "the polynomial has t coefficients")
			r.Check(set.Call.Args[1] == ssa.Value(m), "C34.client-shares", "threshold:evaluates-polynomial", p.Pos(set.Pos()), "each share evaluates that polynomial")
			// the point: an ID set from the loop counter (1..n)
			ids := c34Calls(gen, "bls.ID).SetDecString")
			okID := len(ids) == 1 && ids[0].Call.Args[0] == set.Call.Args[2]
			if okID {
				// the decimal string derives from the loop counter, which starts at 1
				src := ids[0].Call.Args[1]
				okID = false
				var ph *ssa.Phi
				var find func(v ssa.Value, d int)
				find = func(v ssa.Value, d int) {
					if d > 8 || ph != nil {
						return
					}
					switch x := v.(type) {
					case *ssa.Phi:
						ph = x
					case *ssa.Call:
						for _, a := range x.Call.Args {
							find(a, d+1)
						}
					case *ssa.MakeInterface:
						find(x.X, d+1)
					case *ssa.Slice:
						find(x.X, d+1)
					case *ssa.Alloc:
						for _, ref := range *x.Referrers() {
							if ia, ok := ref.(*ssa.IndexAddr); ok {
								for _, r2 := range *ia.Referrers() {
									if st, ok := r2.(*ssa.Store); ok {
										find(st.Val, d+1)
									}
								}
							}
						}
					case *ssa.Convert:
						find(x.X, d+1)
					case *ssa.ChangeType:
						find(x.X, d+1)
					}
				}
				find(src, 0)
				if ph != nil {
					for _, e := range ph.Edges {
						if k, ok := core.ConstInt(e); ok && k >= 1 {
							okID = true
						}
					}
				}
			}
			r.Check(okID, "C34.client-shares", "threshold:distinct-nonzero-ids", p.Pos(set.Pos()), "share i is evaluated at the id made from the loop counter, which starts at 1 (id 0 would reveal the key)")
			r.Check(core.ErrLeadsToFailure(set), "C34.client-shares", "threshold:error", p.Pos(set.Pos()), "a failed evaluation aborts")
			// the share object takes its keys and id from this evaluation
			want := map[string]bool{"secKey": false, "id": false, "pubKey": false}
			for _, b := range gen.Blocks {
				for _, in := range b.Instrs {
					st, ok := in.(*ssa.Store)
					if !ok {
						continue
					}
					fa, ok := st.Addr.(*ssa.FieldAddr)
					if !ok || core.FieldOf(fa) == nil {
						continue
					}
					switch core.FieldOf(fa).Name() {
					case "secKey":
						if st.Val == set.Call.Args[0] {
							want["secKey"] = true
						}
					case "id":
						if isLoadOfAlloc(st.Val, set.Call.Args[2]) {
							want["id"] = true
						}
					case "pubKey":
						s := c34Sources(st.Val)
						if s.has("call:(*" + libBLS + ".SecretKey).GetPublicKey") {
							want["pubKey"] = true
						}
					}
				}
			}
			for _, k := range []string{"secKey", "id", "pubKey"} {
				r.Check(want[k], "C34.client-shares", "threshold:share."+k, p.Pos(gen.Pos()), "the share's "+k+" comes from this evaluation")
			}
		}
	}
	split := p.Func("(*" + pkgEnc + ".BLS0ChainScheme).GenerateSplitKeys")
	if split == nil {
		r.Unresolved("C34.client-shares", "GenerateSplitKeys")
		return
	}
	subs := c34Calls(split, "bls.FrSub")
	adds := c34Calls(split, "bls.SecretKey).Add")
	inLoopEveryIteration := func(c *ssa.Call) bool {
		ls := core.LoopsContaining(split, c.Block())
		if len(ls) == 0 {
			return false
		}
		l := ls[len(ls)-1]
		_, _, found := core.PathQuery{Fn: split, Start: l.Header.Succs[0].Instrs[0], Barrier: func(x ssa.Instruction) bool { return x == ssa.Instruction(c) }, EdgeOK: core.FeasibleEdge,
			Target: func(x ssa.Instruction) bool { return x == l.Header.Instrs[0] }}.Find()
		return !found
	}
	switch {
	case len(subs) == 1 && len(adds) == 1:
		// (A) sum the generated keys, then last = primary - sum
		sub, add := subs[0], adds[0]
		a, b := c34Sources(sub.Call.Args[1]), c34Sources(sub.Call.Args[2])
		r.Check(a.has("field:privateKey") && !a.has("call:(*"+libBLS+".SecretKey).Add") && b.has("call:(*"+libBLS+".SecretKey).Add"), "C34.client-shares", "split:last-is-primary-minus-sum", p.Pos(sub.Pos()), fmt.Sprintf("FrSub(last, primary %v, aggregate %v)", a.list(), b.list()))
		r.Check(inLoopEveryIteration(add), "C34.client-shares", "split:every-key-summed", p.Pos(add.Pos()), "each generated split key is added to the aggregate in its iteration")
	case len(subs) == 1 && len(adds) == 0:
		// (B) running subtraction: acc starts as the primary key; acc = acc - generated, every iteration
		sub := subs[0]
		out, a := sub.Call.Args[0], sub.Call.Args[1]
		okB := out == a
		d := "FrSub(&acc, &acc, &generated)"
		if !okB {
			d = "the running remainder is overwritten from another value each time: only the last generated key is subtracted"
		} else if al, isAl := out.(*ssa.Alloc); isAl {
			init := c34Src{}
			for _, sv := range core.StoresTo(al) {
				for k := range c34Sources(sv) {
					init[k] = true
				}
			}
			if !init.has("field:privateKey") {
				okB, d = false, "the remainder does not start from the primary key"
			}
		}
		g := c34Sources(sub.Call.Args[2])
		if okB && !g.has("call:(*"+pkgEnc+".BLS0ChainScheme).GenerateKeys") && !g.has("field:privateKey") {
			okB, d = false, "what is subtracted is not the generated key"
		}
		r.Check(okB, "C34.client-shares", "split:last-is-primary-minus-sum", p.Pos(sub.Pos()), d)
		r.Check(inLoopEveryIteration(sub), "C34.client-shares", "split:every-key-summed", p.Pos(sub.Pos()), "each generated split key is subtracted in its iteration")
	default:
		r.Fail("C34.client-shares", "split:shape", p.Pos(split.Pos()), fmt.Sprintf("%d FrSub / %d SecretKey.Add: neither sum-then-subtract nor running subtraction", len(subs), len(adds)))
	}
}

func c34SOS(r *core.Report, p *core.Prog) {
	fn := p.Func("(*" + pkgBlock + ".ShareOrSigns).Validate")
	vs := p.Func(pkgTBLS + ".ValidateShare")
	if fn == nil || vs == nil {
		r.Unresolved("C34.sos", "ShareOrSigns.Validate / ValidateShare")
		return
	}
	cs := findCallsTo(fn, vs)
	if r.Check(len(cs) == 1, "C34.sos", "Validate:share-check", p.Pos(fn.Pos()), fmt.Sprintf("%d ValidateShare calls", len(cs))) {
		c := cs[0]
		poly, sh, pt := c34Sources(c.Call.Args[0]), c34Sources(c.Call.Args[1]), c34Sources(c.Call.Args[2])
		r.Check(poly.has("param:mpks") && poly.has("field:ID") && !poly.has("rangekey:ShareOrSigns"), "C34.sos", "Validate:sender-polynomial", p.Pos(c.Pos()), fmt.Sprintf("the polynomial is the one published by the sender sos.ID %v", poly.list()))
		r.Check(sh.has("field:Share") && sh.has("rangeval:ShareOrSigns"), "C34.sos", "Validate:share-operand", p.Pos(c.Pos()), fmt.Sprintf("the share of the visited entry %v", sh.list()))
		r.Check(pt.has("rangekey:ShareOrSigns") && !pt.has("field:ID"), "C34.sos", "Validate:receiver-id", p.Pos(c.Pos()), fmt.Sprintf("evaluated at the id of the entry's key (the receiver) %v", pt.list()))
		// a false result rejects
		rej := false
		for si, s := range c.Block().Succs {
			ifi, ok := c.Block().Instrs[len(c.Block().Instrs)-1].(*ssa.If)
			if !ok {
				break
			}
			cv, taken := stripNot(ifi.Cond, si == 0)
			if cv == ssa.Value(c) && !taken {
				rej = core.FailsOnly(s, map[*ssa.BasicBlock]bool{}) || c34ReturnsFalse(s)
			}
		}
		r.Check(rej, "C34.sos", "Validate:bad-share-rejects", p.Pos(c.Pos()), "a share that does not validate makes Validate return false")
	}
	// signature branch
	var ver *ssa.Call
	for _, b := range fn.Blocks {
		for _, in := range b.Instrs {
			if c, ok := in.(*ssa.Call); ok && c.Common().IsInvoke() && c.Common().Method.Name() == "Verify" {
				ver = c
			}
		}
	}
	if r.Check(ver != nil, "C34.sos", "Validate:signature-check", p.Pos(fn.Pos()), "scheme.Verify is called for signature entries") {
		sg, msg := c34Sources(ver.Call.Args[0]), c34Sources(ver.Call.Args[1])
		r.Check(sg.has("field:Sign") && msg.has("field:Message"), "C34.sos", "Validate:signature-operands", p.Pos(ver.Pos()), "Verify(entry.Sign, entry.Message)")
		// the key set before: SetPublicKey(publicKeys[key])
		var spk *ssa.Call
		for _, b := range fn.Blocks {
			for _, in := range b.Instrs {
				if c, ok := in.(*ssa.Call); ok && c.Common().IsInvoke() && c.Common().Method.Name() == "SetPublicKey" {
					spk = c
				}
			}
		}
		okK := spk != nil && spk.Block().Dominates(ver.Block()) && core.ErrLeadsToFailure(spk) == false
		if spk != nil {
			ks := c34Sources(spk.Call.Args[0])
			okK = ks.has("param:publicKeys") && ks.has("rangekey:ShareOrSigns") && spk.Block().Dominates(ver.Block())
		}
		r.Check(okK, "C34.sos", "Validate:signature-key", p.Pos(ver.Pos()), "the verifying key is publicKeys[entry key], set before Verify")
	}
}

func c34ReturnsFalse(b *ssa.BasicBlock) bool {
	seen := map[*ssa.BasicBlock]bool{}
	var walk func(b *ssa.BasicBlock) bool
	walk = func(b *ssa.BasicBlock) bool {
		if seen[b] {
			return true
		}
		seen[b] = true
		if ret, ok := b.Instrs[len(b.Instrs)-1].(*ssa.Return); ok {
			v := core.ResultValue(ret, len(ret.Results)-1)
			c, isC := v.(*ssa.Const)
			return isC && c.Value != nil && c.Value.String() == "false"
		}
		if len(b.Succs) == 0 {
			return true
		}
		for _, s := range b.Succs {
			if !walk(s) {
				return false
			}
		}
		return true
	}
	return walk(b)
}

// c34VerifySignatureShape: DKG.VerifySignature returns, unchanged, the result of its single
// sig.Verify(key, msg) call whose key depends on gmpk and the id parameter (and not on the
// signature), whose message is the msg parameter; any other return is the constant false.
func c34VerifySignatureShape(fn *ssa.Function) (bool, string) {
	cs := c34Calls(fn, "bls.Sign).Verify")
	okV := len(cs) == 1
	d := fmt.Sprintf("%d Verify calls", len(cs))
	if okV {
		sg, k, m := c34Sources(cs[0].Call.Args[0]), c34Sources(cs[0].Call.Args[1]), c34Sources(cs[0].Call.Args[2])
		okV = sg.has("param:sig") && k.has("field:gmpk") && k.has("param:id") && !k.has("param:sig") && m.has("param:msg") && !m.has("param:sig")
		d = fmt.Sprintf("sig %v key %v msg %v", sg.list(), k.list(), m.list())
		for _, ret := range core.Returns(fn) {
			if ret.Block() == fn.Recover {
				continue
			}
			if v := core.ResultValue(ret, 0); v != ssa.Value(cs[0]) {
				if c, isC := v.(*ssa.Const); !isC || c.Value == nil || c.Value.String() != "false" {
					okV = false
				}
			}
		}
	}
	return okV, d
}
