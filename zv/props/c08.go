package props

import (
	"fmt"
	"go/token"
	"go/types"
	"reflect"
	"sort"
	"strings"

	"golang.org/x/tools/go/ssa"

	"zv/core"
)

func init() { register("C08", "other", c08) }

// recvFieldsTouched: struct fields (types.Var) of the receiver's own struct type that fn
// addresses directly on its receiver.
func recvFieldsTouched(fn *ssa.Function) map[*types.Var]bool {
	out := map[*types.Var]bool{}
	if fn == nil || fn.Blocks == nil || len(fn.Params) == 0 {
		return out
	}
	recv := fn.Params[0]
	for _, b := range fn.Blocks {
		for _, in := range b.Instrs {
			switch x := in.(type) {
			case *ssa.FieldAddr:
				if base, _ := core.BaseObject(x.X); core.ParamOf(base) == recv || base == ssa.Value(recv) {
					if f := core.FieldOf(x); f != nil {
						out[f] = true
					}
				}
			case *ssa.Field:
				if base, _ := core.BaseObject(x.X); core.ParamOf(base) == recv || base == ssa.Value(recv) {
					if f := core.FieldOf(x); f != nil {
						out[f] = true
					}
				}
			}
		}
	}
	return out
}

// fieldsStoredOfType: names of fields of struct type T stored anywhere in the static call
// tree of fn (depth-limited).
func fieldsStoredOfType(p *core.Prog, fn *ssa.Function, T *types.Struct, depth int) map[string]bool {
	out := map[string]bool{}
	own := map[*types.Var]bool{}
	for i := 0; i < T.NumFields(); i++ {
		own[T.Field(i)] = true
	}
	seen := map[*ssa.Function]bool{}
	var walk func(f *ssa.Function, d int)
	walk = func(f *ssa.Function, d int) {
		if f == nil || f.Blocks == nil || seen[f] || d > depth {
			return
		}
		seen[f] = true
		for _, b := range f.Blocks {
			for _, in := range b.Instrs {
				switch x := in.(type) {
				case *ssa.Store:
					if fa, ok := x.Addr.(*ssa.FieldAddr); ok {
						if fl := core.FieldOf(fa); fl != nil && own[fl] {
							out[fl.Name()] = true
						}
					}
					// whole-struct store *v = T(x): every field
					if pt, ok := x.Addr.Type().Underlying().(*types.Pointer); ok {
						if st, ok := pt.Elem().Underlying().(*types.Struct); ok && st == T {
							if _, isFA := x.Addr.(*ssa.FieldAddr); !isFA {
								for i := 0; i < T.NumFields(); i++ {
									out[T.Field(i).Name()] = true
								}
							}
						}
					}
				case ssa.CallInstruction:
					if cal := core.StaticCallee(x.Common()); cal != nil && cal.Pkg != nil && core.IsModule(cal.Pkg.Pkg.Path()) {
						walk(cal, d+1)
					}
				}
			}
		}
	}
	walk(fn, 0)
	return out
}

func structOf(t types.Type) *types.Struct {
	if pt, ok := t.Underlying().(*types.Pointer); ok {
		t = pt.Elem()
	}
	st, _ := t.Underlying().(*types.Struct)
	return st
}

func fieldNames(st *types.Struct) []string {
	var out []string
	for i := 0; i < st.NumFields(); i++ {
		out = append(out, st.Field(i).Name())
	}
	return out
}

// C08 State entities serialize losslessly and canonically.
func c08(r *core.Report, p *core.Prog, thorough bool) {
	r.Explain = "Decided: the generated msgp codec of every state-relevant struct reads (marshal) and writes (unmarshal) every encodable field of the struct it belongs to, i.e. generated code is in sync with the declaration; the hand-written binary codec of the account state writes and reads the same fields in the same order; for versioned entities every registered version is handled by CommitChangesTo, GetBase/ApplyBaseChanges cover every base field, MigrateFrom carries every field two consecutive versions share and the chain reaches every older version. Not decided: value-level round trip of the msgp/json libraries."
	r.Rule("C08.msgp", "for every msgp-generated struct codec in the contract/chain packages: every exported field without msg:\"-\" is read by MarshalMsg and addressed by UnmarshalMsg")
	r.Rule("C08.state-codec", "state.State: Encode writes and Decode reads the same fields in the same order; Decode stores every field it read")
	r.Rule("C08.versions", "versioned entities: CommitChangesTo has a case per registered version; GetBase literals and ApplyBaseChanges cover every base field; MigrateFrom stores every field shared with its predecessor; every older version can be migrated")

	// ---------------- (A) msgp agreement
	nTypes := 0
	for _, pk := range p.ModPkgs {
		pp := pk.PkgPath
		if !(strings.HasPrefix(pp, "0chain.net/smartcontract/") || strings.HasPrefix(pp, "0chain.net/chaincore/") || strings.HasPrefix(pp, "0chain.net/core/util/entitywrapper")) {
			continue
		}
		if strings.Contains(pp, "/dbs") || strings.Contains(pp, "/benchmark") || strings.Contains(pp, "/mocks") || !p.NodePackages()[pp] {
			continue
		}
		scope := pk.Types.Scope()
		names := scope.Names()
		sort.Strings(names)
		for _, name := range names {
			tn, ok := scope.Lookup(name).(*types.TypeName)
			if !ok {
				continue
			}
			named, ok := tn.Type().(*types.Named)
			if !ok {
				continue
			}
			st, ok := named.Underlying().(*types.Struct)
			if !ok {
				continue
			}
			mf := p.Func("(*" + pp + "." + name + ").MarshalMsg")
			uf := p.Func("(*" + pp + "." + name + ").UnmarshalMsg")
			if mf == nil || uf == nil {
				continue
			}
			if !strings.HasSuffix(p.Fset.Position(mf.Pos()).Filename, "_gen.go") || !strings.HasSuffix(p.Fset.Position(uf.Pos()).Filename, "_gen.go") {
				continue // hand-written codec: handled separately
			}
			nTypes++
			mr := recvFieldsTouched(mf)
			ur := recvFieldsTouched(uf)
			var missM, missU []string
			for i := 0; i < st.NumFields(); i++ {
				f := st.Field(i)
				tag := reflect.StructTag(st.Tag(i))
				if v := tag.Get("msg"); v == "-" || strings.HasPrefix(v, "-,") {
					continue
				}
				if v := tag.Get("msgpack"); v == "-" {
					continue
				}
				if !f.Exported() && !mr[f] && !ur[f] {
					continue // generator run without -unexported
				}
				if !mr[f] {
					missM = append(missM, f.Name())
				}
				if !ur[f] {
					missU = append(missU, f.Name())
				}
			}
			ok2 := len(missM) == 0 && len(missU) == 0
			r.Check(ok2, "C08.msgp", "codec:"+pp+"."+name, p.Pos(mf.Pos()), fmt.Sprintf("%d fields; not marshalled: %v; not unmarshalled: %v", st.NumFields(), missM, missU))
		}
	}
	r.Floor("C08.msgp", "msgp-generated struct codecs", nTypes, 60)

	// ---------------- (A') hand-written codecs that go through a decode alias
	r.Rule("C08.wrapper-codec", "a hand-written UnmarshalMsg that decodes into an alias type D of its own struct copies every field D's codec encodes back into the receiver (whole-value conversion, or one store per field fed from the decoded value)")
	nWrap := 0
	for _, fn := range p.ModFuncs() {
		if fn.Name() != "UnmarshalMsg" || fn.Signature.Recv() == nil || fn.Blocks == nil || fn.Parent() != nil || !p.InNode(fn) {
			continue
		}
		if strings.HasSuffix(p.Fset.Position(fn.Pos()).Filename, "_gen.go") {
			continue
		}
		rpt, ok := fn.Signature.Recv().Type().(*types.Pointer)
		if !ok {
			continue
		}
		T, ok := rpt.Elem().(*types.Named)
		if !ok {
			continue
		}
		tst, ok := T.Underlying().(*types.Struct)
		if !ok {
			continue
		}
		// the alias object: an Alloc of a different named type with the identical struct, decoded by its own UnmarshalMsg
		var d *ssa.Alloc
		var D *types.Named
		for _, b := range fn.Blocks {
			for _, in := range b.Instrs {
				c, ok := in.(*ssa.Call)
				if !ok || c.Common().StaticCallee() == nil || c.Common().StaticCallee().Name() != "UnmarshalMsg" || len(c.Call.Args) == 0 {
					continue
				}
				al, ok := c.Call.Args[0].(*ssa.Alloc)
				if !ok {
					continue
				}
				dn, ok := al.Type().(*types.Pointer).Elem().(*types.Named)
				if !ok || dn == T || !types.Identical(dn.Underlying(), tst) {
					continue
				}
				d, D = al, dn
			}
		}
		if d == nil {
			continue
		}
		nWrap++
		key := "wrapper:" + T.Obj().Pkg().Path() + "." + T.Obj().Name()
		dm := p.Func("(*" + D.Obj().Pkg().Path() + "." + D.Obj().Name() + ").MarshalMsg")
		if dm == nil {
			r.Unresolved("C08.wrapper-codec", key+": MarshalMsg of "+D.Obj().Name())
			continue
		}
		encoded := recvFieldsTouched(dm)
		// whole-value copy?
		whole := false
		restored := map[string]bool{}
		for _, b := range fn.Blocks {
			for _, in := range b.Instrs {
				st, ok := in.(*ssa.Store)
				if !ok {
					continue
				}
				if st.Addr == ssa.Value(fn.Params[0]) {
					v := st.Val
					if ct, ok := v.(*ssa.ChangeType); ok {
						v = ct.X
					}
					if ld, ok := v.(*ssa.UnOp); ok && ld.X == ssa.Value(d) {
						whole = true
					}
				}
				if fa, ok := st.Addr.(*ssa.FieldAddr); ok && fa.X == ssa.Value(fn.Params[0]) && core.FieldOf(fa) != nil {
					// fed from the same field of d
					fs, _ := FlowLoads(st.Val)
					name := core.FieldOf(fa).Name()
					for k := range fs {
						if strings.HasSuffix(k, "."+name) {
							restored[name] = true
						}
					}
				}
			}
		}
		var missing []string
		if !whole {
			for f := range encoded {
				if !restored[f.Name()] {
					missing = append(missing, f.Name())
				}
			}
		}
		sort.Strings(missing)
		_ = tst
		r.Check(len(missing) == 0, "C08.wrapper-codec", key, p.Pos(fn.Pos()), fmt.Sprintf("decoded through %s (%d encoded fields); encoded but never copied back into the receiver: %v", D.Obj().Name(), len(encoded), missing))
	}
	r.Floor("C08.wrapper-codec", "hand-written codecs using a decode alias", nWrap, 2)

	// ---------------- (B) state.State
	enc := p.Func("(*" + pkgState + ".State).Encode")
	dec := p.Func("(*" + pkgState + ".State).Decode")
	if enc == nil || dec == nil {
		r.Unresolved("C08.state-codec", "State.Encode/Decode")
	} else {
		var encSeq, decSeq []string
		for _, b := range enc.Blocks {
			for _, in := range b.Instrs {
				c, ok := in.(*ssa.Call)
				if !ok {
					continue
				}
				n := core.CalleeName(c.Common())
				if n != "encoding/binary.Write" && n != "(*bytes.Buffer).Write" {
					continue
				}
				arg := c.Call.Args[len(c.Call.Args)-1]
				d := describe(arg)
				if i := strings.LastIndex(d, "."); i >= 0 {
					encSeq = append(encSeq, d[i+1:])
				}
			}
		}
		// Decode: reads into locals / fields; then stores
		localField := map[*ssa.Alloc]string{}
		for _, b := range dec.Blocks {
			for _, in := range b.Instrs {
				if st, ok := in.(*ssa.Store); ok {
					if fa, ok := st.Addr.(*ssa.FieldAddr); ok {
						if ld, ok := st.Val.(*ssa.UnOp); ok && ld.Op == token.MUL {
							if al, ok := ld.X.(*ssa.Alloc); ok {
								localField[al] = core.FieldOf(fa).Name()
							}
						}
					}
				}
			}
		}
		for _, b := range dec.Blocks {
			for _, in := range b.Instrs {
				c, ok := in.(*ssa.Call)
				if !ok {
					continue
				}
				n := core.CalleeName(c.Common())
				if n != "encoding/binary.Read" && n != "(*bytes.Buffer).Read" {
					continue
				}
				arg := c.Call.Args[len(c.Call.Args)-1]
				if mi, ok := arg.(*ssa.MakeInterface); ok {
					arg = mi.X
				}
				if al, ok := arg.(*ssa.Alloc); ok {
					decSeq = append(decSeq, localField[al])
					continue
				}
				d := describe(arg)
				if i := strings.LastIndex(d, "."); i >= 0 {
					decSeq = append(decSeq, d[i+1:])
				}
			}
		}
		same := len(encSeq) == len(decSeq) && len(encSeq) >= 4
		for i := range encSeq {
			if i < len(decSeq) && encSeq[i] != decSeq[i] {
				same = false
			}
		}
		r.Check(same, "C08.state-codec", "State:field-order", p.Pos(enc.Pos()), fmt.Sprintf("Encode writes %v, Decode reads %v", encSeq, decSeq))
		for _, want := range []string{"TxnHashBytes", "Round", "Balance", "Nonce"} {
			has := false
			for _, f := range encSeq {
				if f == want {
					has = true
				}
			}
			r.Check(has, "C08.state-codec", "State:encodes:"+want, p.Pos(enc.Pos()), "field is part of the encoded account state")
		}
	}

	// ---------------- (D) versioned entities
	type verType struct {
		named *types.Named
		st    *types.Struct
		mig   *ssa.Function
		pred  *types.Named
	}
	byBase := map[string][]*verType{} // key: package + base type name
	var all []*verType
	for _, fn := range p.ModFuncs() {
		if fn.Name() != "MigrateFrom" || fn.Signature.Recv() == nil || fn.Parent() != nil || !p.InNode(fn) {
			continue
		}
		if strings.Contains(fn.Pkg.Pkg.Path(), "entitywrapper") {
			continue
		}
		named, _ := fn.Signature.Recv().Type().(*types.Pointer).Elem().(*types.Named)
		if named == nil {
			continue
		}
		vt := &verType{named: named, st: structOf(named), mig: fn}
		for _, b := range fn.Blocks {
			for _, in := range b.Instrs {
				if ta, ok := in.(*ssa.TypeAssert); ok {
					if pn, ok := ta.AssertedType.(*types.Pointer); ok {
						if n, ok := pn.Elem().(*types.Named); ok {
							vt.pred = n
						}
					}
				}
			}
		}
		all = append(all, vt)
	}
	sort.Slice(all, func(i, j int) bool { return all[i].named.String() < all[j].named.String() })
	r.Floor("C08.versions", "versioned entity types", len(all), 5)
	// the tag written with the encoding names the struct that was encoded: InitVersion
	// (called by the wrapper before every MarshalMsg) stamps GetVersion's constant
	// unconditionally — a conditional stamp keeps a tag decoded from client input
	r.Rule("C08.version-stamp", "for every versioned entity with a Version field: InitVersion stores, on every path, the constant that GetVersion returns into the receiver's Version")
	nStamp := 0
	for _, vt := range all {
		hasField := false
		for i := 0; i < vt.st.NumFields(); i++ {
			if vt.st.Field(i).Name() == "Version" {
				hasField = true
			}
		}
		if !hasField {
			continue
		}
		tn := "(*" + vt.named.Obj().Pkg().Path() + "." + vt.named.Obj().Name() + ")."
		iv, gv := p.Func(tn+"InitVersion"), p.Func(tn+"GetVersion")
		if iv == nil || gv == nil {
			r.Unresolved("C08.version-stamp", tn+"InitVersion/GetVersion")
			continue
		}
		nStamp++
		want := ""
		for _, ret := range core.Returns(gv) {
			if c, ok := core.ConstString(core.ResultValue(ret, 0)); ok {
				want = c
			}
		}
		var stamp *ssa.Store
		for _, b := range iv.Blocks {
			for _, in := range b.Instrs {
				st, ok := in.(*ssa.Store)
				if !ok {
					continue
				}
				fa, ok := st.Addr.(*ssa.FieldAddr)
				if !ok || core.FieldOf(fa) == nil || core.FieldOf(fa).Name() != "Version" || fa.X != ssa.Value(iv.Params[0]) {
					continue
				}
				if c, ok := core.ConstString(st.Val); ok && c == want && want != "" {
					stamp = st
				}
			}
		}
		okS := stamp != nil
		d := "stores " + want
		if okS {
			path, _, found := core.PathQuery{Fn: iv, Barrier: func(in ssa.Instruction) bool { return in == ssa.Instruction(stamp) }, EdgeOK: core.FeasibleEdge,
				Target: func(in ssa.Instruction) bool { _, isRet := in.(*ssa.Return); return isRet }}.Find()
			if found {
				okS, d = false, "a path returns without stamping (a tag taken from decoded input survives): "+p.PathString(path)
			}
		} else {
			d = "no store of GetVersion's constant " + want + " into Version"
		}
		r.Check(okS, "C08.version-stamp", "InitVersion:"+vt.named.Obj().Name(), p.Pos(iv.Pos()), d)
	}
	r.Floor("C08.version-stamp", "versioned entities with a Version field", nStamp, 4)
	for _, vt := range all {
		name := vt.named.Obj().Name()
		if vt.pred == nil {
			// origin version: nothing to migrate; must return nil
			r.Pass("C08.versions", "MigrateFrom:"+name+":origin", p.Pos(vt.mig.Pos()), "origin version")
			continue
		}
		stored := fieldsStoredOfType(p, vt.mig, vt.st, 3)
		var preds []*types.Named
		for _, b := range vt.mig.Blocks {
			for _, in := range b.Instrs {
				if ta, ok := in.(*ssa.TypeAssert); ok {
					if pn, ok := ta.AssertedType.(*types.Pointer); ok {
						if n, ok := pn.Elem().(*types.Named); ok && structOf(n) != nil {
							preds = append(preds, n)
						}
					}
				}
			}
		}
		for _, pred := range preds {
			pst := structOf(pred)
			var missing []string
			for i := 0; i < vt.st.NumFields(); i++ {
				fn := vt.st.Field(i).Name()
				if fn == "Version" {
					continue
				}
				shared := false
				for j := 0; j < pst.NumFields(); j++ {
					if pst.Field(j).Name() == fn {
						shared = true
					}
				}
				if shared && !stored[fn] {
					missing = append(missing, fn)
				}
			}
			r.Check(len(missing) == 0, "C08.versions", "MigrateFrom:"+name+"<-"+pred.Obj().Name(), p.Pos(vt.mig.Pos()), fmt.Sprintf("shared fields not carried over: %v", missing))
		}
		r.Check(stored["Version"], "C08.versions", "MigrateFrom:"+name+":sets-version", p.Pos(vt.mig.Pos()), "the migrated entity must carry its own version tag")
		key := vt.named.Obj().Pkg().Path()
		byBase[key] = append(byBase[key], vt)
	}
	// chain closure: for every versioned family (same package, same name stem), every
	// older version must be accepted by the newest MigrateFrom directly or through the
	// wrapper's single-step migration. The wrapper migrates in ONE step (Update calls
	// e.MigrateFrom(current)), so a version two steps behind is rejected.
	stem := func(n string) string { return strings.TrimRight(n, "0123456789") }
	fam := map[string][]*verType{}
	for _, vt := range all {
		k := vt.named.Obj().Pkg().Path() + "." + stem(vt.named.Obj().Name())
		fam[k] = append(fam[k], vt)
	}
	var famKeys []string
	for k := range fam {
		famKeys = append(famKeys, k)
	}
	sort.Strings(famKeys)
	for _, k := range famKeys {
		vs := fam[k]
		for _, vt := range vs {
			if vt.pred == nil {
				continue
			}
			// which older versions exist that vt does not accept?
			accepted := map[string]bool{}
			for _, b := range vt.mig.Blocks {
				for _, in := range b.Instrs {
					if ta, ok := in.(*ssa.TypeAssert); ok {
						accepted[types.TypeString(ta.AssertedType, nil)] = true
					}
					if ts, ok := in.(*ssa.TypeAssert); ok && ts.CommaOk {
						accepted[types.TypeString(ts.AssertedType, nil)] = true
					}
				}
			}
			for _, o := range vs {
				if o == vt || o.named.Obj().Name() >= vt.named.Obj().Name() {
					continue
				}
				ok := accepted[types.TypeString(types.NewPointer(o.named), nil)]
				r.Check(ok, "C08.versions", "migrates:"+vt.named.Obj().Name()+"<-"+o.named.Obj().Name(), p.Pos(vt.mig.Pos()),
					"a record still stored as "+o.named.Obj().Name()+" must be migratable to "+vt.named.Obj().Name()+" (the wrapper migrates in one step)")
			}
		}
	}
	// CommitChangesTo / GetBase / ApplyBaseChanges
	for _, fn := range p.ModFuncs() {
		if fn.Parent() != nil || fn.Signature.Recv() == nil || !p.InNode(fn) || strings.Contains(fn.Pkg.Pkg.Path(), "entitywrapper") {
			continue
		}
		switch fn.Name() {
		case "CommitChangesTo":
			base := structOf(fn.Signature.Recv().Type())
			cases := map[string]bool{}
			for _, b := range fn.Blocks {
				for _, in := range b.Instrs {
					if ta, ok := in.(*ssa.TypeAssert); ok {
						cases[types.TypeString(ta.AssertedType, nil)] = true
					}
				}
			}
			k := fn.Pkg.Pkg.Path() + "." + stem(strings.TrimSuffix(core.NamedName(fn.Signature.Recv().Type())[strings.LastIndex(core.NamedName(fn.Signature.Recv().Type()), ".")+1:], "Base"))
			_ = base
			n := 0
			for kk, vs := range fam {
				if !strings.EqualFold(kk, k+"V") && !strings.EqualFold(kk, k) {
					continue
				}
				for _, vt := range vs {
					n++
					r.Check(cases[types.TypeString(types.NewPointer(vt.named), nil)], "C08.versions", "CommitChangesTo:"+fn.Signature.Recv().Type().String()+":case:"+vt.named.Obj().Name(), p.Pos(fn.Pos()), "every registered version needs a case (else base updates are silently dropped)")
				}
			}
			r.Check(n >= 2, "C08.versions", "CommitChangesTo:"+fn.Signature.Recv().Type().String()+":family", p.Pos(fn.Pos()), fmt.Sprintf("matched %d versions of family %s", n, k))
		case "ApplyBaseChanges":
			if len(fn.Params) < 2 {
				continue
			}
			base := structOf(fn.Params[1].Type())
			recv := structOf(fn.Signature.Recv().Type())
			if base == nil || recv == nil {
				continue
			}
			stored := fieldsStoredOfType(p, fn, recv, 0)
			var missing []string
			for _, f := range fieldNames(base) {
				if !stored[f] {
					missing = append(missing, f)
				}
			}
			r.Check(len(missing) == 0, "C08.versions", "ApplyBaseChanges:"+core.NamedName(fn.Signature.Recv().Type()), p.Pos(fn.Pos()), fmt.Sprintf("base fields not applied: %v", missing))
		case "GetBase":
			recvN := core.NamedName(fn.Signature.Recv().Type())
			for _, l := range literalsOfAny(fn) {
				bst := structOf(l.Alloc.Type())
				if bst == nil || !strings.HasSuffix(core.NamedName(l.Alloc.Type()), "Base") {
					continue
				}
				var missing []string
				for _, f := range fieldNames(bst) {
					if _, ok := l.Fields[f]; !ok {
						missing = append(missing, f)
					}
				}
				r.Check(len(missing) == 0, "C08.versions", "GetBase:"+recvN, posOf(p, l.Alloc), fmt.Sprintf("base fields not copied out: %v", missing))
			}
		}
	}
}

// literalsOfAny returns every struct literal built in fn.
func literalsOfAny(fn *ssa.Function) []structLit {
	var out []structLit
	for _, b := range fn.Blocks {
		for _, in := range b.Instrs {
			al, ok := in.(*ssa.Alloc)
			if !ok {
				continue
			}
			if structOf(al.Type()) == nil {
				continue
			}
			lit := structLit{Alloc: al, Fields: map[string]ssa.Value{}}
			for _, ref := range *al.Referrers() {
				fa, ok := ref.(*ssa.FieldAddr)
				if !ok {
					continue
				}
				for _, r2 := range *fa.Referrers() {
					if st, ok := r2.(*ssa.Store); ok && st.Addr == fa {
						if f := core.FieldOf(fa); f != nil {
							lit.Fields[f.Name()] = st.Val
						}
					}
				}
			}
			if len(lit.Fields) > 0 {
				out = append(out, lit)
			}
		}
	}
	return out
}
