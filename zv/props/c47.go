package props

import (
	"fmt"
	"go/token"
	"go/types"
	"sort"
	"strings"

	"golang.org/x/tools/go/ssa"

	"zv/core"
)

func init() { register("C47", "other", c47) }

const pkgEnc = "0chain.net/core/encryption"
const pkgClient = "0chain.net/chaincore/client"

// libVerify / libSign: which operand of the library primitive plays which role.
// (receiver counts as operand 0 for methods.)
type cryptoRoles struct{ key, msg, sig int }

var c47LibVerify = map[string]cryptoRoles{
	"golang.org/x/crypto/ed25519.Verify":                 {key: 0, msg: 1, sig: 2},
	"crypto/ed25519.Verify":                              {key: 0, msg: 1, sig: 2},
	"(*github.com/herumi/bls-go-binary/bls.Sign).Verify": {key: 1, msg: 2, sig: 0},
	"(*github.com/herumi/bls/ffi/go/bls.Sign).Verify":    {key: 1, msg: 2, sig: 0},
}

var c47LibSign = map[string]cryptoRoles{
	"golang.org/x/crypto/ed25519.Sign":                      {key: 0, msg: 1, sig: -1},
	"crypto/ed25519.Sign":                                   {key: 0, msg: 1, sig: -1},
	"(*github.com/herumi/bls-go-binary/bls.SecretKey).Sign": {key: 0, msg: 1, sig: -1},
	"(*github.com/herumi/bls/ffi/go/bls.SecretKey).Sign":    {key: 0, msg: 1, sig: -1},
}

// c47Sources: the parameters of fn and the fields (by name) of fn's receiver that v
// depends on.
type c47Deps struct {
	params map[*ssa.Parameter]bool
	fields map[string]bool // receiver fields read
	calls  map[*ssa.Call]bool
}

func c47DepsOf(fn *ssa.Function, v ssa.Value) c47Deps {
	d := c47Deps{params: map[*ssa.Parameter]bool{}, fields: map[string]bool{}, calls: map[*ssa.Call]bool{}}
	_, leaves := FlowLoadsDeep(v)
	for _, l := range leaves {
		switch x := l.(type) {
		case *ssa.Parameter:
			d.params[x] = true
		case *ssa.Call:
			d.calls[x] = true
		case *ssa.UnOp:
			if fa, ok := x.X.(*ssa.FieldAddr); ok && len(fn.Params) > 0 && fa.X == ssa.Value(fn.Params[0]) && fn.Signature.Recv() != nil {
				if f := core.FieldOf(fa); f != nil {
					d.fields[f.Name()] = true
				}
			}
		}
	}
	return d
}

// C47 Client signatures verify exactly for the signing key — structural necessary
// conditions (the cryptography itself is not decided).
func c47(r *core.Report, p *core.Prog, thorough bool) {
	r.Explain = "The soundness of ed25519 / BLS is cryptographic and is not decided. Decided — necessary conditions for `verifies under the matching key and fails under any other key or hash` and for `client id = hash of public key`: for every implementation of encryption.SignatureScheme, every return of Verify with a nil error yields, unchanged, the result of the library's verification primitive, whose key operand is read from the scheme's own public-key field, whose message operand derives from the hash argument and whose signature operand derives from the signature argument (followed through the one helper the method delegates to); Sign returns a value derived from the library's signing primitive applied to the scheme's own private-key field and the hash argument; Client.Verify returns the scheme's result unchanged; every store to a Client's ID outside copying is encryption.Hash of the decoded public key, Validate succeeds only when ID equals Hash(PublicKeyBytes), and GetIDFromPublicKey is Hash(hex-decoded key)."
	r.Rule("C47.verify-result", "every nil-error return of a scheme's Verify yields the library verification primitive's result unchanged (through at most one delegating helper); Client.Verify returns the scheme's results unchanged")
	r.Rule("C47.verify-inputs", "the primitive's key operand depends on the scheme's public-key field, the message operand on the hash parameter (and not only on the signature), the signature operand on the signature parameter (and not only on the hash)")
	r.Rule("C47.sign", "Sign's result derives from the library signing primitive whose key operand depends on the scheme's private-key field and whose message operand depends on the hash parameter")
	r.Rule("C47.client-id", "stores to Client.ID are Hash(decoded public key) or a copy of another client's id; Validate's success exits are dominated by ID == Hash(PublicKeyBytes); GetIDFromPublicKey returns Hash(hex.Decode(pubkey))")

	iface := p.Type(pkgEnc, "SignatureScheme")
	if iface == nil {
		r.Unresolved("C47.verify-result", "encryption.SignatureScheme")
		return
	}
	it, _ := iface.Underlying().(*types.Interface)
	var schemes []*types.Named
	for _, fn := range p.FuncsIn(pkgEnc) {
		rv := fn.Signature.Recv()
		if rv == nil || fn.Name() != "Verify" {
			continue
		}
		pt, ok := rv.Type().(*types.Pointer)
		if !ok {
			continue
		}
		n, ok := pt.Elem().(*types.Named)
		if !ok || it == nil || !types.Implements(pt, it) {
			continue
		}
		schemes = append(schemes, n)
	}
	sort.Slice(schemes, func(i, j int) bool { return schemes[i].Obj().Name() < schemes[j].Obj().Name() })
	r.Floor("C47.verify-result", "SignatureScheme implementations", len(schemes), 2)
	for _, sch := range schemes {
		tn := "(*" + pkgEnc + "." + sch.Obj().Name() + ")."
		c47Verify(r, p, sch.Obj().Name(), p.Func(tn+"Verify"))
		c47Sign(r, p, sch.Obj().Name(), p.Func(tn+"Sign"))
	}
	// Client.Verify passes the scheme's answer on
	if cv := p.Func("(*" + pkgClient + ".Client).Verify"); cv != nil {
		n := 0
		for _, ret := range core.Returns(cv) {
			if ret.Block() == cv.Recover {
				continue
			}
			v0 := core.ResultValue(ret, 0)
			k := fmt.Sprintf("Client.Verify:return@b%d", ret.Block().Index)
			if c, ok := v0.(*ssa.Const); ok && c.Value != nil && c.Value.String() == "false" {
				// false with a non-nil error only
				r.Check(core.ClassifyReturn(ret) < 0 || !isNilConstVal(core.ResultValue(ret, 1)), "C47.verify-result", k, p.Pos(ret.Pos()), "false is returned only together with an error")
				continue
			}
			okR := false
			if ex, ok := v0.(*ssa.Extract); ok && ex.Index == 0 {
				if c, ok := ex.Tuple.(*ssa.Call); ok && c.Common().IsInvoke() && c.Common().Method.Name() == "Verify" {
					a := c.Call.Args
					okR = len(a) == 2 && a[0] == ssa.Value(cv.Params[1]) && a[1] == ssa.Value(cv.Params[2])
					if e1, ok := core.ResultValue(ret, 1).(*ssa.Extract); !ok || e1.Tuple != ex.Tuple || e1.Index != 1 {
						okR = false
					}
				}
			}
			if okR {
				n++
			}
			r.Check(okR, "C47.verify-result", k, p.Pos(ret.Pos()), "returns scheme.Verify(signature, hash) unchanged")
		}
		r.Floor("C47.verify-result", "Client.Verify delegating returns", n, 1)
	} else {
		r.Unresolved("C47.verify-result", "Client.Verify")
	}
	c47ClientID(r, p)
	c47KeyCoherence(r, p)
}

// c47KeyCoherence: PublicKey, PublicKeyBytes/ID and SigScheme of a Client change together.
func c47KeyCoherence(r *core.Report, p *core.Prog) {
	r.Rule("C47.key-coherence", "a store to Client.PublicKey is followed on every success path by the recomputation of PublicKeyBytes and ID from it; PublicKeyBytes is stored only together with ID = Hash of the same bytes; SigScheme is stored only with a scheme keyed by this client's PublicKey (scheme.SetPublicKey(c.PublicKey) succeeded, or PublicKey was taken from scheme.GetPublicKey())")
	hash := p.Func(pkgEnc + ".Hash")
	isClientField := func(st *ssa.Store, name string) (ssa.Value, bool) {
		fa, ok := st.Addr.(*ssa.FieldAddr)
		if !ok || core.FieldOf(fa) == nil || core.FieldOf(fa).Name() != name {
			return nil, false
		}
		if !strings.HasSuffix(core.NamedName(fa.X.Type()), "client.Client") {
			return nil, false
		}
		return fa.X, true
	}
	// functions that recompute bytes and id of their receiver from its PublicKey
	recompute := map[*ssa.Function]bool{}
	for _, fn := range p.FuncsIn(pkgClient) {
		if fn.Blocks == nil || fn.Signature.Recv() == nil {
			continue
		}
		var bytesV ssa.Value
		var bytesSt *ssa.Store
		var keyStored []ssa.Value
		idOK := false
		for _, b := range fn.Blocks {
			for _, in := range b.Instrs {
				st, ok := in.(*ssa.Store)
				if !ok {
					continue
				}
				if obj, ok := isClientField(st, "PublicKeyBytes"); ok && obj == ssa.Value(fn.Params[0]) {
					bytesV, bytesSt = st.Val, st
				}
				if obj, ok := isClientField(st, "PublicKey"); ok && obj == ssa.Value(fn.Params[0]) {
					keyStored = append(keyStored, st.Val)
				}
			}
		}
		if bytesV == nil {
			continue
		}
		// ID = Hash(bytes) on every success path after the bytes are stored
		isIDStore := func(x ssa.Instruction) bool {
			st, ok := x.(*ssa.Store)
			if !ok {
				return false
			}
			fa, ok := st.Addr.(*ssa.FieldAddr)
			if !ok || core.FieldOf(fa) == nil || core.FieldOf(fa).Name() != "ID" {
				return false
			}
			if c, ok := st.Val.(*ssa.Call); ok && c.Common().StaticCallee() == hash {
				if mi, ok := c.Call.Args[0].(*ssa.MakeInterface); ok && mi.X == bytesV {
					return true
				}
			}
			// bytes and id handed back together by one helper call: on every success return of
			// the helper the id result is Hash(the bytes result)
			be, ok1 := bytesV.(*ssa.Extract)
			ie, ok2 := st.Val.(*ssa.Extract)
			if ok1 && ok2 && be.Tuple == ie.Tuple {
				if hc, isC := be.Tuple.(*ssa.Call); isC {
					if h := hc.Call.StaticCallee(); h != nil && h.Blocks != nil {
						okAll, n := true, 0
						for _, ret := range core.SuccessExits(h) {
							n++
							c, isCall := core.ResultValue(ret, ie.Index).(*ssa.Call)
							if !isCall || c.Common().StaticCallee() != hash {
								okAll = false
								continue
							}
							mi, isMI := c.Call.Args[0].(*ssa.MakeInterface)
							if !isMI || mi.X != core.ResultValue(ret, be.Index) {
								okAll = false
							}
						}
						return okAll && n > 0
					}
				}
			}
			return false
		}
		idOK = true
		nExit := 0
		for _, ret := range core.SuccessExits(fn) {
			if ret.Block() == fn.Recover || !core.Reaches(bytesSt, ret) {
				continue
			}
			nExit++
			// the ID store may precede or follow the bytes store: search from the entry
			_, _, found := core.PathQuery{Fn: fn, Barrier: isIDStore, EdgeOK: core.FeasibleEdge,
				Target: func(x ssa.Instruction) bool { return x == ssa.Instruction(ret) }}.Find()
			if found {
				idOK = false
			}
		}
		idOK = idOK && nExit > 0
		fs, leaves := FlowLoadsDeep(bytesV)
		fromKey := false
		for k := range fs {
			if strings.HasSuffix(k, ".PublicKey") {
				fromKey = true
			}
		}
		for _, l := range leaves {
			for _, kv := range keyStored {
				if l == kv {
					fromKey = true
				}
			}
		}
		if idOK && fromKey {
			recompute[fn] = true
		}
	}
	r.Floor("C47.key-coherence", "functions recomputing PublicKeyBytes and ID from PublicKey", len(recompute), 1)
	n := 0
	for _, fn := range p.FuncsIn(pkgClient) {
		if fn.Blocks == nil || strings.Contains(p.Pos(fn.Pos()), "_gen.go") {
			continue
		}
		for _, b := range fn.Blocks {
			for _, in := range b.Instrs {
				st, ok := in.(*ssa.Store)
				if !ok {
					continue
				}
				if obj, ok := isClientField(st, "PublicKeyBytes"); ok {
					n++
					_ = obj
					r.Check(recompute[fn], "C47.key-coherence", fmt.Sprintf("%s:stores-PublicKeyBytes", fn.String()), p.Pos(st.Pos()), "the decoded key bytes are stored only by the function that derives them from PublicKey and sets ID = Hash(bytes)")
				}
				if obj, ok := isClientField(st, "PublicKey"); ok {
					n++
					isRe := func(x ssa.Instruction) bool {
						c, ok := x.(*ssa.Call)
						if !ok {
							return false
						}
						cal := c.Common().StaticCallee()
						if cal == nil || len(c.Call.Args) == 0 || c.Call.Args[0] != obj {
							return false
						}
						if recompute[cal] {
							return true
						}
						// a callee that itself stores PublicKey and recomputes (SetPublicKey)
						for _, c2 := range StaticClosure([]*ssa.Function{cal}, func(f *ssa.Function) bool { return f.Pkg == nil || f.Pkg.Pkg.Path() != pkgClient }) {
							if recompute[c2] {
								return true
							}
						}
						return false
					}
					bad := ""
					for _, ret := range core.SuccessExits(fn) {
						if ret.Block() == fn.Recover || !core.Reaches(st, ret) {
							continue
						}
						path, _, found := core.PathQuery{Fn: fn, Start: st, Barrier: isRe, EdgeOK: core.FeasibleEdge,
							Target: func(x ssa.Instruction) bool { return x == ssa.Instruction(ret) }}.Find()
						if found {
							bad = p.PathString(path)
						}
					}
					if recompute[fn] {
						bad = ""
					}
					r.Check(bad == "", "C47.key-coherence", fmt.Sprintf("%s:stores-PublicKey@b%d", fn.String(), st.Block().Index), p.Pos(st.Pos()), "PublicKeyBytes and ID are recomputed after the key changes, on every success path "+bad)
				}
				if obj, ok := isClientField(st, "SigScheme"); ok {
					n++
					S := st.Val
					keyed := false
					// (a) S.SetPublicKey(c.PublicKey) succeeded before
					for _, b2 := range fn.Blocks {
						for _, in2 := range b2.Instrs {
							c, ok := in2.(*ssa.Call)
							if !ok || !c.Common().IsInvoke() || c.Common().Method.Name() != "SetPublicKey" || c.Common().Value != S {
								continue
							}
							f, rv := loadOfAnyField(c.Call.Args[0])
							if f == nil || f.Name() != "PublicKey" || rv != obj {
								continue
							}
							if c.Block().Dominates(st.Block()) && core.ErrLeadsToFailure(c) {
								keyed = true
							}
						}
					}
					// (b) c.PublicKey = S.GetPublicKey() earlier
					for _, b2 := range fn.Blocks {
						for _, in2 := range b2.Instrs {
							s2, ok := in2.(*ssa.Store)
							if !ok {
								continue
							}
							if o2, ok := isClientField(s2, "PublicKey"); ok && o2 == obj {
								if c, ok := s2.Val.(*ssa.Call); ok && c.Common().IsInvoke() && c.Common().Method.Name() == "GetPublicKey" && c.Common().Value == S && Before(s2, st) {
									keyed = true
								}
							}
						}
					}
					r.Check(keyed, "C47.key-coherence", fmt.Sprintf("%s:stores-SigScheme", fn.String()), p.Pos(st.Pos()), "the scheme installed verifies under this client's PublicKey")
				}
			}
		}
	}
	r.Floor("C47.key-coherence", "stores to PublicKey / PublicKeyBytes / SigScheme", n, 5)
}

func isNilConstVal(v ssa.Value) bool {
	c, ok := v.(*ssa.Const)
	return ok && c.Value == nil
}

// c47Worker: the function that contains the library call — the method itself or the one
// helper it delegates to (returning the helper's results); bind maps the helper's
// parameters to what the method passed.
func c47Worker(m *ssa.Function, lib map[string]cryptoRoles) (w *ssa.Function, call *ssa.Call, roles cryptoRoles, via *ssa.Call) {
	find := func(fn *ssa.Function) (*ssa.Call, cryptoRoles) {
		for _, b := range fn.Blocks {
			for _, in := range b.Instrs {
				if c, ok := in.(*ssa.Call); ok {
					if ro, ok := lib[core.CalleeName(c.Common())]; ok {
						return c, ro
					}
				}
			}
		}
		return nil, cryptoRoles{}
	}
	if c, ro := find(m); c != nil {
		return m, c, ro, nil
	}
	for _, b := range m.Blocks {
		for _, in := range b.Instrs {
			c, ok := in.(*ssa.Call)
			if !ok {
				continue
			}
			cal := c.Common().StaticCallee()
			if cal == nil || cal.Pkg == nil || cal.Pkg.Pkg.Path() != pkgEnc || cal.Blocks == nil {
				continue
			}
			if lc, ro := find(cal); lc != nil {
				return cal, lc, ro, c
			}
		}
	}
	return nil, nil, cryptoRoles{}, nil
}

// operand i of a call, counting the receiver of a method as operand 0 (as SSA does).
func c47Operand(c *ssa.Call, i int) ssa.Value {
	if i < 0 || i >= len(c.Call.Args) {
		return nil
	}
	return c.Call.Args[i]
}

// c47Resolve: what an operand of the library call depends on, in terms of the METHOD's
// parameters and receiver fields.
func c47Resolve(m, w *ssa.Function, via *ssa.Call, v ssa.Value) c47Deps {
	d := c47DepsOf(w, v)
	if w == m {
		return d
	}
	out := c47Deps{params: map[*ssa.Parameter]bool{}, fields: map[string]bool{}, calls: d.calls}
	for prm := range d.params {
		for i, wp := range w.Params {
			if wp == prm && i < len(via.Call.Args) {
				dd := c47DepsOf(m, via.Call.Args[i])
				for k := range dd.params {
					out.params[k] = true
				}
				for k := range dd.fields {
					out.fields[k] = true
				}
			}
		}
	}
	return out
}

func c47Verify(r *core.Report, p *core.Prog, scheme string, m *ssa.Function) {
	if m == nil || len(m.Params) != 3 {
		r.Unresolved("C47.verify-result", scheme+".Verify")
		return
	}
	w, lc, roles, via := c47Worker(m, c47LibVerify)
	if !r.Check(w != nil, "C47.verify-result", scheme+".Verify:primitive", p.Pos(m.Pos()), "Verify (or the helper it delegates to) calls a known library verification primitive") {
		return
	}
	sigP, hashP := m.Params[1], m.Params[2]
	// result discipline in the worker
	n := 0
	for _, ret := range core.Returns(w) {
		if ret.Block() == w.Recover {
			continue
		}
		v0, v1 := core.ResultValue(ret, 0), core.ResultValue(ret, 1)
		k := fmt.Sprintf("%s.Verify:%s:return@b%d", scheme, w.Name(), ret.Block().Index)
		if !isNilConstVal(v1) {
			// error return: the bool must be false
			c, ok := v0.(*ssa.Const)
			r.Check(ok && c.Value != nil && c.Value.String() == "false", "C47.verify-result", k, p.Pos(ret.Pos()), "an error return does not report success")
			continue
		}
		n++
		okV := v0 == ssa.Value(lc)
		if c, isC := v0.(*ssa.Const); isC && c.Value != nil {
			// `if !prim(...) { return false, nil }; return true, nil`
			want := c.Value.String() == "true"
			for _, f := range core.FactsAt(ret.Block()) {
				cv, taken := stripNot(f.Cond, f.Taken)
				if cv == ssa.Value(lc) && taken == want {
					okV = true
				}
			}
		}
		r.Check(okV, "C47.verify-result", k, p.Pos(ret.Pos()), "a nil-error return yields the primitive's result (the value itself, or the constant it is known to equal on that path)")
	}
	r.Floor("C47.verify-result", scheme+".Verify nil-error returns", n, 1)
	if w != m {
		// the method returns the helper's two results unchanged
		for _, ret := range core.Returns(m) {
			if ret.Block() == m.Recover {
				continue
			}
			k := fmt.Sprintf("%s.Verify:delegates@b%d", scheme, ret.Block().Index)
			e0, ok0 := core.ResultValue(ret, 0).(*ssa.Extract)
			e1, ok1 := core.ResultValue(ret, 1).(*ssa.Extract)
			okD := ok0 && ok1 && e0.Tuple == ssa.Value(via) && e1.Tuple == ssa.Value(via) && e0.Index == 0 && e1.Index == 1
			if !okD {
				// an early error return is fine
				if c, isC := core.ResultValue(ret, 0).(*ssa.Const); isC && c.Value != nil && c.Value.String() == "false" && !isNilConstVal(core.ResultValue(ret, 1)) {
					okD = true
				}
			}
			r.Check(okD, "C47.verify-result", k, p.Pos(ret.Pos()), "the method returns the helper's results unchanged")
		}
	}
	// inputs
	type role struct {
		name string
		idx  int
	}
	for _, ro := range []role{{"key", roles.key}, {"message", roles.msg}, {"signature", roles.sig}} {
		op := c47Operand(lc, ro.idx)
		k := fmt.Sprintf("%s.Verify:%s-operand", scheme, ro.name)
		if op == nil {
			r.Fail("C47.verify-inputs", k, p.Pos(lc.Pos()), "operand missing")
			continue
		}
		d := c47Resolve(m, w, via, op)
		switch ro.name {
		case "key":
			pub := false
			for f := range d.fields {
				lf := strings.ToLower(f)
				if strings.Contains(lf, "pub") {
					pub = true
				}
			}
			r.Check(pub && !d.params[sigP] && !d.params[hashP], "C47.verify-inputs", k, p.Pos(lc.Pos()), fmt.Sprintf("reads the scheme's public key field (fields %v) and nothing supplied by the caller", sortedKeys(d.fields)))
		case "message":
			r.Check(d.params[hashP] && !d.params[sigP], "C47.verify-inputs", k, p.Pos(lc.Pos()), "derives from the hash parameter, not from the signature")
		case "signature":
			r.Check(d.params[sigP] && !d.params[hashP], "C47.verify-inputs", k, p.Pos(lc.Pos()), "derives from the signature parameter, not from the hash")
		}
	}
}

func c47Sign(r *core.Report, p *core.Prog, scheme string, m *ssa.Function) {
	if m == nil || len(m.Params) != 2 {
		r.Unresolved("C47.sign", scheme+".Sign")
		return
	}
	w, lc, roles, via := c47Worker(m, c47LibSign)
	if !r.Check(w != nil, "C47.sign", scheme+".Sign:primitive", p.Pos(m.Pos()), "Sign (or the helper it delegates to) calls a known library signing primitive") {
		return
	}
	hashP := m.Params[1]
	kd := c47Resolve(m, w, via, c47Operand(lc, roles.key))
	priv := false
	for f := range kd.fields {
		lf := strings.ToLower(f)
		if strings.Contains(lf, "priv") || strings.Contains(lf, "sec") {
			priv = true
		}
	}
	r.Check(priv && !kd.params[hashP], "C47.sign", scheme+".Sign:key-operand", p.Pos(lc.Pos()), fmt.Sprintf("the signing key is the scheme's private key field (fields %v)", sortedKeys(kd.fields)))
	md := c47Resolve(m, w, via, c47Operand(lc, roles.msg))
	r.Check(md.params[hashP], "C47.sign", scheme+".Sign:message-operand", p.Pos(lc.Pos()), "the signed message derives from the hash parameter")
	// result derives from the primitive
	n := 0
	for _, ret := range core.Returns(w) {
		if ret.Block() == w.Recover || !isNilConstVal(core.ResultValue(ret, 1)) {
			continue
		}
		n++
		d := c47DepsOf(w, core.ResultValue(ret, 0))
		r.Check(d.calls[lc], "C47.sign", fmt.Sprintf("%s.Sign:%s:return@b%d", scheme, w.Name(), ret.Block().Index), p.Pos(ret.Pos()), "the returned signature derives from the primitive's output")
	}
	r.Floor("C47.sign", scheme+".Sign nil-error returns", n, 1)
	if w != m {
		for _, ret := range core.Returns(m) {
			if ret.Block() == m.Recover {
				continue
			}
			e0, ok0 := core.ResultValue(ret, 0).(*ssa.Extract)
			okD := ok0 && e0.Tuple == ssa.Value(via) && e0.Index == 0
			if !okD && !isNilConstVal(core.ResultValue(ret, 1)) {
				okD = true
			}
			r.Check(okD, "C47.sign", fmt.Sprintf("%s.Sign:delegates@b%d", scheme, ret.Block().Index), p.Pos(ret.Pos()), "the method returns the helper's signature unchanged")
		}
	}
}

func c47ClientID(r *core.Report, p *core.Prog) {
	hash := p.Func(pkgEnc + ".Hash")
	if hash == nil {
		r.Unresolved("C47.client-id", "encryption.Hash")
		return
	}
	var isHashOfKey func(fn *ssa.Function, v ssa.Value) (bool, string)
	isHashOfKey = func(fn *ssa.Function, v ssa.Value) (bool, string) {
		inner, bind := core.Unbind(v)
		c, ok := inner.(*ssa.Call)
		if !ok || c.Common().StaticCallee() != hash {
			// ToKey(Hash(..)) wrappers
			if ok && len(c.Call.Args) == 1 && strings.HasSuffix(core.CalleeName(c.Common()), ".ToKey") {
				return false, "wrapped"
			}
			// the id handed back by a helper of the module: every value it can return is the hash of the key
			if bind == nil {
				if lv := ValueLeaves(v, 1); len(lv) > 0 && !(len(lv) == 1 && lv[0] == v) {
					for _, l := range lv {
						if k, isK := l.(*ssa.Const); isK && k.Value != nil && k.Value.ExactString() == `""` {
							continue // the value returned next to an error
						}
						if ok2, why := isHashOfKey(fn, l); !ok2 {
							return false, why
						}
					}
					return true, ""
				}
			}
			return false, "not encryption.Hash(…)"
		}
		fs, leaves := FlowLoadsDeep(c.Call.Args[0])
		for k := range fs {
			if strings.HasSuffix(k, ".PublicKey") || strings.HasSuffix(k, ".PublicKeyBytes") {
				return true, ""
			}
		}
		for _, l := range leaves {
			if prm, ok := l.(*ssa.Parameter); ok {
				if a, bound := bind[prm]; bound {
					fa, la := FlowLoadsDeep(a)
					for k := range fa {
						if strings.HasSuffix(k, ".PublicKey") || strings.HasSuffix(k, ".PublicKeyBytes") {
							return true, ""
						}
					}
					for _, l2 := range la {
						if p2, ok := l2.(*ssa.Parameter); ok && strings.Contains(strings.ToLower(p2.Name()), "key") {
							return true, ""
						}
					}
					continue
				}
				if strings.Contains(strings.ToLower(prm.Name()), "key") {
					return true, ""
				}
			}
		}
		return false, "the hashed value is not the public key"
	}
	// stores to Client.ID in package client
	n := 0
	for _, fn := range p.FuncsIn(pkgClient) {
		if fn.Blocks == nil || strings.Contains(p.Pos(fn.Pos()), "_gen.go") {
			continue
		}
		for _, b := range fn.Blocks {
			for _, in := range b.Instrs {
				st, ok := in.(*ssa.Store)
				if !ok {
					continue
				}
				fa, ok := st.Addr.(*ssa.FieldAddr)
				if !ok || core.FieldOf(fa) == nil {
					continue
				}
				name := core.FieldOf(fa).Name()
				rt, _ := core.BaseObject(fa)
				if rt == nil || !strings.HasSuffix(core.NamedName(rt.Type()), "client.Client") {
					continue
				}
				switch name {
				case "ID":
					n++
					ok, why := isHashOfKey(fn, st.Val)
					r.Check(ok, "C47.client-id", fmt.Sprintf("%s:sets-ID#%d", fn.String(), n), p.Pos(st.Pos()), "ID = encryption.Hash(decoded public key) "+why)
				case "IDField":
					// whole-field copy from another client
					n++
					src, pth := core.BaseObject(st.Val)
					okC := src != nil && strings.HasSuffix(core.NamedName(src.Type()), "client.Client") && strings.HasSuffix(pth, ".IDField")
					r.Check(okC, "C47.client-id", fmt.Sprintf("%s:copies-ID#%d", fn.String(), n), p.Pos(st.Pos()), "the id is copied from another client")
				}
			}
		}
	}
	r.Floor("C47.client-id", "stores to Client.ID / IDField", n, 2)
	// Validate
	if v := p.Func("(*" + pkgClient + ".Client).Validate"); v != nil {
		exits := core.SuccessExits(v)
		okAll := len(exits) > 0
		for _, ret := range exits {
			g := false
			for _, f := range core.FactsAt(ret.Block()) {
				cv, taken := stripNot(f.Cond, f.Taken)
				c, ok := cv.(*ssa.Call)
				if !ok || !taken || !strings.HasSuffix(core.CalleeName(c.Common()), ".IsEqual") || len(c.Call.Args) != 2 {
					continue
				}
				idSide, hashSide := false, false
				for _, a := range c.Call.Args {
					if _, pth := core.BaseObject(a); strings.HasSuffix(pth, ".ID") {
						idSide = true
					}
					fs, leaves := FlowLoadsDeep(a)
					viaHash := false
					for _, l := range leaves {
						if hc, ok := l.(*ssa.Call); ok && hc.Common().StaticCallee() == hash {
							viaHash = true
						}
					}
					if viaHash && (fs["Client.PublicKeyBytes"] || fs["Client.PublicKey"]) {
						hashSide = true
					}
				}
				if idSide && hashSide {
					g = true
				}
			}
			if !g {
				okAll = false
			}
		}
		r.Check(okAll, "C47.client-id", "Client.Validate:id-is-hash-of-key", p.Pos(v.Pos()), "every success exit is dominated by IsEqual(ID, Hash(PublicKeyBytes))")
	} else {
		r.Unresolved("C47.client-id", "Client.Validate")
	}
	if g := p.Func(pkgClient + ".GetIDFromPublicKey"); g != nil {
		n := 0
		for _, ret := range core.SuccessExits(g) {
			n++
			ok, why := isHashOfKey(g, core.ResultValue(ret, 0))
			r.Check(ok, "C47.client-id", fmt.Sprintf("GetIDFromPublicKey:return@b%d", ret.Block().Index), p.Pos(ret.Pos()), "returns Hash(hex-decoded public key) "+why)
		}
		r.Floor("C47.client-id", "GetIDFromPublicKey success returns", n, 1)
	} else {
		r.Unresolved("C47.client-id", "GetIDFromPublicKey")
	}
	_ = token.ADD
}
