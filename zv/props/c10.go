package props

import (
	"fmt"
	"go/token"
	"go/types"
	"strings"

	"golang.org/x/tools/go/ssa"

	"zv/core"
)

func init() { register("C10", "other", c10) }

const pkgSP = "0chain.net/smartcontract/stakepool"

// conserves: credit + newBal == oldBal for every way control reaches the use, decided
// structurally over the phi split `if r > bal {r = bal; bal = 0} else {bal -= r}` and
// the forms bal' = bal - x / MinusCoin(bal, x).
func conserves(oldBal, credit, newBal ssa.Value, depth int) bool {
	if depth > 4 {
		return false
	}
	cp, ok1 := credit.(*ssa.Phi)
	np, ok2 := newBal.(*ssa.Phi)
	if ok1 && ok2 && cp.Block() == np.Block() && len(cp.Edges) == len(np.Edges) {
		for i := range cp.Edges {
			if !conserves(oldBal, cp.Edges[i], np.Edges[i], depth+1) {
				return false
			}
		}
		return true
	}
	if k, ok := core.ConstInt(newBal); ok && k == 0 && credit == oldBal {
		return true
	}
	if k, ok := core.ConstInt(credit); ok && k == 0 && newBal == oldBal {
		return true
	}
	if bo, ok := newBal.(*ssa.BinOp); ok && bo.Op == token.SUB && bo.X == oldBal && bo.Y == credit {
		return true
	}
	if c, idx := core.CallOf(newBal); c != nil && idx == 0 && core.CalleeName(c.Common()) == pkgCurr+".MinusCoin" &&
		c.Call.Args[0] == oldBal && c.Call.Args[1] == credit {
		return true
	}
	return false
}

// C10 Reward distribution splits the amount exactly.
func c10(r *core.Report, p *core.Prog, thorough bool) {
	r.Explain = "Decided (structure, for every input): both distributors share the gate (zero value, killed, under-staked → nothing credited); in the proportional loop the value credited to a delegate, the value recorded for it and the value taken off the running balance are one SSA value that conserves the balance on every edge; the service charge credited is the value subtracted from the paid amount; only the loop's leftover is handed to the equal distribution, whose share/remainder come from one DistributeCoin call; random-N selection returns at most N pools; Coin subtractions are checked or guarded. Not decided: proportionality 'up to a few units' (numeric)."
	r.Rule("C10.gate", "every credit to a provider or delegate Reward in DistributeRewards/DistributeRewardsRandN is dominated by value != 0, !HasBeenKilled and !(stake < MinStake)")
	r.Rule("C10.same-value", "in the proportional loop: credited value == recorded value, and credited + new running balance == old running balance on every edge; the loop carries exactly that new balance")
	r.Rule("C10.service-charge", "the service charge credited to the provider is the value subtracted from the paid amount and the value recorded in the event")
	r.Rule("C10.leftover", "equallyDistributeRewards receives the running balance left by the loop and nothing else; it is called only when that balance is > 0, and it is given the same pools the proportional loop ranged over")
	r.Rule("C10.equal", "equallyDistributeRewards: share and remainder come from one DistributeCoin(coins, len(pools)); each pool gets share, the first r pools one more, state and event updated together")
	r.Rule("C10.arith", "no unguarded raw Coin subtraction in the distributors (value - serviceCharge must be checked)")
	r.Rule("C10.randn", "getRandPools returns all pools when n >= len, else exactly n indices")
	r.Rule("C10.siblings", "DistributeRewards and DistributeRewardsRandN agree on gate, service charge and loop structure")

	dpReward := p.Field(pkgSP, "DelegatePool", "Reward")
	spReward := p.Field(pkgSP, "StakePool", "Reward")
	if dpReward == nil || spReward == nil {
		r.Unresolved("C10.gate", "DelegatePool.Reward/StakePool.Reward")
		return
	}
	type summary struct{ gate, sc, loop bool }
	sums := map[string]*summary{}
	for _, name := range []string{"DistributeRewards", "DistributeRewardsRandN"} {
		fn := p.Func("(*" + pkgSP + ".StakePool)." + name)
		if fn == nil {
			r.Unresolved("C10.gate", name)
			continue
		}
		sm := &summary{gate: true}
		sums[name] = sm
		var value *ssa.Parameter
		for _, prm := range fn.Params {
			if prm.Name() == "value" {
				value = prm
			}
		}
		// ---- gate
		credits := append(CreditsOf(fn, dpReward), CreditsOf(fn, spReward)...)
		// the proportional loop may live in a helper of the package: its credits are gated
		// by what holds at the helper's call site
		lfn, lcall := c10LoopHelper(fn, dpReward)
		gateAt := map[ssa.Instruction]*ssa.BasicBlock{}
		if lfn != nil {
			for _, c := range CreditsOf(lfn, dpReward) {
				credits = append(credits, c)
				gateAt[c.W.Instr] = lcall.Block()
			}
		}
		r.Floor("C10.gate", name+" credits", len(credits), 3)
		for i, c := range credits {
			b := c.W.Instr.Block()
			if gb := gateAt[c.W.Instr]; gb != nil {
				b = gb
			}
			g1 := HasCmp(b, "value", token.NEQ, "0")
			g2 := BoolFact(b, ".HasBeenKilled", false)
			g3 := HasCmp(b, "stake()#0", token.GEQ, ".MinStake")
			ok := g1 && g2 && g3
			if !ok {
				sm.gate = false
			}
			r.Check(ok, "C10.gate", fmt.Sprintf("%s:credit:%d:%s", name, i, core.FieldOf(c.W.Addr).Name()), posOf(p, c.W.Instr),
				fmt.Sprintf("value!=0:%v !killed:%v stake>=min:%v", g1, g2, g3))
		}
		// ---- service charge
		var scVal ssa.Value
		for _, c := range CreditsOf(fn, spReward) {
			if core.IsParam(c.Added, value) {
				continue // no-delegates arm: whole value to the provider
			}
			scVal = c.Added
		}
		// no-delegates arm must credit exactly `value`
		wholeOK := false
		for _, c := range CreditsOf(fn, spReward) {
			if core.IsParam(c.Added, value) {
				wholeOK = true
			}
		}
		r.Check(wholeOK, "C10.service-charge", name+":no-delegates-credits-value", p.Pos(fn.Pos()), "with no delegate pools the provider is credited exactly the paid value")
		var valueLeft ssa.Value
		if scVal != nil {
			for _, ref := range *scVal.Referrers() {
				if bo, ok := ref.(*ssa.BinOp); ok && bo.Op == token.SUB && core.IsParam(bo.X, value) && bo.Y == scVal {
					valueLeft = bo
				}
				if c, ok := ref.(*ssa.Call); ok && core.CalleeName(c.Common()) == pkgCurr+".MinusCoin" && core.IsParam(c.Call.Args[0], value) && c.Call.Args[1] == scVal {
					for _, r2 := range *c.Referrers() {
						if e, ok := r2.(*ssa.Extract); ok && e.Index == 0 {
							valueLeft = e
						}
					}
				}
			}
		}
		sm.sc = scVal != nil && valueLeft != nil
		r.Check(sm.sc, "C10.service-charge", name+":charge-subtracted-from-value", p.Pos(fn.Pos()), "the remainder must be value minus exactly the credited service charge")
		// event records the same charge
		if scVal != nil {
			evf := p.Field(pkgSP, "StakePoolReward", "Reward")
			recOK := false
			if evf != nil {
				for _, w := range core.FieldWrites([]*ssa.Function{fn}, evf) {
					if w.Kind == "store" && w.Val == scVal {
						recOK = true
					}
				}
			}
			r.Check(recOK, "C10.service-charge", name+":charge-recorded", p.Pos(fn.Pos()), "the event's provider reward must be the credited service charge")
		}
		// ---- proportional loop
		var loopCredit *Credit
		loopFn := fn
		// start: the value the running balance starts from, as the loop's function sees it;
		// leftover: the balance the loop leaves, as fn sees it (set below)
		start := valueLeft
		if lfn != nil {
			loopFn = lfn
			start = nil
			for i, a := range lcall.Call.Args {
				if a == valueLeft && valueLeft != nil && i < len(lfn.Params) {
					start = lfn.Params[i]
				}
			}
		}
		for _, c := range CreditsOf(loopFn, dpReward) {
			c := c
			if len(core.LoopsContaining(loopFn, c.W.Instr.Block())) > 0 {
				loopCredit = &c
			}
		}
		if !r.Check(loopCredit != nil, "C10.same-value", name+":loop-credit", p.Pos(fn.Pos()), "a delegate credit inside the proportional loop (in the distributor or in the one helper it hands the remainder to)") {
			continue
		}
		loops := core.LoopsContaining(loopFn, loopCredit.W.Instr.Block())
		hdr := loops[0].Header
		// the running balance: loop-header phi of Coin type whose initial value is valueLeft
		var balPhi *ssa.Phi
		for _, in := range hdr.Instrs {
			ph, ok := in.(*ssa.Phi)
			if !ok || !isCoin(ph.Type()) {
				continue
			}
			for _, e := range ph.Edges {
				if e == start && start != nil {
					balPhi = ph
				}
			}
		}
		if !r.Check(balPhi != nil, "C10.same-value", name+":running-balance", posOf(p, loopCredit.W.Instr), "running balance starts at value - serviceCharge") {
			continue
		}
		var newBal ssa.Value
		for i, e := range balPhi.Edges {
			if hdr.Dominates(hdr.Preds[i]) { // back edge
				newBal = e
			}
		}
		ok := newBal != nil && conserves(balPhi, loopCredit.Added, newBal, 0)
		sm.loop = ok
		r.Check(ok, "C10.same-value", name+":credit-conserves-balance", posOf(p, loopCredit.W.Instr),
			fmt.Sprintf("credited %s, balance becomes %s: credited + new balance must equal the old balance on every edge", loopCredit.Added.Name(), nameOf(newBal)))
		// recorded value
		recOK := false
		for _, b := range loopFn.Blocks {
			for _, in := range b.Instrs {
				if mu, ok := in.(*ssa.MapUpdate); ok && loops[0].Body[b] && strings.HasSuffix(describe(mu.Map), ".DelegateRewards") {
					if mu.Value == loopCredit.Added {
						recOK = true
					} else {
						recOK = false
					}
				}
			}
		}
		r.Check(recOK, "C10.same-value", name+":recorded-equals-credited", posOf(p, loopCredit.W.Instr), "the per-delegate amount recorded in the event must be the credited SSA value")
		// ---- leftover
		var leftover ssa.Value = balPhi
		if lfn != nil {
			// the helper hands the balance its loop leaves back as result 0 on every success exit
			leftover = nil
			okRet := true
			for _, ret := range core.SuccessExits(lfn) {
				if core.ResultValue(ret, 0) != ssa.Value(balPhi) {
					okRet = false
				}
			}
			if okRet {
				if lfn.Signature.Results().Len() == 1 {
					leftover = lcall
				} else {
					for _, ref := range *lcall.Referrers() {
						if ex, ok := ref.(*ssa.Extract); ok && ex.Index == 0 {
							leftover = ex
						}
					}
				}
			}
			r.Check(leftover != nil && core.ErrLeadsToFailure(lcall), "C10.leftover", name+":helper-returns-balance", p.Pos(lcall.Pos()), "the helper running the proportional loop returns the balance the loop leaves, and its error fails the distribution")
			if leftover == nil {
				continue
			}
		}
		var eq []*ssa.Call
		for _, cs := range core.CallsIn(fn, false, func(c *ssa.CallCommon) bool { return core.MethodName(c) == "equallyDistributeRewards" }) {
			eq = append(eq, cs.Instr.(*ssa.Call))
		}
		if r.Check(len(eq) == 1, "C10.leftover", name+":equal-distribution-call", p.Pos(fn.Pos()), fmt.Sprintf("%d calls", len(eq))) {
			args := core.CallArgs(eq[0].Common())
			r.Check(args[0] == leftover, "C10.leftover", name+":leftover-arg", p.Pos(eq[0].Pos()), "argument must be the running balance left by the loop, got "+describe(args[0]))
			gt := false
			for _, c := range CmpFacts(eq[0].Block()) {
				if (c.X == leftover && c.Op == token.GTR && c.YD == "0") || (c.X == leftover && c.Op == token.NEQ && c.YD == "0") {
					gt = true
				}
			}
			r.Check(gt, "C10.leftover", name+":only-if-positive", p.Pos(eq[0].Pos()), "called only when the leftover is > 0")
			r.Check(core.ErrLeadsToFailure(eq[0]), "C10.leftover", name+":err", p.Pos(eq[0].Pos()), "its error fails the distribution")
			// the leftover goes to the very pools the proportional loop paid
			var loopSlice ssa.Value
			for _, rl := range RangeLoops(loopFn) {
				if rl.L.Header == hdr {
					loopSlice = rl.Slice
					if lfn != nil { // seen from fn: the argument bound to the ranged parameter
						loopSlice = nil
						if prm := core.ParamOf(rl.Slice); prm != nil {
							loopSlice = actualOf(lcall, prm)
						}
					}
				}
			}
			allOfSP := func(v ssa.Value) bool {
				// produced by a method of the stake pool itself from nothing but the pool
				c, ok := v.(*ssa.Call)
				if !ok {
					return false
				}
				cal := c.Common().StaticCallee()
				return cal != nil && len(c.Call.Args) == 1 && c.Call.Args[0] == ssa.Value(fn.Params[0])
			}
			okSame, d := false, "the pools of the proportional loop were not identified"
			if loopSlice != nil {
				isMethodForm := eq[0].Common().StaticCallee() != nil && eq[0].Common().StaticCallee().Signature.Recv() != nil
				switch {
				case isMethodForm:
					okSame = allOfSP(loopSlice)
					d = "the method form pays every pool of the stake pool; the loop ranges over " + describe(loopSlice)
				default:
					pools := eq[0].Call.Args[1]
					okSame = pools == loopSlice || (allOfSP(pools) && allOfSP(loopSlice))
					d = "leftover pools " + describe(pools) + ", loop pools " + describe(loopSlice)
				}
			}
			r.Check(okSame, "C10.leftover", name+":same-pools", p.Pos(eq[0].Pos()), "the rounding leftover is shared among exactly the pools the loop paid (a delegate outside the selection gets nothing); "+d)
		}
		// ---- arithmetic
		arithFns := []*ssa.Function{fn}
		if lfn != nil {
			arithFns = append(arithFns, lfn)
		}
		for _, o := range RawCoinArith(arithFns) {
			if o.Op.Op != token.SUB {
				continue
			}
			key := fmt.Sprintf("%s:raw-sub:%s-%s", name, describe(o.Op.X), describe(o.Op.Y))
			r.Check(subGuarded(o.Op), "C10.arith", key, posOf(p, o.Op), "raw Coin subtraction without a dominating `subtrahend <= minuend` (wraps if the float-derived charge rounds above the value)")
		}
	}
	if a, b := sums["DistributeRewards"], sums["DistributeRewardsRandN"]; a != nil && b != nil {
		r.Check(*a == *b, "C10.siblings", "DistributeRewards~DistributeRewardsRandN", "", fmt.Sprintf("gate/service-charge/loop structure: %+v vs %+v", *a, *b))
	}
	// ---- equallyDistributeRewards
	eqf := p.Func(pkgSP + ".equallyDistributeRewards")
	if eqf == nil {
		r.Unresolved("C10.equal", "equallyDistributeRewards")
	} else {
		dcs := findCalls(eqf, pkgCurr+".DistributeCoin")
		if r.Check(len(dcs) == 1, "C10.equal", "equallyDistributeRewards:one-DistributeCoin", p.Pos(eqf.Pos()), fmt.Sprintf("%d calls", len(dcs))) {
			dc := dcs[0]
			a0 := describe(dc.Call.Args[0])
			a1 := describe(dc.Call.Args[1])
			r.Check(a0 == "coins" && strings.Contains(a1, "len") || a0 == "coins", "C10.equal", "equallyDistributeRewards:args", p.Pos(dc.Pos()), "DistributeCoin("+a0+", "+a1+")")
			lenOK := false
			for _, rt := range core.Slice(dc.Call.Args[1]) {
				if c, ok := rt.V.(*ssa.Call); ok && core.CalleeName(c.Common()) == "builtin.len" && describe(c.Call.Args[0]) == "pools" {
					lenOK = true
				}
			}
			r.Check(lenOK, "C10.equal", "equallyDistributeRewards:divides-by-len-pools", p.Pos(dc.Pos()), "divisor must be len(pools)")
			r.Check(core.ErrLeadsToFailure(dc), "C10.equal", "equallyDistributeRewards:err", p.Pos(dc.Pos()), "error returned")
			var share ssa.Value
			for _, ref := range *dc.Referrers() {
				if e, ok := ref.(*ssa.Extract); ok && e.Index == 0 {
					share = e
				}
			}
			creditsShare := 0
			for _, c := range CreditsOf(eqf, dpReward) {
				if c.Added == share {
					creditsShare++
					r.Check(len(core.LoopsContaining(eqf, c.W.Instr.Block())) == 1, "C10.equal", "equallyDistributeRewards:share-in-loop", posOf(p, c.W.Instr), "share credited once per pool")
				}
			}
			r.Check(creditsShare == 1, "C10.equal", "equallyDistributeRewards:share-credit", p.Pos(eqf.Pos()), fmt.Sprintf("%d credits of share", creditsShare))
		}
		// every state increment has a matching event increment in the same block
		for i, c := range CreditsOf(eqf, dpReward) {
			b := c.W.Instr.Block()
			mu := 0
			for _, in := range b.Instrs {
				if m, ok := in.(*ssa.MapUpdate); ok && strings.HasSuffix(describe(m.Map), ".DelegateRewards") {
					mu++
				}
			}
			// the AddInt64 event update of the share loop sits in the following block
			if mu == 0 {
				for _, s := range b.Succs {
					for _, in := range s.Instrs {
						if m, ok := in.(*ssa.MapUpdate); ok && strings.HasSuffix(describe(m.Map), ".DelegateRewards") {
							mu++
						}
					}
					for _, s2 := range s.Succs {
						for _, in := range s2.Instrs {
							if m, ok := in.(*ssa.MapUpdate); ok && strings.HasSuffix(describe(m.Map), ".DelegateRewards") {
								mu++
							}
						}
					}
				}
			}
			r.Check(mu >= 1, "C10.equal", fmt.Sprintf("equallyDistributeRewards:state+event:%d", i), posOf(p, c.W.Instr), "each state credit is paired with an event credit")
		}
	}
	// ---- randN
	grp := p.Func("(*" + pkgSP + ".StakePool).getRandPools")
	if grp == nil {
		r.Unresolved("C10.randn", "getRandPools")
	} else {
		var n *ssa.Parameter
		for _, prm := range grp.Params {
			if prm.Name() == "n" {
				n = prm
			}
		}
		// early return of all pools guarded by n >= len(pls)
		allOK := false
		for _, ret := range core.Returns(grp) {
			for _, c := range CmpFacts(ret.Block()) {
				if core.IsParam(c.X, n) && c.Op == token.GEQ && strings.Contains(c.YD, "len") {
					allOK = true
				}
			}
		}
		r.Check(allOK, "C10.randn", "getRandPools:all-when-n>=len", p.Pos(grp.Pos()), "returns every pool only when n >= len(pools)")
		// index sources: Perm(n) or Perm(x)[:n]
		idxOK := 0
		var scan func(f *ssa.Function)
		scan = func(f *ssa.Function) {
			for _, cs := range core.CallsIn(f, false, core.NameIs("(*math/rand.Rand).Perm")) {
				call := cs.Instr.(*ssa.Call)
				arg := call.Call.Args[1]
				isN := func(v ssa.Value) bool {
					if core.IsParam(v, n) {
						return true
					}
					d := describe(v)
					return d == "n"
				}
				if isN(arg) {
					idxOK++
					continue
				}
				sliced := false
				for _, ref := range *call.Referrers() {
					if sl, ok := ref.(*ssa.Slice); ok && sl.High != nil && isN(sl.High) && sl.Low == nil {
						sliced = true
					}
				}
				if sliced {
					idxOK++
				} else {
					r.Fail("C10.randn", "getRandPools:perm-bound", p.Pos(call.Pos()), "permutation neither of size n nor cut to [:n]")
				}
			}
			for _, a := range f.AnonFuncs {
				scan(a)
			}
		}
		scan(grp)
		r.Check(idxOK == 2, "C10.randn", "getRandPools:n-indices", p.Pos(grp.Pos()), fmt.Sprintf("%d permutation sites bounded by n (before/after fork)", idxOK))
	}
}

func nameOf(v ssa.Value) string {
	if v == nil {
		return "<nil>"
	}
	return v.Name()
}

// c10LoopHelper: when fn itself credits no delegate inside a loop, the one same-package
// function it calls that does (other than the equal distribution of the leftover).
func c10LoopHelper(fn *ssa.Function, dpReward *types.Var) (*ssa.Function, *ssa.Call) {
	inLoop := func(f *ssa.Function) bool {
		for _, c := range CreditsOf(f, dpReward) {
			if len(core.LoopsContaining(f, c.W.Instr.Block())) > 0 {
				return true
			}
		}
		return false
	}
	if inLoop(fn) {
		return nil, nil
	}
	var hf *ssa.Function
	var hc *ssa.Call
	n := 0
	for _, cs := range core.CallsIn(fn, false, nil) {
		call, ok := cs.Instr.(*ssa.Call)
		if !ok {
			continue
		}
		h := core.StaticCallee(call.Common())
		if h == nil || h.Pkg != fn.Pkg || h.Blocks == nil || strings.HasSuffix(h.Name(), "equallyDistributeRewards") {
			continue
		}
		if inLoop(h) {
			hf, hc = h, call
			n++
		}
	}
	if n != 1 {
		return nil, nil
	}
	return hf, hc
}
