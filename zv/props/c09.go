package props

import (
	"fmt"
	"go/token"
	"go/types"
	"sort"

	"golang.org/x/tools/go/ssa"

	"zv/core"
)

func init() { register("C09", "other", c09) }

const pkgSPEnum = "0chain.net/smartcontract/stakepool/spenum"

// ledgerTypes: objects of these types live in the state trie and carry token amounts.
var ledgerTypes = map[string]bool{
	pkgStorage + ".challengePool":     true,
	pkgStorage + ".readPool":          true,
	pkgStorage + ".stakePool":         true,
	pkgStorage + ".StorageAllocation": true,
	pkgStorage + ".StorageNode":       true,
	pkgSP + ".StakePool":              true,
}

func isLedgerObj(v ssa.Value) bool {
	switch v.(type) {
	case *ssa.Call, *ssa.Extract:
	default:
		return false
	}
	t := v.Type()
	if isPtrToNamedIn(t, ledgerTypes) {
		return true
	}
	return false
}

// C09 Contract pool liabilities never grow without backing.
func c09(r *core.Report, p *core.Prog, thorough bool) {
	r.Explain = "Decided (persist discipline of the storage contract's ledger objects): an object of a ledger type (challenge pool, read pool, stake pool, allocation, blobber) that a function obtains from the state and changes — directly, through a view (mustBase / mustUpdateBase) or through a callee that changes its argument — is written back (InsertTrieNode, a must-saving callee, or deletion) on every success path after the change, unless it is handed back to the caller. A pool debited or credited in memory but not saved leaves the stored liabilities inconsistent with the tokens moved. Not decided: amounts."
	r.Rule("C09.persist", "every ledger object obtained and changed in a storage-contract function is saved on every success path after the change")
	w := buildPersistWorld(p, []string{pkgStorage, pkgSP})
	nF, nO, nM := 0, 0, 0
	for _, fn := range w.fns {
		if fn.Pkg.Pkg.Path() != pkgStorage || !takesStateCtx(fn) {
			continue // REST handlers and pure helpers work on read-only copies
		}
		fs, no, nm := w.check(fn, isLedgerObj)
		if no == 0 {
			continue
		}
		nF++
		nO += no
		nM += nm
		sort.Slice(fs, func(i, j int) bool { return pDescribe(fs[i].obj) < pDescribe(fs[j].obj) })
		bad := map[string]bool{}
		for _, f := range fs {
			key := fmt.Sprintf("%s:%s", fn.String(), pDescribe(f.obj))
			if bad[key] {
				continue
			}
			bad[key] = true
			r.Fail("C09.persist", key, posOf(p, f.mut.in), fmt.Sprintf("changed (%s) and then a success exit is reachable without saving it: %s", f.mut.why, f.path))
		}
		if len(fs) == 0 {
			r.Pass("C09.persist", fn.String(), p.Pos(fn.Pos()), fmt.Sprintf("%d object(s), %d change(s), all saved on every success path", no, nm))
		}
	}
	r.Info["c09_functions_with_tracked_objects"] = nF
	r.Info["c09_objects"] = nO
	r.Info["c09_changes"] = nM
	r.Floor("C09.persist", "storage-contract functions that obtain and change a ledger object", nF, 20)
	c09Deposits(r, p)
	c09ExactDebits(r, p)
	c09RewardBacked(r, p)
}

// ---------------------------------------------------------------------------------
// C09.deposit: a credit to a user-funded pool is backed by a debit or a deposit
// ---------------------------------------------------------------------------------

func c09Deposits(r *core.Report, p *core.Prog) {
	r.Rule("C09.deposit", "every credit to a read pool balance or to an allocation's write pool is (a) the other half of a move that debits another ledger field by the same value in the same function, or (b) the amount returned by Transfer.transfer (the tokens actually sent to the contract), or (c) an amount for which a transfer of that very amount into the contract lies on every path to the credit; parameters are followed to the callers")
	fields := []struct{ typ, f string }{{"readPool", "Balance"}, {"storageAllocationBase", "WritePool"}}
	var fns []*ssa.Function
	for _, f := range p.FuncsIn(pkgStorage) {
		if !isTooling(p, f) && f.Blocks != nil {
			fns = append(fns, f)
		}
	}
	ix := BuildCallIndex(p)
	n := 0
	for _, fd := range fields {
		fld := p.Field(pkgStorage, fd.typ, fd.f)
		if fld == nil {
			r.Unresolved("C09.deposit", fd.typ+"."+fd.f)
			continue
		}
		for _, fn := range fns {
			for _, cr := range CreditsOf(fn, fld) {
				n++
				ok, why := c09Backed(p, ix, fn, cr.W.Instr, cr.Added, 0)
				r.Check(ok, "C09.deposit", fmt.Sprintf("credit:%s.%s in %s", fd.typ, fd.f, fn.String()), posOf(p, cr.W.Instr), why)
			}
		}
	}
	r.Floor("C09.deposit", "credits to read-pool balance / write pool", n, 4)
}

// c09Backed decides how the credited amount `amt` (credited at instruction at, in fn) is backed.
func c09Backed(p *core.Prog, ix *CallIndex, fn *ssa.Function, at ssa.Instruction, amt ssa.Value, depth int) (bool, string) {
	amt = canonObj(amt)
	// (a) mover: the function debits another Coin field by the same value
	for _, b := range fn.Blocks {
		for _, in := range b.Instrs {
			st, ok := in.(*ssa.Store)
			if !ok || ssa.Instruction(st) == at {
				continue
			}
			fa, ok := st.Addr.(*ssa.FieldAddr)
			if !ok || !isCoin(derefType(fa.Type())) {
				continue
			}
			if c, idx := core.CallOf(st.Val); c != nil && idx == 0 && core.CalleeName(c.Common()) == pkgCurr+".MinusCoin" && canonObj(c.Call.Args[1]) == amt {
				return true, "moved: " + describe(fa) + " is debited by the same value in this function"
			}
			if bo, ok := st.Val.(*ssa.BinOp); ok && bo.Op.String() == "-" && canonObj(bo.Y) == amt {
				return true, "moved: " + describe(fa) + " is debited by the same value in this function"
			}
		}
	}
	// (b) the amount actually transferred
	if c, idx := core.CallOf(amt); c != nil && idx == 0 && core.CalleeName(c.Common()) == "(*"+pkgStorage+".Transfer).transfer" {
		return true, "deposited: the amount is what Transfer.transfer sent to the contract"
	}
	// (c) a transfer of the same amount on every path to the credit
	var deposits []ssa.Instruction
	for _, t := range TransferSites([]*ssa.Function{fn}) {
		if t.Resolved && (canonObj(t.Amount) == amt || samePath(t.Amount, amt)) {
			deposits = append(deposits, t.Site.Instr)
		}
	}
	if len(deposits) > 0 {
		isD := map[ssa.Instruction]bool{}
		for _, d := range deposits {
			isD[d] = true
		}
		path, _, found := core.PathQuery{Fn: fn, Barrier: func(in ssa.Instruction) bool { return isD[in] }, EdgeOK: core.FeasibleEdge,
			Target: func(in ssa.Instruction) bool { return in == at }}.Find()
		if !found {
			return true, "deposited: a transfer of the same amount precedes the credit on every path"
		}
		return false, "the credit is reachable without the deposit of the same amount: " + p.PathString(path)
	}
	// parameter: follow to the callers
	if prm := core.ParamOf(amt); prm != nil && depth < 3 {
		idx := -1
		for i, q := range fn.Params {
			if q == prm {
				idx = i
			}
		}
		cs := ix.CallersOf(fn)
		if idx >= 0 && len(cs) > 0 {
			for _, c := range cs {
				if isTooling(p, c.Instr.Parent()) {
					continue
				}
				args := c.Common().Args
				if idx >= len(args) {
					return false, "caller passes fewer arguments"
				}
				if ok, why := c09Backed(p, ix, c.Instr.Parent(), c.Instr, args[idx], depth+1); !ok {
					return false, "via " + c.Instr.Parent().String() + ": " + why
				}
			}
			return true, "every caller backs the amount it passes"
		}
	}
	return false, "the credited amount " + describe(amt) + " is neither moved from another ledger field nor deposited"
}

// ---------------------------------------------------------------------------------
// C09.exact-debit: what was credited in a loop is debited in full
// ---------------------------------------------------------------------------------

// c09ExactDebits: where a function accumulates the amounts it has just credited (a
// loop accumulator built with AddCoin) and then debits a ledger field by the total, the
// debited value must be that accumulator itself: a clamp (min with the available
// balance) between the credits and the debit leaves credits without a matching debit.
func c09ExactDebits(r *core.Report, p *core.Prog) {
	r.Rule("C09.exact-debit", "a ledger debit by an accumulated total debits exactly the accumulator (every alternative value merged into the debited amount is 0 or the checked sum itself)")
	n := 0
	for _, fn := range p.FuncsIn(pkgStorage) {
		if isTooling(p, fn) || fn.Blocks == nil {
			continue
		}
		for _, b := range fn.Blocks {
			for _, in := range b.Instrs {
				st, ok := in.(*ssa.Store)
				if !ok {
					continue
				}
				fa, ok := st.Addr.(*ssa.FieldAddr)
				if !ok || !isCoin(derefType(fa.Type())) {
					continue
				}
				c, idx := core.CallOf(st.Val)
				if c == nil || idx != 0 || core.CalleeName(c.Common()) != pkgCurr+".MinusCoin" {
					continue
				}
				ph, ok := canonObj(c.Call.Args[1]).(*ssa.Phi)
				if !ok {
					continue
				}
				// is it an accumulator (some edge is AddCoin(<phi chain>, x)#0)?
				isAcc := false
				var bad ssa.Value
				seen := map[ssa.Value]bool{}
				var walk func(v ssa.Value, d int)
				walk = func(v ssa.Value, d int) {
					if seen[v] || d > 4 {
						return
					}
					seen[v] = true
					switch x := v.(type) {
					case *ssa.Phi:
						for _, e := range x.Edges {
							walk(e, d+1)
						}
					case *ssa.Const:
					case *ssa.Extract:
						if ac, ok := x.Tuple.(*ssa.Call); ok && core.CalleeName(ac.Common()) == pkgCurr+".AddCoin" && x.Index == 0 {
							isAcc = true
							walk(ac.Call.Args[0], d+1)
							return
						}
						bad = v
					default:
						bad = v
					}
				}
				walk(ph, 0)
				if !isAcc {
					continue
				}
				n++
				r.Check(bad == nil, "C09.exact-debit", "debit:"+fn.String()+":"+describe(fa), posOf(p, st), "the total debited is the accumulated sum of what was credited; an alternative value "+func() string {
					if bad != nil {
						return describe(bad) + " is merged into it (a clamp after the credits were made)"
					}
					return "— none"
				}())
			}
		}
	}
	r.Floor("C09.exact-debit", "ledger debits by an accumulated total", n, 1)
}

// ---------------------------------------------------------------------------------
// C09.reward-backed: a reward credited to a stake pool is debited somewhere
// ---------------------------------------------------------------------------------

// coinTerms: the values summed into v through currency.AddCoin / phis.
func coinTerms(v ssa.Value, seen map[ssa.Value]bool, out *[]ssa.Value) {
	if seen[v] || len(seen) > 64 {
		return
	}
	seen[v] = true
	switch x := v.(type) {
	case *ssa.Phi:
		for _, e := range x.Edges {
			coinTerms(e, seen, out)
		}
		return
	case *ssa.Extract:
		if c, ok := x.Tuple.(*ssa.Call); ok && x.Index == 0 && core.CalleeName(c.Common()) == pkgCurr+".AddCoin" {
			coinTerms(c.Call.Args[0], seen, out)
			coinTerms(c.Call.Args[1], seen, out)
			return
		}
	case *ssa.BinOp:
		if x.Op == token.ADD {
			coinTerms(x.X, seen, out)
			coinTerms(x.Y, seen, out)
			return
		}
	case *ssa.Convert:
		coinTerms(x.X, seen, out)
		return
	case *ssa.UnOp:
		// a local spilled to a cell
		if al, ok := x.X.(*ssa.Alloc); ok && x.Op == token.MUL {
			for _, sv := range core.StoresTo(al) {
				coinTerms(sv, seen, out)
			}
			return
		}
	}
	*out = append(*out, v)
}

func c09RewardBacked(r *core.Report, p *core.Prog) {
	r.Rule("C09.reward-backed", "the amount handed to DistributeRewards in the storage contract is (a) the amount by which the same function debits a ledger field, (b) a term of the Coin the function returns on every success exit after the call (the caller debits what is returned), or (c) a DistributeCoin share / remainder unit of such an amount; block rewards (minted) are exempt by reward type")
	n := 0
	for _, fn := range p.FuncsIn(pkgStorage) {
		if isTooling(p, fn) || fn.Blocks == nil {
			continue
		}
		var calls []*ssa.Call
		for _, b := range fn.Blocks {
			for _, in := range b.Instrs {
				if c, ok := in.(*ssa.Call); ok && core.MethodName(c.Common()) == "DistributeRewards" && len(c.Call.Args) >= 5 {
					calls = append(calls, c)
				}
			}
		}
		if len(calls) == 0 {
			continue
		}
		// debits of Coin fields in this function
		var debited []ssa.Value
		for _, b := range fn.Blocks {
			for _, in := range b.Instrs {
				st, ok := in.(*ssa.Store)
				if !ok {
					continue
				}
				fa, ok := st.Addr.(*ssa.FieldAddr)
				if !ok || !isCoin(derefType(fa.Type())) {
					continue
				}
				if c, idx := core.CallOf(st.Val); c != nil && idx == 0 && core.CalleeName(c.Common()) == pkgCurr+".MinusCoin" {
					debited = append(debited, c.Call.Args[1])
				}
				if bo, ok := st.Val.(*ssa.BinOp); ok && bo.Op == token.SUB {
					debited = append(debited, bo.Y)
				}
			}
		}
		backed := func(v ssa.Value, at *ssa.Call) (bool, string) {
			for _, d := range debited {
				if d == v || exprEqual(d, v, 0) {
					return true, "debited in the same function"
				}
			}
			// (b) returned
			res := fn.Signature.Results()
			if res.Len() >= 1 && isCoin(res.At(0).Type()) {
				all, some := true, false
				for _, ret := range core.SuccessExits(fn) {
					if ret.Block() == fn.Recover || !core.Reaches(at, ret) {
						continue
					}
					some = true
					var terms []ssa.Value
					coinTerms(core.ResultValue(ret, 0), map[ssa.Value]bool{}, &terms)
					has := false
					for _, t := range terms {
						if t == v || exprEqual(t, v, 0) {
							has = true
						}
					}
					if !has {
						all = false
					}
				}
				if some && all {
					if ok, where := c09ReturnDebited(p, fn, 0); !ok {
						return false, "returned, but a caller drops the returned amount without debiting anything: " + where
					}
					return true, "a term of the returned amount on every success exit, which every caller debits"
				}
			}
			return false, ""
		}
		for i, c := range calls {
			n++
			key := fmt.Sprintf("%s:reward#%d", fn.String(), i+1)
			// reward type: block rewards are minted
			if len(c.Call.Args) >= 5 {
				if k, ok := c.Call.Args[4].(*ssa.Const); ok && k.Value != nil {
					if obj := p.Object(pkgSPEnum, "BlockRewardBlobber"); obj != nil {
						if cst, isC := obj.(*types.Const); isC && cst.Val().ExactString() == k.Value.ExactString() {
							r.Pass("C09.reward-backed", key, p.Pos(c.Pos()), "block reward: accrued by minting, covered by the property's block-reward allowance")
							continue
						}
					}
				}
			}
			v := c.Call.Args[1]
			if ok, how := backed(v, c); ok {
				r.Pass("C09.reward-backed", key, p.Pos(c.Pos()), how)
				continue
			}
			// (c) a share of a backed total, or the remainder unit next to such a share
			okShare := false
			how := ""
			if ex, isEx := v.(*ssa.Extract); isEx && ex.Index == 0 {
				if dc, isC := ex.Tuple.(*ssa.Call); isC && core.CalleeName(dc.Common()) == pkgCurr+".DistributeCoin" {
					if ok, h := backed(dc.Call.Args[0], c); ok {
						okShare, how = true, "equal share of an amount "+h
					}
				}
			}
			if k, isK := core.ConstInt(v); isK && k == 1 {
				// remainder units: bounded by the remainder of a DistributeCoin of a backed amount
				for _, b := range fn.Blocks {
					for _, in := range b.Instrs {
						dc, isC := in.(*ssa.Call)
						if !isC || core.CalleeName(dc.Common()) != pkgCurr+".DistributeCoin" {
							continue
						}
						if ok, h := backed(dc.Call.Args[0], c); ok && dc.Block().Dominates(c.Block()) {
							okShare, how = true, "remainder unit of a DistributeCoin of an amount "+h
						}
					}
				}
			}
			if !okShare && how == "" {
				_, how = backed(v, c)
			}
			r.Check(okShare, "C09.reward-backed", key, p.Pos(c.Pos()), "the credited reward has a matching debit: "+how)
		}
	}
	r.Floor("C09.reward-backed", "DistributeRewards calls in the storage contract", n, 8)
}

// c09ReturnDebited: every call site of fn lets the returned Coin reach a debit (MinusCoin
// / subtraction stored to a Coin field, a storage-contract callee that takes it, or its
// own Coin result, followed to its callers).
func c09ReturnDebited(p *core.Prog, fn *ssa.Function, depth int) (bool, string) {
	if depth > 3 {
		return false, "call chain too deep"
	}
	nSites := 0
	for _, caller := range p.FuncsIn(pkgStorage) {
		if isTooling(p, caller) {
			continue
		}
		for _, f := range withClosures(caller) {
			for _, c := range findCallsTo(f, fn) {
				nSites++
				var start []ssa.Value
				if fn.Signature.Results().Len() == 1 {
					start = append(start, c)
				} else {
					for _, ref := range *c.Referrers() {
						if ex, ok := ref.(*ssa.Extract); ok && ex.Index == 0 {
							start = append(start, ex)
						}
					}
				}
				consumed := false
				seen := map[ssa.Value]bool{}
				work := start
				for len(work) > 0 && !consumed {
					v := work[len(work)-1]
					work = work[:len(work)-1]
					if seen[v] {
						continue
					}
					seen[v] = true
					refs := v.Referrers()
					if refs == nil {
						continue
					}
					for _, ref := range *refs {
						switch x := ref.(type) {
						case *ssa.Phi:
							work = append(work, x)
						case *ssa.Convert:
							work = append(work, x)
						case *ssa.Extract:
							work = append(work, x)
						case *ssa.BinOp:
							if x.Op == token.SUB && x.Y == v {
								consumed = true
							}
							if x.Op == token.ADD {
								work = append(work, x)
							}
						case *ssa.Store:
							if al, ok := x.Addr.(*ssa.Alloc); ok && x.Val == v {
								for _, r2 := range *al.Referrers() {
									if ld, ok := r2.(*ssa.UnOp); ok && ld.Op == token.MUL {
										work = append(work, ld)
									}
								}
							}
						case *ssa.Call:
							name := core.CalleeName(x.Common())
							switch {
							case name == pkgCurr+".AddCoin":
								work = append(work, x)
							case name == pkgCurr+".MinusCoin" && len(x.Call.Args) == 2 && x.Call.Args[1] == v:
								consumed = true
							default:
								if cal := x.Common().StaticCallee(); cal != nil && cal.Pkg != nil && cal.Pkg.Pkg.Path() == pkgStorage && core.MethodName(x.Common()) != "DistributeRewards" {
									consumed = true
								}
							}
						case *ssa.Return:
							if ok, _ := c09ReturnDebited(p, f, depth+1); ok {
								consumed = true
							}
						}
					}
				}
				if !consumed {
					return false, caller.String() + " at " + p.Pos(c.Pos())
				}
			}
		}
	}
	if nSites == 0 {
		return false, "no caller found"
	}
	return true, ""
}
