package props

import (
	"fmt"
	"go/constant"
	"go/token"
	"go/types"
	"strings"

	"golang.org/x/tools/go/ssa"

	"zv/core"
)

func init() { register("C40", "other", c40) }

// C40 Magic-block lookup returns the block in force for a round.
//
// Decided: the representation invariant of roundStartingStorage (`rounds` strictly
// ascending, keys(items) == set(rounds), max >= every stored round) by induction over
// its methods, and that Get/FindRoundIndex are floor searches on that representation;
// that the chain's lookups apply the view-change offset before the search and fall back
// to the latest entry.  The loops are recognised semantically (scan.go), not by text.
func c40(r *core.Report, p *core.Prog, thorough bool) {
	r.Explain = "Decided (representation invariant of roundStartingStorage — rounds strictly ascending, keys(items) = set(rounds), max >= every stored round — by induction over its methods, plus the lookups built on it): the three fields are touched only by the type's own methods (locking of those fields is C44's guard table); Put always stores items[round], raises max exactly under round > max, and inserts round into rounds exactly when the key was absent before the store, at the position after the greatest smaller element; Prune removes from items every element of rounds up to and including the pruned one and keeps exactly the suffix after it; Get looks up items at the greatest stored round <= the query (-1/absent => nil), FindRoundIndex yields that element's index, and the only shortcut (max / last index) is taken under query > max; GetLatest is items[max]; mbRoundOffset (chain and miner copies) is rn below ViewChangeOffset+1 and rn-ViewChangeOffset otherwise; GetMagicBlock/GetPrevMagicBlock search with the offset round and GetMagicBlock falls back to GetLatest on nil. Scans are recognised by meaning (direction, operator, which outcome leaves, what is recorded), so several equivalent loop forms are accepted; a different algorithm (e.g. sort.Search) is reported undecided until the recogniser knows it. Not decided: behaviour for negative rounds; GetPrevMagicBlockFromMB (applies the offset twice — recorded as an observation in DESIGN.md)."
	r.Rule("C40.encapsulated", "rounds/items/max of roundStartingStorage are read or written only by its methods and constructor")
	r.Rule("C40.writers", "rounds is assigned only by the constructor (empty), the insertion of Put and the suffix re-slice of Prune; max only by Put")
	r.Rule("C40.put", "Put stores items[round]=entity on every path, sets max=round exactly under round > max, and inserts into rounds exactly when items had no such key before the store")
	r.Rule("C40.insert", "the insertion stores rounds[:k] ++ [round] ++ rounds[k:] with k-1 the greatest index whose element is < round (k=0 when none)")
	r.Rule("C40.floor", "Get's key and FindRoundIndex's result are the greatest element/index of rounds that is <= the query, -1 when none; a shortcut returns max / len-1 only under query > max")
	r.Rule("C40.get", "Get returns items[floor] and nil when the floor is -1 or absent; GetLatest returns items[max]")
	r.Rule("C40.prune", "Prune finds the index of the pruned round, deletes from items every element of rounds up to and including it, and stores rounds[idx+1:]; it fails without change when the round is not stored")
	r.Rule("C40.offset", "mbRoundOffset returns rn when rn < ViewChangeOffset+1 and rn-ViewChangeOffset otherwise (both copies)")
	r.Rule("C40.lookup", "GetMagicBlock and GetPrevMagicBlock pass mbRoundOffset(round) to the storage search; GetMagicBlock replaces a nil result by GetLatest before using it")

	T := "roundStartingStorage"
	rounds := p.Field(pkgRound, T, "rounds")
	items := p.Field(pkgRound, T, "items")
	max := p.Field(pkgRound, T, "max")
	if rounds == nil || items == nil || max == nil {
		r.Unresolved("C40.encapsulated", "roundStartingStorage fields")
		return
	}
	meth := func(n string) *ssa.Function { return p.Func("(*" + pkgRound + "." + T + ")." + n) }
	put, get, prune, fri, latest := meth("Put"), meth("Get"), meth("Prune"), meth("FindRoundIndex"), meth("GetLatest")
	if put == nil || get == nil || prune == nil || fri == nil || latest == nil {
		r.Unresolved("C40.put", "Put/Get/Prune/FindRoundIndex/GetLatest")
		return
	}
	isOwn := func(fn *ssa.Function) bool {
		if fn.Pkg == nil || fn.Pkg.Pkg.Path() != pkgRound {
			return false
		}
		if rv := fn.Signature.Recv(); rv != nil {
			return strings.HasSuffix(core.NamedName(rv.Type()), "."+T)
		}
		// constructor: returns the type
		res := fn.Signature.Results()
		return res.Len() == 1 && strings.HasSuffix(core.NamedName(res.At(0).Type()), "."+T)
	}
	// ---- encapsulation
	nUsers := 0
	for _, fn := range p.ModFuncs() {
		uses := ""
		for _, b := range fn.Blocks {
			for _, in := range b.Instrs {
				if fa, ok := in.(*ssa.FieldAddr); ok {
					if f := core.FieldOf(fa); f == rounds || f == items || f == max {
						uses = f.Name()
					}
				}
				if fv, ok := in.(*ssa.Field); ok {
					if f := core.FieldOf(fv); f == rounds || f == items || f == max {
						uses = f.Name()
					}
				}
			}
		}
		if uses == "" {
			continue
		}
		nUsers++
		r.Check(isOwn(core.EnclosingNamed(fn)), "C40.encapsulated", "user:"+fn.String(), p.Pos(fn.Pos()), "touches "+uses)
	}
	r.Floor("C40.encapsulated", "functions touching the representation", nUsers, 8)

	// ---- Put
	rcv := ssa.Value(put.Params[0])
	pEntity, pRound := put.Params[1], put.Params[2]
	var upd *ssa.MapUpdate
	nUpd := 0
	for _, b := range put.Blocks {
		for _, in := range b.Instrs {
			if mu, ok := in.(*ssa.MapUpdate); ok {
				if f, rv := loadOfAnyField(mu.Map); f == items && rv == rcv {
					nUpd++
					upd = mu
				}
			}
		}
	}
	if !r.Check(nUpd == 1 && upd.Key == ssa.Value(pRound) && upd.Value == ssa.Value(pEntity), "C40.put", "Put:stores-entity", p.Pos(put.Pos()), fmt.Sprintf("%d stores into items; the one store is items[round] = entity", nUpd)) {
		return
	}
	okAll, why := MustPass(p, put, upd)
	r.Check(okAll, "C40.put", "Put:stores-on-every-path", p.Pos(upd.Pos()), "items[round] = entity on every path to a return "+why)
	// max
	nMax := 0
	for _, w := range core.FieldWrites(p.ModFuncs(), max) {
		nMax++
		key := "max-write:" + w.Fn.String()
		if w.Kind != "store" {
			r.Fail("C40.writers", key, p.Pos(w.Instr.Pos()), "address of max escapes")
			continue
		}
		if w.Fn != put {
			r.Fail("C40.writers", key, p.Pos(w.Instr.Pos()), "max assigned outside Put")
			continue
		}
		okV := w.Val == ssa.Value(pRound) && w.Addr.X == rcv
		guard := false
		for _, f := range CmpFacts(w.Instr.Block()) {
			if c40Cmp(f, pRound, token.GTR, max, rcv) {
				guard = true
			}
		}
		r.Check(okV && guard, "C40.put", "Put:max-raised-under-greater", p.Pos(w.Instr.Pos()), "max = round under round > max")
		// converse: with round > max the store is not skipped
		if okV && guard {
			st := w.Instr
			path, _, found := core.PathQuery{Fn: put, Barrier: func(in ssa.Instruction) bool { return in == st },
				EdgeOK: func(from *ssa.BasicBlock, i int) bool {
					if !core.FeasibleEdge(from, i) {
						return false
					}
					// prune the edge on which round > max is false
					if ifi, ok := from.Instrs[len(from.Instrs)-1].(*ssa.If); ok {
						c, taken := stripNot(ifi.Cond, i == 0)
						if bo, ok := c.(*ssa.BinOp); ok {
							op := bo.Op
							if !taken {
								op = negate(op)
							}
							if c40Cmp(CmpFact{X: bo.X, Y: bo.Y, Op: op}, pRound, token.LEQ, max, rcv) {
								return false
							}
						}
					}
					return true
				},
				Target: func(in ssa.Instruction) bool { _, ok := in.(*ssa.Return); return ok && in.Block() != put.Recover }}.Find()
			r.Check(!found, "C40.put", "Put:max-raised-whenever-greater", p.Pos(st.Pos()), "no path with round > max skips the store "+p.PathString(path))
		}
	}
	r.Floor("C40.put", "stores to max", nMax, 1)
	// presence test before the store decides the insertion
	var present ssa.Value // the ok of items[round] looked up before the store
	for _, b := range put.Blocks {
		for _, in := range b.Instrs {
			lk, ok := in.(*ssa.Lookup)
			if !ok || !lk.CommaOk || lk.Index != ssa.Value(pRound) {
				continue
			}
			if f, rv := loadOfAnyField(lk.X); f != items || rv != rcv {
				continue
			}
			if !Before(lk, upd) {
				r.Fail("C40.put", "Put:presence-read-before-store", p.Pos(lk.Pos()), "the presence test reads items after the store: the key is always found and never inserted into rounds")
				continue
			}
			for _, ref := range *lk.Referrers() {
				if ex, ok := ref.(*ssa.Extract); ok && ex.Index == 1 {
					present = ex
				}
			}
		}
	}
	if !r.Check(present != nil, "C40.put", "Put:presence-test", p.Pos(put.Pos()), "`_, found := items[round]` read before the store") {
		return
	}
	// ---- insertion: inline in Put or in a helper called with (s, round)
	insFn, insKey, insRecv := put, ssa.Value(pRound), rcv
	var insCall *ssa.Call
	for _, b := range put.Blocks {
		for _, in := range b.Instrs {
			c, ok := in.(*ssa.Call)
			if !ok {
				continue
			}
			cal := c.Common().StaticCallee()
			if cal == nil || !isOwn(cal) || cal.Signature.Recv() == nil {
				continue
			}
			writes := false
			for _, w := range core.FieldWrites([]*ssa.Function{cal}, rounds) {
				_ = w
				writes = true
			}
			if !writes {
				continue
			}
			if insCall != nil {
				r.Fail("C40.put", "Put:single-insertion", p.Pos(c.Pos()), "more than one call that writes rounds")
			}
			insCall = c
		}
	}
	var insStores []*ssa.Store
	if insCall != nil {
		cal := insCall.Common().StaticCallee()
		okArgs := len(insCall.Call.Args) == 2 && insCall.Call.Args[0] == rcv && insCall.Call.Args[1] == ssa.Value(pRound)
		r.Check(okArgs, "C40.put", "Put:insertion-args", p.Pos(insCall.Pos()), cal.Name()+"(s, round)")
		insFn, insKey, insRecv = cal, ssa.Value(cal.Params[1]), ssa.Value(cal.Params[0])
		// helper has this one caller
		n := 0
		for _, caller := range p.ModFuncs() {
			n += len(core.CallsIn(caller, true, func(c *ssa.CallCommon) bool { return c.StaticCallee() == cal }))
		}
		r.Check(n == 1, "C40.writers", "insertion-helper-callers:"+cal.Name(), p.Pos(cal.Pos()), fmt.Sprintf("%d call sites (only Put may insert)", n))
	}
	// where the insertion happens relative to the presence test
	insertAt := func() []ssa.Instruction {
		if insCall != nil {
			return []ssa.Instruction{insCall}
		}
		var out []ssa.Instruction
		for _, s := range insStores {
			out = append(out, s)
		}
		return out
	}
	// rounds writers
	var pruneStore *ssa.Store
	nW := 0
	for _, w := range core.FieldWrites(p.ModFuncs(), rounds) {
		nW++
		key := fmt.Sprintf("rounds-write:%s", w.Fn.String())
		if w.Kind != "store" {
			r.Fail("C40.writers", key, p.Pos(w.Instr.Pos()), "address of rounds escapes")
			continue
		}
		st := w.Instr.(*ssa.Store)
		switch {
		case w.Fn.Signature.Recv() == nil && isOwn(w.Fn):
			_, fresh := w.Addr.X.(*ssa.Alloc)
			empty := false
			switch v := w.Val.(type) {
			case *ssa.MakeSlice:
				l, ok := core.ConstInt(v.Len)
				empty = ok && l == 0
			case *ssa.Slice:
				h, ok := core.ConstInt(v.High)
				empty = ok && h == 0
			case *ssa.Const:
				empty = v.Value == nil
			}
			r.Check(fresh && empty, "C40.writers", key, p.Pos(st.Pos()), "constructor starts with empty rounds on a fresh object")
		case w.Fn == insFn && (w.Fn != prune):
			insStores = append(insStores, st)
		case w.Fn == prune:
			if pruneStore != nil {
				r.Fail("C40.writers", key+":second", p.Pos(st.Pos()), "Prune assigns rounds twice")
			}
			pruneStore = st
		default:
			r.Fail("C40.writers", key, p.Pos(st.Pos()), "rounds assigned outside constructor/Put insertion/Prune")
		}
	}
	r.Floor("C40.writers", "stores to rounds", nW, 3)
	if !r.Check(len(insStores) > 0, "C40.insert", "insertion:stores", p.Pos(insFn.Pos()), fmt.Sprintf("%d stores to rounds in %s", len(insStores), insFn.Name())) {
		return
	}
	// the insertion index
	scans, rest := FindScans(insFn)
	for l, why := range rest {
		r.Fail("C40.insert", fmt.Sprintf("insertion:loop@b%d", l.Header.Index), p.Pos(insFn.Pos()), "loop in the insertion is not a recognised scan: "+why)
	}
	var insScan *Scan
	for _, sc := range scans {
		if sc.Field == rounds && sc.Recv == insRecv {
			if insScan != nil {
				r.Fail("C40.insert", "insertion:one-scan", p.Pos(insFn.Pos()), "two scans of rounds")
			}
			insScan = sc
		}
	}
	if !r.Check(insScan != nil, "C40.insert", "insertion:scan", p.Pos(insFn.Pos()), "a scan of rounds determines the position") {
		return
	}
	// idx value: the value (other than constants) that the stores' bounds are built from
	for i, st := range insStores {
		key := fmt.Sprintf("insertion:store#%d", i+1)
		parts, ok := SeqOf(st.Val, 0)
		if !ok {
			r.Fail("C40.insert", key, p.Pos(st.Pos()), "stored value is not a concatenation of views of rounds and single elements")
			continue
		}
		if hz := seqClobberHazard(st.Val); hz != "" {
			r.Fail("C40.insert", key, p.Pos(st.Pos()), hz)
			continue
		}
		okS, d := c40InsertShape(parts, insScan, insKey, rounds, insRecv, st)
		r.Check(okS, "C40.insert", key, p.Pos(st.Pos()), d)
	}
	// some insertion store on every path through the insertion function
	{
		isIns := func(in ssa.Instruction) bool {
			for _, s := range insStores {
				if in == ssa.Instruction(s) {
					return true
				}
			}
			return false
		}
		start := ssa.Instruction(nil)
		if insFn == put {
			start = nil
		}
		if insFn != put {
			path, _, found := core.PathQuery{Fn: insFn, Start: start, Barrier: isIns, EdgeOK: core.FeasibleEdge,
				Target: func(in ssa.Instruction) bool { _, ok := in.(*ssa.Return); return ok && in.Block() != insFn.Recover }}.Find()
			r.Check(!found, "C40.insert", "insertion:always-inserts", p.Pos(insFn.Pos()), "every path through "+insFn.Name()+" stores the extended slice "+p.PathString(path))
		}
	}
	// insertion exactly when absent
	for _, at := range insertAt() {
		absent := false
		for _, f := range core.FactsAt(at.Block()) {
			c, taken := stripNot(f.Cond, f.Taken)
			if c == present && !taken {
				absent = true
			}
		}
		r.Check(absent, "C40.put", "Put:inserts-only-when-absent", p.Pos(at.Pos()), "the insertion runs under !found (no duplicate in rounds)")
	}
	{
		ins := insertAt()
		isIns := func(in ssa.Instruction) bool {
			for _, s := range ins {
				if in == s {
					return true
				}
			}
			return false
		}
		path, _, found := core.PathQuery{Fn: put, Barrier: isIns,
			EdgeOK: func(from *ssa.BasicBlock, i int) bool {
				if !core.FeasibleEdge(from, i) {
					return false
				}
				if ifi, ok := from.Instrs[len(from.Instrs)-1].(*ssa.If); ok {
					c, taken := stripNot(ifi.Cond, i == 0)
					if c == present && taken {
						return false // found: no insertion needed
					}
				}
				return true
			},
			Target: func(in ssa.Instruction) bool { _, ok := in.(*ssa.Return); return ok && in.Block() != put.Recover }}.Find()
		r.Check(!found, "C40.put", "Put:inserts-whenever-absent", p.Pos(put.Pos()), "no path with !found skips the insertion "+p.PathString(path))
	}

	// ---- floor searches
	c40Floor(r, p, fri, rounds, max, "index")
	// Get: key of the items lookup
	{
		grcv := ssa.Value(get.Params[0])
		var lk *ssa.Lookup
		n := 0
		for _, b := range get.Blocks {
			for _, in := range b.Instrs {
				if l, ok := in.(*ssa.Lookup); ok {
					if f, rv := loadOfAnyField(l.X); f == items && rv == grcv {
						lk = l
						n++
					}
				}
			}
		}
		if r.Check(n == 1, "C40.get", "Get:one-lookup", p.Pos(get.Pos()), fmt.Sprintf("%d lookups in items", n)) {
			key := lk.Index
			var floorFn *ssa.Function
			if c, ok := key.(*ssa.Call); ok {
				cal := c.Common().StaticCallee()
				if cal != nil && isOwn(cal) && len(c.Call.Args) == 2 && c.Call.Args[0] == grcv && c.Call.Args[1] == ssa.Value(get.Params[1]) {
					floorFn = cal
				}
			}
			if r.Check(floorFn != nil, "C40.get", "Get:key-is-floor(round)", p.Pos(lk.Pos()), "items is indexed by helper(s, round)") {
				c40Floor(r, p, floorFn, rounds, max, "elem")
			}
			// returns: the looked-up entity under ok, else nil
			for _, ret := range core.Returns(get) {
				if ret.Block() == get.Recover {
					continue
				}
				v := core.ResultValue(ret, 0)
				k := fmt.Sprintf("Get:return@b%d", ret.Block().Index)
				if c, ok := v.(*ssa.Const); ok && c.Value == nil {
					r.Pass("C40.get", k, p.Pos(ret.Pos()), "nil")
					continue
				}
				okR := false
				if ex, ok := v.(*ssa.Extract); ok && ex.Tuple == ssa.Value(lk) && ex.Index == 0 {
					okR = true
				}
				if v == ssa.Value(lk) && !lk.CommaOk {
					okR = true
				}
				r.Check(okR, "C40.get", k, p.Pos(ret.Pos()), "returns items[floor(round)]")
			}
		}
	}
	// GetLatest
	{
		lrcv := ssa.Value(latest.Params[0])
		n := 0
		for _, ret := range core.Returns(latest) {
			if ret.Block() == latest.Recover {
				continue
			}
			v := core.ResultValue(ret, 0)
			k := fmt.Sprintf("GetLatest:return@b%d", ret.Block().Index)
			if c, ok := v.(*ssa.Const); ok && c.Value == nil {
				// nil only when items is empty
				empty := false
				for _, f := range CmpFacts(ret.Block()) {
					if lc, ok := f.X.(*ssa.Call); ok && core.CalleeName(lc.Common()) == "builtin.len" {
						if fl, _ := loadOfAnyField(lc.Call.Args[0]); fl == items || fl == rounds {
							z, isC := core.ConstInt(f.Y)
							if isC && z == 0 && (f.Op == token.EQL || f.Op == token.LEQ) {
								empty = true
							}
						}
					}
				}
				r.Check(empty, "C40.get", k, p.Pos(ret.Pos()), "nil only when nothing is stored")
				continue
			}
			okL := false
			if lk, ok := v.(*ssa.Lookup); ok {
				if f, rv := loadOfAnyField(lk.X); f == items && rv == lrcv {
					if kf, krv := loadOfAnyField(lk.Index); kf == max && krv == lrcv {
						okL = true
					}
				}
			}
			if okL {
				n++
			}
			r.Check(okL, "C40.get", k, p.Pos(ret.Pos()), "returns items[max]")
		}
		r.Floor("C40.get", "GetLatest returns of items[max]", n, 1)
	}

	// ---- Prune
	c40Prune(r, p, prune, rounds, items, pruneStore)

	// ---- offset and lookups
	c40Offset(r, p)
}

// c40Cmp: fact is `prm op recv.field` (or mirrored).
func c40Cmp(f CmpFact, prm *ssa.Parameter, op token.Token, field *types.Var, recv ssa.Value) bool {
	isF := func(v ssa.Value) bool {
		fl, rv := loadOfAnyField(v)
		return fl == field && rv == recv
	}
	if f.X == ssa.Value(prm) && isF(f.Y) && f.Op == op {
		return true
	}
	if f.Y == ssa.Value(prm) && isF(f.X) && f.Op == mirrorOp(op) {
		return true
	}
	return false
}

// c40IdxPlus1: v is idx+1 for a value idx denoting the scan's "greatest" result.
func c40IdxPlus(v ssa.Value, k int64) ssa.Value {
	bo, ok := v.(*ssa.BinOp)
	if !ok || bo.Op != token.ADD {
		return nil
	}
	if c, isC := core.ConstInt(bo.Y); isC && c == k {
		return bo.X
	}
	if c, isC := core.ConstInt(bo.X); isC && c == k {
		return bo.Y
	}
	return nil
}

// c40InsertShape checks parts == rounds[:k] ++ [key] ++ rounds[k:], k = idx+1.
func c40InsertShape(parts []SeqPart, sc *Scan, key ssa.Value, rounds *types.Var, recv ssa.Value, st *ssa.Store) (bool, string) {
	// drop empty-by-construction parts? none expected
	var idxVals []ssa.Value
	isKey := func(pt SeqPart) bool { return pt.Single != nil && pt.Single == key }
	isView := func(pt SeqPart) bool { return pt.Field == rounds && pt.Recv == recv }
	meaningOK := func(idx ssa.Value) (bool, string) {
		m, why := sc.Meaning(idx)
		if m == nil {
			return false, "position is not a recognised scan result: " + why
		}
		if sc.Key != key {
			return false, "the scan does not compare with the inserted round"
		}
		if m.Kind != "greatest" || (m.Op != token.LSS && m.Op != token.LEQ) || m.Yields != "index" {
			return false, fmt.Sprintf("position is %s/%s/%s, want the greatest index with element < round", m.Kind, m.Op, m.Yields)
		}
		if n, ok := core.ConstInt(m.None); !ok || n != -1 {
			return false, "position when no element is smaller is not -1"
		}
		return true, ""
	}
	switch {
	case len(parts) == 3 && isView(parts[0]) && isKey(parts[1]) && isView(parts[2]):
		if parts[0].Lo != nil {
			if z, ok := core.ConstInt(parts[0].Lo); !ok || z != 0 {
				return false, "prefix does not start at 0"
			}
		}
		if parts[2].Hi != nil {
			return false, "suffix does not run to the end"
		}
		if parts[0].Hi == nil || parts[2].Lo == nil {
			return false, "prefix/suffix bound missing"
		}
		a, b := c40IdxPlus(parts[0].Hi, 1), c40IdxPlus(parts[2].Lo, 1)
		if a == nil || b == nil || a != b {
			return false, "prefix end and suffix start are not the same idx+1"
		}
		idxVals = append(idxVals, a)
	case len(parts) == 2 && isKey(parts[0]) && isView(parts[1]):
		// [round] ++ rounds: only where idx == -1
		if parts[1].Lo != nil || parts[1].Hi != nil {
			if !(parts[1].Hi == nil && parts[1].Lo != nil && func() bool { z, ok := core.ConstInt(parts[1].Lo); return ok && z == 0 }()) {
				return false, "front insertion does not keep the whole slice"
			}
		}
		var idx ssa.Value
		for _, f := range CmpFacts(st.Block()) {
			if c, ok := core.ConstInt(f.Y); ok && c == -1 && f.Op == token.EQL {
				idx = f.X
			}
			if c, ok := core.ConstInt(f.Y); ok && c == 0 && f.Op == token.LSS {
				idx = f.X
			}
		}
		if idx == nil {
			return false, "front insertion is not guarded by idx == -1"
		}
		idxVals = append(idxVals, idx)
	case len(parts) == 2 && isView(parts[0]) && isKey(parts[1]):
		// rounds ++ [round]: only valid where idx == len-1; not accepted (would need a length fact)
		return false, "append at the end without a position: not accepted"
	default:
		return false, fmt.Sprintf("stored value has %d parts, want rounds[:k] ++ [round] ++ rounds[k:]", len(parts))
	}
	for _, idx := range idxVals {
		if ok, why := meaningOK(idx); !ok {
			return false, why
		}
	}
	return true, "rounds[:idx+1] ++ [round] ++ rounds[idx+1:], idx = greatest index with element < round (scan recognised by meaning)"
}

// c40Floor: fn(s, round) returns the floor of round in rounds.
func c40Floor(r *core.Report, p *core.Prog, fn *ssa.Function, rounds, max *types.Var, yields string) {
	name := fn.Name()
	recv := ssa.Value(fn.Params[0])
	q := fn.Params[1]
	scans, rest := FindScans(fn)
	for l, why := range rest {
		r.Fail("C40.floor", fmt.Sprintf("%s:loop@b%d", name, l.Header.Index), p.Pos(fn.Pos()), "loop is not a recognised scan: "+why)
	}
	var sc *Scan
	for _, s := range scans {
		if s.Field == rounds && s.Recv == recv {
			sc = s
		}
	}
	if !r.Check(sc != nil && len(scans) == 1, "C40.floor", name+":scan", p.Pos(fn.Pos()), "one scan of rounds") {
		return
	}
	ends := sc.EndsAt()
	isShort := func(v ssa.Value) bool {
		if yields == "elem" {
			f, rv := loadOfAnyField(v)
			return f == max && rv == recv
		}
		return c40LenMinus1(v, rounds, recv)
	}
	checkShort := func(k string, v ssa.Value, at *ssa.BasicBlock, pos token.Pos) {
		if !isShort(v) {
			r.Fail("C40.floor", k, p.Pos(pos), "a value that is neither the scan's result nor the last entry is returned")
			return
		}
		okG := false
		for _, f := range CmpFacts(at) {
			if c40Cmp(f, q, token.GTR, max, recv) || c40Cmp(f, q, token.GEQ, max, recv) {
				okG = true
			}
		}
		r.Check(okG, "C40.floor", k+":shortcut", p.Pos(pos), "the last entry is returned directly only under round > max (max >= every stored round)")
	}
	for _, ret := range core.Returns(fn) {
		if ret.Block() == fn.Recover {
			continue
		}
		v := core.ResultValue(ret, 0)
		k := fmt.Sprintf("%s:return@b%d", name, ret.Block().Index)
		if !ends[ret.Block()] {
			checkShort(k, v, ret.Block(), ret.Pos())
			continue
		}
		if sc.Loop.Header.Dominates(ret.Block()) {
			continue
		}
		// the return is shared with paths that bypass the scan
		ph, ok := v.(*ssa.Phi)
		if !ok || ph.Block() != ret.Block() {
			r.Fail("C40.floor", k, p.Pos(ret.Pos()), "a return shared with a path that bypasses the scan yields the same value on both")
			continue
		}
		for j, pr := range ret.Block().Preds {
			if sc.Loop.Header.Dominates(pr) {
				continue
			}
			checkShort(fmt.Sprintf("%s/edge-b%d", k, pr.Index), ph.Edges[j], pr, ret.Pos())
		}
	}
	m, why := sc.MeaningOf(ObserveResult(0))
	if m == nil {
		r.Fail("C40.floor", name+":result", p.Pos(fn.Pos()), "the result is not a recognised scan outcome: "+why)
		return
	}
	okM := sc.Key == ssa.Value(q) && m.Kind == "greatest" && m.Op == token.LEQ && m.Yields == yields
	none, isC := core.ConstInt(m.None)
	okM = okM && isC && none == -1
	r.Check(okM, "C40.floor", name+":result", p.Pos(fn.Pos()), fmt.Sprintf("greatest %s of rounds with element <= round, -1 when none (got kind=%s op=%s yields=%s)", yields, m.Kind, m.Op, m.Yields))
}

func c40LenMinus1(v ssa.Value, rounds *types.Var, recv ssa.Value) bool {
	bo, ok := v.(*ssa.BinOp)
	if !ok || bo.Op != token.SUB {
		return false
	}
	if c, isC := core.ConstInt(bo.Y); !isC || c != 1 {
		return false
	}
	lc, ok := bo.X.(*ssa.Call)
	if !ok || core.CalleeName(lc.Common()) != "builtin.len" {
		return false
	}
	f, rv := loadOfAnyField(lc.Call.Args[0])
	return f == rounds && rv == recv
}

func c40Prune(r *core.Report, p *core.Prog, prune *ssa.Function, rounds, items *types.Var, store *ssa.Store) {
	recv := ssa.Value(prune.Params[0])
	q := prune.Params[1]
	if !r.Check(store != nil, "C40.prune", "Prune:re-slice", p.Pos(prune.Pos()), "Prune stores the kept suffix") {
		return
	}
	scans, rest := FindScans(prune)
	var sc *Scan
	for _, s := range scans {
		if s.Field == rounds && s.Recv == recv {
			if sc != nil {
				r.Fail("C40.prune", "Prune:one-scan", p.Pos(prune.Pos()), "two scans of rounds")
			}
			sc = s
		}
	}
	if !r.Check(sc != nil, "C40.prune", "Prune:scan", p.Pos(prune.Pos()), "a scan of rounds locates the pruned round") {
		for l, why := range rest {
			r.Fail("C40.prune", fmt.Sprintf("Prune:loop@b%d", l.Header.Index), p.Pos(prune.Pos()), "not a recognised scan: "+why)
		}
		return
	}
	// stored value: rounds[idx+1:]
	sl, ok := store.Val.(*ssa.Slice)
	okS := ok && sl.High == nil && sl.Max == nil && sl.Low != nil
	var idx ssa.Value
	if okS {
		f, rv := loadOfAnyField(sl.X)
		okS = f == rounds && rv == recv
		idx = c40IdxPlus(sl.Low, 1)
		okS = okS && idx != nil
	}
	if !r.Check(okS, "C40.prune", "Prune:keeps-suffix", p.Pos(store.Pos()), "rounds = rounds[idx+1:]") {
		return
	}
	m, why := sc.Meaning(idx)
	okM := m != nil && sc.Key == ssa.Value(q) && m.Kind == "equal" && m.Yields == "index"
	if m == nil {
		r.Fail("C40.prune", "Prune:index-of-round", p.Pos(store.Pos()), "idx is not a recognised scan result: "+why)
		return
	}
	none, isC := core.ConstInt(m.None)
	okM = okM && isC && none < 0
	r.Check(okM, "C40.prune", "Prune:index-of-round", p.Pos(store.Pos()), "idx is the index of the element equal to the pruned round")
	// not found => error return before any change
	notFoundGuard := false
	for _, f := range CmpFacts(store.Block()) {
		if f.X == idx {
			if c, ok := core.ConstInt(f.Y); ok && ((c == -1 && f.Op == token.NEQ) || (c == 0 && f.Op == token.GEQ) || (c == -1 && f.Op == token.GTR)) {
				notFoundGuard = true
			}
		}
	}
	r.Check(notFoundGuard, "C40.prune", "Prune:found-before-change", p.Pos(store.Pos()), "the re-slice runs only with idx != -1")
	// deletes
	var dels []*ssa.Call
	for _, b := range prune.Blocks {
		for _, in := range b.Instrs {
			if c, ok := in.(*ssa.Call); ok && core.CalleeName(c.Common()) == "builtin.delete" {
				if f, rv := loadOfAnyField(c.Call.Args[0]); f == items && rv == recv {
					dels = append(dels, c)
				}
			}
		}
	}
	if !r.Check(len(dels) == 1, "C40.prune", "Prune:one-delete-site", p.Pos(prune.Pos()), fmt.Sprintf("%d delete(items, …) sites", len(dels))) {
		return
	}
	del := dels[0]
	// the delete runs once per element of a collection holding rounds[0..idx]
	okD, d := c40DeletesPrefix(prune, sc, del, idx, rounds, recv)
	r.Check(okD, "C40.prune", "Prune:deletes-exactly-the-prefix", p.Pos(del.Pos()), d)
	// the delete loop precedes the re-slice on every path (it reads rounds or its copy) and is not skippable
	okB, why2 := c40LoopBefore(p, prune, del, store)
	r.Check(okB, "C40.prune", "Prune:deletes-before-re-slice", p.Pos(del.Pos()), "the delete loop is crossed before the re-slice "+why2)
}

// c40DeletesPrefix: del is `delete(items, e)` inside a complete loop over either
// (A) a slice collected by the scan (appended on every visit, before the test), or
// (B) rounds itself with index bound <= idx.
func c40DeletesPrefix(fn *ssa.Function, sc *Scan, del *ssa.Call, idx ssa.Value, rounds *types.Var, recv ssa.Value) (bool, string) {
	e := del.Call.Args[1]
	ld, ok := e.(*ssa.UnOp)
	if !ok || ld.Op != token.MUL {
		return false, "deleted key is not an element load"
	}
	ia, ok := ld.X.(*ssa.IndexAddr)
	if !ok {
		return false, "deleted key is not a slice element"
	}
	// enclosing loop of the delete
	var loop *core.Loop
	for _, l := range core.Loops(fn) {
		if l.Body[del.Block()] && l != sc.Loop {
			loop = l
		}
	}
	if loop == nil {
		return false, "delete is not in a loop of its own"
	}
	h := loop.Header
	ifi, ok := h.Instrs[len(h.Instrs)-1].(*ssa.If)
	if !ok {
		return false, "delete loop has no bound"
	}
	bo, ok := ifi.Cond.(*ssa.BinOp)
	if !ok {
		return false, "delete loop bound is not a comparison"
	}
	// index visits 0..bound-1 (range lowering: phi from -1, idx'=phi+1, idx' < n) or (3-clause: phi from 0, i < n, i+1)
	fullFromZero := func() (ssa.Value, ssa.Value, bool) { // index value used in body, bound
		if !c24IsRangeIndex(bo.X, loop) {
			return nil, nil, false
		}
		if bo.Op != token.LSS && bo.Op != token.LEQ {
			return nil, nil, false
		}
		return bo.X, bo.Y, true
	}
	iv, bound, okR := fullFromZero()
	if !okR || ia.Index != iv {
		return false, "delete loop is not a complete index loop from 0"
	}
	if ph, isPhi := iv.(*ssa.Phi); isPhi {
		for j, pr := range h.Preds {
			if !loop.Body[pr] {
				continue
			}
			if c40IdxPlus(ph.Edges[j], 1) != ssa.Value(ph) {
				return false, "delete loop index does not advance by one"
			}
		}
	}
	// straight-line body: the delete runs on every iteration
	if !loop.Body[del.Block()] || !del.Block().Dominates(lastBackEdge(loop)) {
		return false, "delete does not run on every iteration"
	}
	// (B) directly over rounds with bound idx
	if f, rv := loadOfAnyField(ia.X); f == rounds && rv == recv {
		switch {
		case bo.Op == token.LEQ && bound == idx:
			return true, "for i := 0; i <= idx; i++ { delete(items, rounds[i]) }"
		case bo.Op == token.LSS && c40IdxPlus(bound, 1) == idx:
			return true, "for i := 0; i < idx+1; i++ { delete(items, rounds[i]) }"
		}
		return false, "delete loop over rounds is not bounded by idx"
	}
	// (A) over a collected slice: bound = len(C)
	lc, ok := bound.(*ssa.Call)
	if !ok || bo.Op != token.LSS || core.CalleeName(lc.Common()) != "builtin.len" || lc.Call.Args[0] != ia.X {
		return false, "delete loop does not cover the whole collection"
	}
	coll := ia.X
	hitW, _ := sc.way(sc.hit)
	if hitW.Continues {
		return false, "the scan does not stop at the pruned round: the collection would hold later rounds too"
	}
	at := hitW.resolve(coll)
	ap, ok := at.(*ssa.Call)
	if !ok || core.CalleeName(ap.Common()) != "builtin.append" || !sc.Loop.Body[ap.Block()] {
		return false, "the collection at the hit is not the scan's own append"
	}
	// appended before the test, on every visit
	if !(ap.Block().Dominates(sc.Test.Block()) && instrBefore(ap, sc.Test)) {
		return false, "the element is collected after the test: the pruned round itself would be kept in items"
	}
	els, ok := arrayLiteral(ap.Call.Args[1])
	if !ok || len(els) != 1 || !sc.IsElem(els[0]) {
		return false, "what is collected is not the visited element"
	}
	cph, ok := ap.Call.Args[0].(*ssa.Phi)
	if !ok || cph.Block() != sc.Loop.Header {
		return false, "the collection is not carried through the scan"
	}
	for j, pr := range sc.Loop.Header.Preds {
		ev := cph.Edges[j]
		if sc.Loop.Body[pr] {
			if ev != ssa.Value(ap) {
				return false, "the collection is reset inside the scan"
			}
			continue
		}
		empty := false
		switch x := ev.(type) {
		case *ssa.Slice:
			hgh, ok := core.ConstInt(x.High)
			empty = ok && hgh == 0
		case *ssa.MakeSlice:
			l, ok := core.ConstInt(x.Len)
			empty = ok && l == 0
		case *ssa.Const:
			empty = x.Value == nil
		}
		if !empty {
			return false, "the collection does not start empty"
		}
	}
	return true, "every element visited up to and including the pruned one is collected (before the test) and each collected key is deleted"
}

func lastBackEdge(l *core.Loop) *ssa.BasicBlock {
	for _, pr := range l.Header.Preds {
		if l.Body[pr] {
			return pr
		}
	}
	return l.Header
}

// c40LoopBefore: every path from entry to `store` crosses the header of the loop that
// contains del, and the store is outside that loop.
func c40LoopBefore(p *core.Prog, fn *ssa.Function, del *ssa.Call, store *ssa.Store) (bool, string) {
	var loop *core.Loop
	for _, l := range core.Loops(fn) {
		if l.Body[del.Block()] {
			loop = l
		}
	}
	if loop == nil || loop.Body[store.Block()] {
		return false, "(store inside the delete loop)"
	}
	if !loop.Header.Dominates(store.Block()) {
		return false, "(the delete loop can be bypassed)"
	}
	return true, ""
}

// ---- offset and chain lookups

func c40Offset(r *core.Report, p *core.Prog) {
	off := int64(-1)
	if o, ok := p.Object(pkgChain, "ViewChangeOffset").(*types.Const); ok {
		if v, exact := constant.Int64Val(o.Val()); exact {
			off = v
		}
	}
	if off < 0 {
		r.Unresolved("C40.offset", "chain.ViewChangeOffset")
		return
	}
	n := 0
	for _, name := range []string{pkgChain + ".mbRoundOffset", pkgMiner + ".mbRoundOffset"} {
		fn := p.Func(name)
		if fn == nil {
			continue
		}
		n++
		prm := fn.Params[0]
		okAll := true
		detail := ""
		nId, nSub := 0, 0
		for _, ret := range core.Returns(fn) {
			v := core.ResultValue(ret, 0)
			switch {
			case v == ssa.Value(prm):
				nId++
				// under rn < off+1 (or rn <= off)
				g := false
				for _, f := range CmpFacts(ret.Block()) {
					if f.X != ssa.Value(prm) {
						continue
					}
					c, isC := core.ConstInt(f.Y)
					if isC && ((f.Op == token.LSS && c == off+1) || (f.Op == token.LEQ && c == off)) {
						g = true
					}
				}
				if !g {
					okAll, detail = false, "identity returned outside rn < ViewChangeOffset+1"
				}
			default:
				bo, ok := v.(*ssa.BinOp)
				c := int64(0)
				isC := false
				if ok {
					c, isC = core.ConstInt(bo.Y)
				}
				if !ok || bo.Op != token.SUB || bo.X != ssa.Value(prm) || !isC || c != off {
					okAll, detail = false, "a return is neither rn nor rn - ViewChangeOffset"
					continue
				}
				nSub++
				g := false
				for _, f := range CmpFacts(ret.Block()) {
					if f.X != ssa.Value(prm) {
						continue
					}
					c, isC := core.ConstInt(f.Y)
					if isC && ((f.Op == token.GEQ && c == off+1) || (f.Op == token.GTR && c == off)) {
						g = true
					}
				}
				if !g {
					okAll, detail = false, "offset subtracted outside rn >= ViewChangeOffset+1"
				}
			}
		}
		r.Check(okAll && nId >= 1 && nSub >= 1, "C40.offset", "offset:"+name, p.Pos(fn.Pos()), fmt.Sprintf("rn below %d, rn-%d from there on %s", off+1, off, detail))
	}
	r.Floor("C40.offset", "mbRoundOffset copies", n, 2)
	// lookups
	offFn := p.Func(pkgChain + ".mbRoundOffset")
	isOffsetOf := func(v ssa.Value, prm *ssa.Parameter) bool {
		c, ok := v.(*ssa.Call)
		return ok && offFn != nil && c.Common().StaticCallee() == offFn && c.Call.Args[0] == ssa.Value(prm)
	}
	storageCall := func(fn *ssa.Function, method string) []*ssa.Call {
		var out []*ssa.Call
		for _, b := range fn.Blocks {
			for _, in := range b.Instrs {
				c, ok := in.(*ssa.Call)
				if !ok || !c.Common().IsInvoke() || c.Common().Method.Name() != method {
					continue
				}
				if f, _ := loadOfAnyField(c.Common().Value); f != nil && f.Name() == "MagicBlockStorage" {
					out = append(out, c)
				}
			}
		}
		return out
	}
	if gmb := p.Func("(*" + pkgChain + ".Chain).GetMagicBlock"); gmb != nil {
		gets := storageCall(gmb, "Get")
		if r.Check(len(gets) == 1, "C40.lookup", "GetMagicBlock:one-search", p.Pos(gmb.Pos()), fmt.Sprintf("%d Get calls on the storage", len(gets))) {
			g := gets[0]
			r.Check(isOffsetOf(g.Call.Args[0], gmb.Params[1]), "C40.lookup", "GetMagicBlock:offset-applied", p.Pos(g.Pos()), "Get(mbRoundOffset(round))")
			// the value used: typeassert operand is Get's result under non-nil, or GetLatest's result
			n := 0
			for _, b := range gmb.Blocks {
				for _, in := range b.Instrs {
					ta, ok := in.(*ssa.TypeAssert)
					if !ok {
						continue
					}
					n++
					okU, d := c40FallbackValue(ta.X, ta.Block(), g, storageCall(gmb, "GetLatest"), 0)
					r.Check(okU, "C40.lookup", fmt.Sprintf("GetMagicBlock:result#%d", n), p.Pos(ta.Pos()), d)
				}
			}
			r.Floor("C40.lookup", "GetMagicBlock result uses", n, 1)
			for _, ret := range core.Returns(gmb) {
				if ret.Block() == gmb.Recover {
					continue
				}
				_, isTA := core.ResultValue(ret, 0).(*ssa.TypeAssert)
				r.Check(isTA, "C40.lookup", fmt.Sprintf("GetMagicBlock:return@b%d", ret.Block().Index), p.Pos(ret.Pos()), "every return yields a stored magic block (the search result or the latest entry)")
			}
		}
	} else {
		r.Unresolved("C40.lookup", "Chain.GetMagicBlock")
	}
	if gp := p.Func("(*" + pkgChain + ".Chain).GetPrevMagicBlock"); gp != nil {
		fr := storageCall(gp, "FindRoundIndex")
		if r.Check(len(fr) == 1, "C40.lookup", "GetPrevMagicBlock:one-search", p.Pos(gp.Pos()), fmt.Sprintf("%d FindRoundIndex calls", len(fr))) {
			r.Check(isOffsetOf(fr[0].Call.Args[0], gp.Params[1]), "C40.lookup", "GetPrevMagicBlock:offset-applied", p.Pos(fr[0].Pos()), "FindRoundIndex(mbRoundOffset(r))")
		}
	} else {
		r.Unresolved("C40.lookup", "Chain.GetPrevMagicBlock")
	}
}

// c40FallbackValue: v is the search result where it is known non-nil, the latest entry,
// or a phi of the two whose search edge comes from the non-nil side.
func c40FallbackValue(v ssa.Value, at *ssa.BasicBlock, search *ssa.Call, latest []*ssa.Call, depth int) (bool, string) {
	if depth > 3 {
		return false, "value too deep"
	}
	for _, l := range latest {
		if v == ssa.Value(l) {
			// the latest entry stands in only where the search was made and found nothing
			if core.KnownNil(core.FactsAt(at), search) == 1 {
				return true, "latest entry, the search having returned nil"
			}
			return false, "the latest entry is used on a path where the search did not come back empty (a round before a later block's start would get the later block)"
		}
	}
	if v == ssa.Value(search) {
		if core.KnownNil(core.FactsAt(at), v) == -1 {
			return true, "search result, known non-nil"
		}
		return false, "search result used where it may be nil (no fallback to the latest entry)"
	}
	if ph, ok := v.(*ssa.Phi); ok {
		for j, e := range ph.Edges {
			if okE, d := c40FallbackValue(e, ph.Block().Preds[j], search, latest, depth+1); !okE {
				// the edge itself may carry the fact (edge from the If block)
				pred := ph.Block().Preds[j]
				okEdge := false
				if e == ssa.Value(search) {
					if ifi, ok := pred.Instrs[len(pred.Instrs)-1].(*ssa.If); ok {
						for si, s := range pred.Succs {
							if s != ph.Block() {
								continue
							}
							c, taken := stripNot(ifi.Cond, si == 0)
							if bo, ok := c.(*ssa.BinOp); ok && ((bo.X == e && core.IsNilConst(bo.Y)) || (bo.Y == e && core.IsNilConst(bo.X))) {
								if (bo.Op == token.NEQ && taken) || (bo.Op == token.EQL && !taken) {
									okEdge = true
								}
							}
						}
					}
				}
				if !okEdge {
					return false, d
				}
			}
		}
		return true, "search result where non-nil, else the latest entry"
	}
	return false, "result is neither the search result nor the latest entry"
}
