package props

import (
	"fmt"
	"go/token"
	"go/types"
	"sort"
	"strings"

	"golang.org/x/tools/go/ssa"

	"zv/core"
)

func init() { register("C12", "other", c12) }

// C12 An allocation's challenge pool equals its blobbers' outstanding values.
func c12(r *core.Report, p *core.Prog, thorough bool) {
	r.Explain = "The equality of sums is numeric and is not decided. Decided — each a necessary condition for the stored pool and the stored per-blobber values to agree: (persist) a challenge pool or allocation that a storage-contract function obtains and changes is written back on every success path; (movers) a function that debits a pool balance by an amount parameter performs that debit on every success path, except when the amount itself is zero or there is no recipient — so a caller that has already reduced the per-blobber value by the amount is never left with an undebited pool; (snapshots) an amount read from a ledger field before a call that rewrites that field of the same object is not used afterwards to move tokens; (ownership) ChallengePoolIntegralValue and the pool balance are written only by storage-contract state code; (close) the challenge pool is deleted only after its whole balance was moved to the write pool, on every path."
	r.Rule("C12.persist", "a challengePool / StorageAllocation obtained and changed in a storage-contract function is saved (or deleted) on every success path after the change")
	r.Rule("C12.mover", "a function that debits a pool's Balance by its amount parameter does so on every success path; exits that skip the debit are dominated by amount == 0 or by an empty recipient list")
	r.Rule("C12.snapshot", "a value loaded from a ledger field is not used to move tokens after a call that rewrites that field of the same object")
	r.Rule("C12.writers", "BlobberAllocation.ChallengePoolIntegralValue and the challenge pool balance are stored only in storage-contract functions that take the state context (or helpers reached only from them)")
	r.Rule("C12.close", "finishAllocation deletes the challenge pool only after an error-checked move of the pool's entire balance to the write pool on every path")

	w := buildPersistWorld(p, []string{pkgStorage, pkgSP})
	// ---- persist (challenge pool and allocation)
	c12Types := map[string]bool{pkgStorage + ".challengePool": true, pkgStorage + ".StorageAllocation": true}
	nF := 0
	for _, fn := range w.fns {
		if fn.Pkg.Pkg.Path() != pkgStorage || !takesStateCtx(fn) {
			continue
		}
		fs, no, nm := w.check(fn, func(v ssa.Value) bool {
			switch v.(type) {
			case *ssa.Call, *ssa.Extract:
				return isPtrToNamedIn(v.Type(), c12Types)
			}
			return false
		})
		if no == 0 {
			continue
		}
		nF++
		seen := map[string]bool{}
		for _, f := range fs {
			key := fmt.Sprintf("%s:%s", fn.String(), pDescribe(f.obj))
			if seen[key] {
				continue
			}
			seen[key] = true
			r.Fail("C12.persist", key, posOf(p, f.mut.in), fmt.Sprintf("changed (%s) and then a success exit is reachable without saving it: %s", f.mut.why, f.path))
		}
		if len(fs) == 0 {
			r.Pass("C12.persist", fn.String(), p.Pos(fn.Pos()), fmt.Sprintf("%d object(s), %d change(s), saved on every success path", no, nm))
		}
	}
	r.Floor("C12.persist", "functions that obtain and change a challenge pool or an allocation", nF, 10)

	c12Movers(r, p)
	c12Snapshots(r, p, w)
	c12Writers(r, p)
	c12Close(r, p)
	c12Bookkeeping(r, p)
	c12Removal(r, p)
}

// balanceDebit: st stores <X>.Balance = <X>.Balance - A (raw or MinusCoin) with A a Coin
// parameter of the function; returns A.
func balanceDebit(fn *ssa.Function, st *ssa.Store) *ssa.Parameter {
	fa, ok := st.Addr.(*ssa.FieldAddr)
	if !ok || core.FieldOf(fa) == nil || core.FieldOf(fa).Name() != "Balance" || !isCoin(derefType(fa.Type())) {
		return nil
	}
	var sub ssa.Value
	if c, idx := core.CallOf(st.Val); c != nil && idx == 0 && core.CalleeName(c.Common()) == pkgCurr+".MinusCoin" {
		sub = c.Call.Args[1]
	} else if bo, ok := st.Val.(*ssa.BinOp); ok && bo.Op == token.SUB {
		sub = bo.Y
	} else {
		// currentBalance-value computed earlier and stored through a local
		if ph, ok := st.Val.(*ssa.Phi); ok {
			for _, e := range ph.Edges {
				if bo, ok := e.(*ssa.BinOp); ok && bo.Op == token.SUB {
					sub = bo.Y
				}
			}
		}
	}
	if sub == nil {
		return nil
	}
	prm := core.ParamOf(canonObj(sub))
	if prm == nil || !isCoin(prm.Type()) {
		return nil
	}
	return prm
}

func c12Movers(r *core.Report, p *core.Prog) {
	n := 0
	for _, fn := range p.FuncsIn(pkgStorage) {
		if isTooling(p, fn) || fn.Blocks == nil {
			continue
		}
		var debit *ssa.Store
		var amt *ssa.Parameter
		for _, b := range fn.Blocks {
			for _, in := range b.Instrs {
				if st, ok := in.(*ssa.Store); ok {
					if a := balanceDebit(fn, st); a != nil {
						debit, amt = st, a
					}
				}
			}
		}
		if debit == nil {
			continue
		}
		n++
		ok := true
		why := ""
		for _, ret := range core.SuccessExits(fn) {
			if ret.Block() == fn.Recover {
				continue
			}
			_, _, found := core.PathQuery{Fn: fn, Barrier: func(in ssa.Instruction) bool { return in == ssa.Instruction(debit) }, EdgeOK: core.FeasibleEdge,
				Target: func(in ssa.Instruction) bool { return in == ssa.Instruction(ret) }}.Find()
			if !found {
				continue
			}
			// the exit skips the debit: allowed only under amount == 0 or an empty list parameter
			excused := false
			for _, f := range CmpFacts(ret.Block()) {
				if k, isK := core.ConstInt(f.Y); isK && k == 0 && f.Op == token.EQL {
					if f.X == ssa.Value(amt) {
						excused = true
					}
					if lc, ok := f.X.(*ssa.Call); ok && core.CalleeName(lc.Common()) == "builtin.len" && core.ParamOf(lc.Call.Args[0]) != nil {
						excused = true
					}
				}
			}
			// `if a || b { return }` merges two tests: accept when every predecessor edge is excused
			if !excused {
				excused = c12ExitExcused(ret.Block(), amt)
			}
			if !excused {
				ok = false
				why = "success exit at " + p.Pos(ret.Pos()) + " skips the debit and is not conditioned on the amount parameter being zero or a recipient list being empty"
			}
		}
		r.Check(ok, "C12.mover", "mover:"+fn.String(), p.Pos(fn.Pos()), "debits Balance by parameter "+amt.Name()+"; "+why)
	}
	r.Floor("C12.mover", "functions that debit a pool balance by an amount parameter", n, 3)
}

// c12ExitExcused: every edge into the exit block comes from a test that establishes
// amount == 0 or len(param) == 0 (short-circuit `a || b` forms).
func c12ExitExcused(b *ssa.BasicBlock, amt *ssa.Parameter) bool {
	if len(b.Preds) == 0 {
		return false
	}
	for _, pr := range b.Preds {
		ifi, ok := pr.Instrs[len(pr.Instrs)-1].(*ssa.If)
		if !ok {
			return false
		}
		taken := pr.Succs[0] == b
		okEdge := false
		for _, f := range edgeCmp(ifi, taken) {
			if k, isK := core.ConstInt(f.Y); isK && k == 0 && f.Op == token.EQL {
				if f.X == ssa.Value(amt) {
					okEdge = true
				}
				if lc, ok := f.X.(*ssa.Call); ok && core.CalleeName(lc.Common()) == "builtin.len" && core.ParamOf(lc.Call.Args[0]) != nil {
					okEdge = true
				}
			}
		}
		if !okEdge {
			return false
		}
	}
	return true
}

// c12Snapshots: stale reads of ledger fields.
func c12Snapshots(r *core.Report, p *core.Prog, w *pWorld) {
	n, nBad := 0, 0
	for _, fn := range w.fns {
		if fn.Pkg.Pkg.Path() != pkgStorage {
			continue
		}
		muts, _ := w.events(fn)
		for _, b := range fn.Blocks {
			for _, in := range b.Instrs {
				ld, ok := in.(*ssa.UnOp)
				if !ok || ld.Op != token.MUL || !isCoin(ld.Type()) {
					continue
				}
				fa, ok := ld.X.(*ssa.FieldAddr)
				if !ok || core.FieldOf(fa) == nil {
					continue
				}
				fname := core.FieldOf(fa).Name()
				roots := w.pRoots(fa.X, fn, 0)
				if len(roots) == 0 {
					continue
				}
				// calls after the load that rewrite this field of the same object
				for _, m := range muts {
					c, isCall := m.in.(*ssa.Call)
					if !isCall || !core.Reaches(ld, c) || core.Reaches(c, ld) && !c.Block().Dominates(ld.Block()) && false {
						continue
					}
					if core.Reaches(c, ld) && inCycle(ld.Block()) && inCycle(c.Block()) {
						continue // same loop, different iteration: the load is re-executed
					}
					hit := false
					for _, fl := range m.fields {
						if fl == fname {
							hit = true
						}
					}
					if !hit {
						continue
					}
					same := false
					for _, o := range m.objs {
						if hasRoot(roots, o) {
							same = true
						}
					}
					// the field may live in an element of a collection of the object (BlobberAllocs[i])
					if !same {
						continue
					}
					n++
					// uses of the loaded value after the call that move tokens: arguments of
					// first-party calls that change their arguments, or stores to Coin fields
					if u := c12MovingUseAfter(w, ld, c); u != nil {
						nBad++
						r.Fail("C12.snapshot", fmt.Sprintf("%s:%s-read-before-%s", fn.String(), fname, shortCallee(c)), posOf(p, u), fmt.Sprintf("%s was read at %s, then %s rewrites that field of the same object, and the old value is used afterwards to move tokens", fname, p.Pos(ld.Pos()), shortCallee(c)))
					}
				}
			}
		}
	}
	r.Info["c12_field_loads_followed_by_a_rewriting_call"] = n
	if nBad == 0 {
		r.Pass("C12.snapshot", "no-stale-ledger-snapshot", "", fmt.Sprintf("%d loads of a ledger field are followed by a call that rewrites the field; none of the old values is used to move tokens afterwards", n))
	}
}

// c12MovingUseAfter: a use of v (through arithmetic/phis) after call c as an argument of a
// first-party call that changes one of its arguments, or as the value stored to a Coin field.
func c12MovingUseAfter(w *pWorld, v ssa.Value, c *ssa.Call) ssa.Instruction {
	seen := map[ssa.Value]bool{}
	var found ssa.Instruction
	var walk func(x ssa.Value, d int)
	walk = func(x ssa.Value, d int) {
		if seen[x] || d > 4 || found != nil || x.Referrers() == nil {
			return
		}
		seen[x] = true
		for _, ref := range *x.Referrers() {
			switch u := ref.(type) {
			case *ssa.BinOp:
				walk(u, d+1)
			case *ssa.Phi:
				walk(u, d+1)
			case *ssa.Convert:
				walk(u, d+1)
			case *ssa.Call:
				if !core.Reaches(c, u) || u == c {
					continue
				}
				cal := core.StaticCallee(u.Common())
				if cal != nil && (core.CalleeName(u.Common()) == pkgCurr+".AddCoin" || core.CalleeName(u.Common()) == pkgCurr+".MinusCoin") {
					walk(u, d+1)
					for _, r2 := range *u.Referrers() {
						if e, ok := r2.(*ssa.Extract); ok {
							walk(e, d+1)
						}
					}
					continue
				}
				if cal != nil && w.inSet[cal] {
					any := false
					for j := range u.Call.Args {
						if w.mut[cal][j] {
							any = true
						}
					}
					if any {
						found = u
					}
				}
			case *ssa.Store:
				if u.Val == x && core.Reaches(c, u) {
					if fa, ok := u.Addr.(*ssa.FieldAddr); ok && isCoin(derefType(fa.Type())) {
						found = u
					}
				}
			}
		}
	}
	walk(v, 0)
	return found
}

func c12Writers(r *core.Report, p *core.Prog) {
	fld := p.Field(pkgStorage, "BlobberAllocation", "ChallengePoolIntegralValue")
	if fld == nil {
		r.Unresolved("C12.writers", "BlobberAllocation.ChallengePoolIntegralValue")
		return
	}
	ix := BuildCallIndex(p)
	var stateFn func(fn *ssa.Function, depth int, seen map[*ssa.Function]bool) bool
	stateFn = func(fn *ssa.Function, depth int, seen map[*ssa.Function]bool) bool {
		fn = core.EnclosingNamed(fn)
		if takesStateCtx(fn) {
			return true
		}
		if depth > 4 || seen[fn] {
			return false
		}
		seen[fn] = true
		cs := ix.CallersOf(fn)
		if len(cs) == 0 {
			return false
		}
		for _, c := range cs {
			if isTooling(p, c.Instr.Parent()) {
				continue
			}
			if !stateFn(c.Instr.Parent(), depth+1, seen) {
				return false
			}
		}
		return true
	}
	names := map[string]bool{}
	n := 0
	for _, wr := range core.FieldWrites(p.ModFuncs(), fld) {
		fn := core.EnclosingNamed(wr.Fn)
		if isTooling(p, fn) || isGenerated(p, fn) {
			continue
		}
		if wr.Kind == "store" && isFreshStore(wr) {
			continue
		}
		n++
		key := fn.String()
		if names[key] {
			continue
		}
		names[key] = true
		okW := fn.Pkg != nil && fn.Pkg.Pkg.Path() == pkgStorage && stateFn(fn, 0, map[*ssa.Function]bool{}) && !strings.Contains(fn.String(), "RestHandler")
		r.Check(okW, "C12.writers", "ChallengePoolIntegralValue-writer:"+key, posOf(p, wr.Instr), "the per-blobber outstanding value is changed only by state-transition code of the storage contract")
	}
	var ks []string
	for k := range names {
		ks = append(ks, k)
	}
	sort.Strings(ks)
	r.Info["c12_integral_value_writers"] = ks
	r.Floor("C12.writers", "stores to ChallengePoolIntegralValue", n, 4)
}

func c12Close(r *core.Report, p *core.Prog) {
	recv := "(*" + pkgStorage + ".StorageSmartContract)."
	fin := p.Func(recv + "finishAllocation")
	del := p.Func(recv + "deleteChallengePool")
	mv := p.Func("(*" + pkgStorage + ".storageAllocationBase).moveFromChallengePool")
	if fin == nil || del == nil || mv == nil {
		r.Unresolved("C12.close", "finishAllocation / deleteChallengePool / moveFromChallengePool")
		return
	}
	// who deletes challenge pools
	n := 0
	for _, fn := range p.ModFuncs() {
		if isTooling(p, fn) {
			continue
		}
		for _, c := range findCallsTo(fn, del) {
			n++
			if fn != fin {
				r.Fail("C12.close", "deleteChallengePool-caller:"+fn.String(), p.Pos(c.Pos()), "a challenge pool is deleted outside finishAllocation")
				continue
			}
			emptied := EstablishedBefore(c, func(m *ssa.Call) bool {
				if m.Common().StaticCallee() != mv {
					return false
				}
				// moveFromChallengePool(cp, cp.Balance): the whole balance of the pool passed
				cp, val := m.Call.Args[1], m.Call.Args[2]
				rt, pth := core.BaseObject(val)
				return strings.HasSuffix(pth, ".Balance") && (rt == cp || canonObj(rt) == canonObj(cp))
			}, 2)
			r.Check(emptied != nil, "C12.close", fmt.Sprintf("finishAllocation:pool-emptied-before-delete#%d", n), p.Pos(c.Pos()), "on every path to the deletion an error-checked step has moved the pool's entire balance to the write pool (directly or in a helper all of whose success exits do)")
		}
	}
	r.Floor("C12.close", "deleteChallengePool call sites", n, 1)
}

// exprEqual: structural equality of two SSA expressions (same value, or the same
// operator tree over loads of the same access paths / equal constants).
func exprEqual(a, b ssa.Value, d int) bool {
	if a == b || core.SameValue(a, b) {
		return true
	}
	if d > 4 {
		return false
	}
	switch x := a.(type) {
	case *ssa.BinOp:
		y, ok := b.(*ssa.BinOp)
		return ok && x.Op == y.Op && ((exprEqual(x.X, y.X, d+1) && exprEqual(x.Y, y.Y, d+1)) || (x.Op == token.ADD && exprEqual(x.X, y.Y, d+1) && exprEqual(x.Y, y.X, d+1)))
	case *ssa.Const:
		y, ok := b.(*ssa.Const)
		return ok && x.Value != nil && y.Value != nil && x.Value.ExactString() == y.Value.ExactString()
	case *ssa.UnOp:
		y, ok := b.(*ssa.UnOp)
		if !ok || x.Op != y.Op {
			return false
		}
		if x.Op == token.MUL {
			ra, pa := core.BaseObject(x)
			rb, pb := core.BaseObject(y)
			return pa == pb && pa != "" && (ra == rb || canonObj(ra) == canonObj(rb))
		}
		return exprEqual(x.X, y.X, d+1)
	case *ssa.Convert:
		y, ok := b.(*ssa.Convert)
		return ok && exprEqual(x.X, y.X, d+1)
	}
	return false
}

// c12Bookkeeping: MovedBack / MovedToChallenge record exactly what the movers move.
func c12Bookkeeping(r *core.Report, p *core.Prog) {
	r.Rule("C12.bookkeeping", "in a function that both calls moveFromChallengePool(cp, v) and adds to MovedBack (resp. moveToChallengePool / MovedToChallenge), the amount added is the amount moved")
	pairs := []struct{ mover, field string }{{"moveFromChallengePool", "MovedBack"}, {"moveToChallengePool", "MovedToChallenge"}}
	n := 0
	for _, pr := range pairs {
		mv := p.Func("(*" + pkgStorage + ".storageAllocationBase)." + pr.mover)
		fld := p.Field(pkgStorage, "storageAllocationBase", pr.field)
		if mv == nil || fld == nil {
			r.Unresolved("C12.bookkeeping", pr.mover+"/"+pr.field)
			continue
		}
		for _, fn := range p.FuncsIn(pkgStorage) {
			if isTooling(p, fn) || fn.Blocks == nil {
				continue
			}
			calls := findCallsTo(fn, mv)
			credits := CreditsOf(fn, fld)
			if len(calls) == 0 || len(credits) == 0 {
				continue
			}
			for i, cr := range credits {
				n++
				ok := false
				for _, c := range calls {
					if exprEqual(cr.Added, c.Call.Args[2], 0) {
						ok = true
					}
				}
				r.Check(ok, "C12.bookkeeping", fmt.Sprintf("%s:%s#%d", fn.String(), pr.field, i+1), posOf(p, cr.W.Instr), pr.field+" grows by "+describe(cr.Added)+", which must be the amount handed to "+pr.mover)
			}
		}
	}
	r.Floor("C12.bookkeeping", "MovedBack/MovedToChallenge credits next to a mover call", n, 3)
}

// c12Removal: an entry of alloc.BlobberAllocs is overwritten (the blobber leaves the
// open allocation) only after the challenge pool has been debited for that entry.
func c12Removal(r *core.Report, p *core.Prog) {
	r.Rule("C12.removal", "a store replacing an element of alloc.BlobberAllocs is reached only after the challenge pool was debited for the leaving entry (moveFromChallengePool of its ChallengePoolIntegralValue, or a payment helper given the pool and the entry); exempt: paths under the enterprise flag (enterprise allocations never fund a challenge pool: commit_connection rejects them)")
	mv := p.Func("(*" + pkgStorage + ".storageAllocationBase).moveFromChallengePool")
	if mv == nil {
		r.Unresolved("C12.removal", "moveFromChallengePool")
		return
	}
	isCP := func(t types.Type) bool { return strings.HasSuffix(core.NamedName(t), ".challengePool") }
	n := 0
	for _, fn := range p.ModFuncs() {
		if fn.Pkg == nil || fn.Pkg.Pkg.Path() != pkgStorage || isTooling(p, fn) || !takesStateCtx(fn) {
			continue
		}
		for _, b := range fn.Blocks {
			for _, in := range b.Instrs {
				st, ok := in.(*ssa.Store)
				if !ok {
					continue
				}
				ia, ok := st.Addr.(*ssa.IndexAddr)
				if !ok {
					continue
				}
				rt, pth := core.BaseObject(ia.X)
				if !strings.HasSuffix(pth, ".BlobberAllocs") || core.ParamOf(rt) == nil {
					continue
				}
				n++
				// the leaving entry: loads of BlobberAllocs[idx] with the store's index
				var isEntry func(v ssa.Value) bool
				isEntry = func(v ssa.Value) bool {
					ld, ok := v.(*ssa.UnOp)
					if !ok || ld.Op != token.MUL {
						return false
					}
					if al, isAl := ld.X.(*ssa.Alloc); isAl {
						// the loop variable lives in a cell (captured by a closure)
						sts := core.StoresTo(al)
						if len(sts) == 0 {
							return false
						}
						for _, sv := range sts {
							if !isEntry(sv) {
								return false
							}
						}
						return true
					}
					ia2, ok := ld.X.(*ssa.IndexAddr)
					if !ok || ia2.Index != ia.Index {
						return false
					}
					rt2, pth2 := core.BaseObject(ia2.X)
					return rt2 == rt && pth2 == pth
				}
				debits := map[ssa.Instruction]bool{}
				for _, b2 := range fn.Blocks {
					for _, in2 := range b2.Instrs {
						c, ok := in2.(*ssa.Call)
						if !ok {
							continue
						}
						if c.Common().StaticCallee() == mv && len(c.Call.Args) == 3 {
							if ld, ok := c.Call.Args[2].(*ssa.UnOp); ok && ld.Op == token.MUL {
								if fa, ok := ld.X.(*ssa.FieldAddr); ok && core.FieldOf(fa) != nil && core.FieldOf(fa).Name() == "ChallengePoolIntegralValue" && isEntry(fa.X) {
									debits[c] = true
								}
							}
							continue
						}
						if c.Common().StaticCallee() == nil || c.Common().StaticCallee().Pkg == nil || c.Common().StaticCallee().Pkg.Pkg.Path() != pkgStorage {
							continue
						}
						hasCP, hasEntry := false, false
						for _, a := range c.Call.Args {
							if isCP(a.Type()) {
								hasCP = true
							}
							if isEntry(a) {
								hasEntry = true
							}
						}
						if hasCP && hasEntry {
							debits[c] = true
						}
					}
				}
				flagOK := core.FlagConsistentEdges(st)
				path, _, found := core.PathQuery{Fn: fn, Barrier: func(x ssa.Instruction) bool { return debits[x] },
					EdgeOK: func(from *ssa.BasicBlock, i int) bool {
						if !flagOK(from, i) {
							return false
						}
						if ifi, ok := from.Instrs[len(from.Instrs)-1].(*ssa.If); ok {
							c, taken := stripNot(ifi.Cond, i == 0)
							if prm := core.ParamOf(c); prm != nil && taken && strings.Contains(strings.ToLower(prm.Name()), "enterprise") {
								return false
							}
						}
						return true
					},
					Target: func(x ssa.Instruction) bool { return x == ssa.Instruction(st) }}.Find()
				d := fmt.Sprintf("%d debit sites for the entry", len(debits))
				if found {
					d = "the entry is replaced on a path that leaves its outstanding value in the pool: " + p.PathString(path)
				}
				r.Check(!found, "C12.removal", fmt.Sprintf("%s:replace#%d:pool-debited", fn.String(), n), posOf(p, st), d)
			}
		}
	}
	r.Floor("C12.removal", "stores replacing an element of alloc.BlobberAllocs", n, 1)
}
