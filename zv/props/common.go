package props

import (
	"fmt"
	"go/token"
	"go/types"
	"sort"
	"strings"

	"golang.org/x/tools/go/ssa"

	"zv/core"
)

// ---------------------------------------------------------------------------------
// E0: contract entry-point table, read from the six Execute dispatchers
// ---------------------------------------------------------------------------------

var contractPkgs = []string{"storagesc", "minersc", "zcnsc", "vestingsc", "faucetsc", "multisigsc"}

// Handlers maps "contract:api_name" to the functions the dispatcher calls for it.
type Handlers map[string][]*ssa.Function

var handlersCache Handlers

func takesStateCtx(f *ssa.Function) bool {
	for _, prm := range f.Params {
		if strings.HasSuffix(core.NamedName(prm.Type()), "StateContextI") {
			return true
		}
	}
	return false
}

// BuildHandlers reads the dispatchers. Switch form: `funcName == "x"` → calls in the
// blocks dominated by the true successor. Map form: `m["x"] = recv.method`.
func BuildHandlers(p *core.Prog) Handlers {
	if handlersCache != nil {
		return handlersCache
	}
	h := Handlers{}
	add := func(k string, f *ssa.Function) {
		for _, x := range h[k] {
			if x == f {
				return
			}
		}
		h[k] = append(h[k], f)
	}
	for _, sc := range contractPkgs {
		pkg := "0chain.net/smartcontract/" + sc
		for _, fn := range p.FuncsIn(pkg) {
			// map form
			for _, b := range fn.Blocks {
				for _, in := range b.Instrs {
					mu, ok := in.(*ssa.MapUpdate)
					if !ok {
						continue
					}
					name, ok := core.ConstString(mu.Key)
					if !ok {
						continue
					}
					var target *ssa.Function
					mv := mu.Value
					if ct, ok := mv.(*ssa.ChangeType); ok {
						mv = ct.X
					}
					switch v := mv.(type) {
					case *ssa.MakeClosure:
						target, _ = v.Fn.(*ssa.Function)
						// bound method wrapper: resolve to the method itself
						if target != nil && target.Synthetic != "" && len(v.Bindings) == 1 {
							if m := boundMethod(p, target); m != nil {
								target = m
							}
						}
					case *ssa.Function:
						target = v
					}
					if target == nil || !takesStateCtx(target) {
						continue
					}
					add(sc+":"+name, target)
				}
			}
			if fn.Name() != "Execute" || fn.Signature.Recv() == nil {
				continue
			}
			// switch form, possibly nested in closures of Execute (storagesc default arm)
			var scan func(f *ssa.Function)
			scan = func(f *ssa.Function) {
				for _, b := range f.Blocks {
					for _, in := range b.Instrs {
						bo, ok := in.(*ssa.BinOp)
						if !ok || bo.Op != token.EQL {
							continue
						}
						name, ok := core.ConstString(bo.Y)
						if !ok {
							name, ok = core.ConstString(bo.X)
						}
						if !ok || name == "" {
							continue
						}
						for _, ref := range *bo.Referrers() {
							ifi, ok := ref.(*ssa.If)
							if !ok {
								continue
							}
							ts := ifi.Block().Succs[0]
							for _, b2 := range f.Blocks {
								if !ts.Dominates(b2) || len(ts.Preds) != 1 {
									continue
								}
								for _, in2 := range b2.Instrs {
									ci, ok := in2.(ssa.CallInstruction)
									if !ok {
										continue
									}
									cal := core.StaticCallee(ci.Common())
									if cal == nil || cal.Pkg == nil || cal.Pkg.Pkg.Path() != pkg || !takesStateCtx(cal) {
										continue
									}
									add(sc+":"+name, cal)
								}
							}
						}
					}
				}
				for _, a := range f.AnonFuncs {
					scan(a)
				}
			}
			scan(fn)
		}
	}
	handlersCache = h
	return h
}

// boundMethod resolves the method a `recv.method` bound-method wrapper forwards to.
func boundMethod(p *core.Prog, wrapper *ssa.Function) *ssa.Function {
	if wrapper.Blocks == nil {
		// synthetic wrappers of unbuilt functions: name is "(T).m$bound"
		name := strings.TrimSuffix(wrapper.String(), "$bound")
		return p.Func(name)
	}
	for _, b := range wrapper.Blocks {
		for _, in := range b.Instrs {
			if ci, ok := in.(ssa.CallInstruction); ok {
				if f := core.StaticCallee(ci.Common()); f != nil {
					return f
				}
			}
		}
	}
	return nil
}

// Keys returns sorted handler keys.
func (h Handlers) Keys() []string {
	var ks []string
	for k := range h {
		ks = append(ks, k)
	}
	sort.Strings(ks)
	return ks
}

// One returns the single handler function with the given name suffix, or nil.
func (h Handlers) Get(key string) []*ssa.Function { return h[key] }

// ---------------------------------------------------------------------------------
// Transitive static closure of a set of functions (static callees + closures), within
// first-party code. Interface calls are not followed (use the VTA graph for those).
// ---------------------------------------------------------------------------------

func StaticClosure(roots []*ssa.Function, stop func(*ssa.Function) bool) []*ssa.Function {
	seen := map[*ssa.Function]bool{}
	var out []*ssa.Function
	var walk func(f *ssa.Function)
	walk = func(f *ssa.Function) {
		if f == nil || seen[f] || f.Blocks == nil {
			return
		}
		if stop != nil && stop(f) {
			return
		}
		seen[f] = true
		out = append(out, f)
		for _, a := range f.AnonFuncs {
			walk(a)
		}
		for _, b := range f.Blocks {
			for _, in := range b.Instrs {
				if ci, ok := in.(ssa.CallInstruction); ok {
					if cal := core.StaticCallee(ci.Common()); cal != nil && cal.Pkg != nil && core.IsModule(cal.Pkg.Pkg.Path()) {
						walk(cal)
					}
				}
				// bound methods / function values passed around
				for _, op := range in.Operands(nil) {
					if op == nil || *op == nil {
						continue
					}
					if mc, ok := (*op).(*ssa.MakeClosure); ok {
						if fn, ok := mc.Fn.(*ssa.Function); ok {
							if fn.Synthetic != "" {
								continue
							}
							walk(fn)
						}
					}
				}
			}
		}
	}
	for _, r := range roots {
		walk(r)
	}
	sort.Slice(out, func(i, j int) bool { return out[i].String() < out[j].String() })
	return out
}

// ---------------------------------------------------------------------------------
// E4(a): dropped results of state-writing calls
// ---------------------------------------------------------------------------------

// isStateWrite: callee whose error must never be dropped in consensus code.
func isStateWrite(c *ssa.CallCommon) (string, bool) {
	m := core.MethodName(c)
	switch m {
	case "InsertTrieNode", "DeleteTrieNode", "AddTransfer":
		if isSCtxCall(c, m) {
			return m, true
		}
	}
	n := core.CalleeName(c)
	switch n {
	case pkgCurr + ".AddCoin", pkgCurr + ".MinusCoin", pkgCurr + ".MultCoin", pkgCurr + ".AddInt64", pkgCurr + ".MinusInt64",
		pkgCurr + ".Float64ToCoin", pkgCurr + ".Int64ToCoin", pkgCurr + ".MultFloat64", pkgCurr + ".DivideCoin", pkgCurr + ".DistributeCoin":
		return "currency." + m, true // category "arith": callers filter by prefix
	}
	rt := core.RecvTypeName(c)
	if strings.HasPrefix(rt, "0chain.net/smartcontract/") {
		switch m {
		case "Save", "save", "Add", "Remove", "Update", "UpdateItem", "RemoveItem", "AddItem":
			if sig := c.Signature(); sig != nil && sig.Results().Len() > 0 && core.IsErrorType(sig.Results().At(sig.Results().Len()-1).Type()) {
				if strings.Contains(rt, "/partitions.") || m == "Save" || m == "save" {
					return rt + "." + m, true
				}
			}
		}
	}
	return "", false
}

// DroppedError describes a call whose error result is discarded.
type DroppedError struct {
	Site core.CallSite
	What string
}

// DroppedStateErrors finds calls to state-writing callees whose error result is not
// used at all (bare call, `_ =`, `x, _ :=`, go/defer).
func DroppedStateErrors(fns []*ssa.Function) (dropped []DroppedError, total int) {
	for _, fn := range fns {
		for _, cs := range core.CallsIn(fn, false, nil) {
			what, ok := isStateWrite(cs.Common())
			if !ok {
				continue
			}
			total++
			call, isCall := cs.Instr.(*ssa.Call)
			if !isCall {
				dropped = append(dropped, DroppedError{cs, what + " (go/defer)"})
				continue
			}
			ev := core.ErrResult(call)
			if ev == nil {
				dropped = append(dropped, DroppedError{cs, what})
				continue
			}
			used := false
			for _, ref := range *ev.Referrers() {
				if _, ok := ref.(*ssa.DebugRef); !ok {
					used = true
				}
			}
			if !used {
				dropped = append(dropped, DroppedError{cs, what})
			}
		}
	}
	return
}

// funcKey renders the enclosing named function plus closure suffix.
func funcKey(f *ssa.Function) string { return f.String() }

// posOf returns the best position for an instruction.
func posOf(p *core.Prog, in ssa.Instruction) string {
	if in.Pos().IsValid() {
		return p.Pos(in.Pos())
	}
	if ci, ok := in.(ssa.CallInstruction); ok {
		return p.Pos(ci.Common().Pos())
	}
	// fall back to the first positioned instruction of the block
	for _, x := range in.Block().Instrs {
		if x.Pos().IsValid() {
			return p.Pos(x.Pos())
		}
	}
	return "-"
}

// isCoin reports whether t is currency.Coin.
func isCoin(t types.Type) bool { return core.NamedName(t) == pkgCurr+".Coin" }

func fmtList(xs []string) string { return fmt.Sprintf("%v", xs) }
