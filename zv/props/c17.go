package props

import (
	"fmt"
	"go/token"
	"strings"

	"golang.org/x/tools/go/ssa"

	"zv/core"
)

func init() { register("C17", "other", c17) }

const pkgFaucet = "0chain.net/smartcontract/faucetsc"

// checkedAmounts: the quantities validPourRequest compares with the wallet balance,
// the periodic limit and the global limit, as (parameter index | access path).
type checkedQty struct {
	Param *ssa.Parameter
	Path  string
	Which string
}

// C17 Faucet pours respect the per-client and global limits.
func c17(r *core.Report, p *core.Prog, thorough bool) {
	r.Explain = "Decided: the amount handed to AddTransfer in faucetsc:pour is exactly a quantity that the dominating validPourRequest compared with the wallet balance, the periodic limit (plus the client's used amount) and the global limit (plus the global used amount); the same amount is added to both used counters, which are saved on every success path; the per-client and global windows are reset only by comparisons of (transaction time − window start) with the configured reset periods. Not decided: sums over a window (history)."
	r.Rule("C17.check-use", "every root of the transferred amount is a quantity validPourRequest checked against balance, PeriodicLimit and GlobalLimit; the transfer is dominated by its success")
	r.Rule("C17.limits", "validPourRequest rejects amount > balance, amount+un.Used > PeriodicLimit, amount+gn.Used > GlobalLimit, with checked additions, on the same amount")
	r.Rule("C17.counters", "user.Used and gn.Used are credited (checked) with the transferred amount and both nodes are saved on every success path")
	r.Rule("C17.windows", "un.Used / gn.Used are zeroed only when (txn creation time − StartTime) >= IndividualReset|GlobalReset (or the user node is new)")
	h := BuildHandlers(p)
	ps := h.Get("faucetsc:pour")
	vp := p.Func("(*" + pkgFaucet + ".UserNode).validPourRequest")
	if len(ps) != 1 || vp == nil {
		r.Unresolved("C17.check-use", "faucetsc:pour / validPourRequest")
		return
	}
	pour := ps[0]
	// ---- what validPourRequest checks
	var qty []checkedQty
	qkey := func(v ssa.Value) checkedQty {
		if prm := core.ParamOf(v); prm != nil {
			return checkedQty{Param: prm}
		}
		return checkedQty{Path: describe(v)}
	}
	limits := map[string]ssa.Value{}
	for _, ret := range core.Returns(vp) {
		if core.ClassifyReturn(ret) == core.ExitSuccess {
			continue
		}
		for _, c := range CmpFacts(ret.Block()) {
			if c.Op != token.GTR && c.Op != token.LSS {
				continue
			}
			big, small := c.X, c.Y
			if c.Op == token.LSS {
				big, small = c.Y, c.X
			}
			sd := describe(small)
			for _, lv := range ValueLeaves(small, 1) { // the balance may be read by a helper that returns it
				if strings.Contains(describe(lv), "GetClientBalance") {
					sd = describe(lv)
				}
			}
			switch {
			case strings.Contains(sd, "GetClientBalance"):
				limits["balance"] = big
			case strings.HasSuffix(sd, ".PeriodicLimit"):
				limits["periodic"] = big
			case strings.HasSuffix(sd, ".GlobalLimit"):
				limits["global"] = big
			}
		}
	}
	for _, w := range []string{"balance", "periodic", "global"} {
		v := limits[w]
		if !r.Check(v != nil, "C17.limits", "validPourRequest:"+w, p.Pos(vp.Pos()), "a failing exit dominated by the "+w+" comparison") {
			continue
		}
		if w == "balance" {
			q := qkey(v)
			q.Which = w
			qty = append(qty, q)
			continue
		}
		c, idx := core.CallOf(v)
		if !r.Check(c != nil && idx == 0 && core.CalleeName(c.Common()) == pkgCurr+".AddCoin", "C17.limits", "validPourRequest:"+w+":checked-sum", p.Pos(vp.Pos()), "limit compared with a checked sum") {
			continue
		}
		r.Check(core.ErrLeadsToFailure(c), "C17.limits", "validPourRequest:"+w+":sum-err", p.Pos(c.Pos()), "overflow rejects")
		used := describe(c.Call.Args[1])
		wantUsed := map[string]string{"periodic": "un.Used", "global": "gn.Used"}[w]
		r.Check(used == wantUsed, "C17.limits", "validPourRequest:"+w+":adds-used", p.Pos(c.Pos()), "adds "+used+" (want "+wantUsed+")")
		q := qkey(c.Call.Args[0])
		q.Which = w
		qty = append(qty, q)
	}
	same := len(qty) == 3
	for i := 1; i < len(qty); i++ {
		if qty[i].Param != qty[0].Param || qty[i].Path != qty[0].Path {
			same = false
		}
	}
	r.Check(same, "C17.limits", "validPourRequest:same-amount", p.Pos(vp.Pos()), fmt.Sprintf("the three checks constrain %v", qty))
	// ---- pour: transfer amount roots ⊆ checked quantity
	ts := TransferSites([]*ssa.Function{pour})
	if !r.Check(len(ts) == 1 && ts[0].Resolved, "C17.check-use", "pour:one-transfer", p.Pos(pour.Pos()), fmt.Sprintf("%d transfers", len(ts))) {
		return
	}
	t := ts[0]
	vcalls := findCalls(pour, vp.String())
	if !r.Check(len(vcalls) == 1, "C17.check-use", "pour:validates", p.Pos(pour.Pos()), fmt.Sprintf("%d validPourRequest calls", len(vcalls))) {
		return
	}
	vc := vcalls[0]
	// dominated by ok == true
	okDom := false
	for _, f := range core.FactsAt(t.Site.Instr.Block()) {
		if e, ok := f.Cond.(*ssa.Extract); ok && e.Tuple == ssa.Value(vc) && e.Index == 0 && f.Taken {
			okDom = true
		}
	}
	r.Check(okDom && Before(vc, t.Site.Instr), "C17.check-use", "pour:transfer-after-validation", p.Pos(t.Site.Pos()), "the transfer happens only when validPourRequest returned true")
	if len(qty) > 0 {
		q := qty[0]
		var checkedArg ssa.Value
		if q.Param != nil {
			for i, prm := range vp.Params {
				if prm == q.Param && i < len(vc.Call.Args) {
					checkedArg = vc.Call.Args[i]
				}
			}
		}
		// roots of the transferred amount through phis
		var leaves []ssa.Value
		var collect func(v ssa.Value, d int)
		seen := map[ssa.Value]bool{}
		collect = func(v ssa.Value, d int) {
			if seen[v] || d > 6 {
				return
			}
			seen[v] = true
			if checkedArg != nil && core.SameValue(v, checkedArg) {
				leaves = append(leaves, v)
				return
			}
			if ph, ok := v.(*ssa.Phi); ok {
				for _, e := range ph.Edges {
					collect(e, d+1)
				}
				return
			}
			leaves = append(leaves, v)
		}
		collect(t.Amount, 0)
		for i, lf := range leaves {
			ok := false
			if checkedArg != nil && core.SameValue(lf, checkedArg) {
				ok = true
			}
			if q.Param == nil && describe(lf) == q.Path {
				ok = true
			}
			r.Check(ok, "C17.check-use", fmt.Sprintf("pour:amount-root:%d:%s", i, describe(lf)), p.Pos(t.Site.Pos()),
				"the transferred amount can be "+describe(lf)+", which validPourRequest did not compare with the limits (it checked "+fmt.Sprint(q)+")")
		}
	}
	r.Check(describe(t.From) == "t.ToClientID" && describe(t.To) == "t.ClientID", "C17.check-use", "pour:parties", p.Pos(t.Site.Pos()), describe(t.From)+" → "+describe(t.To))
	// ---- counters
	for _, fld := range []struct{ typ, owner string }{{"UserNode", "user"}, {"GlobalNode", "gn"}} {
		f := p.Field(pkgFaucet, fld.typ, "Used")
		if f == nil {
			r.Unresolved("C17.counters", fld.typ+".Used")
			continue
		}
		cr := CreditsOf(pour, f)
		if r.Check(len(cr) == 1 && cr[0].Call != nil, "C17.counters", "pour:credit:"+fld.typ, p.Pos(pour.Pos()), fmt.Sprintf("%d checked credits", len(cr))) {
			_, pth := core.BaseObject(cr[0].Added)
			r.Check(core.SameValue(cr[0].Added, t.Amount) || pth == ".Amount", "C17.counters", "pour:credit-amount:"+fld.typ, posOf(p, cr[0].W.Instr), "credited with "+describe(cr[0].Added)+" (must be the transferred amount)")
			r.Check(core.ErrLeadsToFailure(cr[0].Call), "C17.counters", "pour:credit-err:"+fld.typ, p.Pos(cr[0].Call.Pos()), "overflow aborts")
			// saved afterwards
			saved := false
			for _, cs := range core.CallsIn(pour, false, func(c *ssa.CallCommon) bool { return isSCtxCall(c, "InsertTrieNode") }) {
				call := cs.Instr.(*ssa.Call)
				obj, _ := core.BaseObject(core.CallArgs(call.Common())[1])
				wo, _ := core.BaseObject(cr[0].W.Addr)
				if sameObj(obj, wo) {
					okp, w := MustPassFrom(p, pour, cr[0].W.Instr, call)
					r.Check(okp && core.ErrLeadsToFailure(call), "C17.counters", "pour:saved:"+fld.typ, p.Pos(call.Pos()), "saved on every success path; "+w)
					saved = true
				}
			}
			r.Check(saved, "C17.counters", "pour:save-call:"+fld.typ, p.Pos(pour.Pos()), "the credited node must be saved")
		}
	}
	// ---- windows
	for _, w := range []struct{ fn, typ string }{{"(*" + pkgFaucet + ".FaucetSmartContract).getUserVariables", "UserNode"}, {"(*" + pkgFaucet + ".FaucetSmartContract).getGlobalVariables", "GlobalNode"}} {
		fn := p.Func(w.fn)
		f := p.Field(pkgFaucet, w.typ, "Used")
		if fn == nil || f == nil {
			r.Unresolved("C17.windows", w.fn)
			continue
		}
		n := 0
		for _, d := range DebitsOf(fn, f) {
			if !d.Zeroed {
				r.Fail("C17.windows", fn.Name()+":non-reset-debit", posOf(p, d.W.Instr), "the used counter may only be reset to zero here")
				continue
			}
			n++
			// every conditional edge into the reset block must be a period comparison or the not-present test
			b := d.W.Instr.Block()
			for i, pr := range b.Preds {
				ifi, ok := pr.Instrs[len(pr.Instrs)-1].(*ssa.If)
				if !ok {
					// unconditional fall-in: inspect that block's own dominating condition
					continue
				}
				cond := ifi.Cond
				okc := false
				why := describe(cond)
				if bo, ok := cond.(*ssa.BinOp); ok {
					xs := strings.Join(core.DeepRoots(bo.X), ",")
					ys := describe(bo.Y)
					switch {
					case bo.Op == token.GEQ && strings.Contains(xs, "(time.Time).Sub") && strings.Contains(xs, "StartTime") && strings.Contains(xs, "CreationDate") &&
						(strings.HasSuffix(ys, ".IndividualReset") || strings.HasSuffix(ys, ".GlobalReset")):
						okc = true
					case (bo.Op == token.NEQ || bo.Op == token.EQL) && (strings.Contains(describe(bo.X)+describe(bo.Y), "ErrValueNotPresent") || core.IsNilConst(bo.Y) || core.IsNilConst(bo.X)):
						okc = true
					}
					why = bo.String() + " [" + xs + " vs " + ys + "]"
				}
				r.Check(okc, "C17.windows", fmt.Sprintf("%s:reset:%d:cond:%d", fn.Name(), n, i), posOf(p, d.W.Instr), "window reset reachable under condition "+why)
			}
		}
		r.Floor("C17.windows", fn.Name()+" resets", n, 1)
	}
	// a save of the faucet's global or user node never drops its counter: what is written is the
	// object that was loaded, or a freshly built one that carries Used and StartTime over
	c17SavedCarriesCounters(r, p)

}

// c17SavedCarriesCounters: every InsertTrieNode of a GlobalNode / UserNode in the faucet
// contract writes a loaded object or a literal that sets Used and StartTime.
func c17SavedCarriesCounters(r *core.Report, p *core.Prog) {
	n := 0
	for _, fn := range p.FuncsIn(pkgFaucet) {
		if fn.Blocks == nil || isTooling(p, fn) {
			continue
		}
		for _, b := range fn.Blocks {
			for _, in := range b.Instrs {
				c, ok := in.(*ssa.Call)
				if !ok || core.MethodName(c.Common()) != "InsertTrieNode" {
					continue
				}
				args := core.CallArgs(c.Common())
				v := args[len(args)-1]
				if mi, ok := v.(*ssa.MakeInterface); ok {
					v = mi.X
				}
				tn := core.NamedName(v.Type())
				if !strings.HasSuffix(tn, ".GlobalNode") && !strings.HasSuffix(tn, ".UserNode") {
					continue
				}
				n++
				key := fmt.Sprintf("%s:save#%d", fn.Name(), n)
				al, isLit := canonObj(v).(*ssa.Alloc)
				if isLit {
					// the decode target of GetTrieNode is the loaded object, not a rebuilt one
					for _, ref := range *al.Referrers() {
						if gc, ok := ref.(*ssa.Call); ok && core.MethodName(gc.Common()) == "GetTrieNode" {
							isLit = false
						}
						if mi, ok := ref.(*ssa.MakeInterface); ok {
							for _, r2 := range *mi.Referrers() {
								if gc, ok := r2.(*ssa.Call); ok && core.MethodName(gc.Common()) == "GetTrieNode" {
									isLit = false
								}
							}
						}
					}
				}
				if !isLit {
					r.Pass("C17.windows", key, p.Pos(c.Pos()), "saves the loaded object "+describe(v))
					continue
				}
				set := map[string]bool{}
				for _, ref := range *al.Referrers() {
					if fa, ok := ref.(*ssa.FieldAddr); ok {
						for _, r2 := range *fa.Referrers() {
							if st, ok := r2.(*ssa.Store); ok && st.Addr == ssa.Value(fa) && core.FieldOf(fa) != nil {
								set[core.FieldOf(fa).Name()] = true
							}
						}
					}
				}
				// a brand-new node (nothing stored before) may start its counters at zero: the
				// literal is then built where the stored one was found missing
				fresh := false
				for _, f := range core.FactsAt(c.Block()) {
					cv, taken := stripNot(f.Cond, f.Taken)
					if bo, ok := cv.(*ssa.BinOp); ok && ((bo.Op == token.EQL && taken) || (bo.Op == token.NEQ && !taken)) && (strings.Contains(describe(bo.X), "ErrValueNotPresent") || strings.Contains(describe(bo.Y), "ErrValueNotPresent")) {
						fresh = true
					}
				}
				r.Check(fresh || (set["Used"] && set["StartTime"]), "C17.windows", key, p.Pos(c.Pos()), fmt.Sprintf("a rebuilt node that is saved carries the running counter and its window start (fields set: %v); dropping Used restarts the limit inside the window", sortedKeys(set)))
			}
		}
	}
	r.Floor("C17.windows", "faucet node saves", n, 3)
}
