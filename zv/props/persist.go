package props

import (
	"fmt"
	"go/types"
	"sort"
	"strings"

	"golang.org/x/tools/go/ssa"

	"zv/core"
)

// ---------------------------------------------------------------------------------
// E13 persist discipline: an object loaded from (or created for) the state that is
// changed must be written back on every success path
// ---------------------------------------------------------------------------------

type pWorld struct {
	p      *core.Prog
	fns    []*ssa.Function
	inSet  map[*ssa.Function]bool
	ledger func(t types.Type) bool // pointer-to-struct types that live in the state
	mut    map[*ssa.Function]map[int]bool
	sav    map[*ssa.Function]map[int]bool
	mutF   map[*ssa.Function]map[int]map[string]bool // field names changed through parameter j
}

func isPtrToNamedIn(t types.Type, names map[string]bool) bool {
	pt, ok := t.Underlying().(*types.Pointer)
	if !ok {
		return false
	}
	return names[core.NamedName(pt.Elem())]
}

// pRoots: the objects a pointer/address value derives from (views through mustBase are
// mapped to the viewed object; closure variables to their binding).
func (w *pWorld) pRoots(v ssa.Value, fn *ssa.Function, depth int) []ssa.Value {
	if v == nil || depth > 5 {
		return nil
	}
	r, _ := core.BaseObject(v)
	r = canonObj(r)
	switch x := r.(type) {
	case *ssa.Call:
		if m := core.MethodName(x.Common()); m == "mustBase" || m == "Base" {
			return w.pRoots(core.Receiver(x.Common()), fn, depth+1)
		}
		out := []ssa.Value{r}
		if core.CalleeName(x.Common()) == "builtin.append" {
			out = append(out, w.pRoots(x.Call.Args[0], fn, depth+1)...)
			for _, e := range appendElems(x) {
				out = append(out, w.pRoots(e, fn, depth+1)...)
			}
			return out
		}
		return append(out, w.sliceArgs(x, x.Type(), fn, depth)...)
	case *ssa.Extract:
		out := []ssa.Value{r}
		if c, ok := x.Tuple.(*ssa.Call); ok {
			out = append(out, w.sliceArgs(c, x.Type(), fn, depth)...)
		}
		return out
	case *ssa.MakeSlice:
		return []ssa.Value{r}
	case *ssa.Phi:
		var out []ssa.Value
		for _, e := range x.Edges {
			out = append(out, w.pRoots(e, fn, depth+1)...)
		}
		return out
	case *ssa.FreeVar:
		if o, f2 := resolveFreeVar(x, x.Parent()); o != nil && o != ssa.Value(x) {
			return w.pRoots(o, f2, depth+1)
		}
		return []ssa.Value{r}
	case *ssa.TypeAssert:
		return w.pRoots(x.X, fn, depth+1)
	case *ssa.Lookup:
		return w.pRoots(x.X, fn, depth+1)
	}
	if r == nil {
		return nil
	}
	return []ssa.Value{r}
}

// sliceArgs: a call that returns a slice of pointers may hand back the pointers (or the
// slices of them) it was given: the result is treated as possibly containing them.
func (w *pWorld) sliceArgs(c *ssa.Call, res types.Type, fn *ssa.Function, depth int) []ssa.Value {
	sl, ok := res.Underlying().(*types.Slice)
	if !ok {
		return nil
	}
	if _, ok := sl.Elem().Underlying().(*types.Pointer); !ok {
		return nil
	}
	var out []ssa.Value
	for _, a := range c.Call.Args {
		if types.Identical(a.Type(), sl.Elem()) || types.Identical(a.Type(), res) {
			out = append(out, w.pRoots(a, fn, depth+1)...)
		}
	}
	return out
}

func hasRoot(rs []ssa.Value, o ssa.Value) bool {
	for _, r := range rs {
		if r == o {
			return true
		}
	}
	return false
}

// allFuncs: fn and its closures (recursively).
func withClosures(fn *ssa.Function) []*ssa.Function {
	out := []*ssa.Function{fn}
	for _, a := range fn.AnonFuncs {
		out = append(out, withClosures(a)...)
	}
	return out
}

// pEvent is a mutation or a save of some object at an instruction of the named function
// (closure events are attributed to the call that runs the closure when known).
type pEvent struct {
	in     ssa.Instruction
	objs   []ssa.Value
	why    string
	fields []string // names of the fields changed (last path component), for mutations
}

func lastField(pth string) string {
	pth = strings.TrimSuffix(pth, "[*]")
	if i := strings.LastIndex(pth, "."); i >= 0 {
		return strings.TrimSuffix(pth[i+1:], "[*]")
	}
	return pth
}

// events computes the mutation and save events of a function in terms of root objects.
func (w *pWorld) events(fn *ssa.Function) (muts, saves []pEvent) {
	for _, f := range withClosures(fn) {
		// an event inside a closure is placed at the instruction of fn that creates/uses the closure
		place := func(in ssa.Instruction) ssa.Instruction {
			if f == fn {
				return in
			}
			// find the MakeClosure chain up to fn
			cur := f
			for cur != nil && cur.Parent() != nil && cur != fn {
				par := cur.Parent()
				var mk ssa.Instruction
				for _, b := range par.Blocks {
					for _, x := range b.Instrs {
						if m, ok := x.(*ssa.MakeClosure); ok && m.Fn == ssa.Value(cur) {
							// prefer the call that takes the closure as an argument
							mk = m
							for _, ref := range *m.Referrers() {
								if ci, ok := ref.(ssa.CallInstruction); ok {
									mk = ci
								}
							}
						}
					}
				}
				if par == fn {
					return mk
				}
				cur = par
			}
			return nil
		}
		for _, b := range f.Blocks {
			for _, in := range b.Instrs {
				switch x := in.(type) {
				case *ssa.Store:
					if _, isAl := x.Addr.(*ssa.Alloc); isAl {
						continue
					}
					_, pth := core.BaseObject(x.Addr)
					if pth == "" {
						continue
					}
					if at := place(in); at != nil {
						muts = append(muts, pEvent{at, w.pRoots(x.Addr, f, 0), "store to " + pth, []string{lastField(pth)}})
					}
				case *ssa.MapUpdate:
					_, pth := core.BaseObject(x.Map)
					if pth == "" {
						continue
					}
					if at := place(in); at != nil {
						muts = append(muts, pEvent{at, w.pRoots(x.Map, f, 0), "map update " + pth, []string{lastField(pth)}})
					}
				case ssa.CallInstruction:
					c := x.Common()
					m := core.MethodName(c)
					at := place(in)
					if at == nil {
						continue
					}
					// saves
					if (m == "InsertTrieNode") && isSCtxCall(c, m) {
						a := core.CallArgs(c)
						if len(a) == 2 {
							saves = append(saves, pEvent{at, w.pRoots(a[1], f, 0), "InsertTrieNode", nil})
						}
						continue
					}
					if m == "DeleteTrieNode" && isSCtxCall(c, m) {
						a := core.CallArgs(c)
						if len(a) == 1 {
							// key computed from the object: o.GetKey(...) / key of o.ID
							var objs []ssa.Value
							_, leaves := FlowLoads(a[0])
							for _, l := range leaves {
								if kc, ok := l.(*ssa.Call); ok && core.Receiver(kc.Common()) != nil {
									objs = append(objs, w.pRoots(core.Receiver(kc.Common()), f, 0)...)
								}
								if ld, ok := l.(*ssa.UnOp); ok {
									objs = append(objs, w.pRoots(ld, f, 0)...)
								}
							}
							saves = append(saves, pEvent{at, objs, "DeleteTrieNode", nil})
						}
						continue
					}
					// view write-back / generic mutators of the wrapper
					if m == "mustUpdateBase" || m == "UpdateBase" {
						if rv := core.Receiver(c); rv != nil {
							muts = append(muts, pEvent{at, w.pRoots(rv, f, 0), m, []string{"*"}})
						}
					}
					cal := core.StaticCallee(c)
					if cal == nil && c.IsInvoke() {
						// interface method (AbstractStakePool.Save …): resolve by name inside the set
						for _, g := range w.fns {
							if g.Name() == c.Method.Name() && g.Signature.Recv() != nil && types.Implements(g.Signature.Recv().Type(), c.Value.Type().Underlying().(*types.Interface)) {
								if w.sav[g][0] {
									saves = append(saves, pEvent{at, w.pRoots(c.Value, f, 0), "iface " + g.Name(), nil})
								}
								if w.mut[g][0] {
									muts = append(muts, pEvent{at, w.pRoots(c.Value, f, 0), "iface " + g.Name(), keysOf(w.mutF[g][0])})
								}
							}
						}
						continue
					}
					if cal == nil || !w.inSet[cal] {
						continue
					}
					for j, arg := range c.Args {
						if w.mut[cal][j] {
							muts = append(muts, pEvent{at, w.pRoots(arg, f, 0), "call " + cal.Name(), keysOf(w.mutF[cal][j])})
						}
						if w.sav[cal][j] {
							saves = append(saves, pEvent{at, w.pRoots(arg, f, 0), "call " + cal.Name(), nil})
						}
					}
				}
			}
		}
	}
	return
}

// buildPersistWorld computes the mutates/saves summaries to a fix-point.
func buildPersistWorld(p *core.Prog, pkgs []string) *pWorld {
	w := &pWorld{p: p, inSet: map[*ssa.Function]bool{}, mut: map[*ssa.Function]map[int]bool{}, sav: map[*ssa.Function]map[int]bool{}, mutF: map[*ssa.Function]map[int]map[string]bool{}}
	for _, pk := range pkgs {
		for _, f := range p.FuncsIn(pk) {
			if isTooling(p, f) || f.Blocks == nil || f.Parent() != nil {
				continue
			}
			w.fns = append(w.fns, f)
			w.inSet[f] = true
			w.mut[f] = map[int]bool{}
			w.sav[f] = map[int]bool{}
			w.mutF[f] = map[int]map[string]bool{}
		}
	}
	sort.Slice(w.fns, func(i, j int) bool { return w.fns[i].String() < w.fns[j].String() })
	for iter := 0; iter < 12; iter++ {
		changed := false
		for _, f := range w.fns {
			muts, saves := w.events(f)
			for j, prm := range f.Params {
				for _, e := range muts {
					if !hasRoot(e.objs, prm) {
						continue
					}
					if !w.mut[f][j] {
						w.mut[f][j] = true
						changed = true
					}
					if w.mutF[f][j] == nil {
						w.mutF[f][j] = map[string]bool{}
					}
					for _, fl := range e.fields {
						if !w.mutF[f][j][fl] {
							w.mutF[f][j][fl] = true
							changed = true
						}
					}
				}
				if !w.sav[f][j] {
					// must-save: every success path crosses a save of the parameter
					isS := map[ssa.Instruction]bool{}
					for _, e := range saves {
						if hasRoot(e.objs, prm) {
							isS[e.in] = true
							for _, l := range core.Loops(f) {
								if l.Body[e.in.Block()] {
									isS[l.Header.Instrs[0]] = true
								}
							}
						}
					}
					if len(isS) == 0 {
						continue
					}
					all := true
					for _, ret := range core.SuccessExits(f) {
						if ret.Block() == f.Recover {
							continue
						}
						_, _, found := core.PathQuery{Fn: f, Barrier: func(in ssa.Instruction) bool { return isS[in] }, EdgeOK: core.FeasibleEdge,
							Target: func(in ssa.Instruction) bool { return in == ssa.Instruction(ret) }}.Find()
						if found {
							all = false
						}
					}
					if all {
						w.sav[f][j] = true
						changed = true
					}
				}
			}
		}
		if !changed {
			break
		}
	}
	return w
}

// pFinding is a changed object that can reach a success exit unsaved.
type pFinding struct {
	fn   *ssa.Function
	obj  ssa.Value
	mut  pEvent
	path string
}

// check returns, for fn, the tracked objects that are obtained in fn (call results of
// the given types), mutated, and can reach a success exit without being saved.
func (w *pWorld) check(fn *ssa.Function, tracked func(v ssa.Value) bool) (findings []pFinding, nObj, nMut int) {
	muts, saves := w.events(fn)
	// objects obtained in fn
	objs := map[ssa.Value]bool{}
	for _, e := range muts {
		for _, o := range e.objs {
			if tracked(o) {
				objs[o] = true
			}
		}
	}
	var ol []ssa.Value
	for o := range objs {
		ol = append(ol, o)
	}
	sort.Slice(ol, func(i, j int) bool { return ol[i].Name() < ol[j].Name() })
	loops := core.Loops(fn)
	for _, o := range ol {
		// escapes to the caller: returned
		escapes := false
		for _, ret := range core.Returns(fn) {
			for _, rv := range ret.Results {
				if hasRoot(w.pRoots(rv, fn, 0), o) {
					escapes = true
				}
			}
		}
		if escapes {
			continue
		}
		nObj++
		isS := map[ssa.Instruction]bool{}
		for _, e := range saves {
			if hasRoot(e.objs, o) {
				isS[e.in] = true
				// a save inside a loop stands for the loop as a whole
				for _, l := range loops {
					if l.Body[e.in.Block()] {
						isS[l.Header.Instrs[0]] = true
					}
				}
			}
		}
		reported := false
		for _, m := range muts {
			if !hasRoot(m.objs, o) || reported {
				continue
			}
			if isS[m.in] {
				continue // the changing call is itself the save (Save(), a helper that changes and writes)
			}
			deleted := false
			for _, e := range saves {
				if e.why == "DeleteTrieNode" && hasRoot(e.objs, o) && callDominates(e.in, m.in) {
					deleted = true
				}
			}
			if deleted {
				continue // the object has left the state: later in-memory changes only feed events
			}
			nMut++
			// from the mutation, a success exit without a later save
			mutBlocks := map[*ssa.BasicBlock]bool{}
			for _, m2 := range muts {
				if hasRoot(m2.objs, o) {
					mutBlocks[m2.in.Block()] = true
				}
			}
			path, _, found := core.PathQuery{Fn: fn, Start: m.in, Barrier: func(in ssa.Instruction) bool { return isS[in] },
				EdgeOK: func(from *ssa.BasicBlock, succ int) bool {
					return core.FeasibleEdge(from, succ) && !netZeroEdge(from, succ, loops, mutBlocks)
				},
				Target: func(in ssa.Instruction) bool {
					ret, ok := in.(*ssa.Return)
					return ok && core.ClassifyReturn(ret) != core.ExitFailure && ret.Block() != fn.Recover
				}}.Find()
			if found {
				reported = true
				findings = append(findings, pFinding{fn, o, m, w.p.PathString(path)})
			}
		}
	}
	return
}

func pDescribe(v ssa.Value) string {
	switch x := v.(type) {
	case *ssa.Extract:
		if c, ok := x.Tuple.(*ssa.Call); ok {
			return fmt.Sprintf("%s()#%d", shortCallee(c), x.Index)
		}
	case *ssa.Call:
		return shortCallee(x) + "()"
	case *ssa.Parameter:
		return "param " + x.Name()
	case *ssa.Alloc:
		return "local " + x.Comment
	}
	return describe(v)
}

func shortCallee(c *ssa.Call) string {
	n := core.CalleeName(c.Common())
	if i := strings.LastIndex(n, "."); i >= 0 {
		n = n[i+1:]
	}
	if n == "" {
		n = core.MethodName(c.Common())
	}
	return n
}

// netZeroEdge: the edge establishes acc == 0 for a loop accumulator acc (a value carried
// round a loop in whose body every change of the object happens) — the idiom "write the
// pool back only if the net change is not zero": together with the dominating facts the
// edge excludes both acc > 0 and acc < 0.
func netZeroEdge(from *ssa.BasicBlock, succ int, loops []*core.Loop, mutBlocks map[*ssa.BasicBlock]bool) bool {
	ifi, ok := from.Instrs[len(from.Instrs)-1].(*ssa.If)
	if !ok {
		return false
	}
	facts := append(CmpFacts(from), edgeCmp(ifi, succ == 0)...)
	type rng struct{ le, ge bool }
	seen := map[ssa.Value]*rng{}
	for _, f := range facts {
		k, isK := core.ConstInt(f.Y)
		if !isK || k != 0 {
			continue
		}
		r := seen[f.X]
		if r == nil {
			r = &rng{}
			seen[f.X] = r
		}
		switch f.Op.String() {
		case "<=":
			r.le = true
		case ">=":
			r.ge = true
		case "==":
			r.le, r.ge = true, true
		}
	}
	for x, r := range seen {
		if !(r.le && r.ge) {
			continue
		}
		ph, ok := x.(*ssa.Phi)
		if !ok {
			continue
		}
		// the accumulator is carried by a loop that contains all the changes
		for _, l := range loops {
			carried := l.Body[ph.Block()] || l.Header == ph.Block()
			if !carried {
				// the phi after the loop merges the loop-carried value
				for _, e := range ph.Edges {
					if p2, ok := e.(*ssa.Phi); ok && l.Header == p2.Block() {
						carried = true
					}
				}
			}
			if !carried {
				continue
			}
			all := len(mutBlocks) > 0
			for b := range mutBlocks {
				if !l.Body[b] {
					all = false
				}
			}
			if all {
				return true
			}
		}
	}
	return false
}

// edgeCmp: the comparison fact established by taking the given edge of ifi.
func edgeCmp(ifi *ssa.If, taken bool) []CmpFact {
	v, tk := stripNot(ifi.Cond, taken)
	bo, ok := v.(*ssa.BinOp)
	if !ok {
		return nil
	}
	op := bo.Op
	switch op.String() {
	case "==", "!=", "<", ">", "<=", ">=":
	default:
		return nil
	}
	if !tk {
		op = negate(op)
	}
	return []CmpFact{{bo.X, bo.Y, op, describe(bo.X), describe(bo.Y)}}
}
