package props

import (
	"fmt"
	"go/token"
	"go/types"

	"golang.org/x/tools/go/ssa"

	"zv/core"
)

func init() { register("C46", "other", c46) }

const pkgOB = "0chain.net/core/util/orderbuffer"

// loadOfField: v is `*(&x.name)`; returns x.
func loadOfField(v ssa.Value, f *types.Var) ssa.Value {
	ld, ok := v.(*ssa.UnOp)
	if !ok || ld.Op != token.MUL {
		return nil
	}
	fa, ok := ld.X.(*ssa.FieldAddr)
	if !ok || core.FieldOf(fa) != f {
		return nil
	}
	return fa.X
}

// C46 The ordered block buffer yields blocks lowest round first.
func c46(r *core.Report, p *core.Prog, thorough bool) {
	r.Explain = "Decided (representation invariant `Buffer is ascending by Round and len <= max`, by induction over the methods): Buffer is touched only inside package orderbuffer and only with the mutex held; search is the canonical upper-bound binary search on Round; Add inserts exactly at search(round) by grow-shift-store, skips insertion only when the item just below the slot holds identical data, and every inserting path ends by truncating the tail to max; First/Pop return element 0 under len != 0 and Pop drops exactly that element; no other code assigns Buffer. Ascending order makes element 0 the lowest round and the truncated tail the highest. Not decided: behaviour for max <= 0."
	r.Rule("C46.encapsulated", "the Buffer field is read or written only by functions of package orderbuffer")
	r.Rule("C46.locked", "every method touching Buffer locks mu first and unlocks by defer, or is unexported and called only with mu held")
	r.Rule("C46.writers", "Buffer is assigned only by New (empty), Add (append; tail truncation [:max]) and Pop ([1:])")
	r.Rule("C46.search", "search: left=0,right=len; while left<right { m=(left+right)/2; if Buffer[m].Round <= key { left=m+1 } else { right=m } }; return left")
	r.Rule("C46.insert", "Add: idx=search(round); Buffer=append(Buffer,Item{}); copy(Buffer[idx+1:],Buffer[idx:]); Buffer[idx]={round,data}")
	r.Rule("C46.capacity", "Add: every path from the insertion to the exit passes `if len(Buffer) > max { Buffer = Buffer[:max] }`")
	r.Rule("C46.repeat", "Add returns without inserting only under idx>0 && Buffer[idx-1].Data == data")
	r.Rule("C46.front", "First/Pop return Buffer[0] only when len(Buffer) != 0; Pop then stores Buffer[1:]")
	r.Rule("C46.consumer", "a block leaves the buffer only by being handed out: at every call of OrderBuffer.Pop outside the package the returned item is used (a consumer that peeks with First and then discards Pop's result loses whatever lower-round block was added in between)")
	c46Consumer(r, p)
	buf := p.Field(pkgOB, "OrderBuffer", "Buffer")
	mu := p.Field(pkgOB, "OrderBuffer", "mu")
	max := p.Field(pkgOB, "OrderBuffer", "max")
	if buf == nil || mu == nil || max == nil {
		r.Unresolved("C46.encapsulated", "OrderBuffer fields")
		return
	}
	// ---- encapsulation
	nAcc := 0
	var users []*ssa.Function
	for _, fn := range p.ModFuncs() {
		uses := false
		for _, b := range fn.Blocks {
			for _, in := range b.Instrs {
				if fa, ok := in.(*ssa.FieldAddr); ok && core.FieldOf(fa) == buf {
					uses = true
				}
				if fv, ok := in.(*ssa.Field); ok && core.FieldOf(fv) == buf {
					uses = true
				}
			}
		}
		if !uses {
			continue
		}
		nAcc++
		inPkg := fn.Pkg != nil && fn.Pkg.Pkg.Path() == pkgOB
		r.Check(inPkg, "C46.encapsulated", "Buffer-user:"+fn.String(), p.Pos(fn.Pos()), "code outside the package bypasses the mutex and the ordering discipline")
		if inPkg {
			users = append(users, fn)
		}
	}
	r.Floor("C46.encapsulated", "functions touching Buffer", nAcc, 4)
	// ---- locking
	locksFirst := func(fn *ssa.Function) bool {
		if len(fn.Blocks) == 0 {
			return false
		}
		locked, deferred := false, false
		for _, in := range fn.Blocks[0].Instrs {
			switch x := in.(type) {
			case *ssa.Call:
				if core.CalleeName(x.Common()) == "(*sync.Mutex).Lock" && fieldBase(x.Call.Args[0], mu) == ssa.Value(fn.Params[0]) {
					locked = true
				}
			case *ssa.Defer:
				if core.CalleeName(x.Common()) == "(*sync.Mutex).Unlock" && fieldBase(x.Call.Args[0], mu) == ssa.Value(fn.Params[0]) && locked {
					deferred = true
				}
			case *ssa.FieldAddr:
				if core.FieldOf(x) == buf && !(locked && deferred) {
					return false
				}
			}
		}
		return locked && deferred
	}
	for _, fn := range users {
		if fn.Parent() != nil {
			// a function literal (e.g. the predicate handed to sort.Search): it runs inside its
			// enclosing method, whose locking is judged
			if encl := core.EnclosingNamed(fn); encl != nil && encl != fn {
				judged := false
				for _, u := range users {
					if u == encl {
						judged = true
					}
				}
				if !judged {
					users = append(users, encl) // judge the enclosing method in the closure's place
				}
				r.Pass("C46.locked", "closure:"+fn.String(), p.Pos(fn.Pos()), "runs inside "+encl.Name())
				continue
			}
		}
		if fn.Signature.Recv() == nil {
			// constructor: Buffer of a fresh object
			fresh := true
			for _, b := range fn.Blocks {
				for _, in := range b.Instrs {
					if fa, ok := in.(*ssa.FieldAddr); ok && core.FieldOf(fa) == buf {
						if _, isAl := fa.X.(*ssa.Alloc); !isAl {
							fresh = false
						}
					}
				}
			}
			r.Check(fresh, "C46.locked", "constructor:"+fn.String(), p.Pos(fn.Pos()), "touches only the object it creates")
			continue
		}
		if locksFirst(fn) {
			r.Pass("C46.locked", "method:"+fn.String(), p.Pos(fn.Pos()), "Lock; defer Unlock before any Buffer access")
			continue
		}
		// unexported helper: every caller holds the lock at the call
		if fn.Object().Exported() {
			r.Fail("C46.locked", "method:"+fn.String(), p.Pos(fn.Pos()), "exported method touches Buffer without `mu.Lock(); defer mu.Unlock()` first")
			continue
		}
		ok := true
		nCallers := 0
		for _, caller := range p.ModFuncs() {
			for _, cs := range core.CallsIn(caller, true, func(c *ssa.CallCommon) bool { return c.StaticCallee() == fn }) {
				nCallers++
				if !(locksFirst(caller) && len(cs.Common().Args) > 0 && ssa.Value(caller.Params[0]) == cs.Common().Args[0]) {
					ok = false
				}
			}
		}
		r.Check(ok && nCallers > 0, "C46.locked", "helper:"+fn.String(), p.Pos(fn.Pos()), fmt.Sprintf("unexported, %d callers, all hold the receiver's mutex", nCallers))
	}
	// ---- writers
	add := p.Func("(*" + pkgOB + ".OrderBuffer).Add")
	pop := p.Func("(*" + pkgOB + ".OrderBuffer).Pop")
	first := p.Func("(*" + pkgOB + ".OrderBuffer).First")
	search := p.Func("(*" + pkgOB + ".OrderBuffer).search")
	if add == nil || pop == nil || first == nil || search == nil {
		r.Unresolved("C46.writers", "Add/Pop/First/search")
		return
	}
	var addAppend, addTrunc, addElem *ssa.Store
	var idx ssa.Value
	if sc := findCallsTo(add, search); len(sc) == 1 {
		idx = sc[0]
		r.Check(core.ParamOf(sc[0].Call.Args[1]) != nil && core.ParamOf(sc[0].Call.Args[1]).Name() == "round" && sc[0].Call.Args[0] == ssa.Value(add.Params[0]), "C46.insert", "Add:index-is-search(round)", p.Pos(sc[0].Pos()), "slot = rb.search(round)")
	} else {
		r.Fail("C46.insert", "Add:index-is-search(round)", p.Pos(add.Pos()), fmt.Sprintf("%d search calls", len(sc)))
		return
	}
	for _, w := range core.FieldWrites(p.ModFuncs(), buf) {
		key := fmt.Sprintf("Buffer-write:%s:%s", w.Fn.String(), w.Kind)
		if w.Kind != "store" {
			r.Fail("C46.writers", key, p.Pos(w.Instr.Pos()), "address of Buffer escapes")
			continue
		}
		st := w.Instr.(*ssa.Store)
		switch {
		case w.Fn.Signature.Recv() == nil && w.Fn.Pkg != nil && w.Fn.Pkg.Pkg.Path() == pkgOB:
			_, isAl := w.Addr.X.(*ssa.Alloc)
			sl, isMk := w.Val.(*ssa.Slice)
			okEmpty := false
			if isMk {
				if h, ok := core.ConstInt(sl.High); ok && h == 0 {
					okEmpty = true
				}
			}
			if mk, ok := w.Val.(*ssa.MakeSlice); ok {
				if l, ok := core.ConstInt(mk.Len); ok && l == 0 {
					okEmpty = true
				}
			}
			r.Check(isAl && okEmpty, "C46.writers", key, p.Pos(st.Pos()), "constructor starts with an empty buffer")
		case w.Fn == add:
			if c, ok := w.Val.(*ssa.Call); ok && core.CalleeName(c.Common()) == "builtin.append" {
				el := appendElems(c)
				zero := len(el) == 1
				if zero {
					cst, isC := el[0].(*ssa.Const)
					zero = isC && cst.Value == nil
				}
				okA := loadOfField(c.Call.Args[0], buf) == ssa.Value(add.Params[0]) && zero && addAppend == nil
				r.Check(okA, "C46.writers", key+":append", p.Pos(st.Pos()), "Buffer = append(Buffer, Item{})")
				addAppend = st
			} else if sl, ok := w.Val.(*ssa.Slice); ok {
				okT := loadOfField(sl.X, buf) == ssa.Value(add.Params[0]) && sl.Low == nil && sl.High != nil && loadOfField(sl.High, max) == ssa.Value(add.Params[0]) && addTrunc == nil
				if okT {
					okT = false
					for _, f := range CmpFacts(st.Block()) {
						if f.Op == token.GTR && loadOfField(f.Y, max) != nil {
							if lc, ok := f.X.(*ssa.Call); ok && core.CalleeName(lc.Common()) == "builtin.len" && loadOfField(lc.Call.Args[0], buf) != nil {
								okT = true
							}
						}
					}
				}
				r.Check(okT, "C46.writers", key+":truncate", p.Pos(st.Pos()), "Buffer = Buffer[:max] under len(Buffer) > max (drops the tail = highest rounds)")
				addTrunc = st
			} else {
				r.Fail("C46.writers", key+":other", p.Pos(st.Pos()), "unexpected assignment to Buffer in Add")
			}
		case w.Fn == pop:
			sl, ok := w.Val.(*ssa.Slice)
			okP := ok && loadOfField(sl.X, buf) == ssa.Value(pop.Params[0]) && sl.High == nil && sl.Low != nil
			if okP {
				l, isC := core.ConstInt(sl.Low)
				okP = isC && l == 1
			}
			r.Check(okP, "C46.front", "Pop:drops-first", p.Pos(st.Pos()), "Buffer = Buffer[1:]")
		default:
			r.Fail("C46.writers", key, p.Pos(st.Pos()), "Buffer assigned outside New/Add/Pop")
		}
	}
	// element stores into Buffer (IndexAddr on a load of Buffer)
	nElem := 0
	for _, fn := range users {
		for _, b := range fn.Blocks {
			for _, in := range b.Instrs {
				st, ok := in.(*ssa.Store)
				if !ok {
					continue
				}
				ia, ok := st.Addr.(*ssa.IndexAddr)
				if !ok || loadOfField(ia.X, buf) == nil {
					continue
				}
				nElem++
				okE := fn == add && ia.Index == idx && addElem == nil
				if okE {
					// the stored item is {round, data}
					okE = false
					if ld, ok := st.Val.(*ssa.UnOp); ok {
						if al, ok := ld.X.(*ssa.Alloc); ok {
							for _, lit := range literalsOf(add, pkgOB+".Item") {
								if lit.Alloc == al && core.ParamOf(lit.Fields["Round"]) != nil && core.ParamOf(lit.Fields["Round"]).Name() == "round" && core.ParamOf(lit.Fields["Data"]) != nil && core.ParamOf(lit.Fields["Data"]).Name() == "data" {
									okE = true
								}
							}
						}
					}
					addElem = st
				}
				r.Check(okE, "C46.insert", fmt.Sprintf("element-store:%s#%d", fn.String(), nElem), p.Pos(st.Pos()), "the only element store is Buffer[search(round)] = Item{round, data}")
			}
		}
	}
	if !r.Check(addAppend != nil && addElem != nil, "C46.insert", "Add:grow-and-store", p.Pos(add.Pos()), "append and element store present") {
		return
	}
	// shift: copy(Buffer[idx+1:], Buffer[idx:]) between append and store
	okShift := false
	for _, c := range findCalls(add, "builtin.copy") {
		dst, ok1 := c.Call.Args[0].(*ssa.Slice)
		src, ok2 := c.Call.Args[1].(*ssa.Slice)
		if !ok1 || !ok2 || loadOfField(dst.X, buf) == nil || loadOfField(src.X, buf) == nil || dst.High != nil || src.High != nil {
			continue
		}
		bo, ok := dst.Low.(*ssa.BinOp)
		one := false
		if ok && bo.Op == token.ADD && bo.X == idx {
			c1, isC := core.ConstInt(bo.Y)
			one = isC && c1 == 1
		}
		if one && src.Low == idx && Before(addAppend, c) && Before(c, addElem) {
			okShift = true
		}
	}
	r.Check(okShift, "C46.insert", "Add:shift", p.Pos(addElem.Pos()), "copy(Buffer[idx+1:], Buffer[idx:]) after the append and before the store")
	// ---- capacity
	if r.Check(addTrunc != nil, "C46.capacity", "Add:truncation-exists", p.Pos(add.Pos()), "tail truncation present") {
		// the `if len > max` test must be crossed on every path from the element store to an exit
		var test ssa.Instruction
		for _, f := range core.FactsAt(addTrunc.Block()) {
			if bo, ok := f.Cond.(*ssa.BinOp); ok && bo.Op == token.GTR && f.Taken && f.If != nil {
				test = f.If
			}
		}
		okM := test != nil
		d := "no len(Buffer) > max test"
		if okM {
			okM, d = MustPassFrom(p, add, addElem, test)
			okM = okM && Before(addElem, test)
		}
		r.Check(okM, "C46.capacity", "Add:bounded-after-insert", p.Pos(addElem.Pos()), "after every insertion the length is cut back to max: "+d)
	}
	// ---- repeat
	for _, ret := range core.Returns(add) {
		if ret.Block().Comment == "recover" {
			continue
		}
		if addElem.Block().Dominates(ret.Block()) {
			continue // inserting path
		}
		okR := false
		for _, f := range CmpFacts(ret.Block()) {
			if f.Op != token.EQL {
				continue
			}
			isPrevData := func(v ssa.Value) bool {
				ld, ok := v.(*ssa.UnOp)
				if !ok {
					return false
				}
				fa, ok := ld.X.(*ssa.FieldAddr)
				if !ok || core.FieldOf(fa) == nil || core.FieldOf(fa).Name() != "Data" {
					return false
				}
				ia, ok := fa.X.(*ssa.IndexAddr)
				if !ok || loadOfField(ia.X, buf) == nil {
					return false
				}
				bo, ok := ia.Index.(*ssa.BinOp)
				if !ok || bo.Op != token.SUB || bo.X != idx {
					return false
				}
				c1, isC := core.ConstInt(bo.Y)
				return isC && c1 == 1
			}
			isNewData := func(v ssa.Value) bool {
				o, path := core.BaseObject(v)
				if prm := core.ParamOf(o); prm != nil && prm.Name() == "data" && path == "" {
					return true
				}
				_ = path
				// item := Item{Round: round, Data: data}; ... item.Data
				if sv := localFieldValue(v); sv != nil {
					if prm := core.ParamOf(sv); prm != nil && prm.Name() == "data" {
						return true
					}
				}
				return false
			}
			if (isPrevData(f.X) && isNewData(f.Y)) || (isPrevData(f.Y) && isNewData(f.X)) {
				okR = true
			}
		}
		r.Check(okR, "C46.repeat", fmt.Sprintf("Add:skip-exit@b%d", ret.Block().Index), p.Pos(ret.Pos()), "returns without inserting only when Buffer[idx-1].Data equals the new data")
	}
	// ---- search template
	c46Search(r, p, search, buf)
	// ---- front
	for _, fn := range []*ssa.Function{first, pop} {
		n := 0
		for _, ret := range core.Returns(fn) {
			if ret.Block().Comment == "recover" {
				continue
			}
			okv := core.ResultValue(ret, 1)
			c, isC := okv.(*ssa.Const)
			if !isC || c.Value == nil || c.Value.String() != "true" {
				continue
			}
			n++
			item := core.ResultValue(ret, 0)
			okI := false
			if ld, ok := item.(*ssa.UnOp); ok {
				if ia, ok := ld.X.(*ssa.IndexAddr); ok && loadOfField(ia.X, buf) == ssa.Value(fn.Params[0]) {
					z, isC := core.ConstInt(ia.Index)
					okI = isC && z == 0
				}
			}
			nonEmpty := false
			for _, f := range CmpFacts(ret.Block()) {
				if lc, ok := f.X.(*ssa.Call); ok && core.CalleeName(lc.Common()) == "builtin.len" && loadOfField(lc.Call.Args[0], buf) != nil {
					z, isC := core.ConstInt(f.Y)
					if isC && z == 0 && (f.Op == token.NEQ || f.Op == token.GTR) {
						nonEmpty = true
					}
				}
			}
			r.Check(okI && nonEmpty, "C46.front", fmt.Sprintf("%s:returns-element-0@b%d", fn.Name(), ret.Block().Index), p.Pos(ret.Pos()), "(Buffer[0], true) under len(Buffer) != 0")
		}
		r.Floor("C46.front", fn.Name()+" success exits", n, 1)
	}
}

// fieldBase: v is &x.f for field f; returns x.
func fieldBase(v ssa.Value, f *types.Var) ssa.Value {
	fa, ok := v.(*ssa.FieldAddr)
	if !ok || core.FieldOf(fa) != f {
		return nil
	}
	return fa.X
}

func findCallsTo(fn, callee *ssa.Function) []*ssa.Call {
	var out []*ssa.Call
	for _, b := range fn.Blocks {
		for _, in := range b.Instrs {
			if c, ok := in.(*ssa.Call); ok && c.Common().StaticCallee() == callee {
				out = append(out, c)
			}
		}
	}
	return out
}

// c46Search matches the canonical upper-bound binary search.
func c46Search(r *core.Report, p *core.Prog, fn *ssa.Function, buf *types.Var) {
	fail := func(why string) {
		r.Fail("C46.search", "search:upper-bound", p.Pos(fn.Pos()), why)
	}
	rets := core.Returns(fn)
	if len(rets) != 1 {
		fail("more than one return")
		return
	}
	left, ok := rets[0].Results[0].(*ssa.Phi)
	if !ok {
		fail("result is not the loop-carried left bound")
		return
	}
	hdr := left.Block()
	ifi, ok := hdr.Instrs[len(hdr.Instrs)-1].(*ssa.If)
	if !ok {
		fail("loop header has no condition")
		return
	}
	cond, ok := ifi.Cond.(*ssa.BinOp)
	if !ok || cond.Op != token.LSS || cond.X != ssa.Value(left) {
		fail("loop condition is not left < right")
		return
	}
	right, ok := cond.Y.(*ssa.Phi)
	if !ok || right.Block() != hdr || hdr.Succs[1] != rets[0].Block() {
		fail("right bound is not loop-carried or exit is not the return")
		return
	}
	body := hdr.Succs[0]
	bif, ok := body.Instrs[len(body.Instrs)-1].(*ssa.If)
	if !ok {
		fail("loop body does not branch")
		return
	}
	cmp, ok := bif.Cond.(*ssa.BinOp)
	if !ok {
		fail("probe comparison is not Buffer[m].Round <= key")
		return
	}
	// normalise to `probe <= key` (then-branch taken when leTaken) over the four spellings
	// probe<=key, key>=probe, probe>key, key<probe
	var probe ssa.Value
	leTaken := true
	switch {
	case cmp.Op == token.LEQ && core.ParamOf(cmp.Y) != nil:
		probe = cmp.X
	case cmp.Op == token.GEQ && core.ParamOf(cmp.X) != nil:
		probe = cmp.Y
	case cmp.Op == token.GTR && core.ParamOf(cmp.Y) != nil:
		probe, leTaken = cmp.X, false
	case cmp.Op == token.LSS && core.ParamOf(cmp.X) != nil:
		probe, leTaken = cmp.Y, false
	default:
		fail("probe comparison is not Buffer[m].Round <= key (or its negation)")
		return
	}
	// probe = Buffer[mid].Round
	var mid ssa.Value
	if ld, ok := probe.(*ssa.UnOp); ok {
		if fa, ok := ld.X.(*ssa.FieldAddr); ok && core.FieldOf(fa) != nil && core.FieldOf(fa).Name() == "Round" {
			if ia, ok := fa.X.(*ssa.IndexAddr); ok && loadOfField(ia.X, buf) == ssa.Value(fn.Params[0]) {
				mid = ia.Index
			}
		}
	}
	if mid == nil {
		fail("probe is not Buffer[m].Round")
		return
	}
	isHalf := func(v ssa.Value) (ssa.Value, bool) {
		bo, ok := v.(*ssa.BinOp)
		if !ok {
			return nil, false
		}
		if c, isC := core.ConstInt(bo.Y); isC && ((bo.Op == token.QUO && c == 2) || (bo.Op == token.SHR && c == 1)) {
			return bo.X, true
		}
		return nil, false
	}
	okMid := false
	if x, ok := isHalf(mid); ok {
		// (left+right)/2
		if sum, ok := x.(*ssa.BinOp); ok && sum.Op == token.ADD && ((sum.X == ssa.Value(left) && sum.Y == ssa.Value(right)) || (sum.X == ssa.Value(right) && sum.Y == ssa.Value(left))) {
			okMid = true
		}
	} else if add, ok := mid.(*ssa.BinOp); ok && add.Op == token.ADD {
		// left + (right-left)/2
		a, b := add.X, add.Y
		if b == ssa.Value(left) {
			a, b = b, a
		}
		if x, ok := isHalf(b); ok && a == ssa.Value(left) {
			if d, ok := x.(*ssa.BinOp); ok && d.Op == token.SUB && d.X == ssa.Value(right) && d.Y == ssa.Value(left) {
				okMid = true
			}
		}
	}
	if !okMid {
		fail("midpoint is not (left+right)/2")
		return
	}
	leSucc := body.Succs[0]
	if !leTaken {
		leSucc = body.Succs[1]
	}
	// edges into the header
	okInit, okThen, okElse := false, false, false
	for i, pred := range hdr.Preds {
		l, rr := left.Edges[i], right.Edges[i]
		switch {
		case !hdr.Dominates(pred):
			z, isC := core.ConstInt(l)
			lc, isL := rr.(*ssa.Call)
			okInit = isC && z == 0 && isL && core.CalleeName(lc.Common()) == "builtin.len" && loadOfField(lc.Call.Args[0], buf) == ssa.Value(fn.Params[0])
		case pred == leSucc && len(pred.Preds) == 1 && pred.Preds[0] == body:
			bo, ok := l.(*ssa.BinOp)
			one := false
			if ok && bo.Op == token.ADD && bo.X == mid {
				c, isC := core.ConstInt(bo.Y)
				one = isC && c == 1
			}
			okThen = one && rr == ssa.Value(right)
		case len(pred.Preds) == 1 && pred.Preds[0] == body:
			okElse = l == ssa.Value(left) && rr == mid
		default:
			okElse, okThen = false, false
			fail("unexpected back edge into the loop header")
			return
		}
	}
	r.Check(okInit && okThen && okElse, "C46.search", "search:upper-bound", p.Pos(fn.Pos()), fmt.Sprintf("init(0,len)=%v; probe<=key → left=m+1=%v; else right=m=%v", okInit, okThen, okElse))
}

// localFieldValue: v is `*(&al.f)` for a non-escaping local struct al whose field f is
// stored exactly once (and al is never stored as a whole); returns the stored value.
func localFieldValue(v ssa.Value) ssa.Value {
	ld, ok := v.(*ssa.UnOp)
	if !ok || ld.Op != token.MUL {
		return nil
	}
	fa, ok := ld.X.(*ssa.FieldAddr)
	if !ok {
		return nil
	}
	al, ok := fa.X.(*ssa.Alloc)
	if !ok || al.Heap {
		return nil
	}
	var val ssa.Value
	n := 0
	for _, ref := range *al.Referrers() {
		switch x := ref.(type) {
		case *ssa.FieldAddr:
			for _, r2 := range *x.Referrers() {
				switch y := r2.(type) {
				case *ssa.Store:
					if y.Addr != ssa.Value(x) {
						return nil // field address stored somewhere
					}
					if x.Field == fa.Field {
						n++
						val = y.Val
					}
				case *ssa.UnOp:
					if y.Op != token.MUL {
						return nil
					}
				case *ssa.DebugRef:
				default:
					return nil
				}
			}
		case *ssa.UnOp:
			if x.Op != token.MUL {
				return nil
			}
		case *ssa.DebugRef:
		default:
			return nil // whole-struct store or escape
		}
	}
	if n != 1 {
		return nil
	}
	return val
}

// c46Consumer: every Pop call site outside the package uses the item it removes.
func c46Consumer(r *core.Report, p *core.Prog) {
	const rule = "C46.consumer"
	pop := p.Func("(*" + pkgOB + ".OrderBuffer).Pop")
	if pop == nil {
		r.Unresolved(rule, "OrderBuffer.Pop")
		return
	}
	n := 0
	ord := map[string]int{}
	for _, fn := range p.ModFuncs() {
		if fn.Pkg.Pkg.Path() == pkgOB {
			continue
		}
		for _, cs := range core.CallsIn(fn, false, func(c *ssa.CallCommon) bool { return core.StaticCallee(c) == pop }) {
			n++
			used := false
			if call, ok := cs.Instr.(*ssa.Call); ok {
				for _, ref := range *call.Referrers() {
					if ex, ok := ref.(*ssa.Extract); ok && ex.Index == 0 {
						for _, r2 := range *ex.Referrers() {
							if _, dbg := r2.(*ssa.DebugRef); !dbg {
								used = true
							}
						}
					}
				}
			}
			key := "pop-site:" + core.EnclosingNamed(fn).String()
			ord[key]++
			r.Check(used, rule, fmt.Sprintf("%s#%d", key, ord[key]), p.Pos(cs.Pos()), "the item removed by Pop must be the one the caller goes on to process")
		}
	}
	r.Floor(rule, "OrderBuffer.Pop call sites outside the package", n, 1)
}
